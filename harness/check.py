#!/venv/bin/python
"""bin/check <ID> [--tier quick|thorough]   |   bin/check replay <file>

Decides one property: regenerate the generated Coq modules from /repo, rebuild the proof obligations,
lint, rebuild the extracted model, run the correspondence + property oracles, write evidence, print verdict.
See DESIGN.md section 5.
"""
import hashlib
import importlib
import json
import subprocess
import os
import sys
import time
import traceback

sys.path.insert(0, os.path.dirname(os.path.abspath(__file__)))
import lib  # noqa: E402

# property -> (families, generated modules its theorems depend on)
PROPS = {}


def register():
    import registry
    PROPS.update(registry.PROPS)


def canon_hash(text):
    return hashlib.sha256(text.encode('utf-8', 'replace')).hexdigest()[:16]


def load_corpus(fam):
    p = os.path.join(lib.VERIF, 'corpus', fam.name + '.jsonl')
    out = []
    try:
        with open(p) as f:
            for line in f:
                line = line.strip()
                if line:
                    out.append(json.loads(line))
    except FileNotFoundError:
        pass
    return out


def _process_case(args):
    """Runs the implementation side of one case (in a worker process): model line, observation, oracles, bookkeeping."""
    fam_name, c = args
    import registry
    fam = registry.FAMILIES[fam_name]
    out = dict(trace=None)
    # generic history: other cases of the same family evaluated first in this (fresh) process; only what they may leave
    # behind in the implementation matters, their results are dropped
    for prior in (c.get('history_cases') or []) if isinstance(c, dict) else []:
        try:
            fam.impl_obs(fam.undescribe(json.loads(json.dumps(prior))))
        except Exception:
            pass
    try:
        out['ml'] = fam.model_line(c)
    except Exception as e:
        out['ml'] = None
        out['trace'] = traceback.format_exc()[-800:]
    try:
        out['obs'] = fam.impl_obs(c)
    except Exception as e:  # harness bug or an exception class the observation does not expect
        out['obs'] = '(harness-exception %s)' % type(e).__name__
        out['trace'] = traceback.format_exc()[-800:]
    try:
        out['oracle'] = list(fam.oracle(c, out['obs']))
    except Exception as e:
        out['oracle'] = [('*', 'oracle-exception', traceback.format_exc()[-600:])]
    try:
        out['key'] = canon_hash(fam.key(c))
        out['bucket'] = fam.bucket(c)
        out['nontrivial'] = bool(fam.nontrivial(c))
    except Exception:
        out['key'], out['bucket'], out['nontrivial'] = canon_hash(repr(c)[:2000]), 'case', False
    return out


def run_family(fam, prop_id, tier, known, stats):
    """Runs one family; returns (disagreements, oracle_failures, known_hits)."""
    rng = lib.rng_for(fam.name)
    cases = []
    for c in load_corpus(fam):
        c = dict(c)
        c['_corpus'] = True
        cases.append(c)
    n_corpus = len(cases)
    cases.extend(fam.cases(tier, rng, prop_id))
    # every family also gets "histories": a case re-evaluated after two or three other cases of the family in one fresh
    # process (module-level caches, shared tables, reused buffers); the case carries its priors, so a replay reproduces
    if getattr(fam, 'generic_histories', True) and len(cases) > n_corpus + 3:
        hr = lib.rng_for(fam.name + '/histories')
        pool_ = cases[n_corpus:]
        small = [c for c in pool_ if isinstance(c, dict) and len(json.dumps(fam.describe(c), default=repr)) < 20000]
        for _ in range(0 if len(small) < 4 else (40 if tier == 'quick' else 400)):
            last = dict(hr.choice(small))
            priors = [fam.describe(hr.choice(small)) for _ in range(hr.randint(1, 3))]
            last = {k: v for k, v in last.items() if not k.startswith('_')}
            last['history_cases'] = priors
            cases.append(last)
    t0 = time.time()
    # implementation side, sharded over the cores (each worker is a fork: fresh implementation objects per case)
    args = [(fam.name, c) for c in cases]
    if os.environ.get('VERIF_SERIAL') != '1':
        import multiprocessing
        ctx = multiprocessing.get_context('fork')
        # cases that carry a history are about what earlier inputs leave behind IN THE PROCESS: each of them gets a
        # process of its own (forked from this one, which never runs the implementation itself)
        fresh = [i for i, c in enumerate(cases) if isinstance(c, dict) and (c.get('history') or c.get('history_cases'))]
        normal = [i for i in range(len(cases)) if i not in set(fresh)]
        done = [None] * len(cases)
        if normal:
            with ctx.Pool(lib.NPROC if len(normal) >= 400 else 1) as pool:
                outs = pool.map(_process_case, [args[i] for i in normal], chunksize=max(1, len(normal) // (lib.NPROC * 8)))
            for i, o in zip(normal, outs):
                done[i] = o
        if fresh:
            with ctx.Pool(lib.NPROC, maxtasksperchild=1) as pool:
                outs = pool.map(_process_case, [args[i] for i in fresh], chunksize=1)
            for i, o in zip(fresh, outs):
                done[i] = o
    else:
        done = [_process_case(a) for a in args]
    t_impl = time.time() - t0
    t0 = time.time()
    model_lines = []
    idx = []
    for i, r in enumerate(done):
        if r['ml'] is not None:
            model_lines.append(r['ml'])
            idx.append(i)
    model_out = {}
    if model_lines and os.path.exists(lib.MODEL_RUN):
        outs = lib.run_model(model_lines)
        for i, o in zip(idx, outs):
            model_out[i] = o
    t_model = time.time() - t0
    disagreements = []
    failures = []
    known_hits = []
    seen = set()
    dist = {}
    nontrivial = 0
    discarded = 0
    samples = []
    for i, (c, r) in enumerate(zip(cases, done)):
        obs = r['obs']
        if i in model_out:
            raw = model_out[i]
            mo = fam.normalize_model(raw)
            if fam.discard(raw, c):
                discarded += 1
            elif mo != obs:
                disagreements.append(dict(family=fam.name, case=fam.describe(c), model=mo[:60000], impl=obs[:60000],
                                          trace=r.get('trace')))
        for (pid, sig, what) in r['oracle']:
            if pid != prop_id and prop_id != 'ALL' and pid != '*':
                continue
            entry = dict(family=fam.name, case=fam.describe(c), signature=sig, what=what, impl=obs[:4000])
            hit = None
            for k in known:
                if k.get('property') == pid and k.get('status') == 'open' and k.get('signature') == sig:
                    hit = k
            if hit is not None:
                known_hits.append((hit, entry))
            else:
                failures.append(entry)
        b = r['bucket']
        dist[b] = dist.get(b, 0) + 1
        if r['key'] not in seen:
            seen.add(r['key'])
            if r['nontrivial']:
                nontrivial += 1
                if len(samples) < 3:
                    samples.append(fam.describe(c))
    st = stats.setdefault(fam.name, {})
    st.update(dict(evaluations=len(cases), corpus_cases=n_corpus, distinct=len(seen), distinct_nontrivial=nontrivial,
                   model_runs=len(model_out), discarded_unmodelled=discarded, distribution=dist,
                   rule=fam.rule, samples=samples, disagreements=len(disagreements),
                   oracle_failures=len(failures), model_s=round(t_model, 2), impl_s=round(t_impl, 2)))
    return disagreements, failures, known_hits


def regex_drift():
    try:
        base = json.load(open(os.path.join(lib.VERIF, 'harness', 'baseline_regex.json')))
        from pydiffx.reader import DiffXReader as R
        import pydiffx.utils.unified_diffs as u

        def txt(x):
            return x.decode('latin-1') if isinstance(x, bytes) else x
        cur = {'header_re': txt(R._HEADER_RE.pattern), 'key_re': txt(R._HEADER_OPTION_KEY_RE.pattern),
               'value_re': txt(R._HEADER_OPTION_VALUE_RE.pattern),
               'int_re': txt(getattr(R, '_HEADER_OPTION_INT_VALUE_RE', None).pattern) if getattr(R, '_HEADER_OPTION_INT_VALUE_RE', None) else None,
               'hunk_re': txt(u.UNIFIED_DIFF_HUNK_HEADER_RE.pattern), 'hunk_flags': u.UNIFIED_DIFF_HUNK_HEADER_RE.flags,
               'marker': txt(u.NO_NEWLINE_MARKER)}
        return sorted(k for k in base if base[k] != cur.get(k))
    except Exception as e:
        return ['unreadable: %s' % type(e).__name__]


def source_fingerprint():
    """sha256 of the docstring-free, position-free AST of every pydiffx module (tests excluded)."""
    import ast
    out = {}
    root = os.path.join(lib.REPO, 'python', 'pydiffx')
    for dp, dn, fn in os.walk(root):
        if 'tests' in dp.split(os.sep):
            continue
        for f in sorted(fn):
            if not f.endswith('.py'):
                continue
            path = os.path.join(dp, f)
            try:
                tree = ast.parse(open(path, encoding='utf-8').read())
                for node in ast.walk(tree):
                    if isinstance(node, (ast.FunctionDef, ast.ClassDef, ast.Module, ast.AsyncFunctionDef)) and node.body and \
                            isinstance(node.body[0], ast.Expr) and isinstance(getattr(node.body[0], 'value', None), ast.Constant) and \
                            isinstance(node.body[0].value.value, str):
                        node.body = node.body[1:] or [ast.Pass()]
                out[os.path.relpath(path, root)] = hashlib.sha256(ast.dump(tree, include_attributes=False).encode()).hexdigest()[:16]
            except Exception as e:
                out[os.path.relpath(path, root)] = 'unreadable: %s' % type(e).__name__
    return out


def source_drift():
    """Modules whose code differs from the tree the checks were last calibrated on (harness/baseline_src.json). A drift is
    not an alarm: it makes the check look harder (thorough-tier generation for the property's families)."""
    try:
        base = json.load(open(os.path.join(lib.VERIF, 'harness', 'baseline_src.json')))
    except Exception:
        return []
    cur = source_fingerprint()
    return sorted(k for k in set(base) | set(cur) if base.get(k) != cur.get(k))


def check(prop_id, tier):
    t_start = time.time()
    register()
    if prop_id not in PROPS:
        print('unknown property %s' % prop_id)
        return 2
    spec = PROPS[prop_id]
    known = [k for k in lib.load_known_findings() if k.get('property') == prop_id]
    b = lib.build(full=(tier == 'thorough' and os.environ.get('VERIF_FULL_REBUILD') == '1'))
    problems = []          # things that broke (coq / generation / correspondence), each {kind,name,log}
    if not b.translate_ok:
        problems.append(dict(kind='generation', name='gen/translate.py', log=b.translate_msg))
    prop_files = [prop_id] + list(spec.get('extra_props', []))
    cone = set()
    for pf in prop_files:
        cone |= lib.coq_deps('props/%s.v' % pf)
    broken_files = [f for f in b.failed_files if f in cone or f == '?']
    for f in broken_files:
        problems.append(dict(kind='coq', name=f, log=b.first_error.get(f, '')[:1500]))
    ok_props, theorems, passum, plog = (False, [], '', '')
    if not broken_files and b.translate_ok:
        ok_props = True
        for pf in prop_files:
            ok1, th1, pa1, pl1 = lib.check_props(pf)
            theorems += th1
            passum += pa1
            if not ok1:
                ok_props = False
                problems.append(dict(kind='coq', name='props/%s.v' % pf, log=pl1[-1500:]))
    else:
        import re
        for pf in prop_files:
            src = open(os.path.join(lib.COQ, 'props/%s.v' % pf)).read()
            theorems += re.findall(r'^\s*(?:Theorem|Corollary)\s+(\w+)', src, re.M)
    lint = lib.lint()
    for l in lint:
        problems.append(dict(kind='lint', name=l, log=l))
    if not b.model_ok:
        problems.append(dict(kind='model-build', name='extract/Extract.v', log=b.model_msg))
    assumptions = []
    import re
    closed = len(re.findall(r'Closed under the global context', passum))
    axioms = re.findall(r'^Axioms:\n((?:.+\n)+?)(?=\S|\Z)', passum, re.M)
    for a in axioms:
        assumptions.append(a.strip())
    if axioms and not spec.get('allowed_axioms'):
        problems.append(dict(kind='coq', name='Print Assumptions', log='unexpected axioms: %s' % axioms))

    stats = {}
    all_dis, all_fail, all_known = [], [], []
    # the hand model of the reader's / hunk parser's regexes was written against these pattern texts; if a text changed
    # (harmless respelling or not) the families that tie those models to the code run at their thorough bounds
    regex_changed = regex_drift()
    src_changed = source_drift() if os.environ.get('VERIF_NO_ESCALATE') != '1' else []
    for fam in spec['families']:
        fam_tier = 'thorough' if ((regex_changed and fam.name in ('header', 'hunks', 'order')) or src_changed) else tier
        try:
            d, f, k = run_family(fam, prop_id, fam_tier, known, stats)
        except Exception:
            problems.append(dict(kind='harness', name=fam.name, log=traceback.format_exc()[-2000:]))
            continue
        all_dis += d
        all_fail += f
        all_known += k
    for d in all_dis[:1]:
        m, im = d['model'], d['impl']
        n = next((i for i in range(min(len(m), len(im))) if m[i] != im[i]), min(len(m), len(im)))
        problems.append(dict(kind='correspondence', name=d['family'], case=d['case'], first_difference_at=n,
                             model_excerpt=m[max(0, n - 300):n + 300], impl_excerpt=im[max(0, n - 300):n + 300],
                             disagreements=len(all_dis),
                             log='model and implementation differ on %d case(s) of family %s' % (len(all_dis), d['family'])))

    # thorough: independent re-check of the compiled proofs and axiom listing
    coqchk_out = None
    if tier == 'thorough' and ok_props and os.environ.get('VERIF_SKIP_COQCHK') != '1':
        rc, out = lib._run(['timeout', '1500', 'coqchk', '-silent', '-o', '-Q', 'theories', 'DX', '-Q', 'gen', 'DXGen',
                            '-Q', 'props', 'DXProps', 'DXProps.%s' % prop_id], cwd=lib.COQ, timeout=1600)
        coqchk_out = out[-3000:]
        if rc != 0:
            problems.append(dict(kind='coq', name='coqchk', log=coqchk_out))

    # stale known findings: stored witnesses must still fail
    printed = []
    seen_sig = set()
    for (k, entry) in all_known:
        if k['signature'] not in seen_sig:
            seen_sig.add(k['signature'])
            printed.append('KNOWN-FINDING: property=%s %s' % (prop_id, k.get('what', k['signature'])))
    stale = [k['signature'] for k in known if k.get('status') == 'open' and k['signature'] not in seen_sig]

    violations = 0
    lines = []
    if all_fail:
        violations = len(all_fail)
        # report an input that fails ON ITS OWN in a fresh process (a failure that needs other inputs to have been
        # processed before it in the same process is reported through a case that carries its history)
        first, alone = all_fail[0], None
        for cand in sorted(all_fail, key=lambda e: 0 if isinstance(e['case'], dict) and (e['case'].get('history') or e['case'].get('history_cases')) else 1)[:25]:
            tmp = os.path.join(lib.WORK, 'repro-%s-%d.json' % (prop_id, os.getpid()))
            try:
                with open(tmp, 'w') as f:
                    json.dump(dict(family=cand['family'], case=cand['case']), f)
                rc = subprocess.run([lib.PY, os.path.abspath(__file__), 'replay', tmp], stdout=subprocess.DEVNULL,
                                    stderr=subprocess.DEVNULL, timeout=300,
                                    env=dict(os.environ, PYTHONPATH=os.path.join(lib.REPO, 'python'))).returncode
            except Exception:
                rc = None
            finally:
                try:
                    os.remove(tmp)
                except OSError:
                    pass
            if rc == 1:
                first, alone = cand, True
                break
            if alone is None:
                alone = False
        path = lib.write_replay(prop_id, dict(property=prop_id, family=first['family'], seed=lib.seed(), tier=tier,
                                             case=first['case'], observed=first['impl'], what=first['what'],
                                             signature=first['signature'], found_failing_input=True,
                                             fails_in_a_fresh_process=bool(alone), failing_inputs=len(all_fail),
                                             broke=problems[:3]))
        lines.append('VIOLATION property=%s replay=%s' % (prop_id, path))
    elif problems:
        violations = 1
        path = lib.write_replay(prop_id, dict(property=prop_id, seed=lib.seed(), tier=tier, found_failing_input=False,
                                             broke=problems[:5],
                                             note='a proof obligation, the generated model or the model/implementation '
                                                  'correspondence no longer checks; the property oracles found no input '
                                                  'on which the property itself fails'))
        lines.append('VIOLATION property=%s replay=%s no-failing-input-found' % (prop_id, path))

    n_ob = len(theorems) + len(spec.get('extra_obligations', []))
    discharged = n_ob if (ok_props and not broken_files) else 0
    evaluations = sum(s['evaluations'] for s in stats.values())
    dn = sum(s['distinct_nontrivial'] for s in stats.values())
    samples = []
    for s in stats.values():
        samples += s['samples'][:2]
    samples += [dict(obligation=t) for t in theorems[:3]]
    ev = dict(
        property_id=prop_id, tier=tier, seed=lib.seed(), level='proof',
        coverage=dict(
            obligations=max(n_ob, 0), discharged=discharged,
            checker_cmd='cd /verif/coq && make -k -j%d && ' % lib.NPROC + ' && '.join(
                'coqc -Q theories DX -Q gen DXGen -Q props DXProps props/%s.v' % pf for pf in prop_files),
            trusted_base=spec.get('trusted_base', []) + [
                'Coq 8.16.1 kernel + vm_compute (no native_compute)',
                'gen/translate.py (runtime-value translation of pydiffx tables)',
                'extraction: ExtrOcamlBasic only; ocaml/driver.ml S-expression reader/printer',
                'harness observation functions (harness/*.py)',
                'Print Assumptions: %d theorem(s) closed under the global context; axioms: %s'
                % (closed, assumptions or 'none')],
            theorems=theorems,
            print_assumptions=passum[-3000:],
            evaluations=evaluations, distinct_nontrivial=dn,
            rule='; '.join('%s: %s' % (n, s['rule']) for n, s in stats.items()),
            samples=samples,
            correspondence=stats,
            generated=dict(changed_since_last_run=b.changed_gen),
            regex_text_changed=regex_changed, source_changed_since_calibration=src_changed,
            problems=problems[:10],
            known_findings_printed=printed,
            stale_known_findings=stale,
            coqchk=coqchk_out,
            build_s=round(b.wall, 1),
            exhaustive=False,
        ),
        assumptions=spec.get('assumptions', []),
        wall_s=round(time.time() - t_start, 2),
        violations=violations,
    )
    lib.write_evidence(prop_id, ev)
    for p in printed:
        print(p)
    for l in lines:
        print(l)
    if not lines:
        print('OK property=%s tier=%s obligations=%d/%d evaluations=%d distinct_nontrivial=%d wall=%.1fs'
              % (prop_id, tier, discharged, n_ob, evaluations, dn, time.time() - t_start))
    return 1 if lines else 0


def replay(path):
    register()
    with open(path) as f:
        r = json.load(f)
    print(json.dumps(r, indent=1)[:6000])
    fam_name = r.get('family')
    if not fam_name or 'case' not in r:
        print('no concrete input in this replay file (it names what no longer checks)')
        return 0
    import registry
    fam = registry.FAMILIES[fam_name]
    c = fam.undescribe(r['case'])
    for prior in (c.get('history_cases') or []) if isinstance(c, dict) else []:
        try:
            fam.impl_obs(fam.undescribe(json.loads(json.dumps(prior))))
        except Exception:
            pass
    obs = fam.impl_obs(c)
    print('observed now : %s' % obs[:4000])
    fails = fam.oracle(c, obs)
    print('oracle now   : %s' % (fails or 'property holds on this input'))
    ml = fam.model_line(c)
    if ml and os.path.exists(lib.MODEL_RUN):
        print('model        : %s' % lib.run_model([ml])[0][:4000])
    return 1 if fails else 0


if __name__ == '__main__':
    args = sys.argv[1:]
    if args and args[0] == 'replay':
        sys.exit(replay(args[1]))
    tier = os.environ.get('VERIF_TIER', 'quick')
    if '--tier' in args:
        tier = args[args.index('--tier') + 1]
    if tier not in ('quick', 'thorough'):
        tier = 'quick'
    sys.exit(check(args[0], tier))
