(* C02, last clause — "The bytes equal, byte for byte, what an independent serializer derived from the
   specification produces for the same calls."

   Statements only.  The independent serializer is theories/SpecSerializer.v ([spec_serialize]), written from
   docs/spec/section-format.rst, sections.rst and encodings.rst; the proofs are in theories/SpecSerializerFacts.v.

   What [spec_serialize enc0 ver cs] is (and how it differs from the writer model, Writer.v):
   * one pass over the call list carrying ONLY the list of containers opened so far (no writer object, no stack of
     encodings, no "previous section");
   * section id by POSITION: main level ".preamble" / ".meta", inside a change "..preamble" / "..meta", inside a
     file "...meta" / "...diff"; containers ".change" / "..file" (a file only inside a change); a section with no
     legal id at its position makes the result [None];
   * effective encoding of a preamble / metadata section by TREE POSITION: its own encoding if given, else that of
     the nearest enclosing file / change / main section that declares one ([Encodings.spec_effective], the
     definition C04 is stated against); diff sections use their own encoding only (ASCII newline if none);
     a metadata section with NO effective encoding (nothing declared from the main section down to the section) is
     the canonical JSON text as ASCII bytes ([json_dump]'s output is pure ASCII) + the ASCII LF, under a header
     without [encoding] — ADDED with the fix of DiffXWriter.write_meta (`if not (encoding or self._cur_encoding):
     content = content.encode('ascii')`): such a call used to raise TypeError, so [accepted] excluded it; it is now
     accepted and writes exactly these bytes (C02_writer_is_spec_unencoded_ex);
   * header = [HeaderFacts.render_header dots name pairs] ++ LF (the SPEC-side renderer of C11), [pairs] = the
     options that are present, sorted by key, integers in decimal, strings verbatim; [length] = the number of bytes
     of the content that follows;
   * content: text encoded in the effective encoding; the BOM-free encoded newline of the declared kind, or of the
     kind detected on the first line, appended if missing; for preambles every line of the ENCODED content (split
     on the ENCODED newline) prefixed by [indent] ASCII spaces (indent omitted = 4, None = none);
     metadata = the canonical JSON text (sorted keys, 4 spaces: [json_dump], characterised by C02_json_sorted) + LF,
     [format=json], no [line_endings] option; diff = the bytes + newline if missing, [line_endings], [type] if given;
   * [None] when an argument is outside the domain (an encoding / mimetype / type / line_endings / version that is
     not None or an ASCII string (of the documented set), a negative or non-int indent, empty content, a metadata
     value that is not a non-empty dict json can dump, text the effective encoding cannot encode, no effective
     encoding for preamble text).
   Library helpers used as vocabulary by the specification side, each verified separately: py_encode (C14/C15),
   get_newline_for_type / guess_line_endings (C15), split_lines (C16), json_dump (C02_json_sorted), Z_to_dec
   (C02_decimal_round_trip), isort + bytes_leb (C02_isort_sorted, C02_bytes_leb_order).

   Hypotheses (the quantifier of C01/C02; definitions in theories/RoundTripSim.v, RoundTrip.v):
   * [writer_init enc0 ver = (s0, Ok tt)]  the constructor returned normally;
   * [enc_ok v]       an encoding argument: None, or a str that is a catalogue spelling of a modelled codec;
   * [call_good c]    encodings [enc_ok]; write_preamble: indent omitted / None / an int >= 0, line_endings None /
                      "dos" / "unix"; write_diff: line_endings likewise; write_meta: the metadata is a dict;
   * [accepted s0 cs] every call of cs, run in order from s0, returned normally.
   No size bound is needed (nothing is read back).

   STATUS: full — all five calls, whole sequences, every intermediate output.  The converse ("spec_serialize = Some b
   -> the writer accepts every call") is FALSE as stated, because [spec_serialize] does not check the order of
   sections (C09/C10 do): C02_spec_converse_refuted. *)
From Coq Require Import List Arith NArith ZArith Bool Strings.Byte.
From Coq Require Strings.String.
From DX Require Import Bytes Res Codec Text Sections Header Json Writer.
From DX Require Import RoundTripSim RoundTrip SpecSerializer SpecSerializerFacts.
From DX Require RoundTripSeqExample.
From DXGen Require GenText.
Import ListNotations.
Import String.StringSyntax.
Local Open Scope string_scope.
Local Open Scope list_scope.

(* the whole output of an accepted program is the specification's serialization of the same calls *)
Theorem C02_writer_is_spec : forall enc0 ver s0 cs,
  writer_init enc0 ver = (s0, Ok tt) -> enc_ok enc0 -> Forall call_good cs -> accepted s0 cs ->
  spec_serialize enc0 ver cs = Some (w_out (snd (run_calls s0 cs))).
Proof. exact C02_writer_is_spec_thm. Qed.
Print Assumptions C02_writer_is_spec.

(* the path the fix of write_meta opened, on an instance: DiffXWriter(encoding=None); write_meta({'k': 1}) is
   accepted with no encoding in force ([metas_encoded] fails), and both sides are these bytes *)
Theorem C02_writer_is_spec_unencoded_ex :
  exists enc0 ver s0 cs,
    writer_init enc0 ver = (s0, Ok tt) /\ enc_ok enc0 /\ Forall call_good cs /\ accepted s0 cs /\
    ~ metas_encoded s0 cs /\
    spec_serialize enc0 ver cs = Some (w_out (snd (run_calls s0 cs))) /\
    w_out (snd (run_calls s0 cs)) =
      B "#diffx: version=1.0" ++ [x0a] ++ B "#.meta: format=json, length=15" ++ [x0a] ++
      B "{" ++ [x0a] ++ B "    ""k"": 1" ++ [x0a] ++ B "}" ++ [x0a].
Proof. exact writer_is_spec_unencoded_ex. Qed.
Print Assumptions C02_writer_is_spec_unencoded_ex.

(* ... and so is the output after every prefix of the program (the stream, call by call) *)
Theorem C02_writer_is_spec_prefix : forall enc0 ver s0 pre post,
  writer_init enc0 ver = (s0, Ok tt) -> enc_ok enc0 -> Forall call_good (pre ++ post) -> accepted s0 (pre ++ post) ->
  spec_serialize enc0 ver pre = Some (w_out (snd (run_calls s0 pre))).
Proof. exact writer_is_spec_prefix. Qed.
Print Assumptions C02_writer_is_spec_prefix.

(* in particular the specification's serializer is defined there *)
Theorem C02_spec_defined : forall enc0 ver s0 cs,
  writer_init enc0 ver = (s0, Ok tt) -> enc_ok enc0 -> Forall call_good cs -> accepted s0 cs ->
  spec_serialize enc0 ver cs <> None.
Proof. exact spec_serialize_defined. Qed.
Print Assumptions C02_spec_defined.

(* the value sets and defaults written into the specification side are the library's generated tables *)
Theorem C02_spec_value_sets :
  spec_versions = GenText.versions /\ spec_line_endings = GenText.line_endings_values /\
  spec_mimetypes = GenText.mimetypes /\ spec_meta_formats = GenText.meta_formats /\
  spec_diff_types = GenText.diff_types /\ Z.of_nat spec_default_indent = GenText.default_indent /\
  B "unix" = GenText.le_unix /\ B "json" = GenText.meta_format_json.
Proof. exact spec_sets. Qed.
Print Assumptions C02_spec_value_sets.

(* hypotheses satisfiable on a non-trivial instance: the 14-call program of RoundTripSeqExample.v (three changes;
   utf-8 / latin-1 / utf-16 / utf-32-be / ascii / utf-16-le, inherited and own; indentation; declared and detected
   line endings); both sides computed: the same 857 bytes *)
Example C02_writer_is_spec_ex :
  writer_init RoundTripSeqExample.ex_enc0 RoundTripSeqExample.ex_ver = (RoundTripSeqExample.ex_s0, Ok tt) /\
  enc_ok RoundTripSeqExample.ex_enc0 /\ Forall call_good RoundTripSeqExample.ex_cs /\
  accepted RoundTripSeqExample.ex_s0 RoundTripSeqExample.ex_cs /\
  spec_serialize RoundTripSeqExample.ex_enc0 RoundTripSeqExample.ex_ver RoundTripSeqExample.ex_cs
    = Some (w_out (snd (run_calls RoundTripSeqExample.ex_s0 RoundTripSeqExample.ex_cs))) /\
  option_map (@length byte)
    (spec_serialize RoundTripSeqExample.ex_enc0 RoundTripSeqExample.ex_ver RoundTripSeqExample.ex_cs) = Some 857.
Proof. exact spec_example. Qed.

(* the converse is false as stated: [spec_serialize] is defined on two main preambles in a row, which the writer
   rejects (section order is C09/C10's subject, not the serializer's) *)
Theorem C02_spec_converse_refuted :
  exists enc0 ver s0 cs b,
    writer_init enc0 ver = (s0, Ok tt) /\ enc_ok enc0 /\ Forall call_good cs /\
    spec_serialize enc0 ver cs = Some b /\ ~ accepted s0 cs.
Proof. exact spec_converse_refuted. Qed.
Print Assumptions C02_spec_converse_refuted.
