(* C18 — isolation; observers do not mutate.  Statements only; proofs are in theories/DomFacts.v.
   In the value-level model (Dom.v / DomOps.v) a tree is a VALUE: two trees, or two sections of one tree, cannot share
   a mutable cell, so "no two sections or trees ever share mutable state" holds by construction and is not a
   non-trivial statement about the model.  The substance of C18 is carried by the correspondence check (harness
   family `alias`): after EVERY operation of a random interleaving, a deep snapshot of EVERY live implementation
   tree must equal this model's tree list; a dropped .copy()/deepcopy shows up as a change in a tree the operation
   did not target.  The theorems below establish what the model — and hence any implementation that agrees with it
   snapshot by snapshot — guarantees. *)
From Coq Require Import List Arith NArith ZArith Bool Strings.Byte Lia.
From Coq Require Strings.String.
From DX Require Import Bytes Res Json Reader Writer Dom DomOps DomFacts.
Import ListNotations.
Local Open Scope list_scope.

(* the tree an operation is aimed at *)
Theorem C18_op_target_def : forall o,
  op_target o = match o with
                | OAddChange i _ | OAddFile i _ _ | OSet i _ _ _ | OMetaPut i _ _ _ | OOptPut i _ _ _ _ | OStats i => Some i
                | ONew _ | OToBytes _ | OEq _ _ | OParse _ => None
                end.
Proof. intros; reflexivity. Qed.
Print Assumptions C18_op_target_def.

(* an operation aimed at tree i changes no other tree, and neither creates nor removes trees *)
Theorem C18_frame : forall orc ts o i j, op_target o = Some i -> j <> i ->
  nth_error (fst (run_op orc ts o)) j = nth_error ts j.
Proof. exact DomFacts.C18_frame. Qed.
Print Assumptions C18_frame.
Theorem C18_frame_length : forall orc ts o i, op_target o = Some i -> length (fst (run_op orc ts o)) = length ts.
Proof. exact DomFacts.C18_frame_length. Qed.
Print Assumptions C18_frame_length.

(* constructing / parsing only appends one fresh tree (or nothing on failure); the existing trees are untouched *)
Theorem C18_append : forall orc ts o, op_target o = None ->
  fst (run_op orc ts o) = ts \/ exists t, fst (run_op orc ts o) = ts ++ [t].
Proof. exact DomFacts.C18_append. Qed.
Print Assumptions C18_append.
Theorem C18_append_firstn : forall orc ts o, op_target o = None -> firstn (length ts) (fst (run_op orc ts o)) = ts.
Proof. exact DomFacts.C18_append_firstn. Qed.
Print Assumptions C18_append_firstn.

(* any interleaving: a tree that no operation of the sequence is aimed at ends as it started *)
Theorem C18_frame_seq : forall orc ops ts j, (forall o, In o ops -> op_target o <> Some j) -> j < length ts ->
  nth_error (final_trees orc ts ops) j = nth_error ts j.
Proof. exact DomFacts.C18_frame_seq. Qed.
Print Assumptions C18_frame_seq.
Theorem C18_final_trees_def : forall orc ops ts, final_trees orc ts ops = last (map snd (run_ops orc ts ops)) ts.
Proof. exact run_ops_final. Qed.
Print Assumptions C18_final_trees_def.

(* a failing operation (exception, bad index) changes nothing at all *)
Theorem C18_fail_unchanged : forall orc ts o ts' r, run_op orc ts o = (ts', r) ->
  match r with RExc _ | RBadIndex => ts' = ts | _ => True end.
Proof. exact run_op_fail_unchanged. Qed.
Print Assumptions C18_fail_unchanged.

(* serialising and comparing leave every tree unchanged *)
Theorem C18_observers : forall orc ts,
  (forall i, fst (run_op orc ts (OToBytes i)) = ts) /\ (forall i j, fst (run_op orc ts (OEq i j)) = ts).
Proof. exact DomFacts.C18_observers. Qed.
Print Assumptions C18_observers.

(* serialising is a function of the tree value alone ... *)
Theorem C18_deterministic : forall orc orc' ts ts' i i' t,
  nth_error ts i = Some t -> nth_error ts' i' = Some t ->
  snd (run_op orc ts (OToBytes i)) = snd (run_op orc' ts' (OToBytes i')) /\
  snd (run_op orc ts (OToBytes i)) = match dom_write t with Ok b => RBytes b | Err e => RExc e end.
Proof. exact DomFacts.C18_deterministic. Qed.
Print Assumptions C18_deterministic.
(* ... so serialising the same tree twice, with anything not aimed at it in between, gives identical bytes *)
Theorem C18_to_bytes_twice : forall orc ts i ops, i < length ts -> (forall o, In o ops -> op_target o <> Some i) ->
  snd (run_op orc (final_trees orc ts (OToBytes i :: ops)) (OToBytes i)) = snd (run_op orc ts (OToBytes i)).
Proof. exact DomFacts.C18_to_bytes_twice. Qed.
Print Assumptions C18_to_bytes_twice.

(* an interleaving over two live trees with two failing operations: tree 1 is never touched by what is aimed at
   tree 0, the two serialisations of tree 0 agree *)
Example C18_ex :
  let r := run_ops [] [] ex_ops in
  map fst (firstn 8 r) = [RUnit; RUnit; RUnit; RUnit; RExc ELibChoice; RExc ELibUnknownOption; RUnit; RUnit] /\
  nth_error (map fst r) 8 = nth_error (map fst r) 10 /\
  nth_error (map fst r) 9 = Some (RBool false) /\
  (forall k, 1 <= k < length r -> nth_error (nth k (map snd r) []) 1 = nth_error (nth 1 (map snd r) []) 1) /\
  nth_error (final_trees [] [] ex_ops) 1 = nth_error (nth 1 (map snd r) []) 1.
Proof.
  vm_compute. repeat split; try reflexivity.
  intros k [L U]. do 11 (destruct k as [|k]; [try reflexivity; lia|]). lia.
Qed.
