"""Codec catalogue: facts about every text codec spelling, read from the running CPython."""
import codecs
import encodings
import encodings.aliases
import pkgutil
import re

VALUE_RE = re.compile(r'[A-Za-z0-9/._-]+\Z')
INT_RE = re.compile(r'-?[0-9]+\Z')
PROBES = ['é', 'Ж', 'あ', '中', 'α', 'א', '€']


def spellings():
    names = set(encodings.aliases.aliases.keys()) | set(encodings.aliases.aliases.values())
    names |= {m.name for m in pkgutil.iter_modules(encodings.__path__)}
    out = set()
    for n in names:
        for v in (n, n.upper(), n.replace('_', '-'), n.replace('_', '-').upper(), n.replace('-', '_')):
            out.add(v)
        try:
            out.add(codecs.lookup(n).name)
        except (LookupError, TypeError, ValueError):
            pass
    # the spellings the property text names explicitly
    out |= {'utf-8', 'utf-8-sig', 'UTF-8-SIG', 'utf_8_sig', 'utf-16', 'UTF-16', 'utf_16', 'utf16', 'U16',
            'utf-16-le', 'utf-16-be', 'UTF-16LE', 'UTF-16BE', 'utf-32', 'UTF-32', 'utf_32', 'utf32', 'U32',
            'utf-32-le', 'utf-32-be', 'UTF-32LE', 'UTF-32BE', 'latin-1', 'ascii', 'Utf-8', 'Utf-16'}
    return sorted(s for s in out if VALUE_RE.match(s) and not INT_RE.match(s))


def facts(s):
    """None if s is not a usable text codec spelling."""
    try:
        info = codecs.lookup(s)
        lf = '\n'.encode(s)
        crlf = '\r\n'.encode(s)
        mids = []
        for first in ['a'] + PROBES:
            try:
                e = codecs.getincrementalencoder(s)()
                e.encode(first)
                a = e.encode('\n')
                e2 = codecs.getincrementalencoder(s)()
                e2.encode(first)
                b = e2.encode('\r\n')
                e3 = codecs.getincrementalencoder(s)()
                e3.encode(first)
                c = e3.encode('{')
                mids.append((a, b, c))
            except UnicodeError:
                continue
        if not mids:
            return None
        stateless = all(m == mids[0] for m in mids)
        # a stateless codec must also concatenate: enc(a+b) = enc(a) + mid(b)
        try:
            if ('a\n').encode(s) != 'a'.encode(s) + mids[0][0]:
                stateless = False
            if '\n'.decode if False else False:
                pass
            if lf.decode(s) != '\n' or crlf.decode(s) != '\r\n':
                stateless = False
        except UnicodeError:
            stateless = False
        return dict(spelling=s, canonical=info.name, lf=lf, crlf=crlf,
                    lf_mid=mids[0][0], crlf_mid=mids[0][1], brace_mid=mids[0][2], stateless=stateless)
    except (LookupError, TypeError, ValueError, AttributeError):
        return None


def catalogue():
    rows = []
    for s in spellings():
        f = facts(s)
        if f is not None:
            rows.append(f)
    return rows


def gen_codecs(write_if_changed, coq_bytes, coq_str, coq_list, need):
    rows = catalogue()
    raw = lambda b: '[' + '; '.join('x%02x' % c for c in b) + ']'
    def coq_str(x):
        need(isinstance(x, str) and x.isascii(), 'non-ascii codec name %r' % (x,))
        return raw(x.encode('ascii'))
    coq_bytes = raw
    need(len(rows) > 100, 'codec catalogue suspiciously small (%d)' % len(rows))
    out = ['Record codec_row := { cr_spelling : bytes; cr_canonical : bytes; cr_lf : bytes; cr_crlf : bytes;',
           '                      cr_lf_mid : bytes; cr_crlf_mid : bytes; cr_brace_mid : bytes; cr_stateless : bool }.',
           'Definition mk := Build_codec_row.']
    items = []
    for r in rows:
        items.append('mk (%s) (%s) (%s) (%s) (%s) (%s) (%s) %s' % (
            coq_str(r['spelling']), coq_str(r['canonical']), coq_bytes(r['lf']), coq_bytes(r['crlf']),
            coq_bytes(r['lf_mid']), coq_bytes(r['crlf_mid']), coq_bytes(r['brace_mid']),
            'true' if r['stateless'] else 'false'))
    out.append('Definition rows : list codec_row :=\n  %s.' % coq_list(items))
    out.append('Definition row_count : nat := %d.' % len(rows))
    return write_if_changed('GenCodecs.v', '\n'.join(out) + '\n')
