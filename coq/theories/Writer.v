(* Writer.v — model of pydiffx/writer.py (DiffXWriter), statement order preserved: no rollback on failure,
   so "a rejected call wrote nothing and changed nothing" is a property of this model, not of its type. *)
From Coq Require Import List Arith NArith ZArith Bool Strings.Byte.
From Coq Require Strings.String.
From DX Require Import Bytes Res Codec Text Sections Header Json.
From DXGen Require GenSections GenText.
Import ListNotations.
Import String.StringSyntax.
Local Open Scope string_scope.
Local Open Scope list_scope.

(* dynamically typed call arguments *)
Inductive wv :=
| WNone
| WBool (b : bool)
| WInt (z : Z)
| WStr (t : text)
| WBytes (b : bytes)
| WDict (j : json)       (* a dict: JObj kv (possibly with JBad leaves) *)
| WOther.                (* any other object (float, list, ...) *)

Definition wv_truthy (v : wv) : bool :=
  match v with
  | WNone => false
  | WBool b => b
  | WInt z => negb (Z.eqb z 0)
  | WStr t => nonempty t
  | WBytes b => nonempty b
  | WDict (JObj kv) => nonempty kv
  | WDict _ => true
  | WOther => true
  end.

Definition ascii_text (b : bytes) : text := map byte_n b.
Definition text_of_ascii := ascii_text.

(* s.encode('ascii') for header text *)
Definition encode_ascii (t : text) : res bytes :=
  match c_enc ascii t with Some b => Ok b | None => Err EUnicodeEncode end.

(* '%s' % value *)
Definition fmt_value (v : wv) : res text :=
  match v with
  | WStr t => Ok t
  | WInt z => Ok (ascii_text (Z_to_dec z))
  | WBool true => Ok (ascii_text (B "True"))
  | WBool false => Ok (ascii_text (B "False"))
  | WNone => Ok (ascii_text (B "None"))
  | _ => Err EUnmodelled          (* repr of bytes / dict / other objects: outside the modelled universe *)
  end.

Record wstate := { w_out : bytes; w_stack : list wv (* top first: the 'encoding' of each open level *); w_prev : option bytes }.

Definition cur_level (s : wstate) : nat := length (w_stack s) - 1.
Definition cur_encoding (s : wstate) : res wv :=
  match w_stack s with e :: _ => Ok e | [] => Err EIndex end.

(* value in <set of str> *)
Definition in_strset (v : wv) (set : list bytes) : res bool :=
  match v with
  | WStr t => Ok (existsb (fun x => teq t (ascii_text x)) set)
  | WDict _ => Err EType           (* unhashable *)
  | _ => Ok false
  end.

(* _validate_section *)
Definition validate_section (s : wstate) (section : bytes) : res unit :=
  match w_prev s with
  | None => Ok tt
  | Some prev =>
      match table_get prev with
      | None => Err EType          (* "x not in None" *)
      | Some valid => if in_ids section valid then Ok tt else Err ELibOrder
      end
  end.

(* ---- the writer as a state-threading program: mutations happen in statement order and are never rolled back ---- *)
Definition M (A : Type) := wstate -> wstate * res A.
Definition ret {A} (a : A) : M A := fun s => (s, Ok a).
Definition lift {A} (r : res A) : M A := fun s => (s, r).
Definition bindM {A C} (m : M A) (f : A -> M C) : M C :=
  fun s => let (s1, r) := m s in match r with Ok a => f a s1 | Err e => (s1, Err e) end.
Notation "'dom' x <- m ; k" := (bindM m (fun x => k)) (at level 200, x pattern, m at level 100, k at level 200).
Definition get_state : M wstate := fun s => (s, Ok s).
(* fp.write(b) *)
Definition emit (b : bytes) : M unit :=
  fun s => ({| w_out := w_out s ++ b; w_stack := w_stack s; w_prev := w_prev s |}, Ok tt).
(* self._prev_section = x *)
Definition set_prev (x : bytes) : M unit :=
  fun s => ({| w_out := w_out s; w_stack := w_stack s; w_prev := Some x |}, Ok tt).
(* self._stack.pop() *)
Definition pop_once : M unit :=
  fun s => match w_stack s with
           | [] => (s, Err EIndex)
           | _ :: t => ({| w_out := w_out s; w_stack := t; w_prev := w_prev s |}, Ok tt)
           end.
(* self._stack.append({'encoding': e}) *)
Definition push (e : wv) : M unit :=
  fun s => ({| w_out := w_out s; w_stack := e :: w_stack s; w_prev := w_prev s |}, Ok tt).
Fixpoint repeatM (n : nat) (m : M unit) : M unit :=
  match n with O => ret tt | S k => dom _ <- m; repeatM k m end.

(* _write_section_header: the complete header is built before anything is written *)
Fixpoint render_pairs (o : list (bytes * wv)) : res (list text) :=
  match o with
  | [] => Ok []
  | (k, WNone) :: t => render_pairs t
  | (k, v) :: t => do f <- fmt_value v; do r <- render_pairs t; Ok ((ascii_text k ++ [61%N] ++ f) :: r)
  end.

Definition render_header (section : bytes) (opts : list (bytes * wv)) : res bytes :=
  do ps <- render_pairs (sort_opts opts);
  let options_str : text := join (ascii_text (B ", ")) ps in
  if nonempty options_str
  then do ob <- encode_ascii options_str; Ok (B "#" ++ section ++ B ": " ++ ob ++ [x0a])
  else Ok (B "#" ++ section ++ B ":" ++ [x0a]).

Definition write_section_header (section : bytes) (opts : list (bytes * wv)) : M unit :=
  dom h <- lift (render_header section opts);
  dom _ <- emit h;
  set_prev section.

(* dict(options, **{...}): later keys override, order irrelevant (sorted when rendered) *)
Definition dict_set (k : String.string) (v : wv) (o : list (bytes * wv)) : list (bytes * wv) := assoc_set beq (B k) v o.

(* _new_container_section *)
Definition new_container_section (name : bytes) (level : nat) (encoding : wv) (extra : list (bytes * wv)) : M unit :=
  let section := build_id (level - 1) name in
  dom s <- get_state;
  dom _ <- lift (validate_section s section);
  dom _ <- write_section_header section (dict_set "encoding" encoding extra);
  dom s1 <- get_state;
  dom _ <- repeatM (cur_level s1 + 1 - level) pop_once;
  dom s2 <- get_state;
  dom cur <- lift (cur_encoding s2);
  push (if wv_truthy encoding then encoding else cur).

(* DiffXWriter.__init__ : Err = the constructor raised (no writer object exists) *)
Definition writer_init (encoding version : wv) : wstate * res unit :=
  let s0 := {| w_out := []; w_stack := [encoding]; w_prev := None |} in
  match in_strset version GenText.versions with
  | Err e => (s0, Err e)
  | Ok false => (s0, Err ELibChoice)
  | Ok true => new_container_section (B "diffx") GenText.writer_level_main encoding [(B "version", version)] s0
  end.

(* x.encode(encoding) with a dynamically typed encoding *)
Definition encode_dyn (t : text) (encoding : wv) : res bytes :=
  match encoding with
  | WStr e => match c_enc ascii e with
              | Some eb => py_encode t eb
              | None => Err ELookup            (* a non-ASCII codec name is unknown *)
              end
  | _ => Err EType
  end.

Definition enc_name (encoding : wv) : res (option bytes) :=
  match encoding with
  | WNone => Ok None
  | WStr e => match c_enc ascii e with Some eb => Ok (Some eb) | None => Err ELookup end
  | _ => Err EType
  end.

Inductive wcontent := CText (t : text) | CBytes (b : bytes).

(* _prepare_content (reads the state, mutates nothing): returns (prepared bytes, line_endings for the header) *)
Definition prepare_content (s : wstate) (content : wcontent) (indent line_endings encoding : wv) (inherit : bool)
  : res (bytes * wv) :=
  let empty := match content with CText t => is_nil t | CBytes b => is_nil b end in
  if empty then Err ELibContent else
  do le_ok <- (match line_endings with WNone => Ok true | v => in_strset v GenText.line_endings_values end);
  if negb le_ok then Err ELibChoice else
  do encoding1 <- (if negb (wv_truthy encoding) && inherit then cur_encoding s else Ok encoding);
  let newline_opt : option text :=
    match line_endings with
    | WStr t => match c_enc ascii t with Some le => assoc_get beq le GenText.newline_formats | None => None end
    | _ => None
    end in
  let newline_encoding : wv := if wv_truthy encoding1 then encoding1 else WStr (ascii_text (B "ascii")) in
  (* newline as str (inl) or bytes (inr), and the line_endings value *)
  do nl_le <- (match newline_opt with
               | None =>
                   match content with
                   | CText t => let (le, nl) := guess_line_endings_text t in Ok (inl nl, WStr (ascii_text le))
                   | CBytes b =>
                       do en <- enc_name newline_encoding;
                       do p <- guess_line_endings_bytes b en;
                       Ok (inr (snd p), WStr (ascii_text (fst p)))
                   end
               | Some nl =>
                   match content with
                   | CBytes _ => do nb <- encode_dyn nl newline_encoding; Ok (inr nb, line_endings)
                   | CText _ => Ok (inl nl, line_endings)
                   end
               end);
  let (nl0, le_out) := nl_le in
  do newline_b <- (match nl0 with inl t => encode_dyn t encoding1 | inr b => Ok b end);
  do content_b <- (match content with CText t => encode_dyn t encoding1 | CBytes b => Ok b end);
  let en1 : option bytes :=
    match encoding1 with
    | WStr e => c_enc ascii e
    | _ => None
    end in
  let newline := strip_bom newline_b en1 in
  let content1 := if bends newline content_b then content_b else content_b ++ newline in
  if wv_truthy indent then
    do indent_str <- (match indent with
                      | WInt z => Ok (repeat_b x20 (Z.to_nat z))
                      | WBool true => Ok [x20]
                      | _ => Err EType
                      end);
    do lines <- split_lines content1 newline true;
    Ok (concat (map (fun l => indent_str ++ l) lines), le_out)
  else Ok (content1, le_out).

Definition content_length (b : bytes) : wv := WInt (Z.of_nat (length b)).

(* _new_content_section *)
Definition new_content_section (name : bytes) (content : wcontent)
           (line_endings encoding indent : wv) (write_le inherit : bool) (extra : list (bytes * wv)) : M unit :=
  dom s <- get_state;
  let section := build_id (cur_level s + 1 - 1) name in
  dom _ <- lift (validate_section s section);
  dom p <- lift (prepare_content s content indent line_endings encoding inherit);
  let (body, le_out) := p in
  let ho := dict_set "length" (content_length body) (dict_set "indent" indent (dict_set "encoding" encoding extra)) in
  let ho := if write_le then dict_set "line_endings" le_out ho else ho in
  dom _ <- write_section_header section ho;
  emit body.

(* the public API *)
Inductive call :=
| NewChange (encoding : wv)
| NewFile (encoding : wv)
| WritePreamble (text : wv) (encoding : wv) (indent : option wv) (line_endings mimetype : wv)
| WriteMeta (metadata : wv) (encoding : wv) (meta_format : option wv)
| WriteDiff (content : wv) (diff_type encoding line_endings : wv).

Definition do_call (c : call) : M unit :=
  match c with
  | NewChange e => new_container_section (B "change") GenText.writer_level_change e []
  | NewFile e => new_container_section (B "file") GenText.writer_level_file e []
  | WritePreamble text encoding indent line_endings mimetype =>
      match text with
      | WStr t =>
          dom mok <- lift (match mimetype with WNone => Ok true | v => in_strset v GenText.mimetypes end);
          if negb mok then lift (Err ELibChoice) else
          let ind := match indent with Some v => v | None => WInt GenText.default_indent end in
          new_content_section (B "preamble") (CText t) line_endings encoding ind true true [(B "mimetype", mimetype)]
      | _ => lift (Err ELibContent)
      end
  | WriteMeta metadata encoding meta_format =>
      match metadata with
      | WDict j =>
          if negb (wv_truthy metadata) then lift (Err ELibContent) else
          let fmt := match meta_format with Some v => v | None => WStr (ascii_text GenText.meta_format_json) end in
          dom fok <- lift (in_strset fmt GenText.meta_formats);
          if negb fok then lift (Err ELibChoice) else
          dom dumped <- lift (json_dump j);
          (* `if not (encoding or self._cur_encoding): content = content.encode('ascii')`: with no encoding in force
             the (pure ASCII) JSON text is handed on as bytes *)
          dom s <- get_state;
          dom has_enc <- lift (if wv_truthy encoding then Ok true
                               else do ce <- cur_encoding s; Ok (wv_truthy ce));
          let content := if has_enc then CText (ascii_text dumped) else CBytes dumped in
          new_content_section (B "meta") content WNone encoding WNone false true [(B "format", fmt)]
      | _ => lift (Err ELibContent)
      end
  | WriteDiff content diff_type encoding line_endings =>
      match content with
      | WBytes b =>
          dom tok <- lift (match diff_type with WNone => Ok true | v => in_strset v GenText.diff_types end);
          if negb tok then lift (Err ELibChoice) else
          new_content_section (B "diff") (CBytes b) line_endings encoding WNone true false [(B "type", diff_type)]
      | _ => lift (Err ELibContent)
      end
  end.

(* run a call list; after a raising call the program keeps using the object (state as the failed call left it) *)
Fixpoint run_calls (s : wstate) (cs : list call) : list (res unit * nat) * wstate :=
  match cs with
  | [] => ([], s)
  | c :: t =>
      let (s', r) := do_call c s in
      let (rs, f) := run_calls s' t in
      ((r, length (w_out s')) :: rs, f)
  end.
