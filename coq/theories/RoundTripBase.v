(* RoundTripBase.v — plumbing for the whole-sequence round trip (C01): reading one header line that the writer
   rendered, the exact option list the reader reports for it, the argument domains. *)
From Coq Require Import List Arith NArith ZArith Bool Strings.Byte Lia Sorting.Permutation Sorting.Sorted.
From Coq Require Strings.String.
From DX Require Import Bytes Res Codec Text Sections Header Stream Json Reader Writer.
From DX Require HeaderFacts TextFacts StreamFacts SectionsFacts ReaderSpecFacts WriterFacts WriterCanonFacts.
From DXGen Require GenSections GenText GenCodecs.
Import ListNotations.
Import String.StringSyntax.
Local Open Scope string_scope.
Local Open Scope list_scope.

(* ------------------------------------------------------------------------------------------------ *)
(* 1. _read_header on a stream that starts with  line LF  (line without LF, starting with a non-blank) *)

Lemma find_byte_line : forall line more, ~ In lf line -> find_byte lf (line ++ lf :: more) 0 = Some (length line).
Proof.
  intros line more H. rewrite StreamFacts.find_byte_app_none by (apply ReaderSpecFacts.find_byte_not_in; exact H).
  cbn [find_byte plus]. unfold lf, byte_eqb. cbn. reflexivity.
Qed.

Lemma read_until_line : forall chunk s line more, 0 < chunk ->
  remaining s = line ++ lf :: more -> ~ In lf line ->
  read_until chunk s = Ok (line ++ [lf], false, {| s_data := s_data s; s_pos := s_pos s + (length line + 1) |}) /\
  remaining {| s_data := s_data s; s_pos := s_pos s + (length line + 1) |} = more.
Proof.
  intros chunk s line more Hc Hr Hn. split.
  - rewrite StreamFacts.read_until_abs_correct by exact Hc. unfold read_until_abs.
    rewrite Hr, (find_byte_line line more Hn).
    replace (firstn (length line + 1) (line ++ lf :: more)) with (line ++ [lf]); [reflexivity|].
    change (lf :: more) with ([lf] ++ more). rewrite app_assoc.
    rewrite firstn_app. rewrite app_length. cbn [length]. rewrite Nat.sub_diag. cbn [firstn].
    rewrite app_nil_r. rewrite firstn_all2; [reflexivity | rewrite app_length; cbn; lia].
  - destruct s as [data pos]. cbn [s_data s_pos]. rewrite StreamFacts.remaining_advance, Hr.
    change (lf :: more) with ([lf] ++ more). rewrite app_assoc.
    rewrite skipn_app. rewrite app_length. cbn [length]. rewrite Nat.sub_diag. cbn [skipn].
    rewrite skipn_all2; [reflexivity | rewrite app_length; cbn; lia].
Qed.

Lemma lstrip_snoc_nonspace : forall x c, is_space c = false -> lstrip (x ++ [c]) <> [].
Proof.
  induction x as [|a x IH]; intros c Hc; cbn [app lstrip].
  - rewrite Hc. discriminate.
  - destruct (is_space a); [apply IH; exact Hc | discriminate].
Qed.

Lemma strip_nonblank : forall c t, is_space c = false -> nonempty (strip (c :: t)) = true.
Proof.
  intros c t Hc. unfold strip. cbn [lstrip]. rewrite Hc.
  rewrite !HeaderFacts.frev_is_rev. cbn [rev].
  destruct (lstrip (rev t ++ [c])) as [|y l] eqn:E; [exfalso; exact (lstrip_snoc_nonspace _ _ Hc E)|].
  destruct (rev (y :: l)) eqn:E2; [|reflexivity].
  apply (f_equal (@length _)) in E2. rewrite rev_length in E2. discriminate E2.
Qed.

(* the reader state after a header line *)
Definition after_line (st : rstate) (n : nat) : rstate :=
  {| st_stream := {| s_data := s_data (st_stream st); s_pos := s_pos (st_stream st) + (n + 1) |};
     st_linenum := (st_linenum st + 1)%Z; st_fnl := Some [lf] |}.

Lemma bends_lf_line : forall line, bends [lf] (line ++ [lf]) = true.
Proof. intros. apply TextFacts.bends_spec. exists line. reflexivity. Qed.

Lemma bends_crlf_line : forall line, ~ In x0d line -> bends crlf (line ++ [lf]) = false.
Proof.
  intros line H. destruct (bends crlf (line ++ [lf])) eqn:E; [|reflexivity]. exfalso.
  apply TextFacts.bends_spec in E. destruct E as [q E]. unfold crlf in E.
  change [x0d; x0a] with ([x0d] ++ [x0a]) in E. rewrite app_assoc in E.
  apply app_inj_tail in E. destruct E as [E _]. apply H. rewrite E. apply in_or_app. right. left. reflexivity.
Qed.

Lemma read_header_line : forall chunk valid st c line more, 0 < chunk ->
  remaining (st_stream st) = (c :: line) ++ lf :: more ->
  is_space c = false -> ~ In lf (c :: line) -> ~ In x0d (c :: line) ->
  (st_fnl st = None \/ st_fnl st = Some [lf]) ->
  read_header chunk valid st =
    match parse_header valid (c :: line) with
    | HErr col => HdrParse (st_linenum st) (option_map Z.of_nat col)
    | HOk level name id opts => HdrOk level name id opts (st_linenum st) (after_line st (length (c :: line)))
    end /\
  remaining (st_stream (after_line st (length (c :: line)))) = more.
Proof.
  intros chunk valid st c line more Hc Hr Hsp Hlf Hcr Hfnl.
  destruct (read_until_line chunk (st_stream st) (c :: line) more Hc Hr Hlf) as [Hru Hrem].
  split; [|exact Hrem].
  apply SectionsFacts.read_header_next. unfold SectionsFacts.next_header.
  cbn [next_nonblank]. rewrite Hru. cbn [bind].
  change ((c :: line) ++ [lf]) with (c :: (line ++ [lf])). rewrite (strip_nonblank c (line ++ [lf]) Hsp).
  change (c :: (line ++ [lf])) with ((c :: line) ++ [lf]).
  assert (Hf : SectionsFacts.header_fnl st ((c :: line) ++ [lf]) = [lf]).
  { unfold SectionsFacts.header_fnl. destruct Hfnl as [-> | ->]; [|reflexivity].
    rewrite (bends_crlf_line (c :: line) Hcr). reflexivity. }
  cbv zeta. rewrite Hf, bends_lf_line.
  rewrite app_length. cbn [length]. replace (S (length line) + 1 - 1) with (length (c :: line)) by (cbn; lia).
  rewrite firstn_app, Nat.sub_diag. cbn [firstn]. rewrite app_nil_r, firstn_all. reflexivity.
Qed.

(* ------------------------------------------------------------------------------------------------ *)
(* 2. the option list the reader reports for a rendered header, exactly                               *)

Import WriterCanonFacts.

Lemma assoc_set_fresh : forall {V} k (v : V) acc, ~ In k (map fst acc) -> assoc_set beq k v acc = acc ++ [(k, v)].
Proof.
  intros V k v. induction acc as [|[k0 v0] t IH]; intros H; [reflexivity|]. cbn [assoc_set].
  destruct (beq k k0) eqn:E.
  - exfalso. apply HeaderFacts.beq_spec in E. apply H. left. cbn. auto.
  - rewrite IH; [reflexivity|]. intro Hin. apply H. right. exact Hin.
Qed.

Lemma fold_opts_nodup : forall conv ps acc,
  NoDup (map fst acc ++ map fst ps) ->
  fold_left (HeaderFacts.opts_step conv) ps acc = acc ++ map (fun p => (fst p, conv (snd p))) ps.
Proof.
  intros conv. induction ps as [|p ps IH]; intros acc H; cbn [fold_left map]; [rewrite app_nil_r; reflexivity|].
  unfold HeaderFacts.opts_step at 2. rewrite assoc_set_fresh.
  - rewrite IH.
    + rewrite <- app_assoc. reflexivity.
    + rewrite map_app. cbn [map fst]. rewrite <- app_assoc. exact H.
  - cbn [map] in H. apply NoDup_remove_2 in H. intro Hin. apply H. apply in_or_app. left. exact Hin.
Qed.

Lemma opts_of_nodup : forall conv ps, NoDup (map fst ps) ->
  HeaderFacts.opts_of conv ps = map (fun p => (fst p, conv (snd p))) ps.
Proof. intros conv ps H. unfold HeaderFacts.opts_of. rewrite fold_opts_nodup; [reflexivity | exact H]. Qed.

(* option values as the reader reports them: integers as VInt, strings verbatim as VStr *)
Definition rd_val (v : wv) : pv :=
  match v with WInt z => VInt z | WStr t => VStr (map n_byte t) | _ => VStr [] end.
Definition expected_opts (opts : list (bytes * wv)) : options :=
  map (fun kv => (fst kv, rd_val (snd kv))) (present (sort_opts opts)).

(* a string value that is not of integer form (the reader would convert it) *)
Definition exact_value (v : wv) : Prop :=
  match v with WStr t => int_ok (map n_byte t) = false | _ => True end.

Definition okb (b : byte) : bool := negb (byte_eqb b x0a) && negb (byte_eqb b x0d).

Lemma val_char_okb : forall b, val_char b = true -> okb b = true.
Proof. intros b; destruct b; vm_compute; intro; congruence. Qed.
Lemma key_char_okb : forall b, key_tail_char b = true -> okb b = true.
Proof. intros b; destruct b; vm_compute; intro; congruence. Qed.
Lemma alpha_okb : forall b, is_alpha b = true -> okb b = true.
Proof. intros b; destruct b; vm_compute; intro; congruence. Qed.

Definition okl (l : bytes) : Prop := Forall (fun b => okb b = true) l.

Lemma okl_B : forall s, forallb okb (B s) = true -> okl (B s).
Proof. intros s H. unfold okl. apply Forall_forall. rewrite forallb_forall in H. exact H. Qed.

Lemma okl_pair : forall p, HeaderFacts.spec_pair p -> okl (HeaderFacts.render_pair p).
Proof.
  intros [k v] [Hk Hv]. cbn [fst snd] in *. unfold HeaderFacts.render_pair, okl. cbn [fst snd].
  apply Forall_app. split; [|apply Forall_app; split].
  - destruct Hk as (c & t & -> & Hc & Ht). constructor.
    + apply alpha_okb. apply HeaderFacts.spec_alpha_iff. exact Hc.
    + eapply Forall_impl; [|exact Ht]. intros b Hb. apply key_char_okb. apply HeaderFacts.spec_key_char_iff. exact Hb.
  - apply okl_B. reflexivity.
  - destruct Hv as [_ Hv]. eapply Forall_impl; [|exact Hv]. intros b Hb. apply val_char_okb.
    apply HeaderFacts.spec_val_char_iff. exact Hb.
Qed.

Lemma okl_repeat : forall b n, okb b = true -> okl (repeat_b b n).
Proof. intros b n H. induction n; cbn [repeat_b]; constructor; auto. Qed.

Lemma okl_header : forall line dots name ps, HeaderFacts.spec_header line dots name ps ->
  okl line /\ exists r, line = "#"%byte :: r.
Proof.
  intros line dots name ps (_ & Hn & Hps & ->). unfold HeaderFacts.render_header. split.
  - unfold okl. apply Forall_app. split; [apply okl_B; reflexivity|].
    apply Forall_app. split; [apply okl_repeat; reflexivity|].
    apply Forall_app. split.
    { unfold HeaderFacts.spec_names in Hn. cbn [In] in Hn.
      repeat (destruct Hn as [<-|Hn]; [apply okl_B; reflexivity|]). destruct Hn. }
    apply Forall_app. split; [apply okl_B; reflexivity|].
    destruct ps as [|p ps']; [constructor|].
    apply Forall_app. split; [apply okl_B; reflexivity|].
    apply Forall_join; [apply okl_B; reflexivity|].
    apply Forall_forall. intros x Hx. apply in_map_iff in Hx. destruct Hx as (q & <- & Hq).
    apply okl_pair. rewrite Forall_forall in Hps. apply Hps. exact Hq.
  - eexists. reflexivity.
Qed.

Lemma okl_no_lf : forall l, okl l -> ~ In lf l /\ ~ In x0d l.
Proof.
  intros l H. unfold okl in H. rewrite Forall_forall in H.
  split; intro Hin; apply H in Hin; vm_compute in Hin; discriminate Hin.
Qed.

Lemma hash_not_space : is_space "#"%byte = false.
Proof. reflexivity. Qed.

(* the header the writer renders for [opts] is one line; the reader's parser returns exactly [expected_opts opts] *)
Theorem header_rt : forall valid dots name opts,
  dots <= 3 -> In name HeaderFacts.spec_names -> In (build_id dots name) valid ->
  NoDup (map fst opts) -> Forall good_opt opts -> Forall (fun kv => exact_value (snd kv)) opts ->
  exists r,
    render_header (build_id dots name) opts = Ok (("#"%byte :: r) ++ [x0a]) /\
    parse_header valid ("#"%byte :: r) = HOk dots name (build_id dots name) (expected_opts opts) /\
    ~ In lf ("#"%byte :: r) /\ ~ In x0d ("#"%byte :: r) /\
    (forall k, assoc_get beq k (expected_opts opts) =
               match assoc_get beq k opts with Some v => read_back v | None => None end).
Proof.
  intros valid dots name opts Hd Hn Hv Hnd Hg Hx.
  destruct (C02_header_round_trip valid dots name opts Hd Hn Hv Hnd Hg) as (line & ps & opts' & Hr & Hps & Hs & Hp & Hk).
  pose proof (HeaderFacts.C11_complete valid line dots name ps Hs Hv) as Hp2.
  fold (build_id dots name) in Hp2. rewrite Hp in Hp2. injection Hp2 as Ho.
  destruct (okl_header _ _ _ _ Hs) as [Hok [r ->]]. destruct (okl_no_lf _ Hok) as [Hlf Hcr].
  assert (Hnd_so : NoDup (map fst (present (sort_opts opts)))).
  { unfold present. apply NoDup_map_filter.
    eapply Permutation_NoDup; [|exact Hnd]. apply Permutation_map. apply sort_opts_perm. }
  assert (Ho' : opts' = expected_opts opts).
  { rewrite Ho, Hps. rewrite opts_of_nodup by (rewrite map_map; cbn [spec_pair_of fst]; exact Hnd_so).
    unfold expected_opts. rewrite map_map. apply map_ext_in. intros [k v] Hin. cbn [spec_pair_of fst snd].
    f_equal. unfold present in Hin. apply filter_In in Hin. destruct Hin as [Hin Hpr].
    apply (Permutation_in _ (Permutation_sym (sort_opts_perm opts))) in Hin.
    rewrite Forall_forall in Hg, Hx. specialize (Hg _ Hin). specialize (Hx _ Hin). cbn [snd] in *.
    destruct Hg as [_ Hgv]. cbn [snd] in Hgv. destruct Hgv as [|z Hz|vb Hvb]; cbn [val_bytes rd_val].
    - discriminate Hpr.
    - apply convert_value_Z_to_dec. exact Hz.
    - cbn [exact_value] in Hx. apply convert_value_not_int. exact Hx. }
  exists r. split; [exact Hr|]. split; [rewrite <- Ho'; exact Hp|]. split; [exact Hlf|]. split; [exact Hcr|].
  rewrite <- Ho'. exact Hk.
Qed.
