(* C20 — Tokenising any text with the DiffX pygments lexer terminates and is lossless; header tokens of writer outputs.
   Statements only; definitions in theories/Lexer.v (engine model of RegexLexer.get_tokens_unprocessed, bygroups,
   using), proofs in theories/LexerFacts.v; the rule table GenLexer.rules is regenerated from the runtime value of
   DiffXLexer._tokens on every run (gen/gen_lexer.py), so C20_rules is re-checked whenever the Python rules change.

   Proved here (first half of C20, for the model): C20_rules, C20_lossless, C20_lossless_total, C20_diffx_lossless,
   with the meaning of the two syntactic checks (C20_nonnull_sound, C20_covering_sound) and the soundness of the
   executable matcher w.r.t. the declarative "some match" relation (C20_matcher_sound).
   Premises: the sub-lexers (pygments JsonLexer / DiffLexer) are an oracle assumed lossless; the engine model equals
   pygments' (validated by the `lex` correspondence family, not proved).

   Second half of C20 ("for UTF-8 writer outputs without "#." no error token is produced and the header tokens are
   exactly the section headers"): C20_headers_partial, PARTIAL.  It is proved for the engine model over an abstract
   grammar of DiffX documents (LexerHeaderFacts.wf_doc: sections = one of the nine headers the writer emits, an
   optional option text without LF, and for content sections a non-empty body without "#."; "#diffx:" only first),
   and for the tokens of the DiffX-level rules only (the sub-lexer tokens are hidden / assumed to be neither
   Name.Tag nor Error: JsonLexer itself uses Name.Tag for object keys).  Missing for the full statement: (a) that
   every UTF-8 writer output has this shape is not derived from Writer.v here; (b) "no error token" inside JSON and
   diff bodies is a statement about pygments' JsonLexer / DiffLexer, which are not modelled.  Both are covered only
   by the sampled check of family `lex` (writer-output cases, oracle signature 'headers'). *)
From Coq Require Import List Arith NArith Bool Strings.Byte.
From Coq Require Strings.String.
From DX Require Import Bytes Lexer LexerFacts LexerHeaderFacts.
From DXGen Require GenLexer.
Import ListNotations.
Import String.StringSyntax.
Local Open Scope string_scope.
Local Open Scope list_scope.

(* whatever the executable matcher returns is a match in the declarative sense *)
Theorem C20_matcher_sound : forall r st st1 c, rmatch r st = Some (st1, c) -> Match r st [] st1 c.
Proof. exact rmatch_sound. Qed.
Print Assumptions C20_matcher_sound.

(* every match of a regex whose [nullable] check is false consumes at least one character *)
Theorem C20_nonnull_sound : forall r st c st1 c1 txt,
  nullable r = false -> Match r st c st1 c1 -> adv st txt st1 -> txt <> [].
Proof. exact nonnull_sound. Qed.
Print Assumptions C20_nonnull_sound.

(* in every match of a covering regex with distinct group numbers, the groups' texts concatenate to the matched text *)
Theorem C20_covering_sound : forall r st st1 c txt,
  covering r = true -> NoDup (groups_of r) -> Match r st [] st1 c -> adv st txt st1 ->
  concat (map (gtext c) (groups_of r)) = txt.
Proof. exact covering_sound. Qed.
Print Assumptions C20_covering_sound.

(* the generated rule table passes the check: every rule non-nullable; every bygroups rule has one action per group,
   no None action, groups numbered 1..n without nesting or repetition, covering; nested using(this) runs get a
   strictly shorter text; every state referred to is defined *)
Theorem C20_rules : rules_ok GenLexer.rules = true.
Proof. vm_compute. reflexivity. Qed.
Print Assumptions C20_rules.

(* losslessness and termination for every accepted rule table, with the explicit fuel bound *)
Theorem C20_lossless :
  forall oracle tbl,
    rules_ok tbl = true -> oracle_lossless oracle ->
    forall (t : text) (fuel : nat), S (length t) <= fuel ->
      match lex_text oracle tbl fuel [st_root] t with
      | LOk toks => concat (map tok_val toks) = t
      | LOracleMiss => exists name txt, oracle name txt = None
      | LFuel | LBadState | LBadGroup => False
      end.
Proof. exact C20_lossless_thm. Qed.
Print Assumptions C20_lossless.

Theorem C20_lossless_total :
  forall oracle tbl,
    rules_ok tbl = true -> oracle_lossless oracle -> (forall name txt, oracle name txt <> None) ->
    forall (t : text) (fuel : nat), S (length t) <= fuel ->
      exists toks, lex_text oracle tbl fuel [st_root] t = LOk toks /\ concat (map tok_val toks) = t.
Proof. exact C20_lossless_total_thm. Qed.
Print Assumptions C20_lossless_total.

(* the DiffX lexer itself: for every lossless total sub-lexer oracle and every text *)
Theorem C20_diffx_lossless :
  forall oracle, oracle_lossless oracle -> (forall name txt, oracle name txt <> None) ->
  forall t : text, exists toks, lex_default oracle GenLexer.rules t = LOk toks /\ concat (map tok_val toks) = t.
Proof. intros; eapply lex_default_lossless; eauto; exact C20_rules. Qed.
Print Assumptions C20_diffx_lossless.

(* the hypotheses are satisfiable: a one-token-per-call oracle is lossless and total *)
Example C20_oracle_example : oracle_lossless one_token_oracle /\ forall name txt, one_token_oracle name txt <> None.
Proof. split; [exact one_token_oracle_lossless | exact one_token_oracle_total]. Qed.

(* the engine on a small DiffX file *)
Example C20_engine_example :
  lex_default one_token_oracle GenLexer.rules
    (ascii_text "#diffx: version=1.0
#.change:
#..file:
#...meta: format=json, length=3
{}
#...diff: length=12
delta 3
abc
")
  = LOk [ (0%N, B "Token.Name.Tag", ascii_text "#diffx:"); (7%N, B "Token.Text", ascii_text " ");
          (8%N, B "Token.Name.Attribute", ascii_text "version=1.0"); (19%N, B "Token.Text", [10%N]);
          (20%N, B "Token.Name.Tag", ascii_text "#.change:"); (29%N, B "Token.Text", [10%N]);
          (30%N, B "Token.Name.Tag", ascii_text "#..file:"); (38%N, B "Token.Text", [10%N]);
          (39%N, B "Token.Name.Tag", ascii_text "#...meta:"); (48%N, B "Token.Text", ascii_text " ");
          (49%N, B "Token.Name.Attribute", ascii_text "format=json, length=3"); (70%N, B "Token.Text", [10%N]);
          (71%N, B "Token.Other", ascii_text "{}" ++ [10%N]);
          (74%N, B "Token.Name.Tag", ascii_text "#...diff:"); (83%N, B "Token.Text", ascii_text " ");
          (84%N, B "Token.Name.Attribute", ascii_text "length=12"); (93%N, B "Token.Text", [10%N]);
          (94%N, B "Token.Keyword", ascii_text "delta"); (99%N, B "Token.Text", ascii_text " ");
          (100%N, B "Token.Literal.Number.Integer", ascii_text "3"); (101%N, B "Token.Text", [10%N]);
          (102%N, B "Token.Other", ascii_text "abc" ++ [10%N]) ].
Proof. vm_compute. reflexivity. Qed.

(* ---- second half (partial, see the head comment) ---- *)

(* for every sub-lexer oracle whose tokens are neither Name.Tag nor Error *)
Theorem C20_headers_quiet_oracle :
  forall oracle,
    oracle_lossless oracle -> (forall name txt, oracle name txt <> None) -> oracle_quiet oracle ->
    forall d, wf_doc d ->
    exists toks,
      lex_default oracle GenLexer.rules (render_doc d) = LOk toks /\
      tagvals toks = map s_hdr d /\ errors toks = [].
Proof. exact headers_thm. Qed.
Print Assumptions C20_headers_quiet_oracle.

(* for every sub-lexer oracle, looking at the tokens of the DiffX-level rules only ([hide] relabels the oracle's tokens) *)
Theorem C20_headers_partial :
  forall oracle,
    oracle_lossless oracle -> (forall name txt, oracle name txt <> None) ->
    forall d, wf_doc d ->
    exists toks,
      lex_default (hide oracle) GenLexer.rules (render_doc d) = LOk toks /\
      tagvals toks = map s_hdr d /\ errors toks = [].
Proof. intros; apply headers_thm; auto using hide_lossless, hide_total, hide_quiet. Qed.
Print Assumptions C20_headers_partial.

(* a well-formed document: the file of C20_engine_example with "abc#" as last diff line *)
Example C20_headers_example :
  wf_doc ex_doc /\
  render_doc ex_doc = ascii_text "#diffx: version=1.0
#.change:
#..file:
#...meta: format=json, length=3
{}
#...diff: length=12
delta 3
abc#
".
Proof. split; [exact ex_doc_wf | vm_compute; reflexivity]. Qed.
