(* DomForeignFacts.v — proofs for props/C06_foreign.v (definitions in DomForeign.v): C06 for files of other producers.
   Stage 1 (A)  [foreign_read]: the tree the object model builds from a well-formed foreign file, section by section
                ([step_read] under the shape invariant [Shape]), and exactly when it accepts the file.
   Stage 2 (B)  [foreign_writes]: the tree serialises.  [foreign_tree_calls]: the DOM writer's call list is
                [file_calls f] (one section at a time, [step_calls], under the invariant [Fresh] "what has not been
                filled yet"); [write_secs]: the streaming writer accepts these calls, by simulation along the
                sections: the writer's encoding stack mirrors the file's encoding context and its order table allows
                what the specification allows ([WSt]); each call is accepted by WriterFacts.C09_accept_complete
                (metadata with no encoding in force: [meta_bytes_accept]).
   Stage 3 (C)+(D)  [G_tree]: the tree is typed, its encodings are catalogue spellings, its indents legal, and
                normalising it keeps every section's contents ([step_good]); [contents_final_wf]: texts and diffs of a
                well-formed file already end with the line ending the object model determines (for undeclared line
                endings: the text-level detection agrees with the byte-level one, [unix_text_guess]);
                [C06_foreign]: composition with DomCompose.C06_full.
   Instances and the [_refuted] witnesses at the end. *)
From Coq Require Import List Arith NArith ZArith Bool Strings.Byte Lia.
From Coq Require Strings.String.
From DX Require Import Bytes Res Codec Text Sections Header Stream Json Reader Writer Dom SectionsSpec SpecReader.
From DX Require HeaderFacts TextFacts SectionsFacts WriterFacts WriterCanonFacts Encodings SpecReaderBase SpecReaderFacts DomFacts.
From DX Require Import DomSpec DomSpecFacts DomCompose DomForeign.
From DX Require SpecReaderExamples DomComposeCanon SpecReaderContent SpecReaderCodec RoundTripSim RoundTripCodec RoundTrip RoundTripGuess RoundTripContent.
From DXGen Require GenSections GenText GenCodecs.
Import ListNotations.
Import String.StringSyntax.
Local Open Scope string_scope.
Local Open Scope list_scope.

(* ================================================================================================ *)
(** * Stage 1 (A): reading *)

Lemma map_last_app {A} : forall (g : A -> A) l x, map_last g (l ++ [x]) = l ++ [g x].
Proof.
  induction l as [|a l IH]; intro x; [reflexivity|].
  cbn [app]. destruct (l ++ [x]) as [|b l0] eqn:E; [destruct l; discriminate|].
  cbn [map_last]. change (match l0 with [] => [g b] | _ :: _ => b :: map_last g l0 end) with (map_last g (b :: l0)).
  rewrite <- E, IH. reflexivity.
Qed.

(* the tests apply_record makes on the section id *)
Lemma id_tests : forall a,
  beq (sid_bytes a) GenSections.sec_main = sid_eqb a Main /\
  beq (sid_bytes a) GenSections.sec_change = sid_eqb a Change /\
  beq (sid_bytes a) GenSections.sec_file = sid_eqb a File /\
  beq (sid_bytes a) GenSections.sec_file_diff = sid_eqb a FileDiff.
Proof. destruct a; vm_compute; repeat split; reflexivity. Qed.

(* the tree shape the DOM reader's cursor presupposes *)
Definition Shape (d : nat) (t : dtree) : Prop :=
  match d with
  | 0 => True
  | 1 => exists cs c, d_changes t = cs ++ [c]
  | _ => exists cs co cp cm fs f, d_changes t = cs ++ [Ch co cp cm (fs ++ [f])]
  end.

Lemma Shape_change : forall d t, 1 <= d -> Shape d t -> exists cs c, d_changes t = cs ++ [c].
Proof.
  intros d t Hd H. destruct d as [|[|d]]; [lia | exact H |].
  destruct H as (cs & co & cp & cm & fs & f & E). eauto.
Qed.

Lemma apply_record_ids : forall t cur r a, r_id r = sid_bytes a ->
  apply_record (t, cur) r =
  (let id := r_id r in
   let on_change (f : dchange -> res dchange) : res dtree :=
     do cs <- set_last f (d_changes t); Ok {| d_opts := d_opts t; d_pre := d_pre t; d_meta := d_meta t; d_changes := cs |} in
   let on_file (f : dfile -> res dfile) : res dtree :=
     on_change (fun c => do fs <- set_last f (c_files c);
                         Ok {| c_opts := c_opts c; c_pre := c_pre c; c_meta := c_meta c; c_files := fs |}) in
   if sid_eqb a Main then
     Ok ({| d_opts := dopts_of_options (r_opts r); d_pre := d_pre t; d_meta := d_meta t; d_changes := d_changes t |}, AtMain)
   else if sid_eqb a Change then
     let o := dopts_of_options (r_opts r) in
     if has_slot_key o then Err EUnmodelled else
     do c <- to_parse (apply_attrs set_change_attr new_change o);
     Ok ({| d_opts := d_opts t; d_pre := d_pre t; d_meta := d_meta t; d_changes := d_changes t ++ [c] |}, AtChange)
   else if sid_eqb a File then
     let o := dopts_of_options (r_opts r) in
     if has_slot_key o then Err EUnmodelled else
     do f <- to_parse (apply_attrs set_file_attr new_file o);
     do t' <- on_change (fun c => Ok {| c_opts := c_opts c; c_pre := c_pre c; c_meta := c_meta c; c_files := c_files c ++ [f] |});
     Ok (t', AtFile)
   else
     let co := content_options (r_opts r) in
     match r_payload r with
     | PText txt =>
         let upd (p : psec) : res psec := Ok {| p_opts := co; p_content := Some txt |} in
         match cur with
         | AtMain => do p <- upd (d_pre t); Ok ({| d_opts := d_opts t; d_pre := p; d_meta := d_meta t; d_changes := d_changes t |}, cur)
         | AtChange => do t' <- on_change (fun c => do p <- upd (c_pre c); Ok {| c_opts := c_opts c; c_pre := p; c_meta := c_meta c; c_files := c_files c |}); Ok (t', cur)
         | AtFile => Err ELibParse
         end
     | PBytes b =>
         if sid_eqb a FileDiff then
           match cur with
           | AtFile => do t' <- on_file (fun f => Ok {| f_opts := f_opts f; f_meta := f_meta f; f_diff := {| x_opts := co; x_content := Some b |} |}); Ok (t', cur)
           | _ => Err ELibParse
           end
         else Err ELibParse
     | PMeta j =>
         match j with
         | JObj kv =>
             let m := {| m_opts := co; m_content := kv |} in
             match cur with
             | AtMain => Ok ({| d_opts := d_opts t; d_pre := d_pre t; d_meta := m; d_changes := d_changes t |}, cur)
             | AtChange => do t' <- on_change (fun c => Ok {| c_opts := c_opts c; c_pre := c_pre c; c_meta := m; c_files := c_files c |}); Ok (t', cur)
             | AtFile => do t' <- on_file (fun f => Ok {| f_opts := f_opts f; f_meta := m; f_diff := f_diff f |}); Ok (t', cur)
             end
         | _ => Err ELibParse
         end
     | PNone => Err EAssertion
     end).
Proof.
  intros t cur r a H. destruct (id_tests a) as (E1 & E2 & E3 & E4).
  unfold apply_record. rewrite H, E1, E2, E3, E4. reflexivity.
Qed.

Lemma tree_eta : forall t, t = T (d_opts t) (d_pre t) (d_meta t) (d_changes t).
Proof. destruct t; reflexivity. Qed.

(* what a well-formed section's payload can be *)
Lemma wf_payload : forall prev x s, wf_section prev x s = true ->
  match sid_kind (fs_id s) with
  | SContainer => sec_payload s = PNone
  | SPreamble => (exists t, sec_payload s = PText t) \/ (exists b, sec_payload s = PBytes b)
  | SMeta => exists j, sec_payload s = PMeta j
  | SDiff => exists b, sec_payload s = PBytes b
  end.
Proof.
  intros prev x s H. unfold wf_section in H. rewrite !andb_true_iff in H. destruct H as [_ H].
  unfold sec_payload.
  destruct (sid_kind (fs_id s)); destruct (fs_content s) as [[t|t j|ls k|ls k j|raw k]|]; try discriminate H; eauto.
Qed.

Lemma wf_order : forall prev x s, wf_section prev x s = true -> order_ok prev (fs_id s) = true.
Proof.
  intros prev x s H. unfold wf_section in H. rewrite !andb_true_iff in H. tauto.
Qed.

Lemma set_last_snoc_ok {A} : forall (g : A -> A) l x, set_last (fun y => Ok (g y)) (l ++ [x]) = Ok (l ++ [g x]).
Proof. intros. rewrite set_last_app. reflexivity. Qed.

(* one section: the DOM reader's handler on the record the specification assigns to it *)
Lemma step_read : forall prev x s t line,
  wf_section prev x s = true -> Shape (depth_of prev) t ->
  apply_record (t, cursor_of prev) (sec_record line s) =
  (if sec_accepts s then Ok (tof_step t s, cursor_of (Some (fs_id s))) else Err (sec_error s)).
Proof.
  intros prev x s t line Hwf Hsh.
  pose proof (wf_payload _ _ _ Hwf) as Hpay. pose proof (wf_order _ _ _ Hwf) as Hord.
  rewrite (apply_record_ids t (cursor_of prev) (sec_record line s) (fs_id s) eq_refl).
  cbn [r_id r_opts r_payload sec_record]. cbv zeta.
  unfold sec_accepts, sec_error, tof_step, cursor_of, depth_of.
  destruct (fs_id s) eqn:Eid; cbn [sid_eqb sid_kind sid_depth cursor_at] in *.
  - (* Main *) reflexivity.
  - (* MainPreamble *)
    destruct prev as [[]|]; try discriminate Hord; cbn [sid_depth cursor_at];
      (destruct Hpay as [[txt E]|[b E]]; rewrite E; [unfold sec_psec, payload_text, sec_copts; rewrite E; reflexivity | reflexivity]).
  - (* MainMeta *)
    destruct prev as [[]|]; try discriminate Hord; cbn [sid_depth cursor_at];
      (destruct Hpay as [j E]; rewrite E; destruct j; try reflexivity;
       unfold sec_msec, payload_kv, sec_copts; rewrite E; reflexivity).
  - (* Change *)
    unfold change_of, sec_dopts. destruct (has_slot_key _); [reflexivity|].
    destruct (to_parse _) as [c|e]; reflexivity.
  - (* ChangePreamble *)
    destruct prev as [[]|]; try discriminate Hord; cbn [sid_depth cursor_at] in *;
      destruct Hsh as (cs & c & Ecs);
      (destruct Hpay as [[txt E]|[b E]]; rewrite E; [|reflexivity]);
      unfold on_last_change; rewrite Ecs, set_last_app, map_last_app; cbn [bind];
      unfold sec_psec, payload_text, sec_copts; rewrite E; reflexivity.
  - (* ChangeMeta *)
    destruct prev as [[]|]; try discriminate Hord; cbn [sid_depth cursor_at] in *;
      destruct Hsh as (cs & c & Ecs);
      (destruct Hpay as [j E]; rewrite E; destruct j; try reflexivity);
      unfold on_last_change; rewrite Ecs, set_last_app, map_last_app; cbn [bind];
      unfold sec_msec, payload_kv, sec_copts; rewrite E; reflexivity.
  - (* File *)
    assert (Hd : 1 <= depth_of prev) by (destruct prev as [[]|]; try discriminate Hord; cbn; lia).
    destruct (Shape_change _ _ Hd Hsh) as (cs & c & Ecs).
    unfold file_of, sec_dopts. destruct (has_slot_key _); [reflexivity|].
    destruct (to_parse _) as [f|e]; [|reflexivity]. cbn [bind is_ok res_or].
    unfold on_last_change. rewrite Ecs, set_last_app, map_last_app. reflexivity.
  - (* FileMeta *)
    destruct prev as [[]|]; try discriminate Hord; cbn [sid_depth cursor_at] in *;
      destruct Hsh as (cs & co & cp & cm & fs & f & Ecs);
      (destruct Hpay as [j E]; rewrite E; destruct j; try reflexivity);
      unfold on_last_file, on_last_change; rewrite Ecs, set_last_app, map_last_app; unfold Ch;
      cbn [bind c_files c_opts c_pre c_meta]; rewrite set_last_app, map_last_app; cbn [bind];
      unfold sec_msec, payload_kv, sec_copts; rewrite E; reflexivity.
  - (* FileDiff *)
    destruct prev as [[]|]; try discriminate Hord; cbn [sid_depth cursor_at] in *;
      destruct Hsh as (cs & co & cp & cm & fs & f & Ecs);
      destruct Hpay as [b E]; rewrite E;
      unfold on_last_file, on_last_change; rewrite Ecs, set_last_app, map_last_app; unfold Ch;
      cbn [bind c_files c_opts c_pre c_meta]; rewrite set_last_app, map_last_app; cbn [bind];
      unfold sec_dsec, payload_bytes, sec_copts; rewrite E; reflexivity.
Qed.

Lemma step_shape : forall prev x s t,
  wf_section prev x s = true -> Shape (depth_of prev) t -> Shape (sid_depth (fs_id s)) (tof_step t s).
Proof.
  intros prev x s t Hwf Hsh. pose proof (wf_order _ _ _ Hwf) as Hord.
  unfold tof_step. destruct (fs_id s) eqn:Eid; cbn [sid_depth Shape]; try exact I.
  - (* Change *) cbn [d_changes]. eauto.
  - destruct prev as [[]|]; try discriminate Hord; cbn [depth_of sid_depth Shape] in Hsh;
      destruct Hsh as (cs & c & Ecs); unfold on_last_change; cbn [d_changes]; rewrite Ecs, map_last_app; eauto.
  - destruct prev as [[]|]; try discriminate Hord; cbn [depth_of sid_depth Shape] in Hsh;
      destruct Hsh as (cs & c & Ecs); unfold on_last_change; cbn [d_changes]; rewrite Ecs, map_last_app; eauto.
  - (* File *)
    assert (Hd : 1 <= depth_of prev) by (destruct prev as [[]|]; try discriminate Hord; cbn; lia).
    destruct (Shape_change _ _ Hd Hsh) as (cs & c & Ecs).
    unfold on_last_change; cbn [d_changes]. rewrite Ecs, map_last_app.
    exists cs, (c_opts c), (c_pre c), (c_meta c), (c_files c). eexists. reflexivity.
  - destruct prev as [[]|]; try discriminate Hord; cbn [depth_of sid_depth Shape] in Hsh;
      destruct Hsh as (cs & co & cp & cm & fs & f & Ecs); unfold on_last_file, on_last_change; cbn [d_changes];
      rewrite Ecs, map_last_app; unfold Ch; cbn [c_files c_opts c_pre c_meta]; rewrite map_last_app;
      exists cs, co, cp, cm, fs; eexists; reflexivity.
  - destruct prev as [[]|]; try discriminate Hord; cbn [depth_of sid_depth Shape] in Hsh;
      destruct Hsh as (cs & co & cp & cm & fs & f & Ecs); unfold on_last_file, on_last_change; cbn [d_changes];
      rewrite Ecs, map_last_app; unfold Ch; cbn [c_files c_opts c_pre c_meta]; rewrite map_last_app;
      exists cs, co, cp, cm, fs; eexists; reflexivity.
Qed.

(* the first section the DOM reader rejects decides the exception *)
Fixpoint first_error (ss : list fsection) : exn :=
  match ss with
  | [] => ELibParse
  | s :: t => if sec_accepts s then first_error t else sec_error s
  end.
Definition dom_error (f : ffile) : exn := first_error (ff_sections f).

Lemma run_read : forall ss prev x t line,
  wf_secs prev x ss = true -> Shape (depth_of prev) t ->
  apply_records (t, cursor_of prev) (records_secs line ss) =
  (if forallb sec_accepts ss then Ok (tree_of_secs t ss, cursor_of (last_sid prev ss)) else Err (first_error ss)).
Proof.
  induction ss as [|s ss IH]; intros prev x t line Hwf Hsh; [reflexivity|].
  cbn [wf_secs] in Hwf. apply andb_true_iff in Hwf. destruct Hwf as [Hs Hss].
  cbn [records_secs apply_records forallb first_error last_sid tree_of_secs fold_left].
  rewrite (step_read prev x s t line Hs Hsh).
  destruct (sec_accepts s) eqn:Ea; cbn [bind andb]; [|reflexivity].
  apply (IH (Some (fs_id s)) (ectx_next x s)); [exact Hss|].
  exact (step_shape prev x s t Hs Hsh).
Qed.

Lemma default_chunk_pos : 0 < default_chunk.
Proof. vm_compute. lia. Qed.

(* (A): what the object model reads from a well-formed file of any producer *)
Theorem foreign_read : forall f orc,
  wf_file f = true -> oracle_ok_file orc f ->
  (Z.of_nat (length (render_file f)) <= sys_maxsize)%Z ->
  dom_read orc (render_file f) = (if dom_accepts f then Ok (tree_of_file f) else Err (dom_error f)).
Proof.
  intros f orc Hwf Horc Hsz. unfold dom_read.
  rewrite (SpecReaderFacts.C03_reads_spec f orc default_chunk Hwf Horc default_chunk_pos Hsz).
  unfold wf_file in Hwf. apply andb_true_iff in Hwf. destruct Hwf as [Hsecs _].
  unfold spec_records. change (new_tree, AtMain) with (new_tree, cursor_of None).
  rewrite (run_read (ff_sections f) None ectx0 new_tree 0 Hsecs I).
  unfold dom_accepts, dom_error, tree_of_file. destruct (forallb sec_accepts (ff_sections f)); reflexivity.
Qed.

Corollary foreign_read_ok : forall f orc,
  wf_file f = true -> oracle_ok_file orc f -> (Z.of_nat (length (render_file f)) <= sys_maxsize)%Z ->
  dom_accepts f = true -> dom_read orc (render_file f) = Ok (tree_of_file f).
Proof. intros f orc H1 H2 H3 H4. rewrite (foreign_read f orc H1 H2 H3), H4. reflexivity. Qed.

Corollary foreign_read_inv : forall f orc t,
  wf_file f = true -> oracle_ok_file orc f -> (Z.of_nat (length (render_file f)) <= sys_maxsize)%Z ->
  dom_read orc (render_file f) = Ok t -> dom_accepts f = true /\ t = tree_of_file f.
Proof.
  intros f orc t H1 H2 H3 H. rewrite (foreign_read f orc H1 H2 H3) in H.
  destruct (dom_accepts f); [|discriminate]. injection H as <-. auto.
Qed.

Corollary foreign_accepts_iff : forall f orc,
  wf_file f = true -> oracle_ok_file orc f -> (Z.of_nat (length (render_file f)) <= sys_maxsize)%Z ->
  (dom_accepts f = true <-> exists t, dom_read orc (render_file f) = Ok t).
Proof.
  intros f orc H1 H2 H3. split.
  - intro H. eexists. apply foreign_read_ok; assumption.
  - intros [t H]. exact (proj1 (foreign_read_inv f orc t H1 H2 H3 H)).
Qed.

(* ================================================================================================ *)
(** * Stage 2 (B): re-serialising succeeds *)

(** ** options dicts *)

Lemma beq_eq : forall a b : bytes, beq a b = true <-> a = b.
Proof. exact SectionsSpec.beq_eq. Qed.

Lemma dopts_get : forall (o : options) k,
  assoc_get beq k (dopts_of_options o) = option_map wv_of_pv (assoc_get beq k o).
Proof.
  induction o as [|[k0 v0] o IH]; intro k; [reflexivity|].
  cbn [dopts_of_options map assoc_get fst snd]. destruct (beq k k0); [reflexivity | apply IH].
Qed.

Lemma dopts_keys : forall (o : options), map fst (dopts_of_options o) = map fst o.
Proof. induction o as [|[k v] o IH]; [reflexivity|]. cbn. f_equal. exact IH. Qed.

Lemma fold_opts_keys : forall conv ps acc k,
  In k (map fst (fold_left (HeaderFacts.opts_step conv) ps acc)) -> In k (map fst acc) \/ In k (map fst ps).
Proof.
  intros conv. induction ps as [|p ps IH]; intros acc k H; [left; exact H|].
  cbn [fold_left] in H. apply IH in H. destruct H as [H|H]; [|right; right; exact H].
  unfold HeaderFacts.opts_step in H. apply WriterCanonFacts.assoc_set_keys_in in H.
  destruct H as [->|H]; [right; left; reflexivity | left; exact H].
Qed.

Lemma opts_of_keys : forall conv ps k, In k (map fst (HeaderFacts.opts_of conv ps)) -> In k (map fst ps).
Proof. intros conv ps k H. apply fold_opts_keys in H. destruct H as [[]|H]. exact H. Qed.

Lemma fold_opts_nodup : forall conv ps (acc : options),
  NoDup (map fst acc) -> NoDup (map fst (fold_left (HeaderFacts.opts_step conv) ps acc)).
Proof.
  intros conv. induction ps as [|p ps IH]; intros acc H; [exact H|].
  cbn [fold_left]. apply IH. unfold HeaderFacts.opts_step. apply WriterCanonFacts.assoc_set_nodup. exact H.
Qed.

Lemma opts_of_nodup : forall conv ps, NoDup (map fst (HeaderFacts.opts_of conv ps)).
Proof. intros. apply fold_opts_nodup. constructor. Qed.

Lemma adel_keys_gen {V} : forall (o : list (bytes * V)) k k',
  In k' (map fst (assoc_del beq k o)) <-> In k' (map fst o) /\ k' <> k.
Proof.
  induction o as [|[k0 v0] o IH]; cbn; intros k k'; [tauto|].
  destruct (beq k k0) eqn:E.
  - apply beq_eq in E. subst k0. rewrite IH. split; [tauto|]. intros [[F|F] N]; [congruence|tauto].
  - cbn. rewrite IH. split; [|tauto]. intros [F|F]; [|tauto]. subst. split; auto. intro; subst.
    rewrite (proj2 (beq_eq k k) eq_refl) in E. discriminate.
Qed.

Lemma adel_nodup {V} : forall (o : list (bytes * V)) k, NoDup (map fst o) -> NoDup (map fst (assoc_del beq k o)).
Proof.
  induction o as [|[k0 v0] o IH]; intros k H; [constructor|].
  cbn [map fst] in H. inversion H as [|? ? Hn Hd]; subst. cbn [assoc_del].
  destruct (beq k k0); [apply IH; exact Hd|]. cbn [map fst]. constructor; [|apply IH; exact Hd].
  intro Hin. apply adel_keys_gen in Hin. tauto.
Qed.

Lemma sec_dopts_unique : forall s, keys_unique (sec_dopts s) = true.
Proof.
  intro s. apply DomFacts.keys_unique_NoDup. unfold sec_dopts. rewrite dopts_keys. apply opts_of_nodup.
Qed.

Lemma sec_copts_unique : forall s, keys_unique (sec_copts s) = true.
Proof.
  intro s. apply DomFacts.keys_unique_NoDup. unfold sec_copts, content_options. rewrite dopts_keys.
  apply adel_nodup. apply opts_of_nodup.
Qed.

Lemma sec_dopts_keys : forall s k, In k (map fst (sec_dopts s)) -> In k (map fst (fs_opts s)).
Proof. intros s k H. unfold sec_dopts in H. rewrite dopts_keys in H. eapply opts_of_keys; eauto. Qed.

Lemma sec_copts_keys : forall s k, In k (map fst (sec_copts s)) -> In k (map fst (fs_opts s)) /\ k <> B "length".
Proof.
  intros s k H. unfold sec_copts, content_options in H. rewrite dopts_keys in H.
  apply adel_keys_gen in H. destruct H as [H N]. split; [eapply opts_of_keys; eauto | exact N].
Qed.

(* the value of an option as the object model holds it *)
Definition wval (v : option bytes) : wv := match v with Some x => wv_of_pv (spec_conv x) | None => WNone end.

Lemma sec_dopts_get : forall s k, assoc_get beq (B k) (sec_dopts s) = option_map (fun v => wv_of_pv (spec_conv v)) (opt k (fs_opts s)).
Proof.
  intros s k. unfold sec_dopts. rewrite dopts_get, HeaderFacts.get_opts_of. unfold opt.
  destruct (HeaderFacts.last_val (B k) (fs_opts s)); reflexivity.
Qed.

Lemma sec_copts_get : forall s k, B k <> B "length" ->
  assoc_get beq (B k) (sec_copts s) = option_map (fun v => wv_of_pv (spec_conv v)) (opt k (fs_opts s)).
Proof.
  intros s k N. unfold sec_copts, content_options. rewrite dopts_get.
  rewrite (DomFacts.aget_del_other beq beq_eq (B "length") (B k)) by (intro E; apply N; symmetry; exact E).
  rewrite HeaderFacts.get_opts_of. unfold opt. destruct (HeaderFacts.last_val (B k) (fs_opts s)); reflexivity.
Qed.

Lemma kw_dopts : forall s k, kw (sec_dopts s) k = wval (opt k (fs_opts s)).
Proof. intros s k. unfold kw. rewrite sec_dopts_get. destruct (opt k (fs_opts s)); reflexivity. Qed.

Lemma kw_copts : forall s k, B k <> B "length" -> kw (sec_copts s) k = wval (opt k (fs_opts s)).
Proof. intros s k N. unfold kw. rewrite (sec_copts_get s k N). destruct (opt k (fs_opts s)); reflexivity. Qed.

Lemma kw_opt_copts : forall s k, B k <> B "length" ->
  kw_opt (sec_copts s) k = option_map (fun v => wv_of_pv (spec_conv v)) (opt k (fs_opts s)).
Proof. intros s k N. unfold kw_opt. apply sec_copts_get. exact N. Qed.

(* [keys_in]: every key of the header is one of the allowed names *)
Lemma keys_in_In : forall ps al k, keys_in ps al = true -> In k (map fst ps) -> exists a, In a al /\ k = B a.
Proof.
  intros ps al k H Hin. unfold keys_in in H. rewrite forallb_forall in H.
  apply in_map_iff in Hin. destruct Hin as [p [<- Hp]]. specialize (H p Hp).
  apply existsb_exists in H. destruct H as [a [Ha E]]. exists a. split; [exact Ha | apply beq_eq; exact E].
Qed.

Lemma only_keys_intro : forall (o : dopts) al,
  (forall k, In k (map fst o) -> exists a, In a al /\ k = B a) -> only_keys o al = true.
Proof.
  intros o al H. unfold only_keys. apply forallb_forall. intros p Hp.
  destruct (H (fst p) (in_map fst _ _ Hp)) as [a [Ha E]].
  apply existsb_exists. exists a. split; [exact Ha | apply beq_eq; exact E].
Qed.

Lemma remap_keys : forall name (o : dopts) k, In k (map fst (remap name o)) -> exists k0, In k0 (map fst o) /\ k = ren name k0.
Proof.
  intros name o k.
  assert (G : forall (l acc : dopts),
            In k (map fst (fold_left (fun acc p => assoc_set beq (ren name (fst p)) (snd p) acc) l acc)) ->
            In k (map fst acc) \/ exists k0, In k0 (map fst l) /\ k = ren name k0).
  { induction l as [|p l IH]; intros acc H; [left; exact H|].
    cbn [fold_left] in H. apply IH in H. destruct H as [H|[k0 [H1 H2]]].
    - apply WriterCanonFacts.assoc_set_keys_in in H. destruct H as [->|H]; [|left; exact H].
      right. exists (fst p). split; [left; reflexivity | reflexivity].
    - right. exists k0. split; [right; exact H1 | exact H2]. }
  intro H. destruct (G o [] H) as [[]|H']. exact H'.
Qed.

Lemma last_val_in : forall k ps, In k (map fst ps) -> exists v, HeaderFacts.last_val k ps = Some v.
Proof.
  intros k. induction ps as [|p ps IH]; intros H; [destruct H|].
  cbn [HeaderFacts.last_val]. destruct (HeaderFacts.last_val k ps) as [w|] eqn:E; [eauto|].
  cbn [map In] in H. destruct H as [H|H].
  - subst k. rewrite (proj2 (beq_eq (fst p) (fst p)) eq_refl). eauto.
  - destruct (IH H) as [v Hv]. discriminate Hv.
Qed.

Lemma opt_none_notin : forall k ps, opt k ps = None -> ~ In (B k) (map fst ps).
Proof. intros k ps H Hin. destruct (last_val_in _ _ Hin) as [v Hv]. unfold opt in H. congruence. Qed.

(** ** the thunk of each content section, under [sec_opts_known] *)

Lemma kind_known_pre : forall a, sid_kind a = SPreamble ->
  known_keys a = ["encoding"; "indent"; "length"; "line_endings"; "mimetype"].
Proof. destruct a; intro H; try discriminate H; reflexivity. Qed.
Lemma kind_known_meta : forall a, sid_kind a = SMeta -> known_keys a = ["encoding"; "format"; "length"; "line_endings"].
Proof. destruct a; intro H; try discriminate H; reflexivity. Qed.
Lemma kind_known_diff : forall a, sid_kind a = SDiff -> known_keys a = ["encoding"; "length"; "line_endings"; "type"].
Proof. destruct a; intro H; try discriminate H; reflexivity. Qed.

Lemma pre_only_keys : forall s, sid_kind (fs_id s) = SPreamble -> sec_opts_known s = true ->
  only_keys (sec_copts s) ["encoding"; "indent"; "line_endings"; "mimetype"] = true.
Proof.
  intros s Hk Hkn. apply only_keys_intro. intros k Hin. apply sec_copts_keys in Hin. destruct Hin as [Hin N].
  unfold sec_opts_known in Hkn. rewrite (kind_known_pre _ Hk) in Hkn.
  destruct (keys_in_In _ _ _ Hkn Hin) as [a [Ha ->]].
  destruct Ha as [<-|[<-|[<-|[<-|[<-|[]]]]]]; try (eexists; split; [|reflexivity]; cbn; tauto).
Qed.

(* pydiffx fix D15: the DOM writer drops a metadata section's [line_endings] before building the keyword arguments,
   so (unlike before the fix) no premise about that option is needed *)
Lemma meta_only_keys : forall s, sid_kind (fs_id s) = SMeta -> sec_opts_known s = true ->
  only_keys (assoc_del beq (B "line_endings") (sec_copts s)) ["encoding"; "format"] = true.
Proof.
  intros s Hk Hkn. apply only_keys_intro. intros k Hin. apply adel_keys_gen in Hin. destruct Hin as [Hin Nle].
  apply sec_copts_keys in Hin. destruct Hin as [Hin N].
  unfold sec_opts_known in Hkn. rewrite (kind_known_meta _ Hk) in Hkn.
  destruct (keys_in_In _ _ _ Hkn Hin) as [a [Ha ->]].
  destruct Ha as [<-|[<-|[<-|[<-|[]]]]]; try (eexists; split; [|reflexivity]; cbn; tauto).
  all: exfalso; apply Nle; reflexivity.
Qed.

Lemma meta_copts_del_unique : forall s, keys_unique (assoc_del beq (B "line_endings") (sec_copts s)) = true.
Proof.
  intro s. apply DomFacts.keys_unique_NoDup. apply adel_nodup. apply DomFacts.keys_unique_NoDup. apply sec_copts_unique.
Qed.

(* the keyword arguments of write_meta are the plain lookups of [encoding] and [format] in the section's options *)
Lemma meta_kw_del : forall s, sid_kind (fs_id s) = SMeta -> sec_opts_known s = true ->
  kw (remap "meta" (assoc_del beq (B "line_endings") (sec_copts s))) "encoding" = kw (sec_copts s) "encoding" /\
  kw_opt (remap "meta" (assoc_del beq (B "line_endings") (sec_copts s))) "meta_format" = kw_opt (sec_copts s) "format".
Proof.
  intros s Hk Hkn.
  destruct (remap_kw_meta _ (meta_copts_del_unique s) (meta_only_keys s Hk Hkn)) as [E1 E2].
  rewrite E1, E2. unfold kw, kw_opt.
  rewrite !(DomFacts.aget_del_other beq beq_eq (B "line_endings")) by discriminate. split; reflexivity.
Qed.

Lemma diff_only_keys : forall s, sid_kind (fs_id s) = SDiff -> sec_opts_known s = true ->
  only_keys (sec_copts s) ["encoding"; "line_endings"; "type"] = true.
Proof.
  intros s Hk Hkn. apply only_keys_intro. intros k Hin. apply sec_copts_keys in Hin. destruct Hin as [Hin N].
  unfold sec_opts_known in Hkn. rewrite (kind_known_diff _ Hk) in Hkn.
  destruct (keys_in_In _ _ _ Hkn Hin) as [a [Ha ->]].
  destruct Ha as [<-|[<-|[<-|[<-|[]]]]]; try (eexists; split; [|reflexivity]; cbn; tauto).
Qed.

Lemma remap_only_keys_meta : forall o, only_keys o ["encoding"; "format"] = true ->
  only_keys (remap "meta" o) ["encoding"; "meta_format"] = true.
Proof.
  intros o H. apply only_keys_intro. intros k Hin. apply remap_keys in Hin. destruct Hin as [k0 [Hk0 ->]].
  apply in_map_iff in Hk0. destruct Hk0 as [p [<- Hp]].
  destruct (only_keys_In _ _ _ H Hp) as [a [Ha ->]].
  destruct Ha as [<-|[<-|[]]]; eexists; (split; [|reflexivity]); cbn; tauto.
Qed.

Lemma remap_only_keys_diff : forall o, only_keys o ["encoding"; "line_endings"; "type"] = true ->
  only_keys (remap "diff" o) ["diff_type"; "encoding"; "line_endings"] = true.
Proof.
  intros o H. apply only_keys_intro. intros k Hin. apply remap_keys in Hin. destruct Hin as [k0 [Hk0 ->]].
  apply in_map_iff in Hk0. destruct Hk0 as [p [<- Hp]].
  destruct (only_keys_In _ _ _ H Hp) as [a [Ha ->]].
  destruct Ha as [<-|[<-|[<-|[]]]]; eexists; (split; [|reflexivity]); cbn; tauto.
Qed.

Lemma is_nil_false {A} : forall l : list A, l <> [] -> is_nil l = false.
Proof. intros [|x l] H; [congruence | reflexivity]. Qed.

Lemma pre_thunk : forall s txt, sid_kind (fs_id s) = SPreamble -> sec_opts_known s = true ->
  sec_payload s = PText txt -> txt <> [] ->
  exists c, sec_calls s = [c] /\ call_preamble (sec_psec s) = Ok (Some c) /\
            c = WritePreamble (WStr txt) (wopt "encoding" s) (kw_opt (sec_copts s) "indent")
                              (wopt "line_endings" s) (wopt "mimetype" s).
Proof.
  intros s txt Hk Hkn Hp Hne. eexists. split; [|split; [|reflexivity]].
  - unfold sec_calls, payload_text. rewrite Hp. destruct (fs_id s); try discriminate Hk; reflexivity.
  - unfold call_preamble, sec_psec, payload_text. rewrite Hp. cbn [p_content p_opts].
    rewrite (is_nil_false _ Hne), (pre_only_keys s Hk Hkn). reflexivity.
Qed.

Lemma meta_thunk : forall s kv, sid_kind (fs_id s) = SMeta -> sec_opts_known s = true ->
  sec_payload s = PMeta (JObj kv) ->
  exists oc, sec_calls s = olist oc /\ call_meta (sec_msec s) = Ok oc /\
             oc = match kv with
                  | [] => None
                  | _ => Some (WriteMeta (WDict (JObj kv)) (wopt "encoding" s) (kw_opt (sec_copts s) "format"))
                  end.
Proof.
  intros s kv Hk Hkn Hp. eexists. split; [|split; [|reflexivity]].
  - unfold sec_calls, payload_kv. rewrite Hp. destruct (fs_id s); try discriminate Hk; destruct kv; reflexivity.
  - pose proof (meta_only_keys s Hk Hkn) as Hok.
    destruct (meta_kw_del s Hk Hkn) as [E1 E2].
    unfold call_meta, sec_msec, payload_kv. rewrite Hp. cbn [m_content m_opts].
    destruct kv as [|p kv]; [reflexivity|]. cbn [is_nil].
    rewrite (remap_only_keys_meta _ Hok), E1, E2. reflexivity.
Qed.

Lemma diff_thunk : forall s b, sid_kind (fs_id s) = SDiff -> sec_opts_known s = true ->
  sec_payload s = PBytes b -> b <> [] ->
  exists c, sec_calls s = [c] /\ call_diff (sec_dsec s) = Ok (Some c) /\
            c = WriteDiff (WBytes b) (wopt "type" s) (wopt "encoding" s) (wopt "line_endings" s).
Proof.
  intros s b Hk Hkn Hp Hne. eexists. split; [|split; [|reflexivity]].
  - unfold sec_calls, payload_bytes. rewrite Hp. destruct (fs_id s); try discriminate Hk; reflexivity.
  - pose proof (diff_only_keys s Hk Hkn) as Hok.
    destruct (remap_kw_diff (sec_copts s) (sec_copts_unique s) Hok) as [E1 [E2 E3]].
    unfold call_diff, sec_dsec, payload_bytes. rewrite Hp. cbn [x_content x_opts].
    rewrite (is_nil_false _ Hne), (remap_only_keys_diff _ Hok), E1, E2, E3. reflexivity.
Qed.

(** ** container headers carrying at most an encoding *)

Lemma enc_wval : forall ps, enc_opt_ok ps = true -> wval (opt "encoding" ps) = wenc (opt "encoding" ps).
Proof.
  intros ps H. unfold enc_opt_ok in H. destruct (opt "encoding" ps) as [e|]; [|reflexivity].
  cbn [wval wenc]. destruct (codec_of e) as [c|] eqn:Ec; [|discriminate H].
  rewrite (SpecReaderBase.spec_conv_str e (SpecReaderContent.codec_of_not_int e c Ec)). reflexivity.
Qed.

Lemma unique_single : forall (o : dopts) k, keys_unique o = true -> (forall k', In k' (map fst o) -> k' = k) ->
  o = match assoc_get beq k o with Some v => [(k, v)] | None => [] end.
Proof.
  intros o k Hu Hk. destruct o as [|[k1 v1] o]; [reflexivity|].
  assert (E1 : k1 = k) by (apply Hk; left; reflexivity). subst k1.
  cbn [assoc_get]. rewrite (proj2 (beq_eq k k) eq_refl).
  destruct o as [|[k2 v2] o]; [reflexivity|].
  assert (E2 : k2 = k) by (apply Hk; right; left; reflexivity). subst k2.
  cbn [keys_unique existsb fst] in Hu. rewrite (proj2 (beq_eq k k) eq_refl) in Hu. discriminate Hu.
Qed.

Lemma container_dopts : forall s, keys_in (fs_opts s) ["encoding"] = true -> enc_opt_ok (fs_opts s) = true ->
  sec_dopts s = match opt "encoding" (fs_opts s) with None => [] | Some e => [(B "encoding", WStr (ascii_text e))] end.
Proof.
  intros s Hk He.
  rewrite (unique_single (sec_dopts s) (B "encoding") (sec_dopts_unique s)).
  - pose proof (kw_dopts s "encoding") as Hkw. unfold kw in Hkw. rewrite (enc_wval _ He) in Hkw.
    rewrite sec_dopts_get in *. destruct (opt "encoding" (fs_opts s)) as [e|]; cbn [option_map wenc] in *; [|reflexivity].
    rewrite Hkw. reflexivity.
  - intros k' Hin. apply sec_dopts_keys in Hin. destruct (keys_in_In _ _ _ Hk Hin) as [a [[<-|[]] ->]]. reflexivity.
Qed.

Definition enc_dopts (e : option bytes) : dopts :=
  match e with None => [] | Some eb => [(B "encoding", WStr (ascii_text eb))] end.

Lemma change_of_known : forall s, keys_in (fs_opts s) ["encoding"] = true -> enc_opt_ok (fs_opts s) = true ->
  change_of s = Ok (Ch (enc_dopts (opt "encoding" (fs_opts s))) new_psec new_msec []).
Proof.
  intros s Hk He. unfold change_of. rewrite (container_dopts s Hk He).
  destruct (opt "encoding" (fs_opts s)) as [e|]; reflexivity.
Qed.

Lemma file_of_known : forall s, keys_in (fs_opts s) ["encoding"] = true -> enc_opt_ok (fs_opts s) = true ->
  file_of s = Ok (Fi (enc_dopts (opt "encoding" (fs_opts s))) new_msec new_dsec).
Proof.
  intros s Hk He. unfold file_of. rewrite (container_dopts s Hk He).
  destruct (opt "encoding" (fs_opts s)) as [e|]; reflexivity.
Qed.

Lemma container_call : forall name e,
  some_call (call_container name (enc_dopts e)) =
  Ok (Some (if String.eqb name "change" then NewChange (wenc e) else NewFile (wenc e))).
Proof.
  intros name e. unfold some_call, call_container.
  assert (Hk : only_keys (enc_dopts e) ["encoding"] = true) by (destruct e; reflexivity).
  rewrite Hk. cbn [negb].
  assert (E : kw (enc_dopts e) "encoding" = wenc e) by (destruct e; reflexivity).
  rewrite E. destruct (String.eqb name "change"); reflexivity.
Qed.

(** ** the call list of the tree, one section at a time *)

Lemma collect_append : forall l l' cs cs', collect l = Ok cs -> collect l' = Ok cs' -> collect (l ++ l') = Ok (cs ++ cs').
Proof. intros l l' cs cs' H H'. rewrite collect_app, H, H'. reflexivity. Qed.

Lemma collect_nones : forall R, Forall (fun th => th = Ok None) R -> collect R = Ok [].
Proof. induction 1 as [|th R H _ IH]; [reflexivity|]. subst th. exact IH. Qed.

Lemma collect_replace : forall L R oc cs, Forall (fun th => th = Ok None) R ->
  collect (L ++ Ok None :: R) = Ok cs -> collect (L ++ Ok oc :: R) = Ok (cs ++ olist oc).
Proof.
  intros L R oc cs HR H. rewrite collect_app in *.
  destruct (collect L) as [x|e]; [|discriminate H]. cbn [bind] in *.
  change (collect (Ok None :: R)) with (collect R) in H. rewrite (collect_nones R HR) in H. cbn [bind] in H.
  injection H as <-. rewrite app_nil_r.
  destruct oc as [c|]; cbn [collect olist]; rewrite (collect_nones R HR); cbn [bind]; [reflexivity|].
  rewrite !app_nil_r. reflexivity.
Qed.

Lemma thunks_last_change : forall O p M cs co cp cm fs,
  tree_thunks (T O p M (cs ++ [Ch co cp cm fs])) =
  ([call_preamble p; call_meta M] ++ flat_map change_thunks cs ++ [some_call (call_container "change" co)])
  ++ call_preamble cp :: call_meta cm :: flat_map file_thunks fs.
Proof.
  intros. unfold tree_thunks, T. cbn [d_pre d_meta d_changes]. rewrite flat_map_app. cbn [flat_map].
  rewrite app_nil_r. unfold change_thunks at 2, Ch. cbn [c_opts c_pre c_meta c_files].
  rewrite <- !app_assoc. reflexivity.
Qed.

Lemma thunks_last_file : forall O p M cs co cp cm fs fo fm fd,
  tree_thunks (T O p M (cs ++ [Ch co cp cm (fs ++ [Fi fo fm fd])])) =
  ((([call_preamble p; call_meta M] ++ flat_map change_thunks cs ++ [some_call (call_container "change" co)])
    ++ call_preamble cp :: call_meta cm :: flat_map file_thunks fs) ++ [some_call (call_container "file" fo)])
  ++ [call_meta fm; call_diff fd].
Proof.
  intros. rewrite thunks_last_change, flat_map_app. cbn [flat_map]. rewrite app_nil_r.
  unfold file_thunks at 2, Fi. cbn [f_opts f_meta f_diff]. rewrite <- !app_assoc. reflexivity.
Qed.

(* what has not been filled yet when the last section read is [prev] *)
Definition Fresh (prev : option sid) (t : dtree) : Prop :=
  match prev with
  | None | Some Main => d_pre t = new_psec /\ d_meta t = new_msec /\ d_changes t = []
  | Some MainPreamble => d_meta t = new_msec /\ d_changes t = []
  | Some MainMeta => d_changes t = []
  | Some Change => exists cs co, d_changes t = cs ++ [Ch co new_psec new_msec []]
  | Some ChangePreamble => exists cs co cp, d_changes t = cs ++ [Ch co cp new_msec []]
  | Some ChangeMeta => exists cs co cp cm, d_changes t = cs ++ [Ch co cp cm []]
  | Some File => exists cs co cp cm fs fo, d_changes t = cs ++ [Ch co cp cm (fs ++ [Fi fo new_msec new_dsec])]
  | Some FileMeta => exists cs co cp cm fs fo fm, d_changes t = cs ++ [Ch co cp cm (fs ++ [Fi fo fm new_dsec])]
  | Some FileDiff => exists cs co cp cm fs f, d_changes t = cs ++ [Ch co cp cm (fs ++ [f])]
  end.

Lemma Fresh_Shape : forall prev t, Fresh prev t -> Shape (depth_of prev) t.
Proof.
  intros [[]|] t H; cbn [depth_of sid_depth Shape Fresh] in *; try exact I.
  - destruct H as (cs & co & E). eauto.
  - destruct H as (cs & co & cp & E). eauto.
  - destruct H as (cs & co & cp & cm & E). eauto.
  - destruct H as (cs & co & cp & cm & fs & fo & E). do 5 eexists. eexists. exact E.
  - destruct H as (cs & co & cp & cm & fs & fo & fm & E). do 5 eexists. eexists. exact E.
  - exact H.
Qed.

(* what well-formedness says about each kind of section *)
Lemma wf_parts : forall prev x s, wf_section prev x s = true ->
  order_ok prev (fs_id s) = true /\ forallb pair_ok (fs_opts s) = true /\ enc_opt_ok (fs_opts s) = true /\
  match sid_kind (fs_id s), fs_content s with
  | SContainer, None => match fs_id s with Main => version_ok (fs_opts s) = true | _ => True end
  | SPreamble, Some (FText t) => text_ok x s t = true /\ indent_ok (fs_opts s) = true
  | SMeta, Some (FMeta t _) => text_ok x s t = true /\ format_ok (fs_opts s) = true
  | SPreamble, Some (FRawText ls k) => raw_ok x s ls k = true /\ indent_ok (fs_opts s) = true
  | SMeta, Some (FRawMeta ls k _) => raw_ok x s ls k = true /\ format_ok (fs_opts s) = true
  | SDiff, Some (FDiff raw k) => diff_ok s raw k = true
  | _, _ => False
  end.
Proof.
  intros prev x s H. unfold wf_section in H. rewrite !andb_true_iff in H. destruct H as [[[[H1 _] H2] H3] H4].
  repeat split; try assumption.
  destruct (sid_kind (fs_id s)); destruct (fs_content s) as [[t|t j|ls k|ls k j|raw k]|]; try discriminate H4;
    try (apply andb_true_iff in H4; exact H4); try exact H4.
  destruct (fs_id s); try exact I. exact H4.
Qed.

Lemma joined_nonempty : forall t, nonempty (tc_lines t) = true -> joined t <> [].
Proof.
  intros t H. unfold joined. destruct (tc_lines t) as [|l ls]; [discriminate H|]. cbn [map concat].
  destruct (tc_kind t); destruct l; cbn; discriminate.
Qed.

Lemma wf_pre_text : forall prev x s txt, wf_section prev x s = true -> sid_kind (fs_id s) = SPreamble ->
  sec_payload s = PText txt ->
  exists t, fs_content s = Some (FText t) /\ txt = joined t /\ text_ok x s t = true /\ indent_ok (fs_opts s) = true.
Proof.
  intros prev x s txt Hwf Hk Hp. destruct (wf_parts _ _ _ Hwf) as (_ & _ & _ & H). rewrite Hk in H.
  unfold sec_payload in Hp. destruct (fs_content s) as [[t|t j|ls k|ls k j|raw k]|]; try contradiction; try discriminate Hp.
  injection Hp as <-. destruct H as [H1 H2]. eauto.
Qed.

Lemma wf_diff_bytes : forall prev x s b, wf_section prev x s = true -> sid_kind (fs_id s) = SDiff ->
  sec_payload s = PBytes b -> exists k, fs_content s = Some (FDiff b k) /\ diff_ok s b k = true.
Proof.
  intros prev x s b Hwf Hk Hp. destruct (wf_parts _ _ _ Hwf) as (_ & _ & _ & H). rewrite Hk in H.
  unfold sec_payload in Hp. destruct (fs_content s) as [[t|t j|ls k|ls k j|raw k]|]; try contradiction; try discriminate Hp.
  injection Hp as <-. eauto.
Qed.

Lemma pre_text_nonempty : forall prev x s txt, wf_section prev x s = true -> sid_kind (fs_id s) = SPreamble ->
  sec_payload s = PText txt -> txt <> [].
Proof.
  intros prev x s txt Hwf Hk Hp. destruct (wf_pre_text _ _ _ _ Hwf Hk Hp) as (t & _ & -> & Ht & _).
  apply joined_nonempty. unfold text_ok in Ht. destruct (text_codec x s); [|discriminate Ht].
  rewrite !andb_true_iff in Ht. tauto.
Qed.

Lemma diff_bytes_nonempty : forall prev x s b, wf_section prev x s = true -> sid_kind (fs_id s) = SDiff ->
  sec_payload s = PBytes b -> b <> [].
Proof.
  intros prev x s b Hwf Hk Hp. destruct (wf_diff_bytes _ _ _ _ Hwf Hk Hp) as (k & _ & Hd).
  unfold diff_ok in Hd. destruct (diff_codec s); [|discriminate Hd]. rewrite !andb_true_iff in Hd.
  destruct Hd as [[[Hn _] _] _]. destruct b; [discriminate Hn | discriminate].
Qed.

Lemma thunks_snoc_change : forall O p M cs c,
  tree_thunks (T O p M (cs ++ [c])) = tree_thunks (T O p M cs) ++ change_thunks c.
Proof.
  intros. unfold tree_thunks, T. cbn [d_pre d_meta d_changes]. rewrite flat_map_app. cbn [flat_map].
  rewrite app_nil_r, app_assoc. reflexivity.
Qed.

Lemma thunks_snoc_file : forall O p M cs co cp cm fs f,
  tree_thunks (T O p M (cs ++ [Ch co cp cm (fs ++ [f])])) = tree_thunks (T O p M (cs ++ [Ch co cp cm fs])) ++ file_thunks f.
Proof.
  intros. rewrite !thunks_last_change, flat_map_app. cbn [flat_map]. rewrite app_nil_r.
  rewrite <- !app_assoc. cbn [app]. reflexivity.
Qed.

Lemma change_eta : forall c, c = Ch (c_opts c) (c_pre c) (c_meta c) (c_files c).
Proof. destruct c; reflexivity. Qed.

Lemma nones1 : Forall (fun th : thunk => th = Ok None) [Ok None].
Proof. constructor; [reflexivity | constructor]. Qed.
Lemma nones0 : Forall (fun th : thunk => th = Ok None) [].
Proof. constructor. Qed.

Lemma app_cons_assoc {A} : forall (L : list A) a R, L ++ a :: R = (L ++ [a]) ++ R.
Proof. intros. rewrite <- app_assoc. reflexivity. Qed.

(* one section: the tree's call list grows by the calls of the section *)
Lemma step_calls : forall prev x s t cs,
  wf_section prev x s = true -> sec_opts_known s = true -> sec_accepts s = true ->
  Fresh prev t -> tree_calls t = Ok cs ->
  Fresh (Some (fs_id s)) (tof_step t s) /\ tree_calls (tof_step t s) = Ok (cs ++ sec_calls s).
Proof.
  intros prev x s t cs Hwf Hkn Hacc Hfr Hcs.
  destruct (wf_parts _ _ _ Hwf) as (Hord & _ & Henc & _).
  pose proof (wf_payload _ _ _ Hwf) as Hpay.
  destruct t as [O p M chs]. unfold tree_calls in *.
  unfold sec_accepts in Hacc. unfold tof_step.
  destruct (fs_id s) eqn:Eid; cbn [sid_kind d_opts d_pre d_meta d_changes] in *.
  - (* Main *)
    destruct prev as [a|]; [destruct a; discriminate Hord|]. cbn [Fresh d_pre d_meta d_changes] in *.
    split; [exact Hfr|]. unfold sec_calls. rewrite Eid, app_nil_r. exact Hcs.
  - (* MainPreamble *)
    destruct prev as [[]|]; try discriminate Hord. cbn [Fresh d_pre d_meta d_changes] in *.
    destruct Hfr as (-> & -> & ->).
    destruct (sec_payload s) as [|txt| |] eqn:Ep; try discriminate Hacc.
    assert (Hk : sid_kind (fs_id s) = SPreamble) by (rewrite Eid; reflexivity).
    destruct (pre_thunk s txt Hk Hkn Ep (pre_text_nonempty _ _ _ _ Hwf Hk Ep)) as (c & Ec & Eth & _).
    split; [split; reflexivity|]. rewrite Ec. unfold tree_thunks. cbn [d_pre d_meta d_changes flat_map app]. rewrite Eth.
    exact (collect_replace [] [Ok None] (Some c) cs nones1 Hcs).
  - (* MainMeta *)
    assert (HM : M = new_msec /\ chs = []).
    { destruct prev as [[]|]; try discriminate Hord; cbn [Fresh d_pre d_meta d_changes] in Hfr; tauto. }
    destruct HM as [-> ->].
    destruct Hpay as [j Ep]. rewrite Ep in Hacc. destruct j as [| | | | | |kv|]; try discriminate Hacc.
    assert (Hk : sid_kind (fs_id s) = SMeta) by (rewrite Eid; reflexivity).
    destruct (meta_thunk s kv Hk Hkn Ep) as (oc & Ec & Eth & _).
    split; [reflexivity|]. rewrite Ec. unfold tree_thunks. cbn [d_pre d_meta d_changes flat_map app]. rewrite Eth.
    exact (collect_replace [call_preamble p] [] oc cs nones0 Hcs).
  - (* Change *)
    assert (Hki : keys_in (fs_opts s) ["encoding"] = true) by (unfold sec_opts_known in Hkn; rewrite Eid in Hkn; exact Hkn).
    rewrite (change_of_known s Hki Henc). cbn [res_or].
    split; [cbn [Fresh d_changes]; eauto|].
    change {| d_opts := O; d_pre := p; d_meta := M; d_changes := chs ++ [Ch (enc_dopts (opt "encoding" (fs_opts s))) new_psec new_msec []] |}
      with (T O p M (chs ++ [Ch (enc_dopts (opt "encoding" (fs_opts s))) new_psec new_msec []])).
    rewrite thunks_snoc_change. apply collect_append; [exact Hcs|].
    unfold sec_calls. rewrite Eid. unfold change_thunks, Ch. cbn [c_opts c_pre c_meta c_files flat_map app].
    rewrite container_call. reflexivity.
  - (* ChangePreamble *)
    destruct prev as [[]|]; try discriminate Hord. cbn [Fresh d_pre d_meta d_changes] in *.
    destruct Hfr as (chs' & co & ->).
    destruct (sec_payload s) as [|txt| |] eqn:Ep; try discriminate Hacc.
    assert (Hk : sid_kind (fs_id s) = SPreamble) by (rewrite Eid; reflexivity).
    destruct (pre_thunk s txt Hk Hkn Ep (pre_text_nonempty _ _ _ _ Hwf Hk Ep)) as (c & Ec & Eth & _).
    unfold on_last_change. cbn [d_opts d_pre d_meta d_changes]. rewrite map_last_app. unfold Ch at 1. cbn [c_opts c_pre c_meta c_files].
    split; [cbn [Fresh d_changes]; eauto|]. rewrite Ec.
    change {| d_opts := O; d_pre := p; d_meta := M;
              d_changes := chs' ++ [{| c_opts := co; c_pre := sec_psec s; c_meta := new_msec; c_files := [] |}] |}
      with (T O p M (chs' ++ [Ch co (sec_psec s) new_msec []])).
    change {| d_opts := O; d_pre := p; d_meta := M; d_changes := chs' ++ [Ch co new_psec new_msec []] |}
      with (T O p M (chs' ++ [Ch co new_psec new_msec []])) in Hcs.
    rewrite thunks_last_change in *. cbn [flat_map] in *. rewrite Eth.
    exact (collect_replace _ [Ok None] (Some c) cs nones1 Hcs).
  - (* ChangeMeta *)
    assert (HF : exists chs' co cp, chs = chs' ++ [Ch co cp new_msec []]).
    { destruct prev as [[]|]; try discriminate Hord; cbn [Fresh d_pre d_meta d_changes] in Hfr.
      - destruct Hfr as (chs' & co & ->). eauto.
      - destruct Hfr as (chs' & co & cp & ->). eauto. }
    destruct HF as (chs' & co & cp & ->).
    destruct Hpay as [j Ep]. rewrite Ep in Hacc. destruct j as [| | | | | |kv|]; try discriminate Hacc.
    assert (Hk : sid_kind (fs_id s) = SMeta) by (rewrite Eid; reflexivity).
    destruct (meta_thunk s kv Hk Hkn Ep) as (oc & Ec & Eth & _).
    unfold on_last_change. cbn [d_opts d_pre d_meta d_changes]. rewrite map_last_app. unfold Ch at 1. cbn [c_opts c_pre c_meta c_files].
    split; [cbn [Fresh d_changes]; eauto|]. rewrite Ec.
    change {| d_opts := O; d_pre := p; d_meta := M;
              d_changes := chs' ++ [{| c_opts := co; c_pre := cp; c_meta := sec_msec s; c_files := [] |}] |}
      with (T O p M (chs' ++ [Ch co cp (sec_msec s) []])).
    change {| d_opts := O; d_pre := p; d_meta := M; d_changes := chs' ++ [Ch co cp new_msec []] |}
      with (T O p M (chs' ++ [Ch co cp new_msec []])) in Hcs.
    rewrite thunks_last_change in *. cbn [flat_map] in *. rewrite Eth.
    rewrite app_cons_assoc in Hcs. rewrite app_cons_assoc.
    exact (collect_replace _ [] oc cs nones0 Hcs).
  - (* File *)
    assert (Hd : 1 <= depth_of prev) by (destruct prev as [[]|]; try discriminate Hord; cbn; lia).
    destruct (Shape_change _ _ Hd (Fresh_Shape _ _ Hfr)) as (chs' & c & Ecs). cbn [d_changes] in Ecs. subst chs.
    assert (Hki : keys_in (fs_opts s) ["encoding"] = true) by (unfold sec_opts_known in Hkn; rewrite Eid in Hkn; exact Hkn).
    rewrite (file_of_known s Hki Henc). cbn [res_or].
    unfold on_last_change. cbn [d_opts d_pre d_meta d_changes]. rewrite map_last_app.
    split; [cbn [Fresh d_changes]; exists chs', (c_opts c), (c_pre c), (c_meta c), (c_files c); eexists; reflexivity|].
    rewrite (change_eta c) in Hcs.
    change {| d_opts := O; d_pre := p; d_meta := M;
              d_changes := chs' ++ [{| c_opts := c_opts c; c_pre := c_pre c; c_meta := c_meta c;
                                       c_files := c_files c ++ [Fi (enc_dopts (opt "encoding" (fs_opts s))) new_msec new_dsec] |}] |}
      with (T O p M (chs' ++ [Ch (c_opts c) (c_pre c) (c_meta c) (c_files c ++ [Fi (enc_dopts (opt "encoding" (fs_opts s))) new_msec new_dsec])])).
    change {| d_opts := O; d_pre := p; d_meta := M; d_changes := chs' ++ [Ch (c_opts c) (c_pre c) (c_meta c) (c_files c)] |}
      with (T O p M (chs' ++ [Ch (c_opts c) (c_pre c) (c_meta c) (c_files c)])) in Hcs.
    rewrite thunks_snoc_file. apply collect_append; [exact Hcs|].
    unfold sec_calls. rewrite Eid. unfold file_thunks, Fi. cbn [f_opts f_meta f_diff].
    rewrite container_call. reflexivity.
  - (* FileMeta *)
    destruct prev as [[]|]; try discriminate Hord. cbn [Fresh d_pre d_meta d_changes] in *.
    destruct Hfr as (chs' & co & cp & cm & fs & fo & ->).
    destruct Hpay as [j Ep]. rewrite Ep in Hacc. destruct j as [| | | | | |kv|]; try discriminate Hacc.
    assert (Hk : sid_kind (fs_id s) = SMeta) by (rewrite Eid; reflexivity).
    destruct (meta_thunk s kv Hk Hkn Ep) as (oc & Ec & Eth & _).
    unfold on_last_file, on_last_change. cbn [d_opts d_pre d_meta d_changes]. rewrite map_last_app. cbv beta. unfold Ch.
    cbn [c_opts c_pre c_meta c_files]. rewrite map_last_app. cbv beta. unfold Fi. cbn [f_opts f_meta f_diff].
    split; [cbn [Fresh d_changes]; exists chs', co, cp, cm, fs, fo; eexists; reflexivity|]. rewrite Ec.
    change {| d_opts := O; d_pre := p; d_meta := M;
              d_changes := chs' ++ [{| c_opts := co; c_pre := cp; c_meta := cm;
                                       c_files := fs ++ [{| f_opts := fo; f_meta := sec_msec s; f_diff := new_dsec |}] |}] |}
      with (T O p M (chs' ++ [Ch co cp cm (fs ++ [Fi fo (sec_msec s) new_dsec])])).
    change {| d_opts := O; d_pre := p; d_meta := M; d_changes := chs' ++ [Ch co cp cm (fs ++ [Fi fo new_msec new_dsec])] |}
      with (T O p M (chs' ++ [Ch co cp cm (fs ++ [Fi fo new_msec new_dsec])])) in Hcs.
    rewrite thunks_last_file in *. rewrite Eth.
    exact (collect_replace _ [Ok None] oc cs nones1 Hcs).
  - (* FileDiff *)
    assert (HF : exists chs' co cp cm fs fo fm, chs = chs' ++ [Ch co cp cm (fs ++ [Fi fo fm new_dsec])]).
    { destruct prev as [[]|]; try discriminate Hord; cbn [Fresh d_pre d_meta d_changes] in Hfr.
      destruct Hfr as (chs' & co & cp & cm & fs & fo & fm & ->). do 7 eexists. reflexivity. }
    destruct HF as (chs' & co & cp & cm & fs & fo & fm & ->).
    destruct Hpay as [b Ep]. rewrite Ep in Hacc.
    assert (Hk : sid_kind (fs_id s) = SDiff) by (rewrite Eid; reflexivity).
    destruct (diff_thunk s b Hk Hkn Ep (diff_bytes_nonempty _ _ _ _ Hwf Hk Ep)) as (c & Ec & Eth & _).
    unfold on_last_file, on_last_change. cbn [d_opts d_pre d_meta d_changes]. rewrite map_last_app. cbv beta. unfold Ch.
    cbn [c_opts c_pre c_meta c_files]. rewrite map_last_app. cbv beta. unfold Fi. cbn [f_opts f_meta f_diff].
    split; [cbn [Fresh d_changes]; exists chs', co, cp, cm, fs; eexists; reflexivity|]. rewrite Ec.
    change {| d_opts := O; d_pre := p; d_meta := M;
              d_changes := chs' ++ [{| c_opts := co; c_pre := cp; c_meta := cm;
                                       c_files := fs ++ [{| f_opts := fo; f_meta := fm; f_diff := sec_dsec s |}] |}] |}
      with (T O p M (chs' ++ [Ch co cp cm (fs ++ [Fi fo fm (sec_dsec s)])])).
    change {| d_opts := O; d_pre := p; d_meta := M; d_changes := chs' ++ [Ch co cp cm (fs ++ [Fi fo fm new_dsec])] |}
      with (T O p M (chs' ++ [Ch co cp cm (fs ++ [Fi fo fm new_dsec])])) in Hcs.
    rewrite thunks_last_file in *. rewrite Eth.
    rewrite app_cons_assoc in Hcs. rewrite app_cons_assoc.
    exact (collect_replace _ [] (Some c) cs nones0 Hcs).
Qed.

Lemma run_calls_secs : forall ss prev x t cs,
  wf_secs prev x ss = true -> forallb sec_opts_known ss = true ->
  forallb sec_accepts ss = true -> Fresh prev t -> tree_calls t = Ok cs ->
  tree_calls (tree_of_secs t ss) = Ok (cs ++ flat_map sec_calls ss).
Proof.
  induction ss as [|s ss IH]; intros prev x t cs Hwf Hkn Hacc Hfr Hcs.
  - cbn [flat_map tree_of_secs fold_left]. rewrite app_nil_r. exact Hcs.
  - cbn [wf_secs forallb] in *. apply andb_true_iff in Hwf, Hkn, Hacc.
    destruct Hwf as [Hs Hss], Hkn as [K1 K2], Hacc as [A1 A2].
    destruct (step_calls prev x s t cs Hs K1 A1 Hfr Hcs) as [Hfr' Hcs'].
    cbn [flat_map tree_of_secs fold_left]. rewrite app_assoc.
    exact (IH (Some (fs_id s)) (ectx_next x s) (tof_step t s) (cs ++ sec_calls s) Hss K2 A2 Hfr' Hcs').
Qed.

(* the calls the object model issues when it re-serialises the tree it read from the file *)
Theorem foreign_tree_calls : forall f,
  wf_file f = true -> dom_accepts f = true -> opts_known f = true ->
  tree_calls (tree_of_file f) = Ok (file_calls f).
Proof.
  intros f Hwf Hacc Hkn. unfold wf_file in Hwf. apply andb_true_iff in Hwf. destruct Hwf as [Hsecs _].
  exact (run_calls_secs (ff_sections f) None ectx0 new_tree [] Hsecs Hkn Hacc
           (conj eq_refl (conj eq_refl eq_refl)) eq_refl).
Qed.

(** ** codecs: what was decoded can be encoded again *)

Lemma enc_all_some : forall (g : N -> option bytes) t, (forall ch, In ch t -> exists b, g ch = Some b) ->
  exists b, enc_all g t = Some b.
Proof.
  intros g. induction t as [|ch t IH]; intros H; [eexists; reflexivity|].
  cbn [enc_all]. destruct (H ch (or_introl eq_refl)) as [a ->].
  destruct (IH (fun c Hc => H c (or_intror Hc))) as [b ->]. eauto.
Qed.

Lemma ascii_cp_encodes : forall ch, (ch < 128)%N ->
  (exists b, enc1 128 ch = Some b) /\ (exists b, enc1 256 ch = Some b) /\ (exists b, u8_enc_cp ch = Some b) /\
  (forall le, exists b, u16_enc_cp le ch = Some b) /\ (forall le, exists b, u32_enc_cp le ch = Some b).
Proof.
  intros ch H. unfold enc1, u8_enc_cp, u16_enc_cp, u32_enc_cp, valid_cp, is_surrogate.
  assert (E1 : (ch <? 128)%N = true) by (apply N.ltb_lt; lia).
  assert (E2 : (ch <? 256)%N = true) by (apply N.ltb_lt; lia).
  assert (E3 : (ch <? 65536)%N = true) by (apply N.ltb_lt; lia).
  assert (E4 : (55296 <=? ch)%N = false) by (apply N.leb_gt; lia).
  assert (E5 : (ch <=? 1114111)%N = true) by (apply N.leb_le; lia).
  change 0x80%N with 128%N. change 0x10000%N with 65536%N. change 0xD800%N with 55296%N. change 0x10FFFF%N with 1114111%N.
  rewrite E1, E2, E3, E4, E5. cbn [andb negb]. repeat split; intros; eauto.
Qed.

Lemma ascii_encodable : forall eb c t, codec_of eb = Some c -> WriterFacts.is_ascii t = true -> exists b, c_enc c t = Some b.
Proof.
  intros eb c t Hc Ht. unfold codec_of in Hc. destruct (lookup_codec eb) as [canon c'| |] eqn:E; try discriminate Hc.
  injection Hc as ->.
  assert (Hch : forall ch, In ch t -> (ch < 128)%N).
  { intros ch Hin. unfold WriterFacts.is_ascii in Ht. rewrite forallb_forall in Ht. apply N.ltb_lt. auto. }
  destruct (WriterFacts.lookup_modelled _ _ _ E) as [Hin _]. unfold modelled in Hin. cbn [In] in Hin.
  assert (G : forall g, (forall ch, (ch < 128)%N -> exists b, g ch = Some b) -> exists b, enc_all g t = Some b).
  { intros g Hg. apply enc_all_some. intros ch Hi. apply Hg. apply Hch. exact Hi. }
  assert (G' : forall g bom, (forall ch, (ch < 128)%N -> exists b, g ch = Some b) ->
                exists b, option_map (app bom) (enc_all g t) = Some b).
  { intros g bom Hg. destruct (G g Hg) as [b ->]. eexists. reflexivity. }
  repeat (destruct Hin as [Hin|Hin]; [injection Hin as _ <-|]); try contradiction; cbn [c_enc ascii latin1 utf8 utf8sig utf16 utf16le utf16be utf32 utf32le utf32be];
    first [apply G | apply G' | unfold u8_enc; apply G]; intros ch Hlt; destruct (ascii_cp_encodes ch Hlt) as (A1 & A2 & A3 & A4 & A5); auto.
Qed.

Lemma joined_encodable : forall eb c t, codec_of eb = Some c -> nonempty (tc_lines t) = true ->
  forallb (encodable c (le_text (tc_kind t))) (tc_lines t) = true -> exists b, c_enc c (joined t) = Some b.
Proof.
  intros eb c t Hc Hne Hall. destruct (SpecReaderCodec.codec_laws_x eb c Hc) as (bom & enc0 & laws & _).
  assert (G : forall ls, ls <> [] -> forallb (encodable c (le_text (tc_kind t))) ls = true ->
              exists b, enc0 (concat (map (fun l => l ++ le_text (tc_kind t)) ls)) = Some b).
  { induction ls as [|l ls IH]; intros Hn Hf; [congruence|].
    cbn [forallb] in Hf. apply andb_true_iff in Hf. destruct Hf as [Hl Hls].
    assert (El : exists b, enc0 (l ++ le_text (tc_kind t)) = Some b).
    { unfold encodable, enc_nobom in Hl. rewrite (RoundTripCodec.cl_enc _ _ _ _ laws) in Hl.
      destruct (enc0 (l ++ le_text (tc_kind t))) as [b|]; [eauto | discriminate Hl]. }
    destruct El as [b Eb]. cbn [map concat]. destruct ls as [|l2 ls].
    - cbn [map concat]. rewrite app_nil_r. eauto.
    - rewrite (RoundTripCodec.cl_hom _ _ _ _ laws), Eb.
      destruct (IH ltac:(discriminate) Hls) as [b2 ->]. eexists. reflexivity. }
  unfold joined. destruct (G (tc_lines t)) as [b Eb]; [destruct (tc_lines t); [discriminate Hne | discriminate] | exact Hall |].
  rewrite (RoundTripCodec.cl_enc _ _ _ _ laws), Eb. eexists. reflexivity.
Qed.

(** ** JSON values json.dumps accepts *)

Lemma json_all_mono : forall (P Q : json -> bool), (forall j, P j = true -> Q j = true) ->
  forall j, DomFacts.json_all P j = true -> DomFacts.json_all Q j = true.
Proof.
  intros P Q HPQ. induction j as [|b|z|r|s|l IHl|kv IHkv|] using WriterCanonFacts.json_ind'; intro H;
    cbn [DomFacts.json_all] in *; apply andb_true_iff in H; destruct H as [H1 H2]; apply andb_true_iff; split; auto.
  - rewrite forallb_forall in *. rewrite Forall_forall in IHl. intros x Hx. apply IHl; auto.
  - rewrite forallb_forall in *. rewrite Forall_forall in IHkv. intros x Hx. apply IHkv; auto.
Qed.

Lemma json_plain_nobad : forall j, json_plain j = true -> DomFacts.json_nobad j = true.
Proof. apply json_all_mono. intros [] H; try reflexivity; discriminate H. Qed.

Lemma json_plain_floats : forall j, json_plain j = true -> WriterCanonFacts.floats_ascii j.
Proof.
  induction j as [|b|z|r|s|l IHl|kv IHkv|] using WriterCanonFacts.json_ind'; intro H; try (constructor; fail).
  - unfold json_plain in H. cbn [DomFacts.json_all] in H. apply andb_true_iff in H. destruct H as [H _].
    constructor. apply Forall_forall. intros x Hx. rewrite forallb_forall in H. apply N.ltb_lt. auto.
  - unfold json_plain in H. cbn [DomFacts.json_all] in H. apply andb_true_iff in H. destruct H as [_ H].
    constructor. rewrite forallb_forall in H. rewrite Forall_forall in *. intros x Hx. apply IHl; [exact Hx | apply H; exact Hx].
  - unfold json_plain in H. cbn [DomFacts.json_all] in H. apply andb_true_iff in H. destruct H as [_ H].
    constructor. rewrite forallb_forall in H. rewrite Forall_forall in *. intros x Hx. apply IHkv; [exact Hx | apply H; exact Hx].
Qed.

Lemma json_plain_dump : forall j, json_plain j = true ->
  exists d, json_dump j = Ok d /\ WriterFacts.is_ascii (ascii_text d) = true.
Proof.
  intros j H. exists (DomFacts.dmp 0 j).
  pose proof (DomFacts.dump_ok j (json_plain_nobad j H) 0) as Hd. split; [exact Hd|].
  pose proof (WriterCanonFacts.C02_json_ascii j _ (json_plain_floats j H) Hd) as Ha.
  unfold WriterFacts.is_ascii, ascii_text. rewrite forallb_forall. intros ch Hin.
  apply in_map_iff in Hin. destruct Hin as [b [<- Hb]]. rewrite Forall_forall in Ha. apply N.ltb_lt. exact (Ha b Hb).
Qed.

(** ** the streaming writer accepts the calls of every section *)

Module WF := WriterFacts.

(* the writer's encoding stack when the last section read belongs to the container of depth d *)
Definition wstack (x : ectx) (d : nat) : list wv :=
  let m := wenc (ex_main x) in
  match d with
  | 0 => [m; m]
  | 1 => [wenc (inherited x 1); m; m]
  | _ => [wenc (inherited x 2); wenc (inherited x 1); m; m]
  end.

(* the writer after the calls of the sections up to [prev]: its stack mirrors the encoding context, and whatever
   the specification allows after [prev] its order table allows after the section it wrote last *)
Definition WSt (prev : sid) (x : ectx) (st : wstate) : Prop :=
  WF.reachable st /\ w_stack st = wstack x (sid_depth prev) /\
  exists lastw, w_prev st = Some (sid_bytes lastw) /\ forall b, may_follow prev b = true -> may_follow lastw b = true.

Lemma table_follow : forall a b, In (sid_bytes b) (WF.table (sid_bytes a)) <-> may_follow a b = true.
Proof.
  intros a b. unfold WF.table. rewrite SectionsFacts.table_total. apply SectionsFacts.table_is_spec.
Qed.

Lemma wenc_facts : forall e c, codec_of e = Some c ->
  (exists canon, WF.codec_for (wenc (Some e)) canon c) /\ wv_truthy (wenc (Some e)) = true /\ WF.rv (wenc (Some e)) = true.
Proof.
  intros e c H. unfold codec_of in H. destruct (lookup_codec e) as [canon c'| |] eqn:E; try discriminate H.
  injection H as ->. destruct (RoundTripSim.spelling_facts e canon c E) as (_ & Ea & Hne & _).
  split; [|split].
  - exists canon. exists (ascii_text e), e. split; [reflexivity|]. split; assumption.
  - cbn [wenc wv_truthy]. destruct e; [congruence | reflexivity].
  - cbn [wenc WF.rv]. eapply WF.enc_ascii_is_ascii; eauto.
Qed.

Lemma enc_opt_cases : forall ps, enc_opt_ok ps = true ->
  opt "encoding" ps = None \/ exists e c, opt "encoding" ps = Some e /\ codec_of e = Some c.
Proof.
  intros ps H. unfold enc_opt_ok in H. destruct (opt "encoding" ps) as [e|]; [|left; reflexivity].
  destruct (codec_of e) as [c|] eqn:E; [|discriminate H]. right. eauto.
Qed.

Lemma wenc_rv : forall ps, enc_opt_ok ps = true -> WF.rv (wenc (opt "encoding" ps)) = true.
Proof.
  intros ps H. destruct (enc_opt_cases ps H) as [->|(e & c & -> & Hc)]; [reflexivity|].
  apply (wenc_facts e c Hc).
Qed.

Lemma hd_wstack : forall x d, hd WNone (wstack x d) = wenc (inherited x d).
Proof. intros x [|[|d]]; reflexivity. Qed.

Lemma len_wstack : forall x d, d <= 2 -> length (wstack x d) = 2 + d.
Proof. intros x [|[|[|d]]] H; try reflexivity. lia. Qed.

(* the encoding a text section is written with is the one it was read with *)
Lemma eff_text : forall st x d ps, w_stack st = wstack x d -> enc_opt_ok ps = true ->
  WF.eff_encoding st (wenc (opt "encoding" ps)) true = wenc (orelse (opt "encoding" ps) (inherited x d)).
Proof.
  intros st x d ps Hst He. unfold WF.eff_encoding.
  destruct (enc_opt_cases ps He) as [->|(e & c & -> & Hc)].
  - cbn [wenc wv_truthy negb andb orelse]. rewrite Hst. apply hd_wstack.
  - destruct (wenc_facts e c Hc) as (_ & -> & _). reflexivity.
Qed.

Lemma le_choice : forall ps c k body, le_ok ps c k body = true ->
  WF.choice_ok (wval (opt "line_endings" ps)) GenText.line_endings_values.
Proof.
  intros ps c k body H. unfold le_ok in H. destruct (opt "line_endings" ps) as [v|]; [|left; reflexivity].
  apply beq_eq in H. subst v. right. exists (le_name k). split; [apply SpecReaderContent.le_values|].
  cbn [wval]. rewrite SpecReaderBase.le_name_conv. reflexivity.
Qed.

Lemma mem_beq_In : forall (x : bytes) l, mem beq x l = true -> In x l.
Proof.
  intros x l. induction l as [|y l IH]; cbn [mem]; intro H; [discriminate H|].
  apply orb_true_iff in H. destruct H as [H|H]; [left; symmetry; apply beq_eq; exact H | right; apply IH; exact H].
Qed.

Lemma set_choice : forall v set, forallb (fun x => negb (int_ok x)) set = true -> in_set v set = true ->
  WF.choice_ok (wval v) set.
Proof.
  intros v set Hs H. destruct v as [y|]; [|left; reflexivity]. cbn [in_set] in H. apply mem_beq_In in H.
  right. exists y. split; [exact H|]. cbn [wval]. rewrite forallb_forall in Hs. specialize (Hs y H).
  rewrite SpecReaderBase.spec_conv_str; [reflexivity|]. destruct (int_ok y); [discriminate Hs | reflexivity].
Qed.

Lemma indent_cases : forall ps, indent_ok ps = true ->
  option_map (fun v => wv_of_pv (spec_conv v)) (opt "indent" ps) = None \/
  exists z, option_map (fun v => wv_of_pv (spec_conv v)) (opt "indent" ps) = Some (WInt z) /\ (0 <= z)%Z.
Proof.
  intros ps H. unfold indent_ok in H. destruct (opt "indent" ps) as [v|]; [|left; reflexivity].
  right. cbn [option_map]. destruct (spec_conv v) as [z|]; [|discriminate H]. exists z. split; [reflexivity|].
  apply Z.leb_le. exact H.
Qed.

Lemma format_cases : forall ps, format_ok ps = true ->
  option_map (fun v => wv_of_pv (spec_conv v)) (opt "format" ps) = None \/
  exists y, In y GenText.meta_formats /\
            option_map (fun v => wv_of_pv (spec_conv v)) (opt "format" ps) = Some (WStr (ascii_text y)).
Proof.
  intros ps H. unfold format_ok in H. destruct (opt "format" ps) as [v|]; [|left; reflexivity].
  apply beq_eq in H. subst v. right. exists (B "json"). split; [left; reflexivity | reflexivity].
Qed.

(* one accepted call: the new state *)
Lemma accept_step : forall st c lastw a,
  WF.reachable st -> w_prev st = Some (sid_bytes lastw) -> may_follow lastw a = true ->
  WF.target st c = sid_bytes a -> WF.args_ok st c ->
  exists st', do_call c st = (st', Ok tt) /\ WF.reachable st' /\ w_prev st' = Some (sid_bytes a).
Proof.
  intros st c lastw a Hr Hp Hf Ht Ha.
  destruct (WF.C09_accept_complete st c (sid_bytes lastw) Hr Ha Hp) as [st' Hd].
  { rewrite Ht. apply table_follow. exact Hf. }
  exists st'. split; [exact Hd|]. split; [eapply WF.reachable_step; eauto|].
  rewrite (WF.C09_accept_prev st c st' Hr Hd), Ht. reflexivity.
Qed.

Lemma content_target : forall st x prev a name,
  w_stack st = wstack x (sid_depth prev) -> may_follow prev a = true -> sid_kind a <> SContainer -> sid_name a = name ->
  build_id (cur_level st + 1 - 1) name = sid_bytes a /\ sid_depth a = sid_depth prev.
Proof.
  intros st x prev a name Hst Hf Hk Hn. unfold cur_level. rewrite Hst, len_wstack by (apply SpecReaderBase.sid_depth_le2).
  subst name. destruct prev, a; try discriminate Hf; try (exfalso; apply Hk; reflexivity); split; reflexivity.
Qed.

Lemma accepted_state : forall st c st' a,
  WF.reachable st -> do_call c st = (st', Ok tt) -> WF.target st c = sid_bytes a ->
  WF.reachable st' /\ w_prev st' = Some (sid_bytes a).
Proof.
  intros st c st' a Hr Hd Ht. split; [eapply WF.reachable_step; eauto|].
  rewrite (WF.C09_accept_prev st c st' Hr Hd), Ht. reflexivity.
Qed.

(* write_meta with no encoding in force (the JSON goes out as ASCII bytes) *)
Lemma meta_bytes_accept : forall st kv d fmt,
  WF.reachable st -> hd WNone (w_stack st) = WNone -> kv <> [] -> json_dump (JObj kv) = Ok d ->
  (fmt = None \/ exists y, In y GenText.meta_formats /\ fmt = Some (WStr (ascii_text y))) ->
  validate_section st (WF.target st (WriteMeta (WDict (JObj kv)) WNone fmt)) = Ok tt ->
  exists st', do_call (WriteMeta (WDict (JObj kv)) WNone fmt) st = (st', Ok tt).
Proof.
  intros st kv d fmt Hr Hhd Hkv Hd Hfmt Hv.
  pose proof (WF.Inv_stack st (WF.reachable_inv st Hr)) as Hne.
  cbn [do_call WF.target] in *.
  assert (Htr : wv_truthy (WDict (JObj kv)) = true) by (destruct kv; [congruence | reflexivity]).
  rewrite Htr. cbn [negb].
  set (fmt' := match fmt with Some v => v | None => WStr (ascii_text GenText.meta_format_json) end).
  assert (Hfmt' : exists y, In y GenText.meta_formats /\ fmt' = WStr (ascii_text y)).
  { subst fmt'. destruct Hfmt as [-> | (y & Hy & ->)]; eauto using WF.default_meta_format_ok. }
  destruct Hfmt' as (y & Hy & Hfy). rewrite Hfy.
  rewrite WF.bind_lift, (WF.in_strset_member y _ Hy). cbn [negb].
  rewrite WF.bind_lift, Hd.
  rewrite WF.bind_get, WF.bind_lift, (WF.meta_no_enc st WNone Hne)
    by (unfold WF.eff_encoding; cbn [wv_truthy negb andb]; rewrite Hhd; reflexivity).
  assert (Hdne : d <> []) by (eapply WF.dump_obj_nonempty; eauto).
  destruct WF.ascii_codec_for as (canon & c & Hc).
  destruct (WF.prepare_bytes_ok st d WNone WNone canon c Hdne (or_introl eq_refl) Hc) as (body & lo & Hprep & Hlo).
  assert (Hprep' : prepare_content st (CBytes d) WNone WNone WNone true = Ok (body, lo)).
  { rewrite (Encodings.prepare_content_encoding st st (CBytes d) WNone WNone WNone true WNone).
    - exact Hprep.
    - rewrite (WF.cur_encoding_hd st Hne), Hhd. reflexivity. }
  eapply WF.ncontent_accept; eauto.
  constructor; [|constructor]. split; [vm_compute; reflexivity|]. cbn [snd]. apply WF.choice_rv; auto 10.
Qed.

Lemma wopt_enc : forall s, enc_opt_ok (fs_opts s) = true -> wopt "encoding" s = wenc (opt "encoding" (fs_opts s)).
Proof.
  intros s H. unfold wopt. rewrite kw_copts by discriminate. apply enc_wval. exact H.
Qed.

Lemma eff_enc_text : forall x s, fs_id s <> FileDiff ->
  eff_enc x s = orelse (opt "encoding" (fs_opts s)) (inherited x (sid_depth (fs_id s))).
Proof. intros x s H. unfold eff_enc. destruct (fs_id s); try reflexivity. congruence. Qed.

(* a text section (preamble, metadata with an encoding in force): the text arguments *)
Lemma text_args : forall prev x s st c t0,
  w_stack st = wstack x (sid_depth prev) -> sid_depth (fs_id s) = sid_depth prev -> fs_id s <> FileDiff ->
  enc_opt_ok (fs_opts s) = true -> text_codec x s = Some c -> (exists b, c_enc c t0 = Some b) ->
  WF.text_args_ok st t0 (wopt "encoding" s).
Proof.
  intros prev x s st c t0 Hst Hd Hnd He Hc Hb. rewrite (wopt_enc s He). split.
  - destruct (opt "encoding" (fs_opts s)); [right; eexists; reflexivity | left; reflexivity].
  - rewrite (eff_text st x (sid_depth prev) (fs_opts s) Hst He).
    unfold text_codec in Hc. rewrite (eff_enc_text x s Hnd), Hd in Hc.
    destruct (orelse (opt "encoding" (fs_opts s)) (inherited x (sid_depth prev))) as [eb|]; [|discriminate Hc].
    destruct (wenc_facts eb c Hc) as ((canon & Hcf) & _). exists canon, c. split; assumption.
Qed.

Lemma ectx_next_content : forall x s, sid_kind (fs_id s) <> SContainer -> ectx_next x s = x.
Proof. intros x s H. unfold ectx_next. destruct (fs_id s); try reflexivity; exfalso; apply H; reflexivity. Qed.

Lemma run_one : forall st c st', do_call c st = (st', Ok tt) -> run_all st [c] = (st', Ok tt).
Proof. intros st c st' H. cbn [run_all]. rewrite H. reflexivity. Qed.

Lemma mimetypes_not_int : forallb (fun x => negb (int_ok x)) GenText.mimetypes = true.
Proof. vm_compute. reflexivity. Qed.
Lemma diff_types_not_int : forallb (fun x => negb (int_ok x)) GenText.diff_types = true.
Proof. vm_compute. reflexivity. Qed.

(* after an accepted content call *)
Lemma content_done : forall prev x s st st' c,
  WSt prev x st -> may_follow prev (fs_id s) = true -> sid_kind (fs_id s) <> SContainer ->
  sid_depth (fs_id s) = sid_depth prev -> Encodings.is_container_call c = false ->
  do_call c st = (st', Ok tt) -> WF.target st c = sid_bytes (fs_id s) ->
  WSt (fs_id s) (ectx_next x s) st'.
Proof.
  intros prev x s st st' c (Hr & Hst & lastw & Hp & Hfol) Hf Hk Hd Hc Hdo Ht.
  destruct (accepted_state st c st' (fs_id s) Hr Hdo Ht) as [Hr' Hp'].
  split; [exact Hr'|]. split.
  - rewrite (Encodings.content_call_stack c st st' (Ok tt) Hc Hdo), Hst, (ectx_next_content x s Hk), Hd. reflexivity.
  - exists (fs_id s). split; [exact Hp' | auto].
Qed.

(* a preamble *)
Lemma write_pre : forall prev x s st txt,
  wf_section (Some prev) x s = true -> sid_kind (fs_id s) = SPreamble -> sec_opts_known s = true ->
  sec_choices_ok s = true -> sec_payload s = PText txt -> WSt prev x st ->
  exists st', run_all st (sec_calls s) = (st', Ok tt) /\ WSt (fs_id s) (ectx_next x s) st'.
Proof.
  intros prev x s st txt Hwf Hk Hkn Hch Hp HW.
  destruct (wf_parts _ _ _ Hwf) as (Hord & _ & Henc & _). cbn [order_ok] in Hord.
  destruct (wf_pre_text _ _ _ _ Hwf Hk Hp) as (t & _ & Etxt & Htok & Hind).
  destruct (pre_thunk s txt Hk Hkn Hp (pre_text_nonempty _ _ _ _ Hwf Hk Hp)) as (c & Ec & _ & Eshape).
  pose proof HW as (Hr & Hst & lastw & Hpv & Hfol).
  assert (Hkc : sid_kind (fs_id s) <> SContainer) by (rewrite Hk; discriminate).
  assert (Hname : sid_name (fs_id s) = B "preamble") by (destruct (fs_id s); try discriminate Hk; reflexivity).
  destruct (content_target st x prev (fs_id s) _ Hst Hord Hkc Hname) as [Htgt Hd].
  assert (Hnd : fs_id s <> FileDiff) by (intro E; rewrite E in Hk; discriminate Hk).
  assert (Hargs : WF.args_ok st c).
  { subst c. cbn [WF.args_ok]. exists txt. split; [reflexivity|].
    split; [exact (pre_text_nonempty _ _ _ _ Hwf Hk Hp)|].
    unfold text_ok in Htok. destruct (text_codec x s) as [cd|] eqn:Ecd; [|discriminate Htok].
    rewrite !andb_true_iff in Htok. destruct Htok as [[[[[T1 T2] _] _] T5] _].
    split; [|split; [|split]].
    - apply (text_args prev x s st cd txt Hst Hd Hnd Henc Ecd). subst txt.
      unfold text_codec in Ecd. destruct (eff_enc x s) as [eb|]; [|discriminate Ecd].
      exact (joined_encodable eb cd t Ecd T1 T2).
    - rewrite kw_opt_copts by discriminate. destruct (indent_cases _ Hind) as [->|(z & -> & _)]; eauto.
    - unfold wopt. rewrite kw_copts by discriminate. exact (le_choice _ _ _ _ T5).
    - unfold wopt. rewrite kw_copts by discriminate. apply (set_choice _ _ mimetypes_not_int).
      unfold sec_choices_ok in Hch. rewrite Hk in Hch. exact Hch. }
  destruct (accept_step st c lastw (fs_id s) Hr Hpv (Hfol _ Hord)) as (st' & Hdo & _ & _);
    [subst c; exact Htgt | exact Hargs |].
  exists st'. rewrite Ec. split; [apply run_one; exact Hdo|].
  apply (content_done prev x s st st' c HW Hord Hkc Hd); [subst c; reflexivity | exact Hdo | subst c; exact Htgt].
Qed.

Lemma wf_meta_cases : forall prev x s j, wf_section prev x s = true -> sid_kind (fs_id s) = SMeta -> sec_payload s = PMeta j ->
  format_ok (fs_opts s) = true /\
  ((exists t, fs_content s = Some (FMeta t j) /\ text_ok x s t = true) \/
   (exists ls k, fs_content s = Some (FRawMeta ls k j) /\ raw_ok x s ls k = true)).
Proof.
  intros prev x s j Hwf Hk Hp. destruct (wf_parts _ _ _ Hwf) as (_ & _ & _ & H). rewrite Hk in H.
  unfold sec_payload in Hp. destruct (fs_content s) as [[t|t j'|ls k|ls k j'|raw k]|]; try contradiction; try discriminate Hp;
    injection Hp as <-; destruct H as [H1 H2]; (split; [exact H2|]); [left | right]; eauto.
Qed.

(* a metadata section *)
Lemma write_meta : forall prev x s st kv,
  wf_section (Some prev) x s = true -> sid_kind (fs_id s) = SMeta -> sec_opts_known s = true ->
  sec_meta_nonempty s = true -> sec_meta_plain s = true ->
  sec_payload s = PMeta (JObj kv) -> WSt prev x st ->
  exists st', run_all st (sec_calls s) = (st', Ok tt) /\ WSt (fs_id s) (ectx_next x s) st'.
Proof.
  intros prev x s st kv Hwf Hk Hkn Hne Hpl Hp HW.
  destruct (wf_parts _ _ _ Hwf) as (Hord & _ & Henc & _). cbn [order_ok] in Hord.
  destruct (wf_meta_cases _ _ _ _ Hwf Hk Hp) as (Hfmt & Hcase).
  destruct (meta_thunk s kv Hk Hkn Hp) as (oc & Ec & _ & Eshape).
  pose proof HW as (Hr & Hst & lastw & Hpv & Hfol).
  assert (Hkc : sid_kind (fs_id s) <> SContainer) by (rewrite Hk; discriminate).
  assert (Hname : sid_name (fs_id s) = B "meta") by (destruct (fs_id s); try discriminate Hk; reflexivity).
  destruct (content_target st x prev (fs_id s) _ Hst Hord Hkc Hname) as [Htgt Hd].
  assert (Hnd : fs_id s <> FileDiff) by (intro E; rewrite E in Hk; discriminate Hk).
  rewrite Ec. destruct kv as [|p0 kv0].
  - (* an empty object: nothing is written; only the main-level section may be empty *)
    subst oc. cbn [olist run_all]. exists st. split; [reflexivity|].
    rewrite (ectx_next_content x s Hkc). split; [exact Hr|]. split; [rewrite Hd; exact Hst|].
    exists lastw. split; [exact Hpv|]. intros b Hb. apply Hfol.
    unfold sec_meta_nonempty in Hne. rewrite Hp in Hne.
    destruct (fs_id s); try discriminate Hk; try discriminate Hne.
    destruct prev; try discriminate Hord; destruct b; try discriminate Hb; reflexivity.
  - set (kv := p0 :: kv0) in *.
    assert (Hkv : kv <> []) by discriminate.
    unfold sec_meta_plain in Hpl. rewrite Hp in Hpl.
    destruct (json_plain_dump _ Hpl) as (d & Hdump & Hdasc).
    assert (Eoc : oc = Some (WriteMeta (WDict (JObj kv)) (wopt "encoding" s) (kw_opt (sec_copts s) "format")))
      by (rewrite Eshape; reflexivity).
    clear Eshape. subst oc. cbn [olist].
    set (c := WriteMeta (WDict (JObj kv)) (wopt "encoding" s) (kw_opt (sec_copts s) "format")) in *.
    assert (Hfmt' : kw_opt (sec_copts s) "format" = None \/
                    exists y, In y GenText.meta_formats /\ kw_opt (sec_copts s) "format" = Some (WStr (ascii_text y))).
    { rewrite kw_opt_copts by discriminate. exact (format_cases _ Hfmt). }
    assert (Hdone : forall st', do_call c st = (st', Ok tt) ->
              run_all st [c] = (st', Ok tt) /\ WSt (fs_id s) (ectx_next x s) st').
    { intros st' Hdo. split; [apply run_one; exact Hdo|].
      apply (content_done prev x s st st' c HW Hord Hkc Hd); [reflexivity | exact Hdo | exact Htgt]. }
    destruct Hcase as [(t & _ & Htok) | (ls & k & _ & Hraw)].
    + (* an encoding is in force *)
      unfold text_ok in Htok. destruct (text_codec x s) as [cd|] eqn:Ecd; [|discriminate Htok].
      assert (Hargs : WF.args_ok st c).
      { unfold c. cbn [WF.args_ok]. exists kv, d. split; [reflexivity|]. split; [exact Hkv|]. split; [exact Hdump|].
        split; [|exact Hfmt'].
        apply (text_args prev x s st cd (ascii_text d) Hst Hd Hnd Henc Ecd).
        unfold text_codec in Ecd. destruct (eff_enc x s) as [eb|]; [|discriminate Ecd].
        exact (ascii_encodable eb cd _ Ecd Hdasc). }
      destruct (accept_step st c lastw (fs_id s) Hr Hpv (Hfol _ Hord) Htgt Hargs) as (st' & Hdo & _ & _).
      exists st'. exact (Hdone st' Hdo).
    + (* no encoding in force *)
      unfold raw_ok in Hraw. destruct (eff_enc x s) as [eb|] eqn:Eeff; [discriminate Hraw|].
      rewrite (eff_enc_text x s Hnd), Hd in Eeff.
      assert (Eown : opt "encoding" (fs_opts s) = None) by (destruct (opt "encoding" (fs_opts s)); [discriminate Eeff | reflexivity]).
      assert (Einh : inherited x (sid_depth prev) = None) by (rewrite Eown in Eeff; exact Eeff).
      assert (Ewn : wopt "encoding" s = WNone) by (rewrite (wopt_enc s Henc), Eown; reflexivity).
      unfold c in *. rewrite Ewn in *.
      destruct (meta_bytes_accept st kv d (kw_opt (sec_copts s) "format") Hr) as (st' & Hdo); try assumption.
      * rewrite Hst, hd_wstack, Einh. reflexivity.
      * apply (proj2 (WF.validate_ok_table st _ (sid_bytes lastw) Hpv)). cbn [WF.target]. rewrite Htgt.
        apply table_follow. apply Hfol. exact Hord.
      * exists st'. exact (Hdone st' Hdo).
Qed.

(* a diff *)
Lemma write_diff : forall prev x s st b,
  wf_section (Some prev) x s = true -> sid_kind (fs_id s) = SDiff -> sec_opts_known s = true ->
  sec_choices_ok s = true -> sec_payload s = PBytes b -> WSt prev x st ->
  exists st', run_all st (sec_calls s) = (st', Ok tt) /\ WSt (fs_id s) (ectx_next x s) st'.
Proof.
  intros prev x s st b Hwf Hk Hkn Hch Hp HW.
  destruct (wf_parts _ _ _ Hwf) as (Hord & _ & Henc & _). cbn [order_ok] in Hord.
  destruct (wf_diff_bytes _ _ _ _ Hwf Hk Hp) as (k & _ & Hdok).
  pose proof (diff_bytes_nonempty _ _ _ _ Hwf Hk Hp) as Hbne.
  destruct (diff_thunk s b Hk Hkn Hp Hbne) as (c & Ec & _ & Eshape).
  pose proof HW as (Hr & Hst & lastw & Hpv & Hfol).
  assert (Hkc : sid_kind (fs_id s) <> SContainer) by (rewrite Hk; discriminate).
  assert (Hname : sid_name (fs_id s) = B "diff") by (destruct (fs_id s); try discriminate Hk; reflexivity).
  destruct (content_target st x prev (fs_id s) _ Hst Hord Hkc Hname) as [Htgt Hd].
  assert (Hargs : WF.args_ok st c).
  { subst c. cbn [WF.args_ok]. exists b. split; [reflexivity|]. split; [exact Hbne|].
    unfold diff_ok in Hdok. destruct (diff_codec s) as [cd|]; [|discriminate Hdok].
    rewrite !andb_true_iff in Hdok. destruct Hdok as [[_ D3] _].
    split; [|split].
    - unfold wopt. rewrite kw_copts by discriminate. apply (set_choice _ _ diff_types_not_int).
      unfold sec_choices_ok in Hch. rewrite Hk in Hch. exact Hch.
    - unfold wopt. rewrite kw_copts by discriminate. exact (le_choice _ _ _ _ D3).
    - rewrite (wopt_enc s Henc). destruct (enc_opt_cases _ Henc) as [->|(e & ce & -> & Hce)]; [left; reflexivity|].
      right. destruct (wenc_facts e ce Hce) as ((canon & Hcf) & Htr & _). split; [exact Htr|]. eauto. }
  destruct (accept_step st c lastw (fs_id s) Hr Hpv (Hfol _ Hord)) as (st' & Hdo & _ & _);
    [subst c; exact Htgt | exact Hargs |].
  exists st'. rewrite Ec. split; [apply run_one; exact Hdo|].
  apply (content_done prev x s st st' c HW Hord Hkc Hd); [subst c; reflexivity | exact Hdo | subst c; exact Htgt].
Qed.

Lemma wdecl_wenc : forall ps, enc_opt_ok ps = true ->
  Encodings.wdecl (wenc (opt "encoding" ps)) = option_map (fun e => wenc (Some e)) (opt "encoding" ps).
Proof.
  intros ps H. unfold Encodings.wdecl. destruct (enc_opt_cases ps H) as [->|(e & c & -> & Hc)]; [reflexivity|].
  destruct (wenc_facts e c Hc) as (_ & -> & _). reflexivity.
Qed.

(* a .change / ..file header *)
Lemma write_container : forall prev x s st,
  wf_section (Some prev) x s = true -> (fs_id s = Change \/ fs_id s = File) -> WSt prev x st ->
  exists st', run_all st (sec_calls s) = (st', Ok tt) /\ WSt (fs_id s) (ectx_next x s) st'.
Proof.
  intros prev x s st Hwf Hid HW.
  destruct (wf_parts _ _ _ Hwf) as (Hord & _ & Henc & _). cbn [order_ok] in Hord.
  pose proof HW as (Hr & Hst & lastw & Hpv & Hfol).
  pose proof (WF.Inv_stack st (WF.reachable_inv st Hr)) as Hne.
  set (e := wenc (opt "encoding" (fs_opts s))).
  set (c := match fs_id s with Change => NewChange e | _ => NewFile e end).
  assert (Ec : sec_calls s = [c]) by (unfold sec_calls, c; destruct Hid as [-> | ->]; reflexivity).
  assert (Htgt : WF.target st c = sid_bytes (fs_id s)) by (unfold c; destruct Hid as [-> | ->]; reflexivity).
  assert (Hargs : WF.args_ok st c) by (unfold c; destruct Hid as [-> | ->]; cbn [WF.args_ok]; apply wenc_rv; exact Henc).
  destruct (accept_step st c lastw (fs_id s) Hr Hpv (Hfol _ Hord) Htgt Hargs) as (st' & Hdo & Hr' & Hp').
  exists st'. rewrite Ec. split; [apply run_one; exact Hdo|].
  split; [exact Hr'|]. split; [|exists (fs_id s); split; [exact Hp' | auto]].
  assert (Hc : c = NewChange e \/ c = NewFile e) by (unfold c; destruct Hid as [-> | ->]; auto).
  destruct (Encodings.writer_container_bridge c e st st' (Ok tt) Hc Hne Hdo) as [[_ Hs]|(err & Herr & _)]; [|discriminate Herr].
  unfold cur_level in Hs. rewrite Hst in Hs. unfold e in Hs. rewrite (wdecl_wenc _ Henc) in Hs.
  unfold ectx_next. unfold c in Hs.
  destruct Hid as [Eid | Eid]; rewrite Eid in *; cbn [sid_depth wstack] in *.
  - change GenText.writer_level_change with 2 in Hs.
    destruct prev; try discriminate Hord; cbn [sid_depth wstack length Nat.sub Nat.add Encodings.stack_step pop_n Encodings.stack_push] in Hs;
      injection Hs as ->; destruct (opt "encoding" (fs_opts s)); reflexivity.
  - change GenText.writer_level_file with 3 in Hs.
    destruct prev; try discriminate Hord; cbn [sid_depth wstack length Nat.sub Nat.add Encodings.stack_step pop_n Encodings.stack_push] in Hs;
      injection Hs as ->; destruct (opt "encoding" (fs_opts s)); reflexivity.
Qed.

Definition sec_writable (s : fsection) : bool :=
  sec_accepts s && sec_opts_known s && sec_choices_ok s && sec_meta_nonempty s && sec_meta_plain s.

Lemma write_step : forall prev x s st,
  wf_section (Some prev) x s = true -> sec_writable s = true -> WSt prev x st ->
  exists st', run_all st (sec_calls s) = (st', Ok tt) /\ WSt (fs_id s) (ectx_next x s) st'.
Proof.
  intros prev x s st Hwf Hw HW. unfold sec_writable in Hw. rewrite !andb_true_iff in Hw.
  destruct Hw as [[[[Hacc Hkn] Hch] Hne] Hpl].
  pose proof (wf_order _ _ _ Hwf) as Hord. cbn [order_ok] in Hord.
  pose proof (wf_payload _ _ _ Hwf) as Hpay.
  unfold sec_accepts in Hacc.
  destruct (fs_id s) eqn:Eid; cbn [sid_kind] in Hpay.
  - rewrite SectionsSpec.may_follow_main_false in Hord. discriminate Hord.
  - destruct (sec_payload s) as [|txt| |] eqn:Ep; try discriminate Hacc. rewrite <- Eid.
    apply (write_pre prev x s st txt); auto. rewrite Eid; reflexivity.
  - destruct Hpay as [j Ep]. rewrite Ep in Hacc. destruct j as [| | | | | |kv|]; try discriminate Hacc. rewrite <- Eid.
    apply (write_meta prev x s st kv); auto. rewrite Eid; reflexivity.
  - rewrite <- Eid. apply (write_container prev x s st); auto.
  - destruct (sec_payload s) as [|txt| |] eqn:Ep; try discriminate Hacc. rewrite <- Eid.
    apply (write_pre prev x s st txt); auto. rewrite Eid; reflexivity.
  - destruct Hpay as [j Ep]. rewrite Ep in Hacc. destruct j as [| | | | | |kv|]; try discriminate Hacc. rewrite <- Eid.
    apply (write_meta prev x s st kv); auto. rewrite Eid; reflexivity.
  - rewrite <- Eid. apply (write_container prev x s st); auto.
  - destruct Hpay as [j Ep]. rewrite Ep in Hacc. destruct j as [| | | | | |kv|]; try discriminate Hacc. rewrite <- Eid.
    apply (write_meta prev x s st kv); auto. rewrite Eid; reflexivity.
  - destruct Hpay as [b Ep]. rewrite <- Eid. apply (write_diff prev x s st b); auto. rewrite Eid; reflexivity.
Qed.

Lemma run_all_app : forall cs cs' st st1, run_all st cs = (st1, Ok tt) -> run_all st (cs ++ cs') = run_all st1 cs'.
Proof.
  induction cs as [|c cs IH]; intros cs' st st1 H.
  - cbn in H. injection H as <-. reflexivity.
  - cbn [app run_all] in *. destruct (do_call c st) as [s1 [[]|e]]; [apply IH; exact H | discriminate H].
Qed.

Lemma write_secs : forall ss prev x st,
  wf_secs (Some prev) x ss = true -> forallb sec_writable ss = true -> WSt prev x st ->
  exists st', run_all st (flat_map sec_calls ss) = (st', Ok tt).
Proof.
  induction ss as [|s ss IH]; intros prev x st Hwf Hw HW; [eexists; reflexivity|].
  cbn [wf_secs forallb] in *. apply andb_true_iff in Hwf, Hw. destruct Hwf as [Hs Hss], Hw as [W1 W2].
  destruct (write_step prev x s st Hs W1 HW) as (st1 & Hrun & HW1).
  destruct (IH (fs_id s) (ectx_next x s) st1 Hss W2 HW1) as (st' & Hrun').
  exists st'. cbn [flat_map]. rewrite (run_all_app _ _ _ _ Hrun). exact Hrun'.
Qed.

(** ** the main header: the DiffXWriter constructor *)

Definition v10 : wv := WStr (ascii_text (B "1.0")).

Lemma init_ok : forall ps, enc_opt_ok ps = true ->
  exists s0, writer_init (wenc (opt "encoding" ps)) v10 = (s0, Ok tt).
Proof.
  intros ps H. unfold writer_init.
  assert (Hv : in_strset v10 GenText.versions = Ok true) by (apply WF.in_strset_member; left; reflexivity).
  rewrite Hv.
  apply WF.ncs_accept; [discriminate | unfold GenText.writer_level_main; lia | reflexivity | | apply wenc_rv; exact H].
  constructor; [|constructor]. split; vm_compute; reflexivity.
Qed.

Lemma init_state : forall e s0, writer_init e v10 = (s0, Ok tt) ->
  WF.reachable s0 /\ w_stack s0 = [e; e] /\ w_prev s0 = Some (sid_bytes Main).
Proof.
  intros e s0 H. split; [eapply WF.reachable_init; eauto|]. split.
  - destruct (init_stack _ _ _ H) as (y & E & ->). exact E.
  - unfold writer_init in H. destruct (in_strset v10 GenText.versions) as [[|]|]; try (inversion H; fail).
    eapply Encodings.new_container_prev in H; [|vm_compute; lia|discriminate].
    destruct H as [[_ [_ Hp]]|[err [Hr _]]]; [exact Hp | discriminate].
Qed.

Lemma tof_step_opts : forall t s, fs_id s <> Main -> d_opts (tof_step t s) = d_opts t.
Proof. intros t s H. unfold tof_step. destruct (fs_id s); try reflexivity. congruence. Qed.

Lemma tree_of_secs_opts : forall ss p x t, wf_secs (Some p) x ss = true -> d_opts (tree_of_secs t ss) = d_opts t.
Proof.
  induction ss as [|s ss IH]; intros p x t H; [reflexivity|].
  cbn [wf_secs] in H. apply andb_true_iff in H. destruct H as [Hs Hss].
  cbn [tree_of_secs fold_left]. change (fold_left tof_step ss (tof_step t s)) with (tree_of_secs (tof_step t s) ss).
  rewrite (IH _ _ _ Hss). apply tof_step_opts. intro E.
  pose proof (wf_order _ _ _ Hs) as Ho. cbn [order_ok] in Ho. rewrite E, SectionsSpec.may_follow_main_false in Ho. discriminate.
Qed.

Lemma adel2_nil : forall (o : dopts) a b, (forall k, In k (map fst o) -> k = a \/ k = b) ->
  assoc_del beq a (assoc_del beq b o) = [].
Proof.
  intros o a b H. destruct (assoc_del beq a (assoc_del beq b o)) as [|[k v] r] eqn:E; [reflexivity|].
  assert (Hin : In k (map fst (assoc_del beq a (assoc_del beq b o)))) by (rewrite E; left; reflexivity).
  apply adel_keys_gen in Hin. destruct Hin as [Hin Na]. apply adel_keys_gen in Hin. destruct Hin as [Hin Nb].
  destruct (H k Hin); contradiction.
Qed.

Lemma forallb_and {A} : forall (p q : A -> bool) l, forallb p l = true -> forallb q l = true ->
  forallb (fun a => p a && q a) l = true.
Proof.
  intros p q l Hp Hq. rewrite forallb_forall in *. intros a Ha. rewrite (Hp a Ha), (Hq a Ha). reflexivity.
Qed.

Lemma secs_writable : forall f,
  dom_accepts f = true -> opts_known f = true -> choice_values_ok f = true ->
  sub_metas_nonempty f = true -> metas_plain f = true -> forallb sec_writable (ff_sections f) = true.
Proof.
  intros f H1 H2 H4 H5 H6. unfold sec_writable. repeat apply forallb_and; assumption.
Qed.

Lemma main_first : forall m rest, wf_secs None ectx0 (m :: rest) = true ->
  fs_id m = Main /\ wf_section None ectx0 m = true /\ wf_secs (Some Main) (ectx_next ectx0 m) rest = true.
Proof.
  intros m rest H. cbn [wf_secs] in H. apply andb_true_iff in H. destruct H as [Hm Hr].
  pose proof (wf_order _ _ _ Hm) as Ho. cbn [order_ok] in Ho. apply SectionsSpec.sid_eqb_eq in Ho.
  rewrite Ho in Hr. auto.
Qed.

(* the constructor arguments of the tree read from a file whose main header is [m] *)
Lemma main_tree_args : forall m t,
  wf_section None ectx0 m = true -> fs_id m = Main -> sec_opts_known m = true ->
  d_opts t = sec_dopts m ->
  tree_encoding t = wenc (opt "encoding" (fs_opts m)) /\ tree_version t = v10 /\ main_keys_ok t = true.
Proof.
  intros m t Hwf Eid Hkn Ho. destruct (wf_parts _ _ _ Hwf) as (_ & _ & Henc & Hk).
  rewrite Eid in Hk. cbn [sid_kind] in Hk.
  destruct (fs_content m); [destruct f; contradiction|].
  unfold tree_encoding, tree_version, main_keys_ok. rewrite Ho. split; [|split].
  - pose proof (kw_dopts m "encoding") as E. unfold kw in E. rewrite E. apply enc_wval. exact Henc.
  - rewrite sec_dopts_get. unfold version_ok in Hk. destruct (opt "version" (fs_opts m)) as [v|]; [|discriminate Hk].
    apply beq_eq in Hk. subst v. reflexivity.
  - rewrite (adel2_nil (sec_dopts m) (B "encoding") (B "version")); [reflexivity|].
    intros k Hin. apply sec_dopts_keys in Hin. unfold sec_opts_known in Hkn. rewrite Eid in Hkn.
    destruct (keys_in_In _ _ _ Hkn Hin) as [a [[<-|[<-|[]]] ->]]; auto.
Qed.

Lemma sec_calls_main : forall m, fs_id m = Main -> sec_calls m = [].
Proof. intros m H. unfold sec_calls. rewrite H. reflexivity. Qed.

(* (B): the tree read from a well-formed foreign file serialises *)
Theorem foreign_writes : forall f,
  wf_file f = true -> dom_accepts f = true -> opts_known f = true ->
  choice_values_ok f = true -> sub_metas_nonempty f = true -> metas_plain f = true ->
  exists b, dom_write (tree_of_file f) = Ok b.
Proof.
  intros f Hwf Hacc Hkn Hch Hne Hpl.
  pose proof (foreign_tree_calls f Hwf Hacc Hkn) as Hcalls.
  pose proof (secs_writable f Hacc Hkn Hch Hne Hpl) as Hw.
  unfold wf_file in Hwf. apply andb_true_iff in Hwf. destruct Hwf as [Hsecs _].
  unfold tree_of_file, file_calls, opts_known in *.
  destruct (ff_sections f) as [|m rest] eqn:Ess.
  - vm_compute. eexists. reflexivity.
  - destruct (main_first m rest Hsecs) as (Eid & Hm & Hrest).
    cbn [forallb] in Hw, Hkn. apply andb_true_iff in Hw, Hkn. destruct Hw as [_ Hw], Hkn as [Km _].
    cbn [tree_of_secs fold_left] in *. change (fold_left tof_step rest (tof_step new_tree m)) with (tree_of_secs (tof_step new_tree m) rest) in *.
    set (t := tree_of_secs (tof_step new_tree m) rest) in *.
    assert (Ho : d_opts t = sec_dopts m).
    { unfold t. rewrite (tree_of_secs_opts rest Main _ _ Hrest). unfold tof_step. rewrite Eid. reflexivity. }
    destruct (main_tree_args m t Hm Eid Km Ho) as (Eenc & Ever & Hkeys).
    destruct (wf_parts _ _ _ Hm) as (_ & _ & Henc & _).
    destruct (init_ok _ Henc) as [s0 Hinit].
    destruct (init_state _ _ Hinit) as (Hr0 & Hst0 & Hp0).
    assert (HW : WSt Main (ectx_next ectx0 m) s0).
    { split; [exact Hr0|]. split.
      - rewrite Hst0. unfold ectx_next. rewrite Eid. reflexivity.
      - exists Main. split; [exact Hp0 | auto]. }
    destruct (write_secs rest Main _ s0 Hrest Hw HW) as (s1 & Hrun).
    exists (w_out s1). apply C05_write_is_calls. split; [exact Hkeys|].
    exists s0, (flat_map sec_calls rest), s1. rewrite Eenc, Ever. split; [exact Hinit|].
    split; [|split; [exact Hrun | reflexivity]].
    rewrite Hcalls. cbn [flat_map]. rewrite (sec_calls_main m Eid). reflexivity.
Qed.

(* ================================================================================================ *)
(** * Stage 3 (C)+(D): the tree is in the domain of C05_full / C06_full, and normalisation keeps its contents *)

Definition G_p (p : psec) : Prop :=
  typed_opts (p_opts p) = true /\ enc_okb (psec_enc p) = true /\ psec_indent_ok p = true /\
  psec_text (norm_psec p) = psec_text p.
Definition G_m (m : msec) : Prop := typed_opts (m_opts m) = true /\ enc_okb (msec_enc m) = true.
Definition G_d (d : dsec) : Prop :=
  typed_opts (x_opts d) = true /\ enc_okb (dsec_enc d) = true /\ dsec_bytes (norm_dsec d) = dsec_bytes d.
Definition G_o (o : dopts) : Prop := typed_copts o = true /\ enc_okb (copts_enc o) = true.
Definition G_file (f : dfile) : Prop := G_o (f_opts f) /\ G_m (f_meta f) /\ G_d (f_diff f).
Definition G_change (c : dchange) : Prop :=
  G_o (c_opts c) /\ G_p (c_pre c) /\ G_m (c_meta c) /\ Forall G_file (c_files c).
Definition G_tree (t : dtree) : Prop :=
  typed_opts (d_opts t) = true /\ enc_okb (tree_encoding t) = true /\ G_p (d_pre t) /\ G_m (d_meta t) /\
  Forall G_change (d_changes t).

Lemma forallb_Forall {A} : forall (g : A -> bool) l, Forall (fun a => g a = true) l -> forallb g l = true.
Proof. intros g l H. apply forallb_forall. rewrite Forall_forall in H. exact H. Qed.

Lemma G_file_facts : forall f, G_file f ->
  typed_file f = true /\ file_encs enc_okb f = true /\ file_contents (norm_file f) = file_contents f.
Proof.
  intros f ((O1 & O2) & (M1 & M2) & (D1 & D2 & D3)). split; [|split].
  - unfold typed_file. rewrite O1, M1, D1. reflexivity.
  - unfold file_encs. rewrite O2, M2, D2. reflexivity.
  - unfold file_contents, norm_file. cbn [f_meta f_diff]. rewrite D3. f_equal.
    unfold norm_msec. destruct (is_nil (m_content (f_meta f))) eqn:E; [|reflexivity].
    destruct (m_content (f_meta f)); [reflexivity | discriminate E].
Qed.

Lemma norm_msec_content : forall m, m_content (norm_msec m) = m_content m.
Proof.
  intro m. unfold norm_msec. destruct (is_nil (m_content m)) eqn:E; [|reflexivity].
  destruct (m_content m); [reflexivity | discriminate E].
Qed.

Lemma G_change_facts : forall c, G_change c ->
  typed_change c = true /\ change_encs enc_okb c = true /\ psec_indent_ok (c_pre c) = true /\
  change_contents (norm_change c) = change_contents c.
Proof.
  intros c ((O1 & O2) & (P1 & P2 & P3 & P4) & (M1 & M2) & HF).
  assert (F1 : forallb typed_file (c_files c) = true).
  { apply forallb_Forall. eapply Forall_impl; [|exact HF]. intros f Hf. apply (G_file_facts f Hf). }
  assert (F2 : forallb (file_encs enc_okb) (c_files c) = true).
  { apply forallb_Forall. eapply Forall_impl; [|exact HF]. intros f Hf. apply (G_file_facts f Hf). }
  split; [|split; [|split]].
  - unfold typed_change. rewrite O1, P1, M1, F1. reflexivity.
  - unfold change_encs. rewrite O2, P2, M2, F2. reflexivity.
  - exact P3.
  - unfold change_contents, norm_change. cbn [c_pre c_meta c_files]. rewrite P4, norm_msec_content, map_map. f_equal.
    apply map_ext_in. intros f Hin. rewrite Forall_forall in HF. apply (G_file_facts f (HF f Hin)).
Qed.

Theorem G_tree_facts : forall t, G_tree t ->
  typed_tree t = true /\ tree_encs_ok t = true /\ tree_indents_ok t = true /\ same_contents t (normalise t).
Proof.
  intros t (O1 & O2 & (P1 & P2 & P3 & P4) & (M1 & M2) & HC).
  assert (C1 : forallb typed_change (d_changes t) = true).
  { apply forallb_Forall. eapply Forall_impl; [|exact HC]. intros c Hc. apply (G_change_facts c Hc). }
  assert (C2 : forallb (change_encs enc_okb) (d_changes t) = true).
  { apply forallb_Forall. eapply Forall_impl; [|exact HC]. intros c Hc. apply (G_change_facts c Hc). }
  assert (C3 : forallb (fun c => psec_indent_ok (c_pre c)) (d_changes t) = true).
  { apply forallb_Forall. eapply Forall_impl; [|exact HC]. intros c Hc. apply (G_change_facts c Hc). }
  split; [|split; [|split]].
  - unfold typed_tree. rewrite O1, P1, M1, C1. reflexivity.
  - unfold tree_encs_ok, tree_encs. rewrite O2, P2, M2, C2. reflexivity.
  - unfold tree_indents_ok. rewrite P3, C3. reflexivity.
  - unfold same_contents, tree_contents, normalise. cbn [d_pre d_meta d_changes]. rewrite P4, norm_msec_content, map_map.
    f_equal. symmetry. apply map_ext_in. intros c Hin. rewrite Forall_forall in HC. apply (G_change_facts c (HC c Hin)).
Qed.

(* the empty sections *)
Lemma G_new_psec : G_p new_psec. Proof. repeat split; reflexivity. Qed.
Lemma G_new_msec : G_m new_msec. Proof. split; vm_compute; reflexivity. Qed.
Lemma G_new_dsec : G_d new_dsec. Proof. repeat split; reflexivity. Qed.

(** ** the options of a well-formed section are typed *)

Lemma in_unique_get : forall (o : dopts) k v, keys_unique o = true -> In (k, v) o -> assoc_get beq k o = Some v.
Proof.
  induction o as [|[k0 v0] o IH]; intros k v Hu Hin; [destruct Hin|].
  cbn [keys_unique] in Hu. apply andb_true_iff in Hu. destruct Hu as [H1 H2]. apply negb_true_iff in H1.
  cbn [assoc_get]. destruct Hin as [E|Hin].
  - injection E as -> ->. rewrite (proj2 (beq_eq k k) eq_refl). reflexivity.
  - destruct (beq k k0) eqn:E; [|apply IH; assumption].
    apply beq_eq in E. subst k0. exfalso.
    assert (X : existsb (fun p => beq k (fst p)) o = true).
    { apply existsb_exists. exists (k, v). split; [exact Hin | apply beq_eq; reflexivity]. }
    congruence.
Qed.

Definition val_typed (v : option bytes) : Prop :=
  match v with Some x => hv_ok (wv_of_pv (spec_conv x)) = true | None => True end.

Lemma val_typed_str : forall x, int_ok x = false -> val_typed (Some x).
Proof.
  intros x H. cbn [val_typed]. rewrite (SpecReaderBase.spec_conv_str x H). cbn [wv_of_pv hv_ok].
  apply DomComposeCanon.ascii_str_ok. exact H.
Qed.

Lemma val_typed_enc : forall ps, enc_opt_ok ps = true -> val_typed (opt "encoding" ps).
Proof.
  intros ps H. destruct (enc_opt_cases ps H) as [->|(e & c & -> & Hc)]; [exact I|].
  apply val_typed_str. exact (SpecReaderContent.codec_of_not_int e c Hc).
Qed.

Lemma val_typed_indent : forall ps, indent_ok ps = true -> val_typed (opt "indent" ps).
Proof.
  intros ps H. unfold indent_ok in H. destruct (opt "indent" ps) as [v|]; [|exact I].
  cbn [val_typed]. destruct (spec_conv v); [reflexivity | discriminate H].
Qed.

Lemma val_typed_le : forall ps c k body, le_ok ps c k body = true -> val_typed (opt "line_endings" ps).
Proof.
  intros ps c k body H. unfold le_ok in H. destruct (opt "line_endings" ps) as [v|]; [|exact I].
  apply beq_eq in H. subst v. destruct k; vm_compute; reflexivity.
Qed.

Lemma val_typed_set : forall v set, forallb (fun x => negb (int_ok x)) set = true -> in_set v set = true -> val_typed v.
Proof.
  intros v set Hs H. destruct v as [y|]; [|exact I]. cbn [in_set] in H. apply mem_beq_In in H.
  apply val_typed_str. rewrite forallb_forall in Hs. specialize (Hs y H). destruct (int_ok y); [discriminate Hs | reflexivity].
Qed.

Lemma val_typed_format : forall ps, format_ok ps = true -> val_typed (opt "format" ps).
Proof.
  intros ps H. unfold format_ok in H. destruct (opt "format" ps) as [v|]; [|exact I].
  apply beq_eq in H. subst v. vm_compute. reflexivity.
Qed.

Lemma val_typed_version : forall ps, version_ok ps = true -> val_typed (opt "version" ps).
Proof.
  intros ps H. unfold version_ok in H. destruct (opt "version" ps) as [v|]; [|exact I].
  apply beq_eq in H. subst v. vm_compute. reflexivity.
Qed.

(* typed options from typed values of the allowed keys *)
Lemma typed_copts_sec : forall s (al : list String.string),
  (forall k, In k (map fst (sec_copts s)) -> exists a, In a al /\ k = B a /\ B a <> B "length") ->
  (forall a, In a al -> val_typed (opt a (fs_opts s))) ->
  typed_opts (sec_copts s) = true.
Proof.
  intros s al Hk Hv. unfold typed_opts. apply forallb_forall. intros [k v] Hin. cbn [snd].
  destruct (Hk k (in_map fst _ _ Hin)) as (a & Ha & -> & Hn).
  pose proof (in_unique_get _ _ _ (sec_copts_unique s) Hin) as Hg.
  rewrite (sec_copts_get s a Hn) in Hg. specialize (Hv a Ha).
  destruct (opt a (fs_opts s)) as [x|]; [|discriminate Hg]. cbn [option_map] in Hg. injection Hg as <-. exact Hv.
Qed.

Lemma only_keys_nolen : forall s al, only_keys (sec_copts s) al = true ->
  forall k, In k (map fst (sec_copts s)) -> exists a, In a al /\ k = B a /\ B a <> B "length".
Proof.
  intros s al H k Hin. apply in_map_iff in Hin. destruct Hin as [p [<- Hp]].
  destruct (only_keys_In _ _ _ H Hp) as [a [Ha E]]. exists a. split; [exact Ha|]. split; [exact E|].
  rewrite <- E. exact (proj2 (sec_copts_keys s (fst p) (in_map fst _ _ Hp))).
Qed.

Lemma enc_okb_wenc : forall ps, enc_opt_ok ps = true -> enc_okb (wenc (opt "encoding" ps)) = true.
Proof.
  intros ps H. apply enc_ok_okb. destruct (enc_opt_cases ps H) as [->|(e & c & -> & Hc)]; [left; reflexivity|].
  right. unfold codec_of in Hc. destruct (lookup_codec e) as [canon c'| |] eqn:E; try discriminate Hc.
  exists e, canon, c'. split; [reflexivity | exact E].
Qed.

Lemma G_sec_psec : forall prev x s txt, wf_section prev x s = true -> sid_kind (fs_id s) = SPreamble ->
  sec_opts_known s = true -> sec_choices_ok s = true -> sec_content_final s = true -> sec_payload s = PText txt ->
  G_p (sec_psec s).
Proof.
  intros prev x s txt Hwf Hk Hkn Hch Hfin Hp.
  destruct (wf_parts _ _ _ Hwf) as (_ & _ & Henc & _).
  destruct (wf_pre_text _ _ _ _ Hwf Hk Hp) as (t & _ & Etxt & Htok & Hind).
  pose proof (pre_text_nonempty _ _ _ _ Hwf Hk Hp) as Hne.
  unfold text_ok in Htok. destruct (text_codec x s) as [cd|] eqn:Ecd; [|discriminate Htok].
  rewrite !andb_true_iff in Htok. destruct Htok as [[_ T5] _].
  unfold G_p, sec_psec, psec_enc, psec_indent_ok. cbn [p_opts p_content]. split; [|split; [|split]].
  - apply (typed_copts_sec s ["encoding"; "indent"; "line_endings"; "mimetype"]).
    + apply only_keys_nolen. exact (pre_only_keys s Hk Hkn).
    + intros a [<-|[<-|[<-|[<-|[]]]]].
      * exact (val_typed_enc _ Henc).
      * exact (val_typed_indent _ Hind).
      * exact (val_typed_le _ _ _ _ T5).
      * apply (val_typed_set _ _ mimetypes_not_int). unfold sec_choices_ok in Hch. rewrite Hk in Hch. exact Hch.
  - rewrite kw_copts by discriminate. rewrite (enc_wval _ Henc). exact (enc_okb_wenc _ Henc).
  - rewrite kw_opt_copts by discriminate. destruct (indent_cases _ Hind) as [->|(z & -> & Hz)]; [reflexivity|].
    cbn [indent_okb]. apply Z.leb_le. exact Hz.
  - unfold sec_content_final in Hfin. rewrite Hk, Hp in Hfin. unfold payload_text in *. rewrite Hp in *.
    apply DomFacts.teq_eq in Hfin. unfold wopt in Hfin.
    unfold norm_psec. cbn [p_content p_opts]. rewrite (is_nil_false _ Hne).
    destruct (pre_resolve (kw (sec_copts s) "line_endings") txt) as [le nl]. cbn [snd] in Hfin.
    unfold psec_text. cbn [p_content]. exact Hfin.
Qed.

(* a metadata section may declare line_endings (the specification lists it); a well-formed one names the kind of
   line ending its JSON text uses, so the value is a typed one.  (Since pydiffx fix D15 the DOM writer drops it.) *)
Lemma meta_only_keys_le : forall s, sid_kind (fs_id s) = SMeta -> sec_opts_known s = true ->
  only_keys (sec_copts s) ["encoding"; "format"; "line_endings"] = true.
Proof.
  intros s Hk Hkn. apply only_keys_intro. intros k Hin. apply sec_copts_keys in Hin. destruct Hin as [Hin N].
  unfold sec_opts_known in Hkn. rewrite (kind_known_meta _ Hk) in Hkn.
  destruct (keys_in_In _ _ _ Hkn Hin) as [a [Ha ->]].
  destruct Ha as [<-|[<-|[<-|[<-|[]]]]]; try (eexists; split; [|reflexivity]; cbn; tauto).
Qed.

Lemma G_sec_msec : forall prev x s j, wf_section prev x s = true -> sid_kind (fs_id s) = SMeta ->
  sec_opts_known s = true -> sec_payload s = PMeta j -> G_m (sec_msec s).
Proof.
  intros prev x s j Hwf Hk Hkn Hp.
  destruct (wf_parts _ _ _ Hwf) as (_ & _ & Henc & _).
  destruct (wf_meta_cases _ _ _ _ Hwf Hk Hp) as (Hfmt & Hcase).
  unfold G_m, sec_msec, msec_enc. cbn [m_opts]. split.
  - apply (typed_copts_sec s ["encoding"; "format"; "line_endings"]).
    + apply only_keys_nolen. exact (meta_only_keys_le s Hk Hkn).
    + intros a [<-|[<-|[<-|[]]]]; [exact (val_typed_enc _ Henc) | exact (val_typed_format _ Hfmt) |].
      destruct Hcase as [(t & _ & Htok) | (ls & k & _ & Hraw)].
      * unfold text_ok in Htok. destruct (text_codec x s) as [cd|]; [|discriminate Htok].
        rewrite !andb_true_iff in Htok. destruct Htok as [[_ T5] _]. exact (val_typed_le _ _ _ _ T5).
      * unfold raw_ok in Hraw. destruct (eff_enc x s) as [eb|]; [discriminate Hraw|].
        rewrite !andb_true_iff in Hraw. destruct Hraw as [[_ R3] _]. exact (val_typed_le _ _ _ _ R3).
  - rewrite <- (proj1 (kw_remap_meta_del (sec_copts s))), (proj1 (meta_kw_del s Hk Hkn)).
    rewrite kw_copts by discriminate. rewrite (enc_wval _ Henc). exact (enc_okb_wenc _ Henc).
Qed.

Lemma G_sec_dsec : forall prev x s b, wf_section prev x s = true -> sid_kind (fs_id s) = SDiff ->
  sec_opts_known s = true -> sec_choices_ok s = true -> sec_content_final s = true -> sec_payload s = PBytes b ->
  G_d (sec_dsec s).
Proof.
  intros prev x s b Hwf Hk Hkn Hch Hfin Hp.
  destruct (wf_parts _ _ _ Hwf) as (_ & _ & Henc & _).
  destruct (wf_diff_bytes _ _ _ _ Hwf Hk Hp) as (k & _ & Hdok).
  pose proof (diff_bytes_nonempty _ _ _ _ Hwf Hk Hp) as Hne.
  unfold diff_ok in Hdok. destruct (diff_codec s) as [cd|]; [|discriminate Hdok].
  rewrite !andb_true_iff in Hdok. destruct Hdok as [[_ D3] _].
  pose proof (diff_only_keys s Hk Hkn) as Hok.
  destruct (remap_kw_diff (sec_copts s) (sec_copts_unique s) Hok) as [E1 [E2 E3]].
  unfold G_d, sec_dsec, dsec_enc. cbn [x_opts x_content]. split; [|split].
  - apply (typed_copts_sec s ["encoding"; "line_endings"; "type"]).
    + apply only_keys_nolen. exact Hok.
    + intros a [<-|[<-|[<-|[]]]].
      * exact (val_typed_enc _ Henc).
      * exact (val_typed_le _ _ _ _ D3).
      * apply (val_typed_set _ _ diff_types_not_int). unfold sec_choices_ok in Hch. rewrite Hk in Hch. exact Hch.
  - rewrite E1. rewrite kw_copts by discriminate. rewrite (enc_wval _ Henc). exact (enc_okb_wenc _ Henc).
  - unfold sec_content_final in Hfin. rewrite Hk, Hp in Hfin. unfold payload_bytes in *. rewrite Hp in *.
    apply beq_eq in Hfin. unfold wopt in Hfin.
    unfold norm_dsec. cbn [x_content x_opts]. rewrite (is_nil_false _ Hne), E1, E2.
    destruct (diff_prepared (kw (sec_copts s) "line_endings") (kw (sec_copts s) "encoding") b) as [body le].
    cbn [fst] in Hfin. unfold dsec_bytes. cbn [x_content]. exact Hfin.
Qed.

Lemma G_enc_dopts : forall ps, enc_opt_ok ps = true -> G_o (enc_dopts (opt "encoding" ps)).
Proof.
  intros ps H. unfold G_o, copts_enc. split.
  - destruct (enc_opt_cases ps H) as [->|(e & c & -> & Hc)]; [reflexivity|].
    cbn [enc_dopts typed_copts forallb snd sv_ok]. rewrite andb_true_r.
    apply DomComposeCanon.ascii_str_ok. exact (SpecReaderContent.codec_of_not_int e c Hc).
  - assert (E : kw (enc_dopts (opt "encoding" ps)) "encoding" = wenc (opt "encoding" ps))
      by (destruct (opt "encoding" ps); reflexivity).
    rewrite E. exact (enc_okb_wenc _ H).
Qed.

Lemma G_main_opts : forall m x, wf_section None x m = true -> fs_id m = Main -> sec_opts_known m = true ->
  typed_opts (sec_dopts m) = true.
Proof.
  intros m x Hwf Eid Hkn. destruct (wf_parts _ _ _ Hwf) as (_ & _ & Henc & Hk).
  rewrite Eid in Hk. cbn [sid_kind] in Hk. destruct (fs_content m); [destruct f; contradiction|].
  unfold typed_opts. apply forallb_forall. intros [k v] Hin. cbn [snd].
  pose proof (in_unique_get _ _ _ (sec_dopts_unique m) Hin) as Hg.
  pose proof (sec_dopts_keys m k (in_map fst _ _ Hin)) as Hkey.
  unfold sec_opts_known in Hkn. rewrite Eid in Hkn.
  destruct (keys_in_In _ _ _ Hkn Hkey) as [a [Ha ->]]. rewrite sec_dopts_get in Hg.
  assert (Hv : val_typed (opt a (fs_opts m))).
  { destruct Ha as [<-|[<-|[]]]; [exact (val_typed_enc _ Henc) | exact (val_typed_version _ Hk)]. }
  destruct (opt a (fs_opts m)) as [y|]; [|discriminate Hg]. cbn [option_map] in Hg. injection Hg as <-. exact Hv.
Qed.

Lemma Forall_snoc {A} : forall (P : A -> Prop) l x, Forall P (l ++ [x]) <-> Forall P l /\ P x.
Proof.
  intros P l x. rewrite Forall_app. split; intros [H1 H2]; split; auto.
  - inversion H2; assumption.
Qed.

Lemma G_tree_T : forall O p M cs, typed_opts O = true -> enc_okb (kw O "encoding") = true ->
  G_p p -> G_m M -> Forall G_change cs -> G_tree (T O p M cs).
Proof. intros. unfold G_tree, T. cbn [d_opts d_pre d_meta d_changes]. auto. Qed.
Lemma G_change_C : forall co cp cm fs, G_o co -> G_p cp -> G_m cm -> Forall G_file fs -> G_change (Ch co cp cm fs).
Proof. intros. unfold G_change, Ch. cbn [c_opts c_pre c_meta c_files]. auto. Qed.
Lemma G_file_F : forall fo fm fd, G_o fo -> G_m fm -> G_d fd -> G_file (Fi fo fm fd).
Proof. intros. unfold G_file, Fi. cbn [f_opts f_meta f_diff]. auto. Qed.

(* one section keeps the tree in the domain *)
Lemma step_good : forall prev x s t,
  wf_section prev x s = true -> sec_writable s = true -> sec_content_final s = true ->
  Shape (depth_of prev) t -> G_tree t -> G_tree (tof_step t s).
Proof.
  intros prev x s t Hwf Hw Hfin Hsh (O1 & O2 & GP & GM & GC).
  unfold sec_writable in Hw. rewrite !andb_true_iff in Hw. destruct Hw as [[[[Hacc Hkn] Hch] _] _].
  destruct (wf_parts _ _ _ Hwf) as (Hord & _ & Henc & _).
  pose proof (wf_payload _ _ _ Hwf) as Hpay.
  unfold sec_accepts in Hacc. unfold tof_step.
  destruct (fs_id s) eqn:Eid; cbn [sid_kind] in Hpay.
  - (* Main *)
    destruct prev as [a|]; [destruct a; discriminate Hord|].
    apply G_tree_T; try assumption; [exact (G_main_opts s x Hwf Eid Hkn)|].
    rewrite kw_dopts, (enc_wval _ Henc). exact (enc_okb_wenc _ Henc).
  - destruct (sec_payload s) as [|txt| |] eqn:Ep; try discriminate Hacc.
    apply G_tree_T; try assumption.
    apply (G_sec_psec prev x s txt); auto. rewrite Eid; reflexivity.
  - destruct Hpay as [j Ep].
    apply G_tree_T; try assumption.
    apply (G_sec_msec prev x s j); auto. rewrite Eid; reflexivity.
  - (* Change *)
    assert (Hki : keys_in (fs_opts s) ["encoding"] = true) by (unfold sec_opts_known in Hkn; rewrite Eid in Hkn; exact Hkn).
    rewrite (change_of_known s Hki Henc). cbn [res_or].
    apply G_tree_T; try assumption.
    apply Forall_snoc. split; [exact GC|].
    apply G_change_C; [exact (G_enc_dopts _ Henc) | exact G_new_psec | exact G_new_msec | constructor].
  - (* ChangePreamble *)
    destruct (sec_payload s) as [|txt| |] eqn:Ep; try discriminate Hacc.
    assert (Hd : 1 <= depth_of prev) by (destruct prev as [[]|]; try discriminate Hord; cbn; lia).
    destruct (Shape_change _ _ Hd Hsh) as (cs & c & Ecs).
    unfold on_last_change. rewrite Ecs, map_last_app.
    rewrite Ecs in GC. apply Forall_snoc in GC. destruct GC as [GC1 (C1 & C2 & C3 & C4)].
    apply G_tree_T; try assumption. apply Forall_snoc. split; [exact GC1|].
    apply G_change_C; try assumption.
    apply (G_sec_psec prev x s txt); auto. rewrite Eid; reflexivity.
  - (* ChangeMeta *)
    destruct Hpay as [j Ep].
    assert (Hd : 1 <= depth_of prev) by (destruct prev as [[]|]; try discriminate Hord; cbn; lia).
    destruct (Shape_change _ _ Hd Hsh) as (cs & c & Ecs).
    unfold on_last_change. rewrite Ecs, map_last_app.
    rewrite Ecs in GC. apply Forall_snoc in GC. destruct GC as [GC1 (C1 & C2 & C3 & C4)].
    apply G_tree_T; try assumption. apply Forall_snoc. split; [exact GC1|].
    apply G_change_C; try assumption.
    apply (G_sec_msec prev x s j); auto. rewrite Eid; reflexivity.
  - (* File *)
    assert (Hd : 1 <= depth_of prev) by (destruct prev as [[]|]; try discriminate Hord; cbn; lia).
    destruct (Shape_change _ _ Hd Hsh) as (cs & c & Ecs).
    assert (Hki : keys_in (fs_opts s) ["encoding"] = true) by (unfold sec_opts_known in Hkn; rewrite Eid in Hkn; exact Hkn).
    rewrite (file_of_known s Hki Henc). cbn [res_or].
    unfold on_last_change. rewrite Ecs, map_last_app.
    rewrite Ecs in GC. apply Forall_snoc in GC. destruct GC as [GC1 (C1 & C2 & C3 & C4)].
    apply G_tree_T; try assumption. apply Forall_snoc. split; [exact GC1|].
    apply G_change_C; try assumption.
    apply Forall_snoc. split; [exact C4|].
    apply G_file_F; [exact (G_enc_dopts _ Henc) | exact G_new_msec | exact G_new_dsec].
  - (* FileMeta *)
    destruct Hpay as [j Ep].
    assert (Hsh2 : exists cs co cp cm fs f, d_changes t = cs ++ [Ch co cp cm (fs ++ [f])])
      by (destruct prev as [[]|]; try discriminate Hord; exact Hsh).
    destruct Hsh2 as (cs & co & cp & cm & fs & f & Ecs).
    unfold on_last_file, on_last_change. rewrite Ecs, map_last_app. cbv beta.
    unfold Ch. cbn [c_opts c_pre c_meta c_files]. rewrite map_last_app. cbv beta.
    rewrite Ecs in GC. apply Forall_snoc in GC. destruct GC as [GC1 (C1 & C2 & C3 & C4)].
    unfold Ch in C1, C2, C3, C4. cbn [c_opts c_pre c_meta c_files] in C1, C2, C3, C4.
    apply Forall_snoc in C4. destruct C4 as [F0 (F1 & F2 & F3)].
    apply G_tree_T; try assumption. apply Forall_snoc. split; [exact GC1|].
    apply G_change_C; try assumption.
    apply Forall_snoc. split; [exact F0|]. apply G_file_F; try assumption.
    apply (G_sec_msec prev x s j); auto. rewrite Eid; reflexivity.
  - (* FileDiff *)
    destruct Hpay as [b Ep].
    assert (Hsh2 : exists cs co cp cm fs f, d_changes t = cs ++ [Ch co cp cm (fs ++ [f])])
      by (destruct prev as [[]|]; try discriminate Hord; exact Hsh).
    destruct Hsh2 as (cs & co & cp & cm & fs & f & Ecs).
    unfold on_last_file, on_last_change. rewrite Ecs, map_last_app. cbv beta.
    unfold Ch. cbn [c_opts c_pre c_meta c_files]. rewrite map_last_app. cbv beta.
    rewrite Ecs in GC. apply Forall_snoc in GC. destruct GC as [GC1 (C1 & C2 & C3 & C4)].
    unfold Ch in C1, C2, C3, C4. cbn [c_opts c_pre c_meta c_files] in C1, C2, C3, C4.
    apply Forall_snoc in C4. destruct C4 as [F0 (F1 & F2 & F3)].
    apply G_tree_T; try assumption. apply Forall_snoc. split; [exact GC1|].
    apply G_change_C; try assumption.
    apply Forall_snoc. split; [exact F0|]. apply G_file_F; try assumption.
    apply (G_sec_dsec prev x s b); auto. rewrite Eid; reflexivity.
Qed.

Lemma G_new_tree : G_tree new_tree.
Proof.
  split; [vm_compute; reflexivity|]. split; [vm_compute; reflexivity|].
  split; [exact G_new_psec|]. split; [exact G_new_msec | constructor].
Qed.

Lemma good_secs : forall ss prev x t,
  wf_secs prev x ss = true -> forallb sec_writable ss = true -> forallb sec_content_final ss = true ->
  Shape (depth_of prev) t -> G_tree t -> G_tree (tree_of_secs t ss).
Proof.
  induction ss as [|s ss IH]; intros prev x t Hwf Hw Hfin Hsh HG; [exact HG|].
  cbn [wf_secs forallb] in *. apply andb_true_iff in Hwf, Hw, Hfin.
  destruct Hwf as [Hs Hss], Hw as [W1 W2], Hfin as [F1 F2].
  cbn [tree_of_secs fold_left].
  apply (IH (Some (fs_id s)) (ectx_next x s) (tof_step t s) Hss W2 F2).
  - exact (step_shape prev x s t Hs Hsh).
  - exact (step_good prev x s t Hs W1 F1 Hsh HG).
Qed.

(* the tree read from a well-formed foreign file is in the domain of C05_full / C06_full, and normalising it does
   not change the contents of any section *)
Theorem foreign_domain : forall f,
  wf_file f = true -> dom_accepts f = true -> opts_known f = true ->
  choice_values_ok f = true -> sub_metas_nonempty f = true -> metas_plain f = true -> contents_final f = true ->
  typed_tree (tree_of_file f) = true /\ tree_encs_ok (tree_of_file f) = true /\
  tree_indents_ok (tree_of_file f) = true /\ same_contents (tree_of_file f) (normalise (tree_of_file f)).
Proof.
  intros f Hwf Hacc Hkn Hch Hne Hpl Hfin. apply G_tree_facts.
  pose proof (secs_writable f Hacc Hkn Hch Hne Hpl) as Hw.
  unfold wf_file in Hwf. apply andb_true_iff in Hwf. destruct Hwf as [Hsecs _].
  exact (good_secs (ff_sections f) None ectx0 new_tree Hsecs Hw Hfin I G_new_tree).
Qed.

(* (B)+(C)+(D), for the tree [tree_of_file f] *)
Theorem foreign_reserialise : forall f orc,
  wf_file f = true -> dom_accepts f = true -> opts_known f = true ->
  choice_values_ok f = true -> sub_metas_nonempty f = true -> metas_plain f = true -> contents_final f = true ->
  let t := tree_of_file f in
  exists b, dom_write t = Ok b /\ same_contents t (normalise t) /\
    (tree_oracle_ok orc t -> tree_metas_oracle_ok orc t -> tree_guesses_ok t ->
     (Z.of_nat (length b) <= sys_maxsize)%Z ->
     dom_read orc b = Ok (normalise t) /\ dom_write (normalise t) = Ok b /\
     normalise (normalise t) = normalise t /\
     (forall b', dom_write (normalise t) = Ok b' -> dom_read orc b' = Ok (normalise t))).
Proof.
  intros f orc Hwf Hacc Hkn Hch Hne Hpl Hfin t.
  destruct (foreign_writes f Hwf Hacc Hkn Hch Hne Hpl) as [b Hb].
  destruct (foreign_domain f Hwf Hacc Hkn Hch Hne Hpl Hfin) as (Ht & He & Hi & Hsame).
  exists b. split; [exact Hb|]. split; [exact Hsame|].
  intros Ho Hm Hg Hsz.
  destruct (C06_full orc t b Ht He Hi Hb Ho Hm Hg Hsz) as (t' & R1 & -> & R3 & R4 & R5).
  repeat split; assumption.
Qed.

(* ================================================================================================ *)
(** * Instances *)

Import SpecReaderExamples.

(* a file of another producer that satisfies every premise: CRLF header lines, options in any order, blank and
   whitespace-only lines, an indented utf-8-sig preamble with byte order mark and undeclared DOS line endings,
   compact JSON, an empty main .meta (dropped on re-serialisation), a ..file that switches to latin-1, a diff
   with declared line endings *)
Definition fx_good : ffile :=
  {| ff_crlf := true;
     ff_sections :=
       [ {| fs_id := Main; fs_opts := [(B "version", B "1.0"); (B "encoding", B "utf-8")];
            fs_blank := []; fs_content := None |};
         {| fs_id := MainPreamble;
            fs_opts := [(B "length", B "20"); (B "mimetype", B "text/markdown"); (B "indent", B "2");
                        (B "encoding", B "utf-8-sig")];
            fs_blank := [[]; B "  "];
            fs_content := Some (FText {| tc_lines := [asc "hello"; asc " w" ++ [233%N]]; tc_kind := LDos; tc_bom := true |}) |};
         {| fs_id := MainMeta; fs_opts := [(B "length", B "3")]; fs_blank := [];
            fs_content := Some (FMeta {| tc_lines := [asc "{}"]; tc_kind := LUnix; tc_bom := false |} (JObj [])) |};
         {| fs_id := Change; fs_opts := []; fs_blank := [B " "]; fs_content := None |};
         {| fs_id := ChangeMeta; fs_opts := [(B "length", B "8"); (B "format", B "json")]; fs_blank := [];
            fs_content := Some (FMeta {| tc_lines := [[123%N; dq; 99%N; dq] ++ asc ":1}"]; tc_kind := LUnix; tc_bom := false |}
                                      (JObj [(asc "c", JInt 1)])) |};
         {| fs_id := File; fs_opts := [(B "encoding", B "latin-1")]; fs_blank := []; fs_content := None |};
         {| fs_id := FileMeta; fs_opts := [(B "format", B "json"); (B "length", B "8")]; fs_blank := [];
            fs_content := Some (FMeta {| tc_lines := [[123%N; dq; 107%N; dq] ++ asc ":2}"]; tc_kind := LUnix; tc_bom := false |}
                                      (JObj [(asc "k", JInt 2)])) |};
         {| fs_id := FileDiff; fs_opts := [(B "type", B "text"); (B "length", B "6"); (B "line_endings", B "unix")];
            fs_blank := [[]];
            fs_content := Some (FDiff (B "-a" ++ [x0a] ++ B "+b" ++ [x0a]) LUnix) |} ];
     ff_trailing := [[]; B " "] |}.

Definition fx_dumped (j : json) : text := match json_dump j with Ok d => ascii_text d ++ [10%N] | Err _ => [] end.
Definition fx_orc : oracle :=
  [ (oracle_key_text (asc "{}" ++ [10%N]), LoadsOk (JObj []));
    (oracle_key_text ([123%N; dq; 99%N; dq] ++ asc ":1}" ++ [10%N]), LoadsOk (JObj [(asc "c", JInt 1)]));
    (oracle_key_text ([123%N; dq; 107%N; dq] ++ asc ":2}" ++ [10%N]), LoadsOk (JObj [(asc "k", JInt 2)]));
    (oracle_key_text (fx_dumped (JObj [(asc "c", JInt 1)])), LoadsOk (JObj [(asc "c", JInt 1)]));
    (oracle_key_text (fx_dumped (JObj [(asc "k", JInt 2)])), LoadsOk (JObj [(asc "k", JInt 2)])) ].

Example fx_good_premises :
  wf_file fx_good = true /\ dom_accepts fx_good = true /\ opts_known fx_good = true /\
  choice_values_ok fx_good = true /\ sub_metas_nonempty fx_good = true /\
  metas_plain fx_good = true /\ contents_final fx_good = true.
Proof. vm_compute. repeat split. Qed.

Example fx_good_oracle : oracle_ok_file fx_orc fx_good.
Proof. unfold oracle_ok_file. repeat (constructor; [vm_compute; first [exact I | reflexivity]|]). constructor. Qed.

Example fx_good_size : (Z.of_nat (length (render_file fx_good)) <= sys_maxsize)%Z.
Proof. vm_compute. discriminate. Qed.

Example fx_good_read : dom_read fx_orc (render_file fx_good) = Ok (tree_of_file fx_good).
Proof. vm_compute. reflexivity. Qed.

Example fx_good_tree_hyps :
  tree_oracle_ok fx_orc (tree_of_file fx_good) /\ tree_metas_oracle_ok fx_orc (tree_of_file fx_good) /\
  tree_guesses_ok (tree_of_file fx_good).
Proof.
  split; [oracle_tac|]. split.
  - apply tree_metas_oracle_main. vm_compute. reflexivity.
  - apply tree_guesses_aligned. vm_compute. reflexivity.
Qed.

(* what the object model writes for it *)
Definition fx_good_bytes : bytes :=
  B "#diffx: encoding=utf-8, version=1.0" ++ nl ++
  B "#.preamble: encoding=utf-8-sig, indent=2, length=20, line_endings=dos, mimetype=text/markdown" ++ nl ++
  B "  " ++ [xef; xbb; xbf] ++ B "hello" ++ cr ++ nl ++
  B "   w" ++ [xc3; xa9] ++ cr ++ nl ++
  B "#.change:" ++ nl ++
  B "#..meta: format=json, length=15" ++ nl ++
  B "{" ++ nl ++ B "    " ++ [x22] ++ B "c" ++ [x22] ++ B ": 1" ++ nl ++ B "}" ++ nl ++
  B "#..file: encoding=latin-1" ++ nl ++
  B "#...meta: format=json, length=15" ++ nl ++
  B "{" ++ nl ++ B "    " ++ [x22] ++ B "k" ++ [x22] ++ B ": 2" ++ nl ++ B "}" ++ nl ++
  B "#...diff: length=6, line_endings=unix, type=text" ++ nl ++
  B "-a" ++ nl ++ B "+b" ++ nl.

Example fx_good_writes : dom_write (tree_of_file fx_good) = Ok fx_good_bytes.
Proof. vm_compute. reflexivity. Qed.

(** ** each premise is needed: well-formed files the object model reads and cannot re-serialise *)

Definition mainsec : fsection :=
  {| fs_id := Main; fs_opts := [(B "encoding", B "utf-8"); (B "version", B "1.0")]; fs_blank := []; fs_content := None |}.
Definition metasec (a : sid) (opts : list (bytes * bytes)) (txt : text) (j : json) : fsection :=
  {| fs_id := a; fs_opts := opts; fs_blank := [];
     fs_content := Some (FMeta {| tc_lines := [txt]; tc_kind := LUnix; tc_bom := false |} j) |}.
Definition contsec (a : sid) : fsection := {| fs_id := a; fs_opts := []; fs_blank := []; fs_content := None |}.
Definition file_of_secs (ss : list fsection) : ffile := {| ff_crlf := false; ff_sections := ss; ff_trailing := [] |}.

Definition txt_a1 : text := [123%N; dq; 97%N; dq] ++ asc ":1}".       (* {"a":1} *)
Definition obj_a1 : json := JObj [(asc "a", JInt 1)].
Definition rx_orc : oracle :=
  [ (oracle_key_text (asc "{}" ++ [10%N]), LoadsOk (JObj []));
    (oracle_key_text (txt_a1 ++ [10%N]), LoadsOk obj_a1) ].

(* finding D15 (repaired; see meta_line_endings_ok below): a metadata section that declares line_endings *)
Definition rx_meta_le : ffile :=
  file_of_secs [mainsec; metasec MainMeta [(B "format", B "json"); (B "length", B "8"); (B "line_endings", B "unix")] txt_a1 obj_a1].
(* an empty ...meta followed by a diff; an empty ..meta followed by another .change *)
Definition rx_empty_file_meta : ffile :=
  file_of_secs [mainsec; contsec Change; contsec File; metasec FileMeta [(B "format", B "json"); (B "length", B "3")] (asc "{}") (JObj []);
                {| fs_id := FileDiff; fs_opts := [(B "length", B "2")]; fs_blank := [];
                   fs_content := Some (FDiff (B "a" ++ [x0a]) LUnix) |}].
Definition rx_empty_change_meta : ffile :=
  file_of_secs [mainsec; contsec Change; metasec ChangeMeta [(B "length", B "3")] (asc "{}") (JObj []);
                contsec Change; metasec ChangeMeta [(B "length", B "8")] txt_a1 obj_a1].
(* an option the specification does not define, on a content section and on the main header *)
Definition rx_unknown_main : ffile :=
  file_of_secs [{| fs_id := Main; fs_opts := [(B "encoding", B "utf-8"); (B "version", B "1.0"); (B "x-tool", B "1")];
                   fs_blank := []; fs_content := None |};
                metasec MainMeta [(B "length", B "8")] txt_a1 obj_a1].
(* a mimetype outside the specification's list *)
Definition rx_mimetype : ffile :=
  file_of_secs [mainsec;
                {| fs_id := MainPreamble; fs_opts := [(B "length", B "2"); (B "mimetype", B "text/html")]; fs_blank := [];
                   fs_content := Some (FText {| tc_lines := [asc "a"]; tc_kind := LUnix; tc_bom := false |}) |}].

Definition other_premises (f : ffile) : bool * bool * bool * bool * bool * bool :=
  (opts_known f, no_meta_line_endings f, choice_values_ok f, sub_metas_nonempty f, metas_plain f, contents_final f).

Definition reads_but_fails (f : ffile) (e : exn) : Prop :=
  wf_file f = true /\ oracle_ok_file rx_orc f /\ dom_read rx_orc (render_file f) = Ok (tree_of_file f) /\
  dom_write (tree_of_file f) = Err e.

Ltac refute_tac :=
  split; [vm_compute; reflexivity|];
  split; [unfold oracle_ok_file; repeat (constructor; [vm_compute; first [exact I | reflexivity]|]); constructor|];
  split; vm_compute; reflexivity.

(* finding D15, REPAIRED in pydiffx (the DOM writer no longer passes a metadata section's line_endings on to
   write_meta, which has no such parameter and never writes the option).  Until that fix [no_meta_line_endings f = true]
   was a premise of C06_foreign / foreign_writes / foreign_domain / foreign_tree_calls and this file was its
   [_refuted] witness (loads, then to_bytes() raised TypeError).  Now the same file loads and re-serialises: the
   output simply carries no line_endings on that metadata section, the contents are the same, and the fixed point
   holds.  [no_meta_line_endings] stays the second component of [other_premises] as a record that the file does
   declare the option. *)
Definition rx_meta_le_orc : oracle := rx_orc ++ [ (oracle_key_text (fx_dumped obj_a1), LoadsOk obj_a1) ].
Definition rx_meta_le_bytes : bytes :=
  B "#diffx: encoding=utf-8, version=1.0" ++ nl ++
  B "#.meta: format=json, length=15" ++ nl ++
  B "{" ++ nl ++ B "    " ++ [x22] ++ B "a" ++ [x22] ++ B ": 1" ++ nl ++ B "}" ++ nl.

Example meta_line_endings_ok :
  wf_file rx_meta_le = true /\ oracle_ok_file rx_meta_le_orc rx_meta_le /\
  dom_read rx_meta_le_orc (render_file rx_meta_le) = Ok (tree_of_file rx_meta_le) /\
  other_premises rx_meta_le = (true, false, true, true, true, true) /\
  kw (m_opts (d_meta (tree_of_file rx_meta_le))) "line_endings" = S_ "unix" /\
  dom_write (tree_of_file rx_meta_le) = Ok rx_meta_le_bytes /\
  same_contents (tree_of_file rx_meta_le) (normalise (tree_of_file rx_meta_le)) /\
  dom_read rx_meta_le_orc rx_meta_le_bytes = Ok (normalise (tree_of_file rx_meta_le)) /\
  dom_write (normalise (tree_of_file rx_meta_le)) = Ok rx_meta_le_bytes.
Proof.
  split; [vm_compute; reflexivity|].
  split; [unfold oracle_ok_file; repeat (constructor; [vm_compute; first [exact I | reflexivity]|]); constructor|].
  repeat split; vm_compute; reflexivity.
Qed.

Example empty_file_meta_refuted :
  reads_but_fails rx_empty_file_meta ELibOrder /\ other_premises rx_empty_file_meta = (true, true, true, false, true, true).
Proof. split; [refute_tac | vm_compute; reflexivity]. Qed.

Example empty_change_meta_refuted :
  reads_but_fails rx_empty_change_meta ELibOrder /\ other_premises rx_empty_change_meta = (true, true, true, false, true, true).
Proof. split; [refute_tac | vm_compute; reflexivity]. Qed.

Example unknown_option_refuted :
  reads_but_fails rx_unknown_main EType /\ other_premises rx_unknown_main = (false, true, true, true, true, true).
Proof. split; [refute_tac | vm_compute; reflexivity]. Qed.

Example unknown_content_option_refuted :
  wf_file sx_foreign = true /\ dom_read sx_foreign_orc (render_file sx_foreign) = Ok (tree_of_file sx_foreign) /\
  opts_known sx_foreign = false /\ dom_write (tree_of_file sx_foreign) = Err EType.
Proof. repeat split; vm_compute; reflexivity. Qed.

Example mimetype_refuted :
  reads_but_fails rx_mimetype ELibChoice /\ other_premises rx_mimetype = (true, true, false, true, true, true).
Proof. split; [refute_tac | vm_compute; reflexivity]. Qed.

(* a preamble with no encoding in force is read as bytes: the object model rejects the file *)
Example raw_preamble_rejected :
  wf_file sx_mixed = true /\ dom_accepts sx_mixed = false /\
  dom_read sx_mixed_orc (render_file sx_mixed) = Err ELibParse.
Proof. repeat split; vm_compute; reflexivity. Qed.

(* ================================================================================================ *)
(** * [contents_final] follows from [wf_file] *)

(* diffs: the bytes end with the newline the writer's own preparation determines *)
Lemma diff_final_wf : forall prev x s b, wf_section prev x s = true -> sid_kind (fs_id s) = SDiff ->
  sec_payload s = PBytes b -> sec_content_final s = true.
Proof.
  intros prev x s b Hwf Hk Hp.
  destruct (wf_parts _ _ _ Hwf) as (_ & _ & Henc & _).
  destruct (wf_diff_bytes _ _ _ _ Hwf Hk Hp) as (k & _ & Hdok).
  pose proof (diff_bytes_nonempty _ _ _ _ Hwf Hk Hp) as Hne.
  unfold sec_content_final. rewrite Hk, Hp.
  unfold diff_ok in Hdok. destruct (diff_codec s) as [cd|] eqn:Ecd; [|discriminate Hdok].
  rewrite !andb_true_iff in Hdok. destruct Hdok as [[[_ Hends] Hle] _].
  unfold diff_codec in Ecd. set (eb := diff_spelling s) in *.
  destruct (SpecReaderCodec.codec_laws_x eb cd Ecd) as (bom & enc0 & laws & _).
  destruct (SpecReaderContent.nl_bytes_laws eb cd bom enc0 laws k) as (Enl & _).
  (* the encoding argument *)
  assert (Harg : RoundTripContent.diff_enc_arg eb bom (wopt "encoding" s)).
  { rewrite (wopt_enc s Henc). unfold eb, diff_spelling in *.
    destruct (enc_opt_cases _ Henc) as [E|(e & c & E & Hc)]; rewrite E in *.
    - constructor; [reflexivity|].
      rewrite <- (SpecReaderCodec.enc_bom_of_laws _ _ _ _ laws).
      rewrite SpecReaderContent.ascii_codec in Ecd. injection Ecd as <-. reflexivity.
    - constructor. unfold codec_of in Hc. destruct (lookup_codec e) as [canon c'| |] eqn:El; try discriminate Hc.
      apply (RoundTripSim.spelling_facts e canon c' El). }
  (* the line_endings argument *)
  assert (Hlev : RoundTripContent.le_arg (wopt "line_endings" s) /\
                 (wopt "line_endings" s = WNone /\
                  detect_kind (nl_bytes cd LUnix) (nl_bytes cd LDos) b = k \/
                  wopt "line_endings" s = WStr (ascii_text (le_name k)))).
  { unfold wopt. rewrite kw_copts by discriminate. unfold le_ok in Hle.
    destruct (opt "line_endings" (fs_opts s)) as [v|].
    - apply beq_eq in Hle. subst v. cbn [wval]. rewrite SpecReaderBase.le_name_conv. cbn [wv_of_pv].
      split; [constructor; apply SpecReaderContent.le_values | right; reflexivity].
    - split; [constructor | left; split; [reflexivity | apply SpecReaderContent.le_kind_eqb_eq; exact Hle]]. }
  destruct Hlev as [Hla Hcase].
  destruct (RoundTripContent.diff_round_trip eb cd bom enc0 laws no_state b _ _ Hne Hla Harg)
    as (body & le & nlb & lines & Hin & Hnlb & Hg & Hd & Hbody & _ & Hprep & _).
  assert (Enlb : nlb = nl_bytes cd k).
  { destruct Hcase as [[E Hdet] | E].
    - specialize (Hg E). rewrite (SpecReaderContent.guess_detect eb cd bom enc0 laws b), Hdet in Hg. congruence.
    - specialize (Hd (le_name k) E (SpecReaderContent.le_values k)). subst le.
      rewrite SpecReaderContent.nl_text_le in Hnlb. congruence. }
  unfold diff_prepared, diff_prepare. rewrite Hprep. cbn [fst]. rewrite Hbody, Enlb, Hends. apply beq_eq. reflexivity.
Qed.

(** ** preambles: the line ending detected on the decoded text is the one detected on the bytes *)

Section FindFirst.
  Context {A : Type} (eqb : A -> A -> bool).
  Hypothesis eqb_spec : forall a b, eqb a b = true <-> a = b.

  Lemma find_first : forall (pat : list A) n l,
    (forall p, p < n -> prefixb eqb pat (skipn p l) = false) -> prefixb eqb pat (skipn n l) = true ->
    find eqb pat l = Some n.
  Proof.
    intros pat. induction n as [|n IH]; intros l Hf Ht.
    - apply RoundTripGuess.find_here. exact Ht.
    - destruct l as [|y l].
      + pose proof (Hf 0 (Nat.lt_0_succ n)) as H0. cbn [skipn] in *. congruence.
      + pose proof (Hf 0 (Nat.lt_0_succ n)) as H0. cbn [skipn] in H0, Ht.
        rewrite (RoundTripGuess.find_cons eqb eqb_spec pat y l H0).
        rewrite (IH l); [reflexivity | | exact Ht].
        intros p Hp. apply (Hf (S p)). lia.
  Qed.

  (* the first occurrence of a pattern in  S ++ (X ++ pat) ++ R  when no element of S starts the pattern and the
     pattern occurs in X ++ pat only at the end *)
  Lemma find_after_prefix : forall (pat S X R : list A),
    pat <> [] -> (forall a, In a S -> forall rest, pat <> a :: rest) ->
    occurrences eqb pat (X ++ pat) = 1 ->
    find eqb pat (S ++ (X ++ pat) ++ R) = Some (length S + length X).
  Proof.
    intros pat S X R Hne HS Hocc. apply find_first.
    - intros p Hp. destruct (Nat.lt_ge_cases p (length S)) as [Hlt | Hge].
      + rewrite skipn_app. replace (p - length S) with 0 by lia. cbn [skipn].
        destruct (skipn p S) as [|h tl] eqn:Es.
        { assert (length (skipn p S) = 0) by (rewrite Es; reflexivity). rewrite skipn_length in H. lia. }
        destruct pat as [|a pat']; [congruence|].
        destruct (prefixb eqb (a :: pat') ((h :: tl) ++ (X ++ a :: pat') ++ R)) eqn:E; [|reflexivity].
        apply (TextFacts.prefixb_spec eqb eqb_spec) in E. destruct E as [r E]. cbn [app] in E. injection E as E _.
        exfalso. apply (HS h) with (rest := pat').
        * rewrite <- (firstn_skipn p S). apply in_or_app. right. rewrite Es. left. reflexivity.
        * subst h. reflexivity.
      + rewrite skipn_app. rewrite skipn_all2 by lia. cbn [app].
        set (q := p - length S). assert (Hq : q < length X) by (unfold q; lia).
        rewrite skipn_app. replace (q - length (X ++ pat)) with 0 by (rewrite app_length; lia). cbn [skipn].
        rewrite RoundTripContent.prefixb_app_long.
        * apply (proj1 (TextFacts.occurrences_one_iff eqb eqb_spec pat X Hne) Hocc). exact Hq.
        * rewrite skipn_length, app_length. lia.
    - rewrite skipn_app. rewrite skipn_all2 by lia. cbn [app].
      replace (length S + length X - length S) with (length X) by lia.
      rewrite <- app_assoc, skipn_app, skipn_all, Nat.sub_diag. cbn [skipn app].
      apply (TextFacts.prefixb_app eqb eqb_spec).
  Qed.
End FindFirst.

Section PreFinal.
  Variables (eb : bytes) (c : codec) (bom : bytes) (enc0 : text -> option bytes).
  Hypothesis laws : RoundTripCodec.codec_laws eb c bom enc0.

  Local Notation u := (nl_bytes c LUnix).
  Local Notation d := (nl_bytes c LDos).

  Lemma enc0_split : forall a b y, enc0 (a ++ b) = Some y ->
    exists ya yb, enc0 a = Some ya /\ enc0 b = Some yb /\ y = ya ++ yb.
  Proof.
    intros a b y H. rewrite (RoundTripCodec.cl_hom _ _ _ _ laws) in H.
    destruct (enc0 a) as [ya|]; [|discriminate H]. destruct (enc0 b) as [yb|]; [|discriminate H].
    injection H as <-. eauto.
  Qed.

  Lemma enc0_lf : enc0 [10%N] = Some u.
  Proof. exact (proj1 (SpecReaderContent.nl_bytes_laws eb c bom enc0 laws LUnix)). Qed.
  Lemma enc0_crlf : enc0 [13%N; 10%N] = Some d.
  Proof. exact (proj1 (SpecReaderContent.nl_bytes_laws eb c bom enc0 laws LDos)). Qed.

  (* a line of a unix-kind text whose pieces are clean contains no LF *)
  Lemma clean_no_lf : forall mark l0,
    encodable c (le_text LUnix) l0 = true ->
    occurrences byte_eqb u (mark ++ enc_line c (le_text LUnix) l0) = 1 -> ~ In 10%N l0.
  Proof.
    intros mark l0 Henc Hocc Hin.
    destruct (SpecReaderContent.encodable_line eb c bom enc0 laws LUnix l0 Henc) as [E1 E2].
    destruct (SpecReaderContent.nl_bytes_laws eb c bom enc0 laws LUnix) as (_ & Hne & _).
    destruct (enc0_split l0 (le_text LUnix) _ E1) as (y0 & yn & Ey0 & _ & _).
    apply in_split in Hin. destruct Hin as (a & b & ->).
    destruct (enc0_split a (10%N :: b) _ Ey0) as (ya & yr & _ & Eyr & ->).
    change (10%N :: b) with ([10%N] ++ b) in Eyr.
    destruct (enc0_split [10%N] b _ Eyr) as (yu & yb & Eu & _ & ->).
    rewrite enc0_lf in Eu. injection Eu as <-.
    rewrite E2 in Hocc. unfold SpecReaderContent.ql in Hocc. rewrite Ey0 in Hocc.
    replace (mark ++ (ya ++ u ++ yb) ++ u) with ((mark ++ ya ++ u ++ yb) ++ u) in Hocc
      by (rewrite <- !app_assoc; reflexivity).
    pose proof (proj1 (TextFacts.occurrences_one_iff byte_eqb TextFacts.byte_eqb_spec u _ Hne) Hocc (length (mark ++ ya))) as Hf.
    assert (Hlt : length (mark ++ ya) < length (mark ++ ya ++ u ++ yb)).
    { rewrite !app_length. destruct (nl_bytes c LUnix); [congruence | cbn; lia]. }
    specialize (Hf Hlt).
    replace ((mark ++ ya ++ u ++ yb) ++ u) with ((mark ++ ya) ++ u ++ yb ++ u) in Hf
      by (rewrite <- !app_assoc; reflexivity).
    rewrite skipn_app, skipn_all, Nat.sub_diag in Hf. cbn [skipn app] in Hf.
    rewrite (TextFacts.prefixb_app byte_eqb TextFacts.byte_eqb_spec) in Hf. discriminate Hf.
  Qed.

  (* unix-kind text, line endings not declared: if the detection on the bytes says unix, so does the detection on
     the text *)
  Lemma unix_text_guess : forall mark n l0 ls,
    forallb (encodable c (le_text LUnix)) (l0 :: ls) = true ->
    lines_clean u (text_pieces c (le_text LUnix) mark (l0 :: ls)) = true ->
    detect_kind u d (text_body c (le_text LUnix) mark n (l0 :: ls)) = LUnix ->
    snd (guess_line_endings_text (concat (map (fun l => l ++ le_text LUnix) (l0 :: ls)))) = [10%N].
  Proof.
    intros mark n l0 ls Henc Hclean Hdet.
    cbn [forallb] in Henc. apply andb_true_iff in Henc. destruct Henc as [H0 _].
    cbn [text_pieces lines_clean forallb] in Hclean. apply andb_true_iff in Hclean. destruct Hclean as [Hc0 _].
    apply Nat.eqb_eq in Hc0.
    pose proof (clean_no_lf mark l0 H0 Hc0) as Hnolf.
    destruct (SpecReaderContent.encodable_line eb c bom enc0 laws LUnix l0 H0) as [E1 E2].
    destruct (SpecReaderContent.nl_bytes_laws eb c bom enc0 laws LUnix) as (_ & Hne & _ & Hx20 & _).
    cbn [map concat]. change (le_text LUnix) with [10%N]. rewrite <- app_assoc. cbn [app].
    unfold guess_line_endings_text. change (nl_text GenText.le_unix) with [10%N]. change (nl_text GenText.le_dos) with [13%N; 10%N].
    cbv zeta.
    rewrite (RoundTripGuess.find_one_first N.eqb RoundTripCodec.N_eqb_spec 10%N l0 _ Hnolf).
    replace (firstn (length l0 + length [10%N]) (l0 ++ 10%N :: concat (map (fun l => l ++ [10%N]) ls))) with (l0 ++ [10%N]).
    2:{ change (l0 ++ 10%N :: concat (map (fun l => l ++ [10%N]) ls)) with (l0 ++ [10%N] ++ concat (map (fun l => l ++ [10%N]) ls)).
        rewrite app_assoc, firstn_app. rewrite <- app_length, Nat.sub_diag, firstn_all. cbn [firstn]. rewrite app_nil_r. reflexivity. }
    destruct (suffixb N.eqb [13%N; 10%N] (l0 ++ [10%N])) eqn:Es; [|reflexivity]. exfalso.
    (* the first line ends with CR: the bytes say dos *)
    apply (TextFacts.suffixb_spec N.eqb RoundTripCodec.N_eqb_spec) in Es. destruct Es as [q Eq].
    change [13%N; 10%N] with ([13%N] ++ [10%N]) in Eq. rewrite app_assoc in Eq. apply app_inj_tail in Eq. destruct Eq as [-> _].
    destruct (enc0_split (q ++ [13%N]) (le_text LUnix) _ E1) as (y0 & yn & Ey0 & _ & _).
    destruct (enc0_split q [13%N] _ Ey0) as (yq & ycr & _ & Ecr & ->).
    assert (Ed : d = ycr ++ u).
    { pose proof enc0_crlf as Hd. change [13%N; 10%N] with ([13%N] ++ [10%N]) in Hd.
      destruct (enc0_split _ _ _ Hd) as (a1 & a2 & A1 & A2 & ->). rewrite Ecr in A1. rewrite enc0_lf in A2. congruence. }
    rewrite E2 in Hc0. unfold SpecReaderContent.ql in Hc0, E2. rewrite Ey0 in Hc0, E2.
    set (X := mark ++ yq ++ ycr) in *.
    assert (Epiece : mark ++ enc_line c (le_text LUnix) (q ++ [13%N]) = X ++ u) by (rewrite E2; unfold X; rewrite <- !app_assoc; reflexivity).
    replace (mark ++ (yq ++ ycr) ++ u) with (X ++ u) in Hc0 by (unfold X; rewrite <- !app_assoc; reflexivity).
    unfold detect_kind, text_body in Hdet. cbn [text_pieces map concat] in Hdet. rewrite Epiece in Hdet.
    set (R := concat (map (app (repeat_b x20 n)) (map (enc_line c (le_text LUnix)) ls))) in *.
    replace (repeat_b x20 n ++ X ++ u) with (repeat_b x20 n ++ (X ++ u)) in Hdet by reflexivity.
    rewrite <- app_assoc in Hdet.
    unfold bfind in Hdet.
    rewrite (find_after_prefix byte_eqb TextFacts.byte_eqb_spec u (repeat_b x20 n) X R Hne) in Hdet.
    - assert (Efn : forall (S0 X0 U0 R0 : bytes),
                firstn (length S0 + length X0 + length U0) (S0 ++ (X0 ++ U0) ++ R0) = S0 ++ X0 ++ U0).
      { intros S0 X0 U0 R0. replace (length S0 + length X0 + length U0) with (length (S0 ++ X0 ++ U0))
          by (rewrite !app_length; lia).
        rewrite (app_assoc S0 (X0 ++ U0) R0). rewrite firstn_app, Nat.sub_diag, firstn_all. cbn [firstn]. apply app_nil_r. }
      rewrite Efn in Hdet.
      assert (Hb : bends d (repeat_b x20 n ++ X ++ u) = true).
      { rewrite Ed. unfold X, bends.
        replace (repeat_b x20 n ++ (mark ++ yq ++ ycr) ++ u) with ((repeat_b x20 n ++ mark ++ yq) ++ ycr ++ u)
          by (rewrite <- !app_assoc; reflexivity).
        apply (TextFacts.suffixb_app byte_eqb TextFacts.byte_eqb_spec). }
      rewrite Hb in Hdet. discriminate Hdet.
    - intros a Ha rest E. apply RoundTripContent.in_repeat_b in Ha. subst a. apply Hx20. rewrite E. left. reflexivity.
    - exact Hc0.
  Qed.
End PreFinal.

Lemma pre_resolve_declared : forall k t,
  pre_resolve (WStr (ascii_text (le_name k))) t = (WStr (ascii_text (le_name k)), le_text k).
Proof. intros [] t; reflexivity. Qed.

Lemma final_text_suffix : forall nl t, suffixb N.eqb nl t = true -> final_text nl t = t.
Proof. intros nl t H. unfold final_text. rewrite H. reflexivity. Qed.

Lemma suffix_crlf_lf : forall t, suffixb N.eqb [13%N; 10%N] t = true -> suffixb N.eqb [10%N] t = true.
Proof.
  intros t H. apply (TextFacts.suffixb_spec N.eqb RoundTripCodec.N_eqb_spec) in H. destruct H as [q ->].
  change [13%N; 10%N] with ([13%N] ++ [10%N]). rewrite app_assoc.
  apply (TextFacts.suffixb_app N.eqb RoundTripCodec.N_eqb_spec).
Qed.

Lemma pre_final_wf : forall prev x s txt, wf_section prev x s = true -> sid_kind (fs_id s) = SPreamble ->
  sec_payload s = PText txt -> sec_content_final s = true.
Proof.
  intros prev x s txt Hwf Hk Hp.
  destruct (wf_pre_text _ _ _ _ Hwf Hk Hp) as (t & Econt & Etxt & Htok & _).
  unfold sec_content_final. rewrite Hk, Hp.
  apply DomFacts.teq_eq. apply final_text_suffix.
  unfold text_ok in Htok. destruct (text_codec x s) as [cd|] eqn:Ecd; [|discriminate Htok].
  rewrite !andb_true_iff in Htok. destruct Htok as [[[[[T1 T2] _] T4] T5] _].
  assert (Ebody : content_body x s = text_body cd (le_text (tc_kind t)) (tc_mark cd t) (indent_of s) (tc_lines t))
    by (unfold content_body; rewrite Econt, Ecd; reflexivity).
  rewrite Ebody in T5. clear Ebody.
  assert (Hlines : tc_lines t <> []) by (destruct (tc_lines t); [discriminate T1 | discriminate]).
  pose proof (SpecReaderContent.joined_ends (tc_kind t) (tc_lines t) Hlines) as Hends.
  fold (joined t) in Hends. rewrite <- Etxt in Hends.
  unfold wopt. rewrite kw_copts by discriminate. unfold le_ok in T5.
  destruct (opt "line_endings" (fs_opts s)) as [v|].
  - apply beq_eq in T5. subst v. cbn [wval]. rewrite SpecReaderBase.le_name_conv. cbn [wv_of_pv].
    rewrite pre_resolve_declared. exact Hends.
  - cbn [wval]. unfold pre_resolve. cbn [declared_newline].
    apply SpecReaderContent.le_kind_eqb_eq in T5.
    destruct (tc_kind t) eqn:Ekind.
    + (* unix *)
      unfold text_codec in Ecd. destruct (eff_enc x s) as [eb|]; [|discriminate Ecd].
      destruct (SpecReaderCodec.codec_laws_x eb cd Ecd) as (bom & enc0 & laws & _).
      destruct (tc_lines t) as [|l0 ls] eqn:El; [congruence|].
      assert (Hg : snd (guess_line_endings_text txt) = [10%N]).
      { rewrite Etxt. unfold joined. rewrite El, Ekind.
        exact (unix_text_guess eb cd bom enc0 laws (tc_mark cd t) (indent_of s) l0 ls T2 T4 T5). }
      destruct (guess_line_endings_text txt) as [l nl]. cbn [snd] in *. subst nl. exact Hends.
    + (* dos: both possible guesses are suffixes *)
      destruct (WF.guess_text_cases txt) as [-> | ->]; cbn [snd].
      * exact Hends.
      * apply suffix_crlf_lf. exact Hends.
Qed.

Lemma sec_final_wf : forall prev x s, wf_section prev x s = true -> sec_content_final s = true.
Proof.
  intros prev x s Hwf. pose proof (wf_payload _ _ _ Hwf) as Hpay.
  destruct (sid_kind (fs_id s)) eqn:Hk.
  - unfold sec_content_final. rewrite Hk. reflexivity.
  - destruct Hpay as [[txt Ep] | [b Ep]].
    + exact (pre_final_wf prev x s txt Hwf Hk Ep).
    + unfold sec_content_final. rewrite Hk, Ep. reflexivity.
  - unfold sec_content_final. rewrite Hk. reflexivity.
  - destruct Hpay as [b Ep]. exact (diff_final_wf prev x s b Hwf Hk Ep).
Qed.

Lemma secs_final_wf : forall ss prev x, wf_secs prev x ss = true -> forallb sec_content_final ss = true.
Proof.
  induction ss as [|s ss IH]; intros prev x H; [reflexivity|].
  cbn [wf_secs forallb] in *. apply andb_true_iff in H. destruct H as [Hs Hss].
  rewrite (sec_final_wf prev x s Hs). exact (IH _ _ Hss).
Qed.

(* the contents of every text / diff section of a well-formed file already end with their line ending, as the
   object model determines it *)
Theorem contents_final_wf : forall f, wf_file f = true -> contents_final f = true.
Proof.
  intros f H. unfold wf_file in H. apply andb_true_iff in H. destruct H as [H _].
  exact (secs_final_wf (ff_sections f) None ectx0 H).
Qed.

(* ================================================================================================ *)
(** * The theorem *)

(* the oracle hypothesis of C05_full / C06_full on the calls the file gives rise to *)
Lemma foreign_tree_oracle : forall f orc,
  wf_file f = true -> dom_accepts f = true -> opts_known f = true ->
  RoundTrip.oracle_ok orc (file_calls f) -> tree_oracle_ok orc (tree_of_file f).
Proof.
  intros f orc Hwf Hacc Hkn H cs Hcs. rewrite (foreign_tree_calls f Hwf Hacc Hkn) in Hcs.
  injection Hcs as <-. exact H.
Qed.

Theorem C06_foreign : forall f orc t,
  wf_file f = true -> oracle_ok_file orc f ->
  (Z.of_nat (length (render_file f)) <= sys_maxsize)%Z ->
  dom_read orc (render_file f) = Ok t ->
  opts_known f = true -> choice_values_ok f = true ->
  sub_metas_nonempty f = true -> metas_plain f = true ->
  exists b, dom_write t = Ok b /\ same_contents t (normalise t) /\
    (tree_oracle_ok orc t -> tree_metas_oracle_ok orc t -> tree_guesses_ok t ->
     (Z.of_nat (length b) <= sys_maxsize)%Z ->
     dom_read orc b = Ok (normalise t) /\ dom_write (normalise t) = Ok b /\
     normalise (normalise t) = normalise t /\
     (forall b', dom_write (normalise t) = Ok b' -> dom_read orc b' = Ok (normalise t))).
Proof.
  intros f orc t Hwf Horc Hsz Hread Hkn Hch Hne Hpl.
  destruct (foreign_read_inv f orc t Hwf Horc Hsz Hread) as [Hacc ->].
  exact (foreign_reserialise f orc Hwf Hacc Hkn Hch Hne Hpl (contents_final_wf f Hwf)).
Qed.

Theorem foreign_domain_wf : forall f,
  wf_file f = true -> dom_accepts f = true -> opts_known f = true ->
  choice_values_ok f = true -> sub_metas_nonempty f = true -> metas_plain f = true ->
  typed_tree (tree_of_file f) = true /\ tree_encs_ok (tree_of_file f) = true /\
  tree_indents_ok (tree_of_file f) = true /\ same_contents (tree_of_file f) (normalise (tree_of_file f)).
Proof. intros f H1 H2 H3 H5 H6 H7. apply foreign_domain; auto. apply contents_final_wf; exact H1. Qed.

(* the instance: every hypothesis holds for [fx_good], and the conclusion *)
Example fx_good_C06 :
  exists b, dom_write (tree_of_file fx_good) = Ok b /\
            same_contents (tree_of_file fx_good) (normalise (tree_of_file fx_good)) /\
            dom_read fx_orc b = Ok (normalise (tree_of_file fx_good)) /\
            dom_write (normalise (tree_of_file fx_good)) = Ok b /\ b = fx_good_bytes.
Proof.
  destruct fx_good_premises as (P1 & P2 & P3 & P5 & P6 & P7 & _).
  destruct fx_good_tree_hyps as (T1 & T2 & T3).
  destruct (C06_foreign fx_good fx_orc _ P1 fx_good_oracle fx_good_size fx_good_read P3 P5 P6 P7)
    as (b & Hb & Hsame & Hrest).
  assert (Eb : b = fx_good_bytes) by (rewrite fx_good_writes in Hb; congruence).
  assert (Hsz : (Z.of_nat (length b) <= sys_maxsize)%Z) by (rewrite Eb; vm_compute; discriminate).
  destruct (Hrest T1 T2 T3 Hsz) as (R1 & R2 & _ & _).
  exists b. repeat split; assumption.
Qed.

Example fx_good_all_hypotheses :
  wf_file fx_good = true /\ oracle_ok_file fx_orc fx_good /\
  (Z.of_nat (length (render_file fx_good)) <= sys_maxsize)%Z /\
  dom_read fx_orc (render_file fx_good) = Ok (tree_of_file fx_good) /\
  opts_known fx_good = true /\ choice_values_ok fx_good = true /\
  sub_metas_nonempty fx_good = true /\ metas_plain fx_good = true /\
  tree_oracle_ok fx_orc (tree_of_file fx_good) /\ tree_metas_oracle_ok fx_orc (tree_of_file fx_good) /\
  tree_guesses_ok (tree_of_file fx_good).
Proof.
  destruct fx_good_premises as (P1 & _ & P3 & P5 & P6 & P7 & _). destruct fx_good_tree_hyps as (T1 & T2 & T3).
  exact (conj P1 (conj fx_good_oracle (conj fx_good_size (conj fx_good_read (conj P3 (conj P5 (conj P6
        (conj P7 (conj T1 (conj T2 T3)))))))))).
Qed.

(* [metas_plain]: the oracle is a parameter of the model; a value json.dumps rejects makes to_bytes() raise TypeError *)
Definition rx_bad_val : json := JObj [(asc "a", JBad)].
Definition rx_bad_orc : oracle := [ (oracle_key_text (txt_a1 ++ [10%N]), LoadsOk rx_bad_val) ].
Definition rx_bad_json : ffile := file_of_secs [mainsec; metasec MainMeta [(B "length", B "8")] txt_a1 rx_bad_val].
Example bad_json_refuted :
  wf_file rx_bad_json = true /\ oracle_ok_file rx_bad_orc rx_bad_json /\
  dom_read rx_bad_orc (render_file rx_bad_json) = Ok (tree_of_file rx_bad_json) /\
  dom_write (tree_of_file rx_bad_json) = Err EType /\
  other_premises rx_bad_json = (true, true, true, true, false, true).
Proof.
  split; [vm_compute; reflexivity|].
  split; [unfold oracle_ok_file; repeat (constructor; [vm_compute; first [exact I | reflexivity]|]); constructor|].
  repeat split; vm_compute; reflexivity.
Qed.
