"""Specification-level definitions written from docs/spec and the property texts (never from pydiffx code):
the hierarchy relation, a spec serializer for call sequences, nearest-ancestor encodings."""
import codecs
import json

MAY_FOLLOW = {
    'diffx': ['.preamble', '.meta', '.change'],
    '.preamble': ['.meta', '.change'],
    '.meta': ['.change'],
    '.change': ['..preamble', '..meta', '..file'],
    '..preamble': ['..meta', '..file'],      # spec state tree lists only ..file; sections.rst makes both optional in this order
    '..meta': ['.change', '..file'],         # spec state tree says "..change": read as ".change"
    '..file': ['...meta'],
    '...meta': ['...diff', '..file', '.change'],
    '...diff': ['..file', '.change'],
}
NINE = list(MAY_FOLLOW)


def may_follow(a, b):
    return b in MAY_FOLLOW.get(a, [])


def bomfree(s, enc):
    e = codecs.getincrementalencoder(enc or 'ascii')()
    e.encode('a')
    return e.encode(s)


def newline_bytes(kind, enc):
    return bomfree('\n' if kind == 'unix' else '\r\n', enc)


def header(section, options):
    items = sorted((k, v) for k, v in options.items() if v is not None)
    s = '#%s:' % section
    if items:
        s += ' ' + ', '.join('%s=%s' % kv for kv in items)
    return s.encode('ascii') + b'\n'


def split_keep(data, nl):
    parts = data.split(nl)
    lines = [p + nl for p in parts[:-1]]
    if parts[-1]:
        lines.append(parts[-1])
    return lines


def spec_serialize(main, calls):
    """Bytes the specification prescribes for an accepted call list (arguments as python values)."""
    out = [header('diffx', {'encoding': main, 'version': '1.0'})]
    eff = {0: main}
    level = 0
    for c in calls:
        name = c[0]
        if name == 'new_change':
            level = 1
            eff[1] = c[1] or eff[0]
            out.append(header('.change', {'encoding': c[1]}))
        elif name == 'new_file':
            level = 2
            eff[2] = c[1] or eff[1]
            out.append(header('..file', {'encoding': c[1]}))
        elif name == 'write_preamble':
            _, text, enc, indent, le, mime = c
            e = enc or eff[level]
            kind = le or ('dos' if (text.find('\n') > 0 and text[text.find('\n') - 1] == '\r') else 'unix')
            nl = newline_bytes(kind, e)
            body = text.encode(e)
            if not body.endswith(nl):
                body += nl
            if indent:
                body = b''.join(b' ' * indent + l for l in split_keep(body, nl))
            out.append(header('.' * (level + 1) + 'preamble',
                              {'encoding': enc, 'indent': indent, 'length': len(body), 'line_endings': kind,
                               'mimetype': mime}))
            out.append(body)
        elif name == 'write_meta':
            _, meta, enc = c[:3]
            e = enc or eff[level]
            text = json.dumps(meta, indent=4, sort_keys=True, separators=(',', ': '))
            # with no encoding in force content is 8-bit data; canonical JSON is pure ASCII
            body = text.encode(e or 'ascii') + newline_bytes('unix', e)
            out.append(header('.' * (level + 1) + 'meta', {'encoding': enc, 'format': 'json', 'length': len(body)}))
            out.append(body)
        elif name == 'write_diff':
            _, data, ty, enc, le = c
            u, d = newline_bytes('unix', enc), newline_bytes('dos', enc)
            if le:
                kind = le
            else:
                i = data.find(u)
                kind = 'dos' if (i != -1 and data[:i + len(u)].endswith(d)) else 'unix'
            nl = u if kind == 'unix' else d
            body = data if data.endswith(nl) else data + nl
            out.append(header('...diff', {'encoding': enc, 'length': len(body), 'line_endings': kind, 'type': ty}))
            out.append(body)
    return b''.join(out)


def target_section(level, name):
    """The section a writer call would write, given the level of the current container (0 main, 1 change, 2 file)."""
    if name == 'new_change':
        return '.change'
    if name == 'new_file':
        return '..file'
    kind = {'write_preamble': 'preamble', 'write_meta': 'meta', 'write_diff': 'diff'}[name]
    return '.' * (level + 1) + kind
