(* SpecReaderFacts.v — the file-level half of property C03: on the rendering of every well-formed file of the
   spec AST (SpecReader.v) the streaming reader model yields exactly the records the specification assigns to
   it, and ends normally.  A simulation between the loop state of iter_sections and the position in the AST,
   section by section (same shape as RoundTrip.v, with a liberal file grammar instead of the writer). *)
From Coq Require Import List Arith NArith ZArith Bool Strings.Byte Lia.
From Coq Require Strings.String.
From DX Require Import Bytes Res Codec Text Sections Header Stream Json Reader SectionsSpec
                       SpecReader SpecReaderBase SpecReaderCodec SpecReaderContent.
From DX Require Import RoundTripCodec.
From DX Require HeaderFacts TextFacts StreamFacts SectionsFacts ReaderSpecFacts RoundTripSim.
From DXGen Require GenSections GenText.
Import ListNotations.
Import String.StringSyntax.
Local Open Scope string_scope.
Local Open Scope list_scope.

(* ================================================================================================ *)
(** * The simulation invariant *)

Definition pvo (o : option bytes) : option pv := option_map VStr o.

(* the reader's stack of encodings (top first, without the bottom None) inside a container of depth d *)
Definition stack_of (d : nat) (x : ectx) : list (option bytes) :=
  match d with
  | 0 => [inherited x 0]
  | 1 => [inherited x 1; inherited x 0]
  | _ => [inherited x 2; inherited x 1; inherited x 0]
  end.

Record Inv (crlf : bool) (prev : option sid) (x : ectx) (st : rstate) (valid : list bytes)
           (encs : list (option pv)) (pl : nat) : Prop := {
  inv_fnl : st_fnl st = match prev with None => None | Some _ => Some (eol crlf) end;
  inv_valid : valid = match prev with None => [GenSections.sec_main] | Some a => SectionsFacts.table a end;
  inv_encs : encs = match prev with None => [None] | Some a => map pvo (stack_of (sid_depth a) x) ++ [None] end;
  inv_pl : pl = match prev with None => 0 | Some a => sid_depth a end }.

Lemma top_stack : forall d x, top (map pvo (stack_of d x) ++ [None]) = Some (pvo (inherited x d)).
Proof. intros [|[|d]] x; reflexivity. Qed.

Lemma pop_change : forall p x, may_follow p Change = true ->
  pop_n (sid_depth p + 1 - 1) (map pvo (stack_of (sid_depth p) x) ++ [None]) = Some [pvo (inherited x 0); None].
Proof. intros p x H. destruct p; try discriminate H; reflexivity. Qed.

Lemma pop_file : forall p x, may_follow p File = true ->
  pop_n (sid_depth p + 1 - 2) (map pvo (stack_of (sid_depth p) x) ++ [None])
  = Some [pvo (inherited x 1); pvo (inherited x 0); None].
Proof. intros p x H. destruct p; try discriminate H; reflexivity. Qed.

(* ================================================================================================ *)
(** * Options of the header as the reader sees them *)

Lemma opt_get_model : forall k ps, opt_get k (HeaderFacts.opts_of convert_value ps) = option_map spec_conv (opt k ps).
Proof. exact opt_get_spec. Qed.

(* options.get('encoding', cur) *)
Lemma push_enc : forall ps cur, enc_opt_ok ps = true ->
  match opt_get "encoding" (HeaderFacts.opts_of convert_value ps) with Some v => Some v | None => pvo cur end
  = pvo (orelse (opt "encoding" ps) cur).
Proof.
  intros ps cur H. rewrite opt_get_model. unfold enc_opt_ok in H.
  destruct (opt "encoding" ps) as [e|]; cbn [option_map orelse]; [|reflexivity].
  destruct (codec_of e) as [c|] eqn:Ec; [|discriminate H].
  rewrite (spec_conv_str e (codec_of_not_int e c Ec)). reflexivity.
Qed.

Lemma push_enc_none : forall ps, enc_opt_ok ps = true ->
  match opt_get "encoding" (HeaderFacts.opts_of convert_value ps) with Some v => Some v | None => None end
  = pvo (opt "encoding" ps).
Proof.
  intros ps H. pose proof (push_enc ps None H) as E. cbn [pvo option_map] in E. rewrite E.
  destruct (opt "encoding" ps); reflexivity.
Qed.

Lemma length_opt : forall ps body, length_ok ps body = true ->
  opt_get "length" (HeaderFacts.opts_of convert_value ps) = Some (VInt (Z.of_nat (length body))).
Proof.
  intros ps body H. rewrite opt_get_model. unfold length_ok, int_opt in H.
  destruct (opt "length" ps) as [v|]; [|discriminate H]. cbn [option_map].
  destruct (spec_conv v) as [z|]; [|discriminate H]. apply Z.eqb_eq in H. subst z. reflexivity.
Qed.

Lemma indent_pre : forall s, sid_kind (fs_id s) = SPreamble -> indent_ok (fs_opts s) = true ->
  indent_matches (opt_get "indent" (HeaderFacts.opts_of convert_value (fs_opts s))) (indent_of s).
Proof.
  intros s Hk H. rewrite opt_get_model. unfold indent_of, int_opt. rewrite Hk. unfold indent_ok in H.
  destruct (opt "indent" (fs_opts s)) as [v|]; cbn [option_map]; [|left; split; reflexivity].
  destruct (spec_conv v) as [z|]; [|discriminate H]. apply Z.leb_le in H.
  right. exists z. repeat split. exact H.
Qed.

Lemma indent_of_other : forall s, sid_kind (fs_id s) <> SPreamble -> indent_of s = 0.
Proof. intros s H. unfold indent_of. destruct (sid_kind (fs_id s)); try reflexivity. congruence. Qed.

Lemma fmt_opt : forall ps, format_ok ps = true -> ReaderSpecFacts.fmt_ok (HeaderFacts.opts_of convert_value ps) = true.
Proof.
  intros ps H. unfold ReaderSpecFacts.fmt_ok. rewrite opt_get_model. unfold format_ok in H.
  destruct (opt "format" ps) as [v|]; cbn [option_map]; [|reflexivity].
  apply HeaderFacts.beq_spec in H. subst v. reflexivity.
Qed.

(* the line_endings option against the AST's kind *)
Lemma le_opt : forall ps c k body, le_ok ps c k body = true ->
  let le_pv := opt_get "line_endings" (HeaderFacts.opts_of convert_value ps) in
  le_pv = Some (VStr (le_name k)) \/
  (le_pv = None /\ detect_kind (nl_bytes c LUnix) (nl_bytes c LDos) body = k).
Proof.
  intros ps c k body H le_pv. unfold le_pv. rewrite opt_get_model. unfold le_ok in H.
  destruct (opt "line_endings" ps) as [v|]; cbn [option_map].
  - left. apply HeaderFacts.beq_spec in H. subst v. rewrite le_name_conv. reflexivity.
  - right. split; [reflexivity | apply le_kind_eqb_eq; exact H].
Qed.

(* ================================================================================================ *)
(** * Container sections *)

Lemma iter_step_main : forall orc chunk st valid encs prev name opts line st1 v cur nxt,
  read_header chunk valid st = HdrOk 0 name GenSections.sec_main opts line st1 ->
  opt_get "version" opts = Some (VStr v) -> in_ids v GenText.versions = true ->
  top encs = Some cur -> table_get GenSections.sec_main = Some nxt ->
  iter_step orc chunk st valid encs prev =
    SYield {| r_level := 0; r_line := line; r_opts := opts; r_id := GenSections.sec_main; r_type := name; r_payload := PNone |}
           st1 nxt ((match opt_get "encoding" opts with Some e => Some e | None => cur end) :: encs) 0.
Proof.
  intros orc chunk st valid encs prev name opts line st1 v cur nxt Hh Hv Hin Htop Htab.
  unfold iter_step. rewrite Hh. cbv zeta.
  replace (is_content GenSections.sec_main) with false by (vm_compute; reflexivity).
  replace (beq GenSections.sec_main GenSections.sec_main) with true by (vm_compute; reflexivity).
  rewrite Hv, Hin, Htop, Htab. reflexivity.
Qed.

Lemma version_opt : forall ps, version_ok ps = true ->
  opt_get "version" (HeaderFacts.opts_of convert_value ps) = Some (VStr (B "1.0")) /\
  in_ids (B "1.0") GenText.versions = true.
Proof.
  intros ps H. rewrite opt_get_model. unfold version_ok in H.
  destruct (opt "version" ps) as [v|]; [|discriminate H]. apply HeaderFacts.beq_spec in H. subst v.
  split; reflexivity.
Qed.

(* the valid-ids list lets the section through *)
Lemma order_valid : forall crlf prev x st valid encs pl a,
  Inv crlf prev x st valid encs pl -> order_ok prev a = true -> In (sid_bytes a) valid.
Proof.
  intros crlf prev x st valid encs pl a HI H. rewrite (inv_valid _ _ _ _ _ _ _ HI). destruct prev as [p|]; cbn [order_ok] in H.
  - apply SectionsFacts.table_is_spec. exact H.
  - apply sid_eqb_eq in H. subst a. left. reflexivity.
Qed.

Lemma fnl_cases : forall crlf prev x st valid encs pl,
  Inv crlf prev x st valid encs pl -> st_fnl st = None \/ st_fnl st = Some (eol crlf).
Proof. intros crlf prev x st valid encs pl HI. rewrite (inv_fnl _ _ _ _ _ _ _ HI). destruct prev; auto. Qed.

Definition hdr_state (st : rstate) (s1 : stream) (crlf : bool) : rstate := SectionsFacts.after_header st s1 (eol crlf).

Lemma step_container : forall orc chunk crlf prev x s st valid encs pl s1,
  Inv crlf prev x st valid encs pl ->
  order_ok prev (fs_id s) = true -> enc_opt_ok (fs_opts s) = true ->
  sid_kind (fs_id s) = SContainer -> fs_content s = None ->
  (fs_id s = Main -> version_ok (fs_opts s) = true) ->
  read_header chunk valid st =
    HdrOk (fs_dots s) (fs_name s) (sid_bytes (fs_id s)) (HeaderFacts.opts_of convert_value (fs_opts s))
          (st_linenum st) (hdr_state st s1 crlf) ->
  exists valid' encs' pl',
    iter_step orc chunk st valid encs pl = SYield (sec_record (st_linenum st) s) (hdr_state st s1 crlf) valid' encs' pl' /\
    Inv crlf (Some (fs_id s)) (ectx_next x s) (hdr_state st s1 crlf) valid' encs' pl'.
Proof.
  intros orc chunk crlf prev x s st valid encs pl s1 HI Hord Henc Hkind Hcont Hver Hh.
  assert (Hrec : forall lvl nm idb,
            lvl = fs_dots s -> nm = fs_name s -> idb = sid_bytes (fs_id s) ->
            {| r_level := lvl; r_line := st_linenum st; r_opts := HeaderFacts.opts_of convert_value (fs_opts s);
               r_id := idb; r_type := nm; r_payload := PNone |} = sec_record (st_linenum st) s).
  { intros lvl nm idb -> -> ->. unfold sec_record, sec_payload. rewrite Hcont, opts_of_spec_model. reflexivity. }
  unfold fs_dots, fs_name in *. unfold ectx_next.
  destruct (fs_id s) eqn:Ea; try discriminate Hkind; cbn [sid_dots sid_name sid_bytes] in *.
  - (* diffx *)
    destruct prev as [p|]; cbn [order_ok] in Hord; [rewrite SectionsSpec.may_follow_main_false in Hord; discriminate Hord|].
    destruct (version_opt _ (Hver eq_refl)) as [Hv Hin].
    rewrite (inv_encs _ _ _ _ _ _ _ HI) in *. rewrite (inv_pl _ _ _ _ _ _ _ HI) in *.
    pose proof (SectionsFacts.table_total Main) as Htab.
    rewrite (iter_step_main orc chunk st valid [None] 0 _ _ _ _ (B "1.0") None _ Hh Hv Hin eq_refl Htab).
    rewrite (push_enc_none (fs_opts s) Henc).
    eexists _, _, _. split; [f_equal; apply Hrec; reflexivity|].
    constructor; cbn [hdr_state SectionsFacts.after_header st_fnl sid_depth stack_of inherited map app ex_main]; reflexivity.
  - (* .change *)
    destruct prev as [p|]; cbn [order_ok] in Hord; [|discriminate Hord].
    rewrite (inv_encs _ _ _ _ _ _ _ HI) in *. rewrite (inv_pl _ _ _ _ _ _ _ HI) in *.
    pose proof (SectionsFacts.table_total Change) as Htab.
    rewrite (RoundTripSim.iter_step_container orc chunk st valid _ _ _ _ _ _ _ _ _ _ _ Hh (or_introl eq_refl)
               (pop_change p x Hord) eq_refl Htab).
    rewrite (push_enc (fs_opts s) _ Henc).
    eexists _, _, _. split; [f_equal; apply Hrec; reflexivity|].
    constructor; cbn [hdr_state SectionsFacts.after_header st_fnl sid_depth stack_of inherited map app ex_main ex_change]; reflexivity.
  - (* ..file *)
    destruct prev as [p|]; cbn [order_ok] in Hord; [|discriminate Hord].
    rewrite (inv_encs _ _ _ _ _ _ _ HI) in *. rewrite (inv_pl _ _ _ _ _ _ _ HI) in *.
    pose proof (SectionsFacts.table_total File) as Htab.
    rewrite (RoundTripSim.iter_step_container orc chunk st valid _ _ _ _ _ _ _ _ _ _ _ Hh (or_intror eq_refl)
               (pop_file p x Hord) eq_refl Htab).
    rewrite (push_enc (fs_opts s) _ Henc).
    eexists _, _, _. split; [f_equal; apply Hrec; reflexivity|].
    constructor; cbn [hdr_state SectionsFacts.after_header st_fnl sid_depth stack_of inherited map app ex_main ex_change ex_file]; reflexivity.
Qed.

(* ================================================================================================ *)
(** * Content sections *)

Lemma text_ok_inv : forall x s t, text_ok x s t = true ->
  exists c, text_codec x s = Some c /\
    tc_lines t <> [] /\
    forallb (encodable c (le_text (tc_kind t))) (tc_lines t) = true /\
    (tc_bom t || is_nil (enc_bom c) ||
     negb (starts_with_bom (concat (map (enc_line c (le_text (tc_kind t))) (tc_lines t))))) = true /\
    lines_clean (nl_bytes c (tc_kind t)) (text_pieces c (le_text (tc_kind t)) (tc_mark c t) (tc_lines t)) = true /\
    le_ok (fs_opts s) c (tc_kind t) (content_body x s) = true /\
    length_ok (fs_opts s) (content_body x s) = true.
Proof.
  intros x s t H. unfold text_ok in H. destruct (text_codec x s) as [c|]; [|discriminate H]. cbv zeta in H.
  repeat (apply andb_true_iff in H; destruct H as [H ?]).
  exists c. repeat split; try assumption. apply HeaderFacts.nonempty_true. exact H.
Qed.

Lemma tc_mark_cases : forall eb c bom enc0 t, codec_laws eb c bom enc0 ->
  (tc_bom t || is_nil (enc_bom c) ||
   negb (starts_with_bom (concat (map (enc_line c (le_text (tc_kind t))) (tc_lines t))))) = true ->
  tc_mark c t = bom \/
  (tc_mark c t = [] /\
   (bom = [] \/ starts_with_bom (concat (map (enc_line c (le_text (tc_kind t))) (tc_lines t))) = false)).
Proof.
  intros eb c bom enc0 t laws H. unfold tc_mark. rewrite (enc_bom_of_laws eb c bom enc0 laws) in *.
  destruct (tc_bom t); [left; reflexivity|]. right. split; [reflexivity|]. cbn [orb] in H.
  apply orb_true_iff in H. destruct H as [H|H].
  - left. destruct bom; [reflexivity | discriminate H].
  - right. apply negb_true_iff in H. exact H.
Qed.

(* the effective encoding, on both sides *)
Lemma eff_encoding_model : forall x s eb, enc_opt_ok (fs_opts s) = true -> fs_id s <> FileDiff ->
  eff_enc x s = Some eb ->
  ReaderSpecFacts.eff_encoding (HeaderFacts.opts_of convert_value (fs_opts s)) (pvo (inherited x (sid_depth (fs_id s))))
  = Some (VStr eb).
Proof.
  intros x s eb Henc Hnd H. unfold ReaderSpecFacts.eff_encoding. rewrite (push_enc _ _ Henc).
  unfold eff_enc in H. destruct (fs_id s); rewrite H; reflexivity.
Qed.

(* _read_content on a text section of the AST *)
Lemma read_section_text : forall x s t indent_o st1 rest,
  text_ok x s t = true -> enc_opt_ok (fs_opts s) = true -> fs_id s <> FileDiff ->
  (fs_content s = Some (FText t) \/ exists j, fs_content s = Some (FMeta t j)) ->
  indent_matches indent_o (indent_of s) ->
  remaining (st_stream st1) = content_body x s ++ rest ->
  (Z.of_nat (length (content_body x s)) <= sys_maxsize)%Z ->
  exists st2,
    read_content st1 (Z.of_nat (length (content_body x s)))
      (ReaderSpecFacts.eff_encoding (HeaderFacts.opts_of convert_value (fs_opts s)) (pvo (inherited x (sid_depth (fs_id s)))))
      indent_o (opt_get "line_endings" (HeaderFacts.opts_of convert_value (fs_opts s))) false
      = COk (PText (joined t)) st2 /\
    remaining (st_stream st2) = rest /\
    st_linenum st2 = (st_linenum st1 + Z.of_nat (length (tc_lines t)))%Z /\
    st_fnl st2 = st_fnl st1.
Proof.
  intros x s t indent_o st1 rest Hok Henc Hnd Hcont Hind Hrem Hmax.
  destruct (text_ok_inv x s t Hok) as (c & Hc & Hne & Hencb & Hbom & Hclean & Hle & Hlen).
  unfold text_codec in Hc. destruct (eff_enc x s) as [eb|] eqn:Eeff; [|discriminate Hc].
  destruct (codec_laws_x eb c Hc) as (bom & enc0 & laws & nobom).
  rewrite (eff_encoding_model x s eb Henc Hnd Eeff).
  assert (Hbody : content_body x s = text_body c (le_text (tc_kind t)) (tc_mark c t) (indent_of s) (tc_lines t)).
  { unfold content_body, text_codec.
    destruct Hcont as [-> | [j ->]]; rewrite Eeff, Hc; reflexivity. }
  rewrite Hbody in *.
  apply (read_text_spec eb c bom enc0 laws nobom st1 rest (tc_kind t) (tc_mark c t) (tc_lines t) (indent_of s) indent_o _
           Hne Hencb (tc_mark_cases eb c bom enc0 t laws Hbom) Hclean Hind); try assumption.
  apply (nl_res_cases eb c bom enc0 laws). exact (le_opt _ _ _ _ Hle).
Qed.

Lemma raw_ok_inv : forall x s ls k, raw_ok x s ls k = true ->
  eff_enc x s = None /\ ls <> [] /\ lines_clean (nl_bytes ascii k) (raw_pieces k ls) = true /\
  le_ok (fs_opts s) ascii k (content_body x s) = true /\ length_ok (fs_opts s) (content_body x s) = true.
Proof.
  intros x s ls k H. unfold raw_ok in H. destruct (eff_enc x s); [discriminate H|].
  repeat (apply andb_true_iff in H; destruct H as [H ?]).
  repeat split; try assumption. apply HeaderFacts.nonempty_true. exact H.
Qed.

Lemma eff_encoding_none : forall x s, enc_opt_ok (fs_opts s) = true -> fs_id s <> FileDiff ->
  eff_enc x s = None ->
  ReaderSpecFacts.eff_encoding (HeaderFacts.opts_of convert_value (fs_opts s)) (pvo (inherited x (sid_depth (fs_id s))))
  = None.
Proof.
  intros x s Henc Hnd H. unfold ReaderSpecFacts.eff_encoding. rewrite (push_enc _ _ Henc).
  unfold eff_enc in H. destruct (fs_id s); try (rewrite H; reflexivity). congruence.
Qed.

(* _read_content on a text section with no encoding in force *)
Lemma read_section_raw : forall x s ls k indent_o st1 rest,
  raw_ok x s ls k = true -> enc_opt_ok (fs_opts s) = true -> fs_id s <> FileDiff ->
  (fs_content s = Some (FRawText ls k) \/ exists j, fs_content s = Some (FRawMeta ls k j)) ->
  indent_matches indent_o (indent_of s) ->
  remaining (st_stream st1) = content_body x s ++ rest ->
  (Z.of_nat (length (content_body x s)) <= sys_maxsize)%Z ->
  exists st2,
    read_content st1 (Z.of_nat (length (content_body x s)))
      (ReaderSpecFacts.eff_encoding (HeaderFacts.opts_of convert_value (fs_opts s)) (pvo (inherited x (sid_depth (fs_id s)))))
      indent_o (opt_get "line_endings" (HeaderFacts.opts_of convert_value (fs_opts s))) false
      = COk (PBytes (concat (raw_pieces k ls))) st2 /\
    remaining (st_stream st2) = rest /\
    st_linenum st2 = (st_linenum st1 + Z.of_nat (length ls))%Z /\
    st_fnl st2 = st_fnl st1.
Proof.
  intros x s ls k indent_o st1 rest Hok Henc Hnd Hcont Hind Hrem Hmax.
  destruct (raw_ok_inv x s ls k Hok) as (Eeff & Hne & Hclean & Hle & Hlen).
  rewrite (eff_encoding_none x s Henc Hnd Eeff).
  assert (Hbody : content_body x s = raw_body k (indent_of s) ls).
  { unfold content_body. destruct Hcont as [-> | [j ->]]; reflexivity. }
  rewrite Hbody in *.
  apply (read_raw_spec st1 rest k ls (indent_of s) indent_o _ Hne Hclean Hind); try assumption.
  rewrite nl_res_ascii.
  destruct (codec_laws_x _ _ ascii_codec) as (bom & enc0 & laws & _).
  apply (nl_res_cases _ ascii bom enc0 laws). exact (le_opt _ _ _ _ Hle).
Qed.

(* _read_content on a diff of the AST *)
Lemma read_section_diff : forall s raw k st1 rest,
  diff_ok s raw k = true -> enc_opt_ok (fs_opts s) = true ->
  remaining (st_stream st1) = raw ++ rest -> (Z.of_nat (length raw) <= sys_maxsize)%Z ->
  exists c st2,
    diff_codec s = Some c /\
    read_content st1 (Z.of_nat (length raw)) (opt_get "encoding" (HeaderFacts.opts_of convert_value (fs_opts s))) None
                 (opt_get "line_endings" (HeaderFacts.opts_of convert_value (fs_opts s))) true
      = COk (PBytes raw) st2 /\
    remaining (st_stream st2) = rest /\
    st_linenum st2 = (st_linenum st1 + Z.of_nat (occurrences byte_eqb (nl_bytes c k) raw))%Z /\
    st_fnl st2 = st_fnl st1.
Proof.
  intros s raw k st1 rest Hok Henc Hrem Hmax. unfold diff_ok in Hok.
  destruct (diff_codec s) as [c|] eqn:Ec; [|discriminate Hok].
  repeat (apply andb_true_iff in Hok; destruct Hok as [Hok ?]).
  rename H into Hlen, H0 into Hle, H1 into Hends. apply HeaderFacts.nonempty_true in Hok.
  unfold diff_codec in Ec. destruct (codec_laws_x _ c Ec) as (bom & enc0 & laws & _).
  exists c.
  assert (Hnl : ReaderSpecFacts.nl_res_of (opt_get "line_endings" (HeaderFacts.opts_of convert_value (fs_opts s)))
                  (Some (diff_spelling s)) raw = Ok (nl_bytes c k)).
  { apply (nl_res_cases _ c bom enc0 laws). exact (le_opt _ _ _ _ Hle). }
  assert (Heo : opt_get "encoding" (HeaderFacts.opts_of convert_value (fs_opts s)) = pvo (opt "encoding" (fs_opts s))).
  { pose proof (push_enc_none (fs_opts s) Henc) as H.
    destruct (opt_get "encoding" _) as [v|]; exact H. }
  rewrite Heo.
  destruct (read_diff_spec _ c bom enc0 laws st1 rest raw k (pvo (opt "encoding" (fs_opts s)))
              (opt_get "line_endings" (HeaderFacts.opts_of convert_value (fs_opts s))) Hok Hends) as (st2 & R);
    try assumption.
  - destruct (opt "encoding" (fs_opts s)); exact I.
  - unfold diff_spelling in Hnl. destruct (opt "encoding" (fs_opts s)); cbn [pvo option_map ReaderSpecFacts.enc_name]; exact Hnl.
  - exists st2. split; [reflexivity | exact R].
Qed.

(* ================================================================================================ *)
(** * One section *)

Lemma after_header_facts : forall st s1 crlf,
  st_linenum (hdr_state st s1 crlf) = (st_linenum st + 1)%Z /\ st_fnl (hdr_state st s1 crlf) = Some (eol crlf) /\
  st_stream (hdr_state st s1 crlf) = s1.
Proof. intros. repeat split. Qed.

Lemma inv_content : forall crlf p x a st st2 valid encs pl,
  Inv crlf (Some p) x st valid encs pl -> may_follow p a = true -> sid_kind a <> SContainer ->
  st_fnl st2 = Some (eol crlf) ->
  Inv crlf (Some a) x st2 (SectionsFacts.table a) encs pl.
Proof.
  intros crlf p x a st st2 valid encs pl HI Hf Hk Hfnl.
  assert (Hd : sid_depth a = sid_depth p) by (destruct p, a; try discriminate Hf; try reflexivity; exfalso; apply Hk; reflexivity).
  constructor; [exact Hfnl | reflexivity | rewrite Hd; exact (inv_encs _ _ _ _ _ _ _ HI) | rewrite Hd; exact (inv_pl _ _ _ _ _ _ _ HI)].
Qed.

Lemma wf_section_inv : forall prev x s, wf_section prev x s = true ->
  order_ok prev (fs_id s) = true /\ forallb is_ws_line (fs_blank s) = true /\
  forallb pair_ok (fs_opts s) = true /\ enc_opt_ok (fs_opts s) = true /\
  match sid_kind (fs_id s), fs_content s with
  | SContainer, None => match fs_id s with Main => version_ok (fs_opts s) | _ => true end
  | SPreamble, Some (FText t) => text_ok x s t && indent_ok (fs_opts s)
  | SMeta, Some (FMeta t _) => text_ok x s t && format_ok (fs_opts s)
  | SPreamble, Some (FRawText ls k) => raw_ok x s ls k && indent_ok (fs_opts s)
  | SMeta, Some (FRawMeta ls k _) => raw_ok x s ls k && format_ok (fs_opts s)
  | SDiff, Some (FDiff raw k) => diff_ok s raw k
  | _, _ => false
  end = true.
Proof.
  intros prev x s H. unfold wf_section in H.
  repeat (apply andb_true_iff in H; destruct H as [H ?]). auto.
Qed.

(* the part common to all content sections: from the success of _read_content to the yielded record *)
Lemma step_content : forall orc chunk crlf p x s st valid encs pl s1 kk pay st2,
  Inv crlf (Some p) x st valid encs pl -> may_follow p (fs_id s) = true ->
  sid_kind (fs_id s) <> SContainer ->
  read_header chunk valid st =
    HdrOk (fs_dots s) (fs_name s) (sid_bytes (fs_id s)) (HeaderFacts.opts_of convert_value (fs_opts s))
          (st_linenum st) (hdr_state st s1 crlf) ->
  ReaderSpecFacts.kind_of (sid_bytes (fs_id s)) = Some kk ->
  length_ok (fs_opts s) (content_body x s) = true ->
  (kk = ReaderSpecFacts.KMeta -> format_ok (fs_opts s) = true) ->
  ReaderSpecFacts.content_call kk (hdr_state st s1 crlf) (Z.of_nat (length (content_body x s)))
    (HeaderFacts.opts_of convert_value (fs_opts s)) (pvo (inherited x (sid_depth (fs_id s)))) = COk pay st2 ->
  match kk with
  | ReaderSpecFacts.KMeta =>
      exists j, assoc_get beq (ReaderSpecFacts.oracle_key pay) orc = Some (LoadsOk j) /\ sec_payload s = PMeta j
  | _ => sec_payload s = pay
  end ->
  st_fnl st2 = Some (eol crlf) ->
  iter_step orc chunk st valid encs pl =
    SYield (sec_record (st_linenum st) s) st2 (SectionsFacts.table (fs_id s)) encs pl /\
  Inv crlf (Some (fs_id s)) (ectx_next x s) st2 (SectionsFacts.table (fs_id s)) encs pl.
Proof.
  intros orc chunk crlf p x s st valid encs pl s1 kk pay st2 HI Hord Hk Hh Hkind Hlen Hfmt Hcc Hpay Hfnl.
  pose proof (SectionsFacts.table_total (fs_id s)) as Htab.
  assert (Hd : sid_depth (fs_id s) = sid_depth p).
  { destruct p, (fs_id s); try discriminate Hord; try reflexivity; exfalso; apply Hk; reflexivity. }
  split.
  - rewrite (ReaderSpecFacts.iter_step_content orc chunk st valid encs pl _ _ _ _ _ _ kk
               (pvo (inherited x (sid_depth (fs_id s)))) (Z.of_nat (length (content_body x s))) Hh).
    + rewrite Hcc. unfold sec_record. rewrite opts_of_spec_model.
      destruct kk; cbn [ReaderSpecFacts.finish_content].
      * unfold ReaderSpecFacts.yield. rewrite Htab, Hpay. reflexivity.
      * destruct Hpay as (j & Ho & Hp). rewrite Ho. unfold ReaderSpecFacts.yield. rewrite Htab, Hp. reflexivity.
      * unfold ReaderSpecFacts.yield. rewrite Htab, Hpay. reflexivity.
    + rewrite sid_is_content. destruct (sid_kind (fs_id s)); try reflexivity. exfalso. apply Hk. reflexivity.
    + exact Hkind.
    + rewrite (inv_encs _ _ _ _ _ _ _ HI), Hd. apply top_stack.
    + apply length_opt. exact Hlen.
    + lia.
    + intros E. apply fmt_opt. apply Hfmt. exact E.
  - replace (ectx_next x s) with x
      by (unfold ectx_next; destruct (fs_id s); try reflexivity; exfalso; apply Hk; reflexivity).
    apply (inv_content crlf p x (fs_id s) st st2 valid encs pl HI Hord Hk Hfnl).
Qed.

Theorem step_section : forall orc chunk crlf prev x s st valid encs pl rest,
  0 < chunk -> Inv crlf prev x st valid encs pl -> wf_section prev x s = true -> oracle_ok_section orc s ->
  remaining (st_stream st) = sec_render crlf x s ++ rest ->
  (Z.of_nat (length (content_body x s)) <= sys_maxsize)%Z ->
  exists st' valid' encs' pl',
    iter_step orc chunk st valid encs pl = SYield (sec_record (st_linenum st) s) st' valid' encs' pl' /\
    Inv crlf (Some (fs_id s)) (ectx_next x s) st' valid' encs' pl' /\
    remaining (st_stream st') = rest /\
    st_linenum st' = (st_linenum st + 1 + Z.of_nat (content_nlines s))%Z.
Proof.
  intros orc chunk crlf prev x s st valid encs pl rest Hc HI Hwf Horc Hrem Hmax.
  destruct (wf_section_inv prev x s Hwf) as (Hord & Hblank & Hpairs & Henc & Hkind).
  unfold sec_render in Hrem. rewrite <- app_assoc in Hrem.
  destruct (read_sec_header chunk valid st s crlf _ Hc Hblank Hpairs (order_valid _ _ _ _ _ _ _ _ HI Hord) Hrem
              (fnl_cases _ _ _ _ _ _ _ HI)) as (s1 & Hh & Hrem1).
  fold (hdr_state st s1 crlf) in Hh.
  change (remaining (st_stream (hdr_state st s1 crlf)) = content_body x s ++ rest) in Hrem1.
  pose proof (sid_kind_of (fs_id s)) as Hko.
  assert (Hl1 : st_linenum (hdr_state st s1 crlf) = (st_linenum st + 1)%Z) by reflexivity.
  assert (Hf1 : st_fnl (hdr_state st s1 crlf) = Some (eol crlf)) by reflexivity.
  destruct (sid_kind (fs_id s)) eqn:Ek; destruct (fs_content s) as [[t|t j|ls k|ls k j|raw k]|] eqn:Econt;
    try discriminate Hkind.
  - (* container *)
    destruct (step_container orc chunk crlf prev x s st valid encs pl s1 HI Hord Henc Ek Econt) as (v' & e' & p' & Hs & HI').
    { intros E. rewrite E in Hkind. exact Hkind. }
    { exact Hh. }
    exists (hdr_state st s1 crlf), v', e', p'. split; [exact Hs|]. split; [exact HI'|].
    assert (Hb : content_body x s = []) by (unfold content_body; rewrite Econt; reflexivity).
    rewrite Hb in Hrem1. split; [exact Hrem1|]. unfold content_nlines. rewrite Econt. cbn. lia.
  - (* preamble, text *)
    apply andb_true_iff in Hkind. destruct Hkind as [Htext Hind].
    destruct prev as [p|]; [|destruct (fs_id s); discriminate]. cbn [order_ok] in Hord.
    assert (Hnd : fs_id s <> FileDiff) by (intros E; rewrite E in Ek; discriminate Ek).
    destruct (read_section_text x s t _ (hdr_state st s1 crlf) rest Htext Henc Hnd (or_introl Econt)
                (indent_pre s Ek Hind) Hrem1 Hmax) as (st2 & Hrc & Hrem2 & Hline2 & Hfnl2).
    destruct (text_ok_inv x s t Htext) as (c & _ & _ & _ & _ & _ & _ & Hlen).
    destruct (step_content orc chunk crlf p x s st valid encs pl s1 ReaderSpecFacts.KPreamble _ st2 HI Hord
                ltac:(rewrite Ek; discriminate) Hh Hko Hlen ltac:(discriminate) Hrc) as [Hstep HI'].
    { unfold sec_payload. rewrite Econt. reflexivity. }
    { rewrite Hfnl2. exact Hf1. }
    exists st2, (SectionsFacts.table (fs_id s)), encs, pl. split; [exact Hstep|]. split; [exact HI'|]. split; [exact Hrem2|].
    rewrite Hline2, Hl1. unfold content_nlines. rewrite Econt. lia.
  - (* preamble, no encoding in force *)
    apply andb_true_iff in Hkind. destruct Hkind as [Hraw Hind].
    destruct prev as [p|]; [|destruct (fs_id s); discriminate]. cbn [order_ok] in Hord.
    assert (Hnd : fs_id s <> FileDiff) by (intros E; rewrite E in Ek; discriminate Ek).
    destruct (read_section_raw x s ls k _ (hdr_state st s1 crlf) rest Hraw Henc Hnd (or_introl Econt)
                (indent_pre s Ek Hind) Hrem1 Hmax) as (st2 & Hrc & Hrem2 & Hline2 & Hfnl2).
    destruct (raw_ok_inv x s ls k Hraw) as (_ & _ & _ & _ & Hlen).
    destruct (step_content orc chunk crlf p x s st valid encs pl s1 ReaderSpecFacts.KPreamble _ st2 HI Hord
                ltac:(rewrite Ek; discriminate) Hh Hko Hlen ltac:(discriminate) Hrc) as [Hstep HI'].
    { unfold sec_payload. rewrite Econt. reflexivity. }
    { rewrite Hfnl2. exact Hf1. }
    exists st2, (SectionsFacts.table (fs_id s)), encs, pl. split; [exact Hstep|]. split; [exact HI'|]. split; [exact Hrem2|].
    rewrite Hline2, Hl1. unfold content_nlines. rewrite Econt. lia.
  - (* metadata, text *)
    apply andb_true_iff in Hkind. destruct Hkind as [Htext Hfmt].
    destruct prev as [p|]; [|destruct (fs_id s); discriminate]. cbn [order_ok] in Hord.
    assert (Hnd : fs_id s <> FileDiff) by (intros E; rewrite E in Ek; discriminate Ek).
    assert (Hi0 : indent_matches None (indent_of s)).
    { left. split; [reflexivity | apply indent_of_other; rewrite Ek; discriminate]. }
    destruct (read_section_text x s t None (hdr_state st s1 crlf) rest Htext Henc Hnd (or_intror (ex_intro _ j Econt))
                Hi0 Hrem1 Hmax) as (st2 & Hrc & Hrem2 & Hline2 & Hfnl2).
    destruct (text_ok_inv x s t Htext) as (c & _ & _ & _ & _ & _ & _ & Hlen).
    unfold oracle_ok_section in Horc. rewrite Econt in Horc.
    destruct (step_content orc chunk crlf p x s st valid encs pl s1 ReaderSpecFacts.KMeta _ st2 HI Hord
                ltac:(rewrite Ek; discriminate) Hh Hko Hlen (fun _ => Hfmt) Hrc) as [Hstep HI'].
    { exists j. split; [exact Horc|]. unfold sec_payload. rewrite Econt. reflexivity. }
    { rewrite Hfnl2. exact Hf1. }
    exists st2, (SectionsFacts.table (fs_id s)), encs, pl. split; [exact Hstep|]. split; [exact HI'|]. split; [exact Hrem2|].
    rewrite Hline2, Hl1. unfold content_nlines. rewrite Econt. lia.
  - (* metadata, no encoding in force *)
    apply andb_true_iff in Hkind. destruct Hkind as [Hraw Hfmt].
    destruct prev as [p|]; [|destruct (fs_id s); discriminate]. cbn [order_ok] in Hord.
    assert (Hnd : fs_id s <> FileDiff) by (intros E; rewrite E in Ek; discriminate Ek).
    assert (Hi0 : indent_matches None (indent_of s)).
    { left. split; [reflexivity | apply indent_of_other; rewrite Ek; discriminate]. }
    destruct (read_section_raw x s ls k None (hdr_state st s1 crlf) rest Hraw Henc Hnd (or_intror (ex_intro _ j Econt))
                Hi0 Hrem1 Hmax) as (st2 & Hrc & Hrem2 & Hline2 & Hfnl2).
    destruct (raw_ok_inv x s ls k Hraw) as (_ & _ & _ & _ & Hlen).
    unfold oracle_ok_section in Horc. rewrite Econt in Horc.
    destruct (step_content orc chunk crlf p x s st valid encs pl s1 ReaderSpecFacts.KMeta _ st2 HI Hord
                ltac:(rewrite Ek; discriminate) Hh Hko Hlen (fun _ => Hfmt) Hrc) as [Hstep HI'].
    { exists j. split; [exact Horc|]. unfold sec_payload. rewrite Econt. reflexivity. }
    { rewrite Hfnl2. exact Hf1. }
    exists st2, (SectionsFacts.table (fs_id s)), encs, pl. split; [exact Hstep|]. split; [exact HI'|]. split; [exact Hrem2|].
    rewrite Hline2, Hl1. unfold content_nlines. rewrite Econt. lia.
  - (* diff *)
    destruct prev as [p|]; [|destruct (fs_id s); discriminate]. cbn [order_ok] in Hord.
    assert (Hb : content_body x s = raw) by (unfold content_body; rewrite Econt; reflexivity).
    rewrite Hb in Hrem1, Hmax.
    destruct (read_section_diff s raw k (hdr_state st s1 crlf) rest Hkind Henc Hrem1 Hmax)
      as (c & st2 & Hdc & Hrc & Hrem2 & Hline2 & Hfnl2).
    assert (Hlen : length_ok (fs_opts s) (content_body x s) = true).
    { rewrite Hb. unfold diff_ok in Hkind. rewrite Hdc in Hkind. apply andb_true_iff in Hkind. apply Hkind. }
    destruct (step_content orc chunk crlf p x s st valid encs pl s1 ReaderSpecFacts.KDiff (PBytes raw) st2 HI Hord
                ltac:(rewrite Ek; discriminate) Hh Hko Hlen ltac:(discriminate)) as [Hstep HI'].
    { rewrite Hb. exact Hrc. }
    { unfold sec_payload. rewrite Econt. reflexivity. }
    { rewrite Hfnl2. exact Hf1. }
    exists st2, (SectionsFacts.table (fs_id s)), encs, pl. split; [exact Hstep|]. split; [exact HI'|]. split; [exact Hrem2|].
    rewrite Hline2, Hl1. unfold content_nlines. rewrite Econt, Hdc. lia.
Qed.

(* ================================================================================================ *)
(** * All sections *)

Lemma run_secs : forall orc chunk crlf ss prev x st valid encs pl rest,
  0 < chunk -> Inv crlf prev x st valid encs pl -> wf_secs prev x ss = true -> Forall (oracle_ok_section orc) ss ->
  remaining (st_stream st) = render_secs crlf x ss ++ rest ->
  (Z.of_nat (length (render_secs crlf x ss)) <= sys_maxsize)%Z ->
  exists st' valid' encs' pl',
    ReaderSpecFacts.run orc chunk st valid encs pl (records_secs (st_linenum st) ss) st' valid' encs' pl' /\
    remaining (st_stream st') = rest.
Proof.
  intros orc chunk crlf. induction ss as [|s ss IH]; intros prev x st valid encs pl rest Hc HI Hwf Horc Hrem Hmax.
  - exists st, valid, encs, pl. split; [constructor | exact Hrem].
  - cbn [wf_secs] in Hwf. apply andb_true_iff in Hwf. destruct Hwf as [Hws Hwss].
    inversion Horc as [|? ? Ho Hos]; subst.
    cbn [render_secs] in Hrem, Hmax. rewrite <- app_assoc in Hrem.
    assert (Hm1 : (Z.of_nat (length (content_body x s)) <= sys_maxsize)%Z).
    { unfold sec_render in Hmax. rewrite !app_length in Hmax. lia. }
    destruct (step_section orc chunk crlf prev x s st valid encs pl _ Hc HI Hws Ho Hrem Hm1)
      as (st1 & v1 & e1 & p1 & Hstep & HI1 & Hrem1 & Hline1).
    assert (Hm2 : (Z.of_nat (length (render_secs crlf (ectx_next x s) ss)) <= sys_maxsize)%Z)
      by (rewrite app_length in Hmax; lia).
    destruct (IH _ _ st1 v1 e1 p1 rest Hc HI1 Hwss Hos Hrem1 Hm2) as (st' & v' & e' & p' & Hrun & Hrem').
    exists st', v', e', p'. split; [|exact Hrem'].
    cbn [records_secs]. rewrite <- Hline1. econstructor; [exact Hstep | exact Hrun].
Qed.

(* whitespace-only lines up to the end of the data: the iteration stops normally *)
Lemma iter_step_trailing : forall orc chunk st valid encs pl ws,
  0 < chunk -> forallb is_ws_line ws = true -> remaining (st_stream st) = render_blanks ws ->
  iter_step orc chunk st valid encs pl = SDone.
Proof.
  intros orc chunk st valid encs pl ws Hc Hws Hrem.
  destruct (next_nonblank_eof chunk ws (st_stream st) Hc Hws Hrem) as [s' E].
  unfold iter_step, read_header. rewrite E. reflexivity.
Qed.

(* ================================================================================================ *)
(** * C03, acceptance, whole files *)

Theorem C03_reads_spec : forall f orc chunk,
  wf_file f = true -> oracle_ok_file orc f -> 0 < chunk ->
  (Z.of_nat (length (render_file f)) <= sys_maxsize)%Z ->
  read_all orc chunk (render_file f) = (spec_records f, TEnd).
Proof.
  intros f orc chunk Hwf Horc Hc Hmax.
  unfold wf_file in Hwf. apply andb_true_iff in Hwf. destruct Hwf as [Hsecs Htrail].
  set (data := render_file f) in *.
  assert (HI : Inv (ff_crlf f) None ectx0 (ReaderSpecFacts.init_state data) [GenSections.sec_main] [None] 0)
    by (constructor; reflexivity).
  assert (Hm : (Z.of_nat (length (render_secs (ff_crlf f) ectx0 (ff_sections f))) <= sys_maxsize)%Z).
  { unfold data, render_file in Hmax. rewrite app_length in Hmax. lia. }
  destruct (run_secs orc chunk (ff_crlf f) (ff_sections f) None ectx0 _ _ _ _ (render_blanks (ff_trailing f)) Hc HI Hsecs Horc
              eq_refl Hm) as (st' & v' & e' & p' & Hrun & Hrem').
  cbn [ReaderSpecFacts.init_state st_linenum] in Hrun. fold (spec_records f) in Hrun.
  destruct (ReaderSpecFacts.run_progress _ _ _ _ _ _ _ _ _ _ _ Hc Hrun (StreamFacts.wf_initial data)) as (W & D & P).
  set (rs := spec_records f) in *.
  assert (Hlen : length rs <= length data).
  { unfold StreamFacts.wf_rstate, StreamFacts.wf_stream in W.
    unfold ReaderSpecFacts.sdata, ReaderSpecFacts.spos, ReaderSpecFacts.init_state in *. cbn [st_stream s_data s_pos] in *.
    rewrite D in W. lia. }
  unfold read_all. fold (ReaderSpecFacts.init_state data).
  replace (S (length data)) with (length rs + S (length data - length rs)) by lia.
  rewrite (ReaderSpecFacts.iter_loop_run _ _ _ _ _ _ _ _ _ _ _ Hrun).
  cbn [iter_loop]. rewrite (iter_step_trailing orc chunk st' v' e' p' (ff_trailing f) Hc Htrail Hrem').
  rewrite app_nil_r, HeaderFacts.frev_is_rev, rev_involutive. reflexivity.
Qed.
