(* SectionsFacts.v — proofs for property C10: the GENERATED section table equals the spec's state tree
   (SectionsSpec.may_follow), and the reader model (Reader.read_all) only ever yields id sequences that are
   paths of that table, rejecting an out-of-order header with a parse error. *)
From Coq Require Import List Arith NArith ZArith Bool Strings.Byte Lia.
From Coq Require Strings.String.
From DX Require Import Bytes Res Codec Text Sections Header Stream Json Reader SectionsSpec.
From DXGen Require GenSections GenText.
Import ListNotations.
Import String.StringSyntax.
Local Open Scope string_scope.
Local Open Scope list_scope.

(* ------------------------------------------------------------------------------------------------ *)
(* 1. the generated table against the spec                                                          *)
(* ------------------------------------------------------------------------------------------------ *)

Lemma in_ids_In : forall x l, in_ids x l = true <-> In x l.
Proof. intros x l. unfold in_ids. apply mem_In. exact beq_eq. Qed.

Lemma in_ids_false : forall x l, in_ids x l = false <-> ~ In x l.
Proof.
  intros x l. split.
  - intros H Hin. apply in_ids_In in Hin. congruence.
  - intro H. destruct (in_ids x l) eqn:E; [|reflexivity]. apply in_ids_In in E. contradiction.
Qed.

(* the row of the generated table for a spec id *)
Definition table (a : sid) : list bytes :=
  match table_get (sid_bytes a) with Some l => l | None => [] end.

(* every one of the nine ids has a row *)
Lemma table_total : forall a, table_get (sid_bytes a) = Some (table a).
Proof. destruct a; vm_compute; reflexivity. Qed.

(* the 81 pairs, by computation against GenSections.valid_states *)
Theorem table_is_spec : forall a b : sid, In (sid_bytes b) (table a) <-> may_follow a b = true.
Proof.
  intros a b. rewrite <- in_ids_In.
  destruct a, b; vm_compute; split; intro H; first [exact H | reflexivity | discriminate H].
Qed.

(* every key and every member of the generated table is one of the nine ids; every member has a row of its own;
   Main is a member of no row; and (redundantly with table_is_spec) every member is allowed by the spec *)
Definition is_some {A} (o : option A) : bool := match o with Some _ => true | None => false end.

Definition member_ok (a : sid) (x : bytes) : bool :=
  match sid_of_bytes x with
  | Some b => may_follow a b && negb (sid_eqb b Main) && is_some (table_get x)
  | None => false
  end.

Definition row_ok (kr : bytes * list bytes) : bool :=
  match sid_of_bytes (fst kr) with
  | Some a => forallb (member_ok a) (snd kr)
  | None => false
  end.

Lemma table_rows_ok : forallb row_ok GenSections.valid_states = true.
Proof. vm_compute. reflexivity. Qed.

Lemma assoc_get_In : forall {V} (k : bytes) (d : list (bytes * V)) v,
  assoc_get beq k d = Some v -> In (k, v) d.
Proof.
  induction d as [|[k' v'] d IH]; cbn [assoc_get]; intros v H; [discriminate H|].
  destruct (beq k k') eqn:E.
  - apply beq_eq in E. injection H as ->. subst. left. reflexivity.
  - right. apply IH. exact H.
Qed.

Lemma table_get_row_ok : forall id row, table_get id = Some row -> row_ok (id, row) = true.
Proof.
  intros id row H. apply assoc_get_In in H.
  pose proof table_rows_ok as Hall. rewrite forallb_forall in Hall. apply Hall. exact H.
Qed.

(* keys of the table are among the nine, and the row is the row of that id *)
Theorem table_get_key : forall id row, table_get id = Some row -> exists a, id = sid_bytes a /\ row = table a.
Proof.
  intros id row H. pose proof (table_get_row_ok id row H) as Hok.
  unfold row_ok in Hok. cbn [fst snd] in Hok.
  destruct (sid_of_bytes id) as [a|] eqn:E; [|discriminate Hok].
  apply sid_of_bytes_some in E. exists a. split; [exact E|].
  subst id. unfold table. rewrite H. reflexivity.
Qed.

Theorem table_member : forall a x, In x (table a) ->
  exists b, x = sid_bytes b /\ may_follow a b = true /\ b <> Main /\ table_get x = Some (table b).
Proof.
  intros a x Hin. pose proof (table_get_row_ok _ _ (table_total a)) as Hok.
  unfold row_ok in Hok. cbn [fst snd] in Hok. rewrite sid_of_bytes_sid_bytes in Hok.
  rewrite forallb_forall in Hok. specialize (Hok x Hin). unfold member_ok in Hok.
  destruct (sid_of_bytes x) as [b|] eqn:E; [|discriminate Hok].
  apply sid_of_bytes_some in E. subst x.
  apply andb_true_iff in Hok. destruct Hok as [Hok _].
  apply andb_true_iff in Hok. destruct Hok as [Hmf Hnm].
  exists b. split; [reflexivity|]. split; [exact Hmf|]. split.
  - intros ->. discriminate Hnm.
  - apply table_total.
Qed.

(* byte-level statement of the same: the relation "x is in the row of id" is exactly may_follow on the nine ids *)
Theorem table_is_spec_bytes : forall id x,
  (exists row, table_get id = Some row /\ In x row) <->
  (exists a b, id = sid_bytes a /\ x = sid_bytes b /\ may_follow a b = true).
Proof.
  intros id x. split.
  - intros (row & Hget & Hin). destruct (table_get_key _ _ Hget) as (a & -> & ->).
    destruct (table_member _ _ Hin) as (b & -> & Hmf & _). exists a, b. auto.
  - intros (a & b & -> & -> & Hmf). exists (table a). split; [apply table_total | apply table_is_spec; exact Hmf].
Qed.

(* every id that occurs in a row has a row of its own: the KeyError branch of the reader is dead on reachable ids *)
Theorem table_closed : forall id row x, table_get id = Some row -> In x row -> table_get x <> None.
Proof.
  intros id row x Hget Hin. destruct (table_get_key _ _ Hget) as (a & -> & ->).
  destruct (table_member _ _ Hin) as (b & _ & _ & _ & E). rewrite E. discriminate.
Qed.

(* Main occurs in no row: it can only be accepted while [valid] is the initial [sec_main] *)
Theorem main_in_no_row : forall id row, table_get id = Some row -> ~ In GenSections.sec_main row.
Proof.
  intros id row Hget Hin. destruct (table_get_key _ _ Hget) as (a & -> & ->).
  destruct (table_member _ _ Hin) as (b & E & _ & Hne & _).
  apply Hne. apply sid_bytes_inj. symmetry. exact E.
Qed.

Lemma sec_main_is_Main : GenSections.sec_main = sid_bytes Main.
Proof. vm_compute. reflexivity. Qed.

(* ------------------------------------------------------------------------------------------------ *)
(* 2. paths of the table                                                                            *)
(* ------------------------------------------------------------------------------------------------ *)

(* [path_from valid ids]: the first id is in [valid], and each next id is in the table row of its predecessor *)
Fixpoint path_from (valid : list bytes) (ids : list bytes) : Prop :=
  match ids with
  | [] => True
  | b :: t => In b valid /\ exists row, table_get b = Some row /\ path_from row t
  end.

Lemma path_from_table : forall ids a, path_from (table a) ids ->
  exists w, ids = map sid_bytes w /\ ok_from a w = true.
Proof.
  induction ids as [|x ids IH]; intros a H.
  - exists []. split; reflexivity.
  - destruct H as [Hin (row & Hget & Hrest)].
    destruct (table_member _ _ Hin) as (b & -> & Hmf & _ & Hrow).
    rewrite Hrow in Hget. injection Hget as <-.
    destruct (IH _ Hrest) as (w & -> & Hw).
    exists (b :: w). split; [reflexivity|]. cbn [ok_by]. rewrite Hmf, Hw. reflexivity.
Qed.

Lemma path_from_main : forall ids, path_from [GenSections.sec_main] ids ->
  exists w, ids = map sid_bytes w /\ spec_path w.
Proof.
  intros [|x ids] H.
  - exists []. split; [reflexivity | exact I].
  - destruct H as [Hin (row & Hget & Hrest)].
    destruct Hin as [<- | []]. rewrite sec_main_is_Main in Hget.
    rewrite table_total in Hget. injection Hget as <-.
    destruct (path_from_table _ _ Hrest) as (w & -> & Hw).
    exists (Main :: w). split; [rewrite sec_main_is_Main; reflexivity|]. split; [reflexivity | exact Hw].
Qed.

(* ------------------------------------------------------------------------------------------------ *)
(* 3. the reader                                                                                    *)
(* ------------------------------------------------------------------------------------------------ *)

Lemma frev_rev : forall {A} (l : list A), frev l = rev l.
Proof. intros A l. unfold frev. symmetry. apply rev_alt. Qed.

(* the header line (newline stripped) that the next call of _read_header hands to the header regex *)
Definition header_fnl (st : rstate) (header : bytes) : bytes :=
  match st_fnl st with
  | Some f => f
  | None => if bends crlf header then crlf else [lf]
  end.

Definition next_header (chunk : nat) (st : rstate) : option (bytes * stream * bytes) :=
  match next_nonblank (S (length (remaining (st_stream st)))) chunk (st_stream st) with
  | Ok (Some header, s1) =>
      let fnl := header_fnl st header in
      if bends fnl header then Some (firstn (length header - length fnl) header, s1, fnl) else None
  | _ => None
  end.

Definition after_header (st : rstate) (s1 : stream) (fnl : bytes) : rstate :=
  {| st_stream := s1; st_linenum := (st_linenum st + 1)%Z; st_fnl := Some fnl |}.

(* read_header in terms of next_header and parse_header *)
Lemma read_header_next : forall chunk valid st h s1 fnl,
  next_header chunk st = Some (h, s1, fnl) ->
  read_header chunk valid st =
  match parse_header valid h with
  | HErr col => HdrParse (st_linenum st) (option_map Z.of_nat col)
  | HOk level name id opts => HdrOk level name id opts (st_linenum st) (after_header st s1 fnl)
  end.
Proof.
  intros chunk valid st h s1 fnl H. unfold next_header in H. unfold read_header.
  destruct (next_nonblank _ chunk (st_stream st)) as [[[header|] s1']|e]; try discriminate H.
  cbv zeta in H. fold (header_fnl st header).
  destruct (bends (header_fnl st header) header); [|discriminate H].
  injection H as <- <- <-. cbn [negb]. reflexivity.
Qed.

Lemma read_header_ok_inv : forall chunk valid st level name id opts line st1,
  read_header chunk valid st = HdrOk level name id opts line st1 ->
  exists h s1 fnl, next_header chunk st = Some (h, s1, fnl) /\
                   parse_header valid h = HOk level name id opts /\
                   line = st_linenum st /\ st1 = after_header st s1 fnl.
Proof.
  intros chunk valid st level name id opts line st1 H.
  destruct (next_header chunk st) as [[[h s1] fnl]|] eqn:E.
  - rewrite (read_header_next _ valid _ _ _ _ E) in H.
    destruct (parse_header valid h) eqn:P; [|discriminate H].
    injection H as E1 E2 E3 E4 E5 E6. subst. exists h, s1, fnl. auto.
  - exfalso. unfold next_header in E. unfold read_header in H.
    destruct (next_nonblank _ chunk (st_stream st)) as [[[header|] s1']|e]; try discriminate H.
    cbv zeta in E. fold (header_fnl st header) in H.
    destruct (bends (header_fnl st header) header); [discriminate E|]. discriminate H.
Qed.

(* parse_header only accepts ids in [valid] *)
Lemma parse_header_ok_inv : forall valid h level name id opts,
  parse_header valid h = HOk level name id opts ->
  exists ostr, match_header_re h = Some (level, name, ostr) /\ id = build_id level name /\ in_ids id valid = true.
Proof.
  intros valid h level name id opts H. unfold parse_header in H.
  destruct (match_header_re h) as [[[d n] o]|]; [|discriminate H].
  destruct (in_ids (build_id d n) valid) eqn:E; cbn [negb] in H; [|discriminate H].
  destruct o as [s|].
  - destruct (parse_pairs h (bsplit comma_space s) []); [|discriminate H].
    injection H as -> -> <- _. exists (Some s). auto.
  - injection H as -> -> <- _. exists None. auto.
Qed.

Lemma parse_header_rejects : forall valid h dots name ostr,
  match_header_re h = Some (dots, name, ostr) -> in_ids (build_id dots name) valid = false ->
  parse_header valid h = HErr None.
Proof. intros valid h d n o H E. unfold parse_header. rewrite H, E. reflexivity. Qed.

(* one iteration yields only a record whose id is in [valid], and the new [valid] is that id's table row *)
Lemma iter_step_yield : forall orc chunk st valid encs prev r st' valid' encs' prev',
  iter_step orc chunk st valid encs prev = SYield r st' valid' encs' prev' ->
  In (r_id r) valid /\ table_get (r_id r) = Some valid'.
Proof.
  intros orc chunk st valid encs prev r st' valid' encs' prev'. unfold iter_step.
  destruct (read_header chunk valid st) as [|level name id opts line st1|l c|e] eqn:Hh; try discriminate.
  apply read_header_ok_inv in Hh. destruct Hh as (h & s1 & fnl & _ & Hp & _ & _).
  apply parse_header_ok_inv in Hp. destruct Hp as (ostr & _ & _ & Hin). apply in_ids_In in Hin.
  cbv beta zeta.
  repeat match goal with
         | |- (match ?x with _ => _ end) = _ -> _ => destruct x eqn:?
         end;
    try discriminate;
    intro H; injection H as <- _ <- _ _; cbn [r_id]; split; assumption.
Qed.

Lemma iter_loop_path : forall fuel orc chunk st valid encs prev acc rs t,
  iter_loop fuel orc chunk st valid encs prev acc = (rs, t) ->
  exists new, rs = rev acc ++ new /\ path_from valid (map r_id new).
Proof.
  induction fuel as [|f IH]; intros orc chunk st valid encs prev acc rs t H; cbn [iter_loop] in H.
  - injection H as <- _. exists []. rewrite frev_rev, app_nil_r. split; [reflexivity | exact I].
  - destruct (iter_step orc chunk st valid encs prev) as [|r st' valid' encs' prev'|l c|e] eqn:Hs;
      try (injection H as <- _; exists []; rewrite frev_rev, app_nil_r; split; [reflexivity | exact I]).
    apply iter_step_yield in Hs. destruct Hs as [Hin Hget].
    apply IH in H. destruct H as (new & -> & Hpath).
    exists (r :: new). split.
    + cbn [rev]. rewrite <- app_assoc. reflexivity.
    + cbn [map path_from]. split; [exact Hin|]. exists valid'. split; assumption.
Qed.

(* ---- C10, soundness: whatever the input, the ids of the records the reader yields form a legal path ---- *)
Theorem C10_reader_sound : forall orc chunk data rs t,
  read_all orc chunk data = (rs, t) ->
  exists w : list sid, map r_id rs = map sid_bytes w /\ spec_path w.
Proof.
  intros orc chunk data rs t H. unfold read_all in H.
  apply iter_loop_path in H. destruct H as (new & -> & Hpath). cbn [rev app].
  apply path_from_main. exact Hpath.
Qed.

(* the same, unfolded at the byte level against the generated table, as four separate facts *)
Theorem C10_reader_sound_bytes : forall orc chunk data rs t,
  read_all orc chunk data = (rs, t) ->
  let ids := map r_id rs in
  (* starts with the main header *)
  (ids = [] \/ exists rest, ids = GenSections.sec_main :: rest /\ ~ In GenSections.sec_main rest) /\
  (* every adjacent pair is in the table, hence in the spec's state tree *)
  (forall x y, Adjacent x y ids ->
     (exists row, table_get x = Some row /\ In y row) /\
     (exists a b, x = sid_bytes a /\ y = sid_bytes b /\ may_follow a b = true)) /\
  (* only the nine ids *)
  (forall x, In x ids -> exists a, x = sid_bytes a).
Proof.
  intros orc chunk data rs t H ids.
  destruct (C10_reader_sound _ _ _ _ _ H) as (w & Hw & Hpath). fold ids in Hw.
  split; [|split].
  - destruct (spec_path_main_once w Hpath) as [-> | (t' & -> & Hno)]; [left; exact Hw | right].
    exists (map sid_bytes t'). split; [rewrite Hw, sec_main_is_Main; reflexivity|].
    rewrite sec_main_is_Main. intro Hin. apply in_map_iff in Hin. destruct Hin as (s & E & Hs).
    apply sid_bytes_inj in E. subst s. exact (Hno Hs).
  - intros x y Hadj. rewrite Hw in Hadj. destruct Hadj as (l1 & l2 & E).
    assert (Hex : exists a b, x = sid_bytes a /\ y = sid_bytes b /\ Adjacent a b w).
    { clear - E. revert l1 E. induction w as [|s w IH]; intros l1 E.
      - destruct l1; discriminate E.
      - destruct l1 as [|z l1]; cbn in E.
        + destruct w as [|s' w]; [discriminate E|]. cbn in E. injection E as <- <- _.
          exists s, s'. split; [reflexivity|]. split; [reflexivity|]. exists [], w. reflexivity.
        + injection E as _ E. destruct (IH _ E) as (a & b & Ha & Hb & Hadj).
          exists a, b. split; [exact Ha|]. split; [exact Hb|]. apply Adjacent_cons. exact Hadj. }
    destruct Hex as (a & b & -> & -> & Hadj).
    pose proof (spec_path_adjacent w Hpath a b Hadj) as Hmf. split.
    + exists (table a). split; [apply table_total | apply table_is_spec; exact Hmf].
    + exists a, b. auto.
  - intros x Hin. rewrite Hw in Hin. apply in_map_iff in Hin. destruct Hin as (s & <- & _).
    exists s. reflexivity.
Qed.

(* ---- C10, rejection: a syntactically valid header whose id may not come next is a parse error ---- *)
Theorem C10_rejects : forall orc chunk st valid encs prev h s1 fnl dots name ostr,
  next_header chunk st = Some (h, s1, fnl) ->
  match_header_re h = Some (dots, name, ostr) ->
  in_ids (build_id dots name) valid = false ->
  iter_step orc chunk st valid encs prev = SParse (st_linenum st) None.
Proof.
  intros orc chunk st valid encs prev h s1 fnl d n o Hn Hm Hin. unfold iter_step.
  rewrite (read_header_next _ valid _ _ _ _ Hn), (parse_header_rejects _ _ _ _ _ Hm Hin). reflexivity.
Qed.

(* the same for the whole iteration: the records so far are kept, the iterator ends with DiffXParseError at that line *)
Theorem C10_rejects_loop : forall fuel orc chunk st valid encs prev acc h s1 fnl dots name ostr,
  next_header chunk st = Some (h, s1, fnl) ->
  match_header_re h = Some (dots, name, ostr) ->
  in_ids (build_id dots name) valid = false ->
  iter_loop (S fuel) orc chunk st valid encs prev acc = (rev acc, TParse (st_linenum st) None).
Proof.
  intros. cbn [iter_loop]. erewrite C10_rejects by eassumption. rewrite frev_rev. reflexivity.
Qed.

(* conversely a yield happens only on a header that parses and whose id is in [valid] *)
Theorem C10_yield_inv : forall orc chunk st valid encs prev r st' valid' encs' prev',
  iter_step orc chunk st valid encs prev = SYield r st' valid' encs' prev' ->
  exists h s1 fnl ostr,
    next_header chunk st = Some (h, s1, fnl) /\
    match_header_re h = Some (r_level r, r_type r, ostr) /\
    r_id r = build_id (r_level r) (r_type r) /\
    in_ids (r_id r) valid = true /\ table_get (r_id r) = Some valid' /\ r_line r = st_linenum st.
Proof.
  intros orc chunk st valid encs prev r st' valid' encs' prev'. unfold iter_step.
  destruct (read_header chunk valid st) as [|level name id opts line st1|l c|e] eqn:Hh; try discriminate.
  apply read_header_ok_inv in Hh. destruct Hh as (h & s1 & fnl & Hn & Hp & -> & _).
  apply parse_header_ok_inv in Hp. destruct Hp as (ostr & Hm & Hid & Hin).
  cbv beta zeta.
  repeat match goal with
         | |- (match ?x with _ => _ end) = _ -> _ => destruct x eqn:?
         end;
    try discriminate;
    intro H; injection H as <- _ <- _ _; cbn [r_id r_level r_type r_line];
    exists h, s1, fnl, ostr; repeat split; assumption.
Qed.

(* ------------------------------------------------------------------------------------------------ *)
(* 4. completeness at the header level                                                              *)
(* ------------------------------------------------------------------------------------------------ *)

(* options are well-formed: every pair is key=value with a key [A-Za-z][A-Za-z0-9_-]* and a value [A-Za-z0-9/._-]+ *)
Definition pair_wf (p : bytes) : bool :=
  match split_eq p with Some (k, v) => key_ok k && val_ok v | None => false end.
Definition opts_wf (o : option bytes) : bool :=
  match o with None => true | Some s => all_b pair_wf (bsplit comma_space s) end.

Lemma parse_pairs_wf : forall header pairs acc,
  all_b pair_wf pairs = true <-> exists o, parse_pairs header pairs acc = inl o.
Proof.
  induction pairs as [|p pairs IH]; intros acc; cbn [all_b parse_pairs].
  - split; [eexists; reflexivity | reflexivity].
  - unfold pair_wf at 1. destruct (split_eq p) as [[k v]|].
    + destruct (key_ok k); cbn [negb andb].
      * destruct (val_ok v); cbn [negb andb].
        -- apply IH.
        -- split; [discriminate | intros (o & H); discriminate H].
      * split; [discriminate | intros (o & H); discriminate H].
    + cbn [andb]. split; [discriminate | intros (o & H); discriminate H].
Qed.

(* exact characterisation of an accepted header: the regex matches, the id is in [valid], the options are well-formed *)
Theorem parse_header_ok_iff : forall valid h level name id,
  (exists opts, parse_header valid h = HOk level name id opts) <->
  (exists ostr, match_header_re h = Some (level, name, ostr) /\ id = build_id level name /\
                in_ids id valid = true /\ opts_wf ostr = true).
Proof.
  intros valid h level name id. unfold parse_header. split.
  - intros (opts & H).
    destruct (match_header_re h) as [[[d n] o]|]; [|discriminate H].
    destruct (in_ids (build_id d n) valid) eqn:E; cbn [negb] in H; [|discriminate H].
    destruct o as [s|].
    + destruct (parse_pairs h (bsplit comma_space s) []) eqn:P; [|discriminate H].
      injection H as -> -> <- _. exists (Some s). repeat split; auto.
      cbn [opts_wf]. apply (parse_pairs_wf h _ []). eexists; exact P.
    + injection H as -> -> <- _. exists None. repeat split; auto.
  - intros (ostr & -> & -> & -> & Hwf). cbn [negb]. destruct ostr as [s|].
    + cbn [opts_wf] in Hwf. apply (parse_pairs_wf h _ []) in Hwf. destruct Hwf as (o & ->).
      eexists; reflexivity.
    + eexists; reflexivity.
Qed.

(* a header that may come next and has well-formed options is accepted by _read_header *)
Theorem C10_header_accepts : forall chunk st valid h s1 fnl dots name ostr,
  next_header chunk st = Some (h, s1, fnl) ->
  match_header_re h = Some (dots, name, ostr) ->
  in_ids (build_id dots name) valid = true ->
  opts_wf ostr = true ->
  exists opts, parse_header valid h = HOk dots name (build_id dots name) opts /\
    read_header chunk valid st = HdrOk dots name (build_id dots name) opts (st_linenum st) (after_header st s1 fnl).
Proof.
  intros chunk st valid h s1 fnl d n o Hn Hm Hin Hwf.
  destruct (proj2 (parse_header_ok_iff valid h d n (build_id d n))) as (opts & Hp).
  { exists o. auto. }
  exists opts. split; [exact Hp|]. rewrite (read_header_next _ valid _ _ _ _ Hn), Hp. reflexivity.
Qed.

(* ------------------------------------------------------------------------------------------------ *)
(* 5. the encoding stack invariant and acceptance of container sections                             *)
(* ------------------------------------------------------------------------------------------------ *)

(* dots of an id, and the level of the innermost container section an id belongs to *)
Definition slevel (a : sid) : nat :=
  match a with
  | Main => 0
  | MainPreamble | MainMeta | Change => 1
  | ChangePreamble | ChangeMeta | File => 2
  | FileMeta | FileDiff => 3
  end.
Definition clevel (a : sid) : nat :=
  match a with
  | Main | MainPreamble | MainMeta => 0
  | Change | ChangePreamble | ChangeMeta => 1
  | File | FileMeta | FileDiff => 2
  end.
Definition is_container (a : sid) : bool :=
  match a with Main | Change | File => true | _ => false end.

Lemma is_content_sid : forall a, is_content (sid_bytes a) = negb (is_container a).
Proof. destruct a; vm_compute; reflexivity. Qed.

Lemma match_name_In : forall names l n tail, match_name names l = Some (n, tail) -> In n names.
Proof.
  induction names as [|x names IH]; cbn [match_name]; intros l n tail H; [discriminate H|].
  destruct (bstarts (x ++ B ":") l).
  - injection H as <- _. left. reflexivity.
  - right. eapply IH. exact H.
Qed.

Lemma match_header_re_inv : forall h d n o, match_header_re h = Some (d, n, o) -> d <= 3 /\ In n header_names.
Proof.
  intros h d n o H. unfold match_header_re in H.
  destruct h as [|c r]; [discriminate H|].
  destruct (byte_eqb c "#"%byte); [|discriminate H].
  destruct (take_dots r) as [dots rest].
  destruct (Nat.leb dots 3) eqn:Hle; [|discriminate H].
  destruct (match_name header_names rest) as [[name tail]|] eqn:Hmn; [|discriminate H].
  apply match_name_In in Hmn. apply Nat.leb_le in Hle.
  destruct tail as [|sp opts].
  - injection H as <- <- _. auto.
  - destruct (byte_eqb sp " "%byte && nonempty opts && all_b pair_shape_ok (bsplit comma_space opts));
      [|discriminate H].
    injection H as <- <- _. auto.
Qed.

Lemma build_id_level : forall d n b, d <= 3 -> In n header_names -> build_id d n = sid_bytes b -> d = slevel b.
Proof.
  intros d n b Hd Hn H.
  destruct d as [|[|[|[|d]]]]; [| | | |lia];
    cbn [header_names In] in Hn;
    repeat (destruct Hn as [<- | Hn]); try contradiction;
    destruct b; vm_compute in H; first [reflexivity | discriminate H].
Qed.

Lemma pop_n_some : forall {A} n (l : list A), n <= length l ->
  exists l', pop_n n l = Some l' /\ length l' = length l - n.
Proof.
  induction n as [|n IH]; intros l H; cbn [pop_n].
  - exists l. split; [reflexivity | lia].
  - destruct l as [|x l]; cbn [length] in *; [lia|].
    destruct (IH l) as (l' & E & Hl); [lia|]. exists l'. split; [exact E | lia].
Qed.

Lemma pop_n_length : forall {A} n (l l' : list A), pop_n n l = Some l' -> length l' = length l - n /\ n <= length l.
Proof.
  induction n as [|n IH]; intros l l' H; cbn [pop_n] in H.
  - injection H as <-. lia.
  - destruct l as [|x l]; [discriminate H|]. apply IH in H. cbn [length]. lia.
Qed.

(* the state of the while loop between two iterations *)
Definition step_inv (valid : list bytes) (encs : list (option pv)) (prev : nat) : Prop :=
  (valid = [GenSections.sec_main] /\ encs = [None] /\ prev = 0) \/
  (exists a, valid = table a /\ prev = clevel a /\ length encs = prev + 2).

(* how a yield changes the encoding stack *)
Lemma iter_step_yield_shape : forall orc chunk st valid encs prev r st' valid' encs' prev',
  iter_step orc chunk st valid encs prev = SYield r st' valid' encs' prev' ->
  (is_content (r_id r) = true /\ encs' = encs /\ prev' = prev) \/
  (is_content (r_id r) = false /\ prev' = r_level r /\
   exists popped cur e, top popped = Some cur /\ encs' = e :: popped /\
     ((r_id r = GenSections.sec_main /\ popped = encs) \/
      (r_id r <> GenSections.sec_main /\ pop_n (prev + 1 - r_level r) encs = Some popped))).
Proof.
  intros orc chunk st valid encs prev r st' valid' encs' prev'. unfold iter_step.
  destruct (read_header chunk valid st) as [|level name id opts line st1|l c|e] eqn:Hh; try discriminate.
  clear Hh. cbv beta zeta.
  destruct (is_content id) eqn:Hc.
  - repeat match goal with
           | |- (match ?x with _ => _ end) = _ -> _ => destruct x eqn:?
           end;
      try discriminate;
      intro H; injection H as <- _ _ <- <-; cbn [r_id]; left; auto.
  - destruct (beq id GenSections.sec_main) eqn:Hm.
    + apply beq_eq in Hm.
      repeat match goal with
             | |- (match ?x with _ => _ end) = _ -> _ => destruct x eqn:?
             end;
        try discriminate;
        intro H; injection H as <- _ _ <- <-; cbn [r_id r_level]; right;
        (split; [assumption|]); (split; [reflexivity|]);
        eexists _, _, _; (split; [eassumption|]); (split; [reflexivity|]); left; auto.
    + assert (Hne : id <> GenSections.sec_main) by (intro E; apply beq_eq in E; congruence).
      repeat match goal with
             | |- (match ?x with _ => _ end) = _ -> _ => destruct x eqn:?
             end;
        try discriminate;
        intro H; injection H as <- _ _ <- <-; cbn [r_id r_level]; right;
        (split; [assumption|]); (split; [reflexivity|]);
        eexists _, _, _; (split; [eassumption|]); (split; [reflexivity|]); right; auto.
Qed.

Lemma follow_levels : forall a b, may_follow a b = true ->
  if is_container b then slevel b = clevel b /\ clevel b <= clevel a + 1 else clevel b = clevel a.
Proof. destruct a, b; intro H; try discriminate H; cbn; lia. Qed.

Theorem step_inv_preserved : forall orc chunk st valid encs prev r st' valid' encs' prev',
  step_inv valid encs prev ->
  iter_step orc chunk st valid encs prev = SYield r st' valid' encs' prev' ->
  step_inv valid' encs' prev'.
Proof.
  intros orc chunk st valid encs prev r st' valid' encs' prev' Hinv Hs.
  pose proof (iter_step_yield_shape _ _ _ _ _ _ _ _ _ _ _ Hs) as Hshape.
  destruct (C10_yield_inv _ _ _ _ _ _ _ _ _ _ _ Hs) as (h & s1 & fnl & ostr & _ & Hm & Hid & Hin & Hget & _).
  apply match_header_re_inv in Hm. destruct Hm as [Hd Hn]. apply in_ids_In in Hin.
  right. destruct Hinv as [(-> & -> & ->) | (a & -> & -> & Hlen)].
  - (* first section: the main header *)
    destruct Hin as [E | []]. rewrite sec_main_is_Main in E. symmetry in E.
    pose proof (build_id_level _ _ Main Hd Hn (eq_trans (eq_sym Hid) E)) as Hl.
    rewrite E, table_total in Hget. injection Hget as <-.
    exists Main. split; [reflexivity|].
    rewrite E, is_content_sid in Hshape. cbn [is_container negb] in Hshape.
    destruct Hshape as [(Hc & _) | (_ & -> & popped & cur & e & _ & -> & Hp)]; [discriminate Hc|].
    rewrite Hl. split; [reflexivity|].
    destruct Hp as [(_ & ->) | (Hne & _)]; [reflexivity|]. exfalso. apply Hne. rewrite sec_main_is_Main. reflexivity.
  - destruct (table_member _ _ Hin) as (b & E & Hmf & Hbm & _).
    pose proof (build_id_level _ _ b Hd Hn (eq_trans (eq_sym Hid) E)) as Hl.
    rewrite E, table_total in Hget. injection Hget as <-.
    exists b. split; [reflexivity|].
    pose proof (follow_levels a b Hmf) as Hlv.
    rewrite E, is_content_sid in Hshape.
    destruct Hshape as [(Hc & -> & ->) | (Hc & -> & popped & cur & e & _ & -> & Hp)].
    + apply negb_true_iff in Hc. rewrite Hc in Hlv. rewrite Hlv. auto.
    + apply negb_false_iff in Hc. rewrite Hc in Hlv. destruct Hlv as [Hsl Hle].
      rewrite Hl, Hsl. split; [reflexivity|].
      destruct Hp as [(Hmain & _) | (_ & Hpop)].
      * exfalso. apply Hbm. apply sid_bytes_inj. rewrite <- sec_main_is_Main. exact Hmain.
      * apply pop_n_length in Hpop. cbn [length]. lia.
Qed.

(* the states read_all goes through *)
Inductive reach (orc : oracle) (chunk : nat) : rstate -> list bytes -> list (option pv) -> nat -> Prop :=
| reach_init : forall data,
    reach orc chunk {| st_stream := {| s_data := data; s_pos := 0 |}; st_linenum := 0%Z; st_fnl := None |}
          [GenSections.sec_main] [None] 0
| reach_step : forall st valid encs prev r st' valid' encs' prev',
    reach orc chunk st valid encs prev ->
    iter_step orc chunk st valid encs prev = SYield r st' valid' encs' prev' ->
    reach orc chunk st' valid' encs' prev'.

Lemma reach_inv : forall orc chunk st valid encs prev, reach orc chunk st valid encs prev -> step_inv valid encs prev.
Proof.
  induction 1 as [data | st valid encs prev r st' valid' encs' prev' _ IH Hs].
  - left. auto.
  - eapply step_inv_preserved; eauto.
Qed.

(* C10, acceptance for the container sections (diffx, .change, ..file), which carry no content:
   in any state the loop can be in, a container header that may come next and whose options are well-formed
   (plus, for the main header, a supported version) is yielded, and [valid] becomes its table row. *)
Theorem C10_accepts_container : forall orc chunk st valid encs prev h s1 fnl dots name ostr,
  step_inv valid encs prev ->
  next_header chunk st = Some (h, s1, fnl) ->
  match_header_re h = Some (dots, name, ostr) ->
  in_ids (build_id dots name) valid = true ->
  opts_wf ostr = true ->
  is_content (build_id dots name) = false ->
  (build_id dots name = GenSections.sec_main ->
     forall opts, parse_header valid h = HOk dots name (build_id dots name) opts ->
     exists v, opt_get "version" opts = Some (VStr v) /\ in_ids v GenText.versions = true) ->
  exists r valid' encs',
    iter_step orc chunk st valid encs prev = SYield r (after_header st s1 fnl) valid' encs' dots /\
    r_id r = build_id dots name /\ r_level r = dots /\ r_line r = st_linenum st /\ r_payload r = PNone /\
    table_get (build_id dots name) = Some valid'.
Proof.
  intros orc chunk st valid encs prev h s1 fnl d n o Hinv Hn Hm Hin Hwf Hc Hver.
  destruct (C10_header_accepts chunk st valid h s1 fnl d n o Hn Hm Hin Hwf) as (opts & Hp & Hrh).
  specialize (fun E => Hver E opts Hp).
  pose proof (match_header_re_inv _ _ _ _ Hm) as [Hd Hnm]. apply in_ids_In in Hin.
  unfold iter_step. rewrite Hrh. cbv beta zeta. rewrite Hc.
  destruct Hinv as [(-> & -> & ->) | (a & -> & -> & Hlen)].
  - destruct Hin as [E | []]. symmetry in E. destruct (Hver E) as (v & Hv1 & Hv2).
    rewrite E. rewrite sec_main_is_Main, beq_refl, table_total. rewrite Hv1, Hv2. cbn [top].
    eexists _, _, _. split; [reflexivity|]. cbn [r_id r_level r_line r_payload]. auto.
  - destruct (table_member _ _ Hin) as (b & E & Hmf & Hbm & Hrow).
    pose proof (build_id_level _ _ b Hd Hnm E) as Hl.
    pose proof (follow_levels a b Hmf) as Hlv.
    rewrite E, is_content_sid in Hc. apply negb_false_iff in Hc. rewrite Hc in Hlv. destruct Hlv as [Hsl Hle].
    rewrite E in Hrow |- *. rewrite Hrow.
    destruct (pop_n_some (clevel a + 1 - d) encs) as (popped & Hpop & Hplen); [lia|].
    assert (Htop : exists cur, top popped = Some cur).
    { destruct popped as [|x p]; [cbn [length] in Hplen; lia | exists x; reflexivity]. }
    destruct Htop as (cur & Htop).
    destruct b; try discriminate Hc; try (contradiction Hbm; reflexivity).
    + (* .change *)
      replace (beq (sid_bytes Change) GenSections.sec_main) with false by (vm_compute; reflexivity).
      replace (beq (sid_bytes Change) GenSections.sec_change) with true by (vm_compute; reflexivity).
      cbn [orb]. rewrite Hpop, Htop.
      eexists _, _, _. split; [reflexivity|]. cbn [r_id r_level r_line r_payload]. auto.
    + (* ..file *)
      replace (beq (sid_bytes File) GenSections.sec_main) with false by (vm_compute; reflexivity).
      replace (beq (sid_bytes File) GenSections.sec_change) with false by (vm_compute; reflexivity).
      replace (beq (sid_bytes File) GenSections.sec_file) with true by (vm_compute; reflexivity).
      cbn [orb]. rewrite Hpop, Htop.
      eexists _, _, _. split; [reflexivity|]. cbn [r_id r_level r_line r_payload]. auto.
Qed.

(* ---- C10, "nine": only the nine ids are ever accepted; the main header is accepted first and only first ---- *)
Theorem C10_nine : forall orc chunk data rs t,
  read_all orc chunk data = (rs, t) ->
  (forall r, In r rs -> exists a, r_id r = sid_bytes a) /\
  (forall i r, nth_error rs i = Some r -> (r_id r = sid_bytes Main <-> i = 0)).
Proof.
  intros orc chunk data rs t H.
  destruct (C10_reader_sound _ _ _ _ _ H) as (w & Hw & Hpath). split.
  - intros r Hin. apply (in_map r_id) in Hin. rewrite Hw in Hin. apply in_map_iff in Hin.
    destruct Hin as (s & <- & _). exists s. reflexivity.
  - intros i r Hnth. apply (map_nth_error r_id) in Hnth. rewrite Hw in Hnth.
    destruct (spec_path_main_once w Hpath) as [-> | (t' & -> & Hno)].
    + destruct i; discriminate Hnth.
    + destruct i as [|j]; cbn [map nth_error] in Hnth.
      * injection Hnth as <-. split; reflexivity.
      * split; [|discriminate]. intro E. exfalso. apply nth_error_In in Hnth.
        apply in_map_iff in Hnth. destruct Hnth as (s & Es & Hs). rewrite E in Es.
        apply sid_bytes_inj in Es. subst s. exact (Hno Hs).
Qed.

(* ------------------------------------------------------------------------------------------------ *)
(* 6. concrete inputs used by the Examples of props/C10.v                                           *)
(* ------------------------------------------------------------------------------------------------ *)
Definition ex_nl : bytes := [x0a].
Definition ex_init (data : bytes) : rstate :=
  {| st_stream := {| s_data := data; s_pos := 0 |}; st_linenum := 0%Z; st_fnl := None |}.
(* accepted: diffx, .change *)
Definition ex_two : bytes := B "#diffx: version=1.0" ++ ex_nl ++ B "#.change:" ++ ex_nl.
(* rejected order: ..file directly after diffx *)
Definition ex_bad_order : bytes := B "#diffx: version=1.0" ++ ex_nl ++ B "#..file:" ++ ex_nl.
(* main header twice *)
Definition ex_main_twice : bytes := B "#diffx: version=1.0" ++ ex_nl ++ B "#diffx: version=1.0" ++ ex_nl.
(* main header missing *)
Definition ex_no_main : bytes := B "#.change:" ++ ex_nl.
(* a syntactically valid header that is not one of the nine ids *)
Definition ex_tenth_id : bytes := B "#diffx: version=1.0" ++ ex_nl ++ B "#.file:" ++ ex_nl.
(* a longer legal sequence with content sections; it also uses the pair (..meta, .change) of the state tree *)
Definition ex_long : bytes :=
  B "#diffx: encoding=utf-8, version=1.0" ++ ex_nl ++ B "#.change:" ++ ex_nl ++ B "#..file:" ++ ex_nl
  ++ B "#...meta: format=json, length=3" ++ ex_nl ++ B "{}" ++ ex_nl
  ++ B "#...diff: length=6" ++ ex_nl ++ B "-a" ++ ex_nl ++ B "+b" ++ ex_nl
  ++ B "#.change:" ++ ex_nl ++ B "#..meta: format=json, length=3" ++ ex_nl ++ B "{}" ++ ex_nl
  ++ B "#.change:" ++ ex_nl.
Definition ex_long_orc : oracle := [(B "s{}" ++ ex_nl, LoadsOk (JObj []))].
