(* ReaderSpecFacts.v — proofs for property C03: "the reader yields exactly what the spec says".
   About the reader model Reader.v (read_header, read_content, iter_step, iter_loop, read_all).

   Part 0  unfolding lemmas: one iteration of iter_sections on a content section, _read_content in stages.
   Part A  the defect catalogue (unsupported / missing version, missing length, format other than json,
           unknown line_endings, content not ending in its newline, invalid JSON): each is a DiffXParseError
           raised by the iteration that read the offending header, nothing is yielded by that iteration, the
           records yielded before are kept, and the error line is the header's line or the line after it.
   Part B  the positive direction for one section: container sections, content sections, blank lines.
   Part C  CRLF header lines. *)
From Coq Require Import List Arith NArith ZArith Bool Strings.Byte Lia ZifyBool.
From Coq Require Strings.String.
From DX Require Import Bytes Res Codec Text Sections Header Stream Json Reader SectionsSpec StreamFacts SectionsFacts.
From DXGen Require GenSections GenText.
Import ListNotations.
Import String.StringSyntax.
Local Open Scope string_scope.
Local Open Scope list_scope.

(* ================================================================================================= *)
(* Part 0: unfolding lemmas                                                                           *)
(* ================================================================================================= *)

(* ---- _read_header: line numbers ---- *)
Lemma read_header_lines : forall chunk valid st level name id opts line st1,
  read_header chunk valid st = HdrOk level name id opts line st1 ->
  line = st_linenum st /\ st_linenum st1 = (line + 1)%Z.
Proof.
  intros chunk valid st level name id opts line st1 H. apply read_header_ok_inv in H.
  destruct H as (h & s1 & fnl & _ & _ & -> & ->). split; reflexivity.
Qed.

Lemma read_header_parse_line : forall chunk valid st l c,
  read_header chunk valid st = HdrParse l c -> l = st_linenum st.
Proof.
  intros chunk valid st l c H. unfold read_header in H.
  destruct (next_nonblank _ chunk (st_stream st)) as [[[hd|] s1]|e]; try discriminate H.
  destruct (negb (bends _ hd)); [injection H as <- _; reflexivity|].
  destruct (parse_header valid _); [discriminate H|]. injection H as <- _. reflexivity.
Qed.

(* ---- table facts, by computation over the generated lists ---- *)
Lemma in_ids_forallb : forall (f : bytes -> bool) id l, in_ids id l = true -> forallb f l = true -> f id = true.
Proof. intros f id l Hin Hall. apply in_ids_In in Hin. rewrite forallb_forall in Hall. apply Hall. exact Hin. Qed.

Inductive ckind := KPreamble | KMeta | KDiff.

Definition kind_of (id : bytes) : option ckind :=
  if is_preamble id then Some KPreamble
  else if is_meta id then Some KMeta
  else if beq id GenSections.sec_file_diff then Some KDiff
  else None.

Definition is_some_kind (id : bytes) : bool := match kind_of id with Some _ => true | None => false end.

Lemma content_kinds : forallb is_some_kind GenSections.content_sections = true.
Proof. vm_compute. reflexivity. Qed.

Lemma content_kind : forall id, is_content id = true -> exists k, kind_of id = Some k.
Proof.
  intros id H. pose proof (in_ids_forallb is_some_kind id _ H content_kinds) as Hk.
  unfold is_some_kind in Hk. destruct (kind_of id) as [k|]; [exists k; reflexivity|discriminate Hk].
Qed.

Lemma meta_sections_class :
  forallb (fun id => is_content id && negb (is_preamble id)) GenSections.meta_sections = true.
Proof. vm_compute. reflexivity. Qed.

Lemma preamble_sections_class : forallb is_content GenSections.preamble_sections = true.
Proof. vm_compute. reflexivity. Qed.

Lemma meta_kind : forall id, is_meta id = true -> is_content id = true /\ kind_of id = Some KMeta.
Proof.
  intros id H. pose proof (in_ids_forallb _ id _ H meta_sections_class) as Hc. cbv beta in Hc.
  apply andb_true_iff in Hc. destruct Hc as [Hc Hp]. apply negb_true_iff in Hp.
  split; [exact Hc|]. unfold kind_of. rewrite Hp, H. reflexivity.
Qed.

Lemma preamble_kind : forall id, is_preamble id = true -> is_content id = true /\ kind_of id = Some KPreamble.
Proof.
  intros id H. split; [exact (in_ids_forallb _ id _ H preamble_sections_class)|].
  unfold kind_of. rewrite H. reflexivity.
Qed.

Lemma diff_kind : is_content GenSections.sec_file_diff = true /\ kind_of GenSections.sec_file_diff = Some KDiff.
Proof. vm_compute. split; reflexivity. Qed.

Lemma main_not_content : is_content GenSections.sec_main = false.
Proof. vm_compute. reflexivity. Qed.

(* ---- one iteration of iter_sections on a content section ---- *)

(* options.get('encoding', encodings[-1]) *)
Definition eff_encoding (opts : options) (inh : option pv) : option pv :=
  match opt_get "encoding" opts with Some v => Some v | None => inh end.

(* options.get('format', 'json') == 'json' *)
Definition fmt_ok (opts : options) : bool :=
  match opt_get "format" opts with
  | None => true
  | Some (VStr s) => beq s (B "json")
  | Some (VInt _) => false
  end.

(* the call of _read_content each kind of content section makes *)
Definition content_call (k : ckind) (st1 : rstate) (len : Z) (opts : options) (inh : option pv) : content_result :=
  match k with
  | KPreamble => read_content st1 len (eff_encoding opts inh) (opt_get "indent" opts) (opt_get "line_endings" opts) false
  | KMeta => read_content st1 len (eff_encoding opts inh) None (opt_get "line_endings" opts) false
  | KDiff => read_content st1 len (opt_get "encoding" opts) None (opt_get "line_endings" opts) true
  end.

Definition yield (level : nat) (line : Z) (opts : options) (id name : bytes)
           (st2 : rstate) (p : payload) (encs : list (option pv)) (prev : nat) : step_result :=
  match table_get id with
  | None => SExc EKey
  | Some nxt =>
      SYield {| r_level := level; r_line := line; r_opts := opts; r_id := id; r_type := name; r_payload := p |}
             st2 nxt encs prev
  end.

(* the key under which the harness recorded json.loads' answer *)
Definition oracle_key (p : payload) : bytes :=
  match p with PText t => oracle_key_text t | PBytes b => oracle_key_bytes b | _ => [] end.

Definition finish_content (orc : oracle) (k : ckind) (level : nat) (line : Z) (opts : options) (id name : bytes)
           (encs : list (option pv)) (prev : nat) (p : payload) (st2 : rstate) : step_result :=
  match k with
  | KMeta =>
      match assoc_get beq (oracle_key p) orc with
      | None => SExc EOracleMiss
      | Some (LoadsOk j) => yield level line opts id name st2 (PMeta j) encs prev
      | Some LoadsValueError => SParse line None
      | Some LoadsRecursion => SParse line None
      end
  | _ => yield level line opts id name st2 p encs prev
  end.

Lemma iter_step_content : forall orc chunk st valid encs prev level name id opts line st1 k inh len,
  read_header chunk valid st = HdrOk level name id opts line st1 ->
  is_content id = true -> kind_of id = Some k ->
  top encs = Some inh ->
  opt_get "length" opts = Some (VInt len) -> (0 <= len)%Z ->
  (k = KMeta -> fmt_ok opts = true) ->
  iter_step orc chunk st valid encs prev =
  match content_call k st1 len opts inh with
  | COk p st2 => finish_content orc k level line opts id name encs prev p st2
  | CParse l => SParse l None
  | CExc e => SExc e
  end.
Proof.
  intros orc chunk st valid encs prev level name id opts line st1 k inh len Hh Hc Hk Ht Hl Hn Hf.
  unfold iter_step. rewrite Hh. cbv beta zeta. rewrite Hc, Ht, Hl.
  destruct (len <? 0)%Z eqn:E; [lia|]. unfold kind_of in Hk.
  destruct (is_preamble id).
  - injection Hk as <-. reflexivity.
  - destruct (is_meta id).
    + injection Hk as <-. specialize (Hf eq_refl). unfold fmt_ok in Hf. rewrite Hf. cbn [negb].
      cbn [content_call]. unfold eff_encoding.
      destruct (read_content _ _ _ _ _ _) as [p st2| |]; reflexivity.
    + destruct (beq id GenSections.sec_file_diff); [|discriminate Hk].
      injection Hk as <-. reflexivity.
Qed.

(* a yielded record carries exactly the fields of the header that was read *)
Lemma iter_step_yield_record : forall orc chunk st valid encs prev level name id opts line st1 r st' valid' encs' prev',
  read_header chunk valid st = HdrOk level name id opts line st1 ->
  iter_step orc chunk st valid encs prev = SYield r st' valid' encs' prev' ->
  r = {| r_level := level; r_line := line; r_opts := opts; r_id := id; r_type := name; r_payload := r_payload r |}.
Proof.
  intros orc chunk st valid encs prev level name id opts line st1 r st' valid' encs' prev' Hh. unfold iter_step.
  rewrite Hh. cbv beta zeta.
  repeat match goal with
         | |- (match ?x with _ => _ end) = _ -> _ => destruct x eqn:?
         end;
    try discriminate;
    intro H; injection H as <- _ _ _ _; reflexivity.
Qed.

(* ---- _read_content in stages ---- *)

(* the bytes fp.read(length) returns: min(length, sys.maxsize, available) bytes from the current position *)
Definition content_len (st : rstate) (len : Z) : nat :=
  Z.to_nat (Z.min (Z.min len sys_maxsize) (Z.of_nat (List.length (remaining (st_stream st))))).
Definition content_bytes (st : rstate) (len : Z) : bytes := firstn (content_len st len) (remaining (st_stream st)).
Definition stream_after (st : rstate) (len : Z) : stream :=
  {| s_data := s_data (st_stream st); s_pos := s_pos (st_stream st) + List.length (content_bytes st len) |}.

Definition enc_name (encoding : option pv) : option bytes :=
  match encoding with Some (VStr s) => Some s | _ => None end.
Definition indent_bad (indent : option pv) : bool :=
  match indent with None => false | Some (VStr _) => true | Some (VInt z) => (z <? 0)%Z end.

(* the newline the content is split on: the declared one, else detected on the first line *)
Definition nl_res_of (line_endings : option pv) (enc : option bytes) (content : bytes) : res bytes :=
  if pv_truthy line_endings then
    match line_endings with
    | Some (VStr le) => get_newline_for_type le enc
    | _ => Err EValue
    end
  else do p <- guess_line_endings_bytes content enc; Ok (snd p).

(* indentation stripped line by line, before decoding *)
Definition strip_indent (indent : option pv) (content : bytes) (lines : list bytes) : bytes :=
  match indent with
  | Some (VInt z) =>
      if (0 <? z)%Z
      then concat (map (strip_spaces (Z.to_nat (Z.min z (Z.of_nat (List.length content))))) lines)
      else content
  | _ => content
  end.

Definition state_after (st : rstate) (s1 : stream) (nlines : nat) : rstate :=
  {| st_stream := s1; st_linenum := (st_linenum st + Z.of_nat nlines)%Z; st_fnl := st_fnl st |}.

Definition finish (st : rstate) (s1 : stream) (nlines : nat) (p : payload) (ends : bool) : content_result :=
  if ends then COk p (state_after st s1 nlines) else CParse (st_linenum st).

(* decoding and the final "content ends with its newline" check *)
Definition decode_check (st : rstate) (s1 : stream) (nlines : nat) (enc : option bytes) (keep_bytes : bool)
           (newline content1 : bytes) : content_result :=
  match enc, keep_bytes with
  | Some e, false =>
      match py_decode content1 e with
      | Err ex => if caught_as_parse ex then CParse (st_linenum st) else CExc ex
      | Ok t =>
          match py_decode newline e with
          | Err ex => if caught_as_parse ex then CParse (st_linenum st) else CExc ex
          | Ok nlt => finish st s1 nlines (PText t) (suffixb N.eqb nlt t)
          end
      end
  | _, _ => finish st s1 nlines (PBytes content1) (bends newline content1)
  end.

Lemma read_content_eq : forall st len encoding indent line_endings keep,
  read_content st len encoding indent line_endings keep =
  let content := content_bytes st len in
  let ln := st_linenum st in
  if is_nil content then CParse (ln - 1)%Z else
  match encoding with
  | Some (VInt _) => CParse (ln - 1)%Z
  | _ =>
    if indent_bad indent then CParse (ln - 1)%Z else
    match nl_res_of line_endings (enc_name encoding) content with
    | Err e => if caught_as_parse e then CParse ln else CExc e
    | Ok newline =>
        match split_lines content newline true with
        | Err e => CExc e
        | Ok lines =>
            decode_check st (stream_after st len) (List.length lines) (enc_name encoding) keep newline
                         (strip_indent indent content lines)
        end
    end
  end.
Proof. reflexivity. Qed.

(* ================================================================================================= *)
(* Part A: the defect catalogue                                                                       *)
(* ================================================================================================= *)

(* Conventions: the header of the offending section has been read by _read_header,
     read_header chunk valid st = HdrOk level name id opts line st1
   so that (read_header_lines) line = st_linenum st is the header's own line and st_linenum st1 = line + 1.
   For content sections the encoding stack must be non-empty, [top encs = Some inh]; this holds in every state
   the loop can be in (step_inv_top below, with SectionsFacts.reach_inv). *)

Lemma step_inv_top : forall valid encs prev, step_inv valid encs prev -> exists inh, top encs = Some inh.
Proof.
  intros valid encs prev [(_ & -> & _) | (a & _ & _ & Hl)]; [exists None; reflexivity|].
  destruct encs as [|x t]; [cbn in Hl; lia|exists x; reflexivity].
Qed.

(* ---- A.1 unsupported or missing version ---- *)
Definition version_ok (opts : options) : bool :=
  match opt_get "version" opts with
  | Some (VStr v) => in_ids v GenText.versions
  | _ => false
  end.

Lemma version_bad_cases : forall opts,
  version_ok opts = false <->
  (opt_get "version" opts = None \/
   (exists z, opt_get "version" opts = Some (VInt z)) \/
   (exists v, opt_get "version" opts = Some (VStr v) /\ in_ids v GenText.versions = false)).
Proof.
  intros opts. unfold version_ok. destruct (opt_get "version" opts) as [[z|v]|]; split; intro H.
  - right; left; eauto.
  - reflexivity.
  - right; right; eauto.
  - destruct H as [H|[(z & H)|(v' & H & Hv)]]; try discriminate H. injection H as <-. exact Hv.
  - left; reflexivity.
  - reflexivity.
Qed.

Theorem bad_version : forall orc chunk st valid encs prev level name opts line st1,
  read_header chunk valid st = HdrOk level name GenSections.sec_main opts line st1 ->
  version_ok opts = false ->
  iter_step orc chunk st valid encs prev = SParse line None.
Proof.
  intros orc chunk st valid encs prev level name opts line st1 Hh Hv.
  unfold iter_step. rewrite Hh. cbv beta zeta. rewrite main_not_content, beq_refl.
  unfold version_ok in Hv. rewrite Hv. reflexivity.
Qed.

(* ---- A.2 missing length ---- *)
Theorem missing_length : forall orc chunk st valid encs prev level name id opts line st1 inh,
  read_header chunk valid st = HdrOk level name id opts line st1 ->
  is_content id = true -> top encs = Some inh ->
  opt_get "length" opts = None ->
  iter_step orc chunk st valid encs prev = SParse line None.
Proof.
  intros orc chunk st valid encs prev level name id opts line st1 inh Hh Hc Ht Hl.
  unfold iter_step. rewrite Hh. cbv beta zeta. rewrite Hc, Ht, Hl. reflexivity.
Qed.

(* ---- A.3 format other than json (whatever the length option is) ---- *)
Lemma fmt_bad_cases : forall opts,
  fmt_ok opts = false <->
  ((exists s, opt_get "format" opts = Some (VStr s) /\ beq s (B "json") = false) \/
   (exists z, opt_get "format" opts = Some (VInt z))).
Proof.
  intros opts. unfold fmt_ok. destruct (opt_get "format" opts) as [[z|s]|]; split; intro H.
  - right; eauto.
  - reflexivity.
  - left; eauto.
  - destruct H as [(s' & H & Hs)|(z & H)]; [|discriminate H]. injection H as <-. exact Hs.
  - discriminate H.
  - destruct H as [(s' & H & _)|(z & H)]; discriminate H.
Qed.

Theorem format_not_json : forall orc chunk st valid encs prev level name id opts line st1 inh,
  read_header chunk valid st = HdrOk level name id opts line st1 ->
  is_meta id = true -> top encs = Some inh ->
  fmt_ok opts = false ->
  iter_step orc chunk st valid encs prev = SParse line None.
Proof.
  intros orc chunk st valid encs prev level name id opts line st1 inh Hh Hm Ht Hf.
  destruct (meta_kind id Hm) as [Hc Hk]. unfold kind_of in Hk.
  destruct (is_preamble id) eqn:Hp; [discriminate Hk|].
  unfold iter_step. rewrite Hh. cbv beta zeta. rewrite Hc, Ht.
  destruct (opt_get "length" opts) as [[len|s]|]; try reflexivity.
  destruct (len <? 0)%Z; [reflexivity|]. rewrite Hp, Hm.
  unfold fmt_ok in Hf. rewrite Hf. reflexivity.
Qed.

(* ---- lifting an error of _read_content to the iteration ---- *)
Lemma iter_step_content_parse : forall orc chunk st valid encs prev level name id opts line st1 k inh len l,
  read_header chunk valid st = HdrOk level name id opts line st1 ->
  is_content id = true -> kind_of id = Some k ->
  top encs = Some inh ->
  opt_get "length" opts = Some (VInt len) -> (0 <= len)%Z ->
  (k = KMeta -> fmt_ok opts = true) ->
  content_call k st1 len opts inh = CParse l ->
  iter_step orc chunk st valid encs prev = SParse l None.
Proof.
  intros orc chunk st valid encs prev level name id opts line st1 k inh len l Hh Hc Hk Ht Hl Hn Hf Hcc.
  rewrite (iter_step_content _ _ _ _ _ _ _ _ _ _ _ _ _ _ _ Hh Hc Hk Ht Hl Hn Hf), Hcc. reflexivity.
Qed.

(* ---- A.4 unknown line_endings value ---- *)
Definition enc_valid (e : option pv) : Prop := match e with Some (VInt _) => False | _ => True end.
Definition indent_valid (i : option pv) : Prop := indent_bad i = false.
Definition le_unknown (le : option pv) : Prop :=
  match le with
  | Some (VStr s) => s <> [] /\ assoc_get beq s GenText.newline_formats = None
  | Some (VInt z) => z <> 0%Z
  | None => False
  end.

Lemma content_bytes_nonempty : forall st len,
  (0 < len)%Z -> remaining (st_stream st) <> [] -> is_nil (content_bytes st len) = false.
Proof.
  intros st len Hl Hr. unfold content_bytes, content_len.
  destruct (remaining (st_stream st)) as [|x r]; [congruence|]. cbn [List.length].
  set (n := Z.to_nat _). assert (n = S (n - 1)) as -> by (subst n; unfold sys_maxsize; lia). reflexivity.
Qed.

Lemma nl_res_unknown : forall le enc content, le_unknown le -> nl_res_of le enc content = Err EValue.
Proof.
  intros [[z|s]|] enc content H; cbn [le_unknown] in H; [| |contradiction]; unfold nl_res_of; cbn [pv_truthy].
  - destruct (Z.eqb z 0) eqn:E; [lia|]. reflexivity.
  - destruct H as [Hs Hn]. destruct s; [congruence|]. cbn [nonempty].
    unfold get_newline_for_type. rewrite Hn. reflexivity.
Qed.

Lemma read_content_unknown_le : forall st len enc ind le keep,
  (0 < len)%Z -> remaining (st_stream st) <> [] ->
  enc_valid enc -> indent_valid ind -> le_unknown le ->
  read_content st len enc ind le keep = CParse (st_linenum st).
Proof.
  intros st len enc ind le keep Hl Hr He Hi Hle. rewrite read_content_eq. cbv zeta.
  rewrite (content_bytes_nonempty _ _ Hl Hr), Hi, (nl_res_unknown _ _ _ Hle).
  destruct enc as [[z|s]|]; [contradiction| |]; reflexivity.
Qed.

Definition indent_of (k : ckind) (opts : options) : option pv :=
  match k with KPreamble => opt_get "indent" opts | _ => None end.
Definition encoding_of (k : ckind) (opts : options) (inh : option pv) : option pv :=
  match k with KDiff => opt_get "encoding" opts | _ => eff_encoding opts inh end.
Definition keep_of (k : ckind) : bool := match k with KDiff => true | _ => false end.

Lemma content_call_eq : forall k st1 len opts inh,
  content_call k st1 len opts inh =
  read_content st1 len (encoding_of k opts inh) (indent_of k opts) (opt_get "line_endings" opts) (keep_of k).
Proof. intros [| |]; reflexivity. Qed.

Theorem unknown_line_endings : forall orc chunk st valid encs prev level name id opts line st1 k inh len,
  read_header chunk valid st = HdrOk level name id opts line st1 ->
  is_content id = true -> kind_of id = Some k ->
  top encs = Some inh ->
  opt_get "length" opts = Some (VInt len) -> (0 < len)%Z -> remaining (st_stream st1) <> [] ->
  (k = KMeta -> fmt_ok opts = true) ->
  enc_valid (encoding_of k opts inh) -> indent_valid (indent_of k opts) ->
  le_unknown (opt_get "line_endings" opts) ->
  iter_step orc chunk st valid encs prev = SParse (line + 1)%Z None.
Proof.
  intros orc chunk st valid encs prev level name id opts line st1 k inh len Hh Hc Hk Ht Hl Hn Hr Hf He Hi Hle.
  destruct (read_header_lines _ _ _ _ _ _ _ _ _ Hh) as [_ <-].
  eapply iter_step_content_parse; eauto; [lia|].
  rewrite content_call_eq. apply read_content_unknown_le; assumption.
Qed.

(* ---- A.5 content not ending in its newline ---- *)

(* the final check of _read_content, bytes case (diffs; preambles and metadata with no encoding in force) *)
Theorem no_final_newline_bytes : forall st len enc ind le keep newline lines,
  is_nil (content_bytes st len) = false -> enc_valid enc -> indent_valid ind ->
  nl_res_of le (enc_name enc) (content_bytes st len) = Ok newline ->
  split_lines (content_bytes st len) newline true = Ok lines ->
  enc_name enc = None \/ keep = true ->
  bends newline (strip_indent ind (content_bytes st len) lines) = false ->
  read_content st len enc ind le keep = CParse (st_linenum st).
Proof.
  intros st len enc ind le keep newline lines Hc He Hi Hnl Hsl Hk Hends. rewrite read_content_eq. cbv zeta.
  rewrite Hc, Hi, Hnl, Hsl. unfold decode_check, finish.
  destruct enc as [[z|s]|]; [contradiction| |].
  - destruct Hk as [Hk| ->]; [discriminate Hk|]. cbn [enc_name]. rewrite Hends. reflexivity.
  - cbn [enc_name]. rewrite Hends. reflexivity.
Qed.

(* ... text case: content and newline are decoded first, and the decoded content must end with the decoded newline *)
Theorem no_final_newline_text : forall st len e ind le newline lines t nlt,
  is_nil (content_bytes st len) = false -> indent_valid ind ->
  nl_res_of le (Some e) (content_bytes st len) = Ok newline ->
  split_lines (content_bytes st len) newline true = Ok lines ->
  py_decode (strip_indent ind (content_bytes st len) lines) e = Ok t ->
  py_decode newline e = Ok nlt ->
  suffixb N.eqb nlt t = false ->
  read_content st len (Some (VStr e)) ind le false = CParse (st_linenum st).
Proof.
  intros st len e ind le newline lines t nlt Hc Hi Hnl Hsl Hd1 Hd2 Hends. rewrite read_content_eq. cbv zeta.
  cbn [enc_name]. rewrite Hc, Hi, Hnl, Hsl. unfold decode_check, finish. rewrite Hd1, Hd2, Hends. reflexivity.
Qed.

(* lifted to the iteration: the error is on the line after the header *)
Theorem no_final_newline_step : forall orc chunk st valid encs prev level name id opts line st1 k inh len,
  read_header chunk valid st = HdrOk level name id opts line st1 ->
  is_content id = true -> kind_of id = Some k ->
  top encs = Some inh ->
  opt_get "length" opts = Some (VInt len) -> (0 <= len)%Z ->
  (k = KMeta -> fmt_ok opts = true) ->
  content_call k st1 len opts inh = CParse (st_linenum st1) ->
  iter_step orc chunk st valid encs prev = SParse (line + 1)%Z None.
Proof.
  intros orc chunk st valid encs prev level name id opts line st1 k inh len Hh Hc Hk Ht Hl Hn Hf Hcc.
  destruct (read_header_lines _ _ _ _ _ _ _ _ _ Hh) as [_ <-].
  eapply iter_step_content_parse; eauto.
Qed.

(* ---- A.6 invalid JSON ---- *)
Theorem invalid_json : forall orc chunk st valid encs prev level name id opts line st1 inh len p st2 a,
  read_header chunk valid st = HdrOk level name id opts line st1 ->
  is_meta id = true -> top encs = Some inh ->
  opt_get "length" opts = Some (VInt len) -> (0 <= len)%Z -> fmt_ok opts = true ->
  content_call KMeta st1 len opts inh = COk p st2 ->
  assoc_get beq (oracle_key p) orc = Some a -> a = LoadsValueError \/ a = LoadsRecursion ->
  iter_step orc chunk st valid encs prev = SParse line None.
Proof.
  intros orc chunk st valid encs prev level name id opts line st1 inh len p st2 a Hh Hm Ht Hl Hn Hf Hcc Ha Hbad.
  destruct (meta_kind id Hm) as [Hc Hk].
  rewrite (iter_step_content _ _ _ _ _ _ _ _ _ _ _ _ _ _ _ Hh Hc Hk Ht Hl Hn (fun _ => Hf)), Hcc.
  cbn [finish_content]. rewrite Ha. destruct Hbad as [-> | ->]; reflexivity.
Qed.
