(* SpecReaderText.v — for the codecs whose LF is one byte and which are ASCII-transparent (ascii, latin-1, utf-8,
   utf-8-sig: the "aligned" codecs), the BYTE-level clauses of SpecReader.wf_file for text sections
       lines_clean   the encoded newline occurs once per encoded line, at its end
       le_ok         line_endings names the kind, or first-line detection ON THE RENDERED BYTES finds it
       the byte-order-mark look-alike clause
   are equivalent to conditions on the TEXT (code points):
       no line contains the newline text (unix: no LF; dos: no CR LF)
       line_endings names the kind, or the first LF of the text is / is not preceded by CR
       the text does not begin with U+FEFF (only relevant for utf-8-sig written without its mark).
   [wf_file_text] is [wf_file] with these replacements and the requirement that every text section's effective
   encoding is aligned; [wf_file_text f = true <-> aligned_file f = true /\ wf_file f = true].
   Proof file: nothing of the model or of the spec layer is changed here. *)
From Coq Require Import List Arith NArith ZArith Bool Strings.Byte Lia ZifyBool.
From Coq Require Strings.String.
From DX Require Import Bytes Res Codec Text Sections Header Json Reader SectionsSpec SpecReader.
From DX Require Import TextFacts RoundTripCodec RoundTripCodecInst RoundTripCodecUtf.
From DX Require HeaderFacts RoundTripGuess RoundTripStep SpecReaderFacts SpecReaderExamples.
From DXGen Require GenText GenCodecs.
Import ListNotations.
Import String.StringSyntax.
Local Open Scope string_scope.
Local Open Scope list_scope.

(* ================================================================================================ *)
(** * 1. The ending of the first line, on any alphabet *)

Section FirstEnding.
  Context {A : Type} (eqb : A -> A -> bool).
  Hypothesis eqb_spec : forall a b, eqb a b = true <-> a = b.
  Variables (cr lf : A).

  (* scan to the first LF: dos iff the element just before it is CR; unix if there is no LF *)
  Fixpoint first_ending (prev_cr : bool) (l : list A) : le_kind :=
    match l with
    | [] => LUnix
    | a :: r => if eqb lf a then (if prev_cr then LDos else LUnix) else first_ending (eqb cr a) r
    end.

  (* the same, the way SpecReader.detect_kind and pydiffx say it: find the first LF, test whether CR LF ends there *)
  Definition detect_g (l : list A) : le_kind :=
    match find eqb [lf] l with
    | Some i => if suffixb eqb [cr; lf] (firstn (i + 1) l) then LDos else LUnix
    | None => LUnix
    end.

  Lemma suffixb_snoc1 : forall a acc y, suffixb eqb [a] (acc ++ [y]) = eqb a y.
  Proof.
    intros a acc y. unfold suffixb. rewrite !frev_rev, rev_unit. cbn. apply andb_true_r.
  Qed.

  Lemma suffixb_snoc2 : forall a b acc, suffixb eqb [a; b] (acc ++ [b]) = suffixb eqb [a] acc.
  Proof.
    intros a b acc. unfold suffixb. rewrite !frev_rev, rev_unit. cbn [rev app prefixb].
    rewrite (eqb_refl eqb eqb_spec). reflexivity.
  Qed.

  Lemma detect_first_ending_aux : forall l acc p, suffixb eqb [cr] acc = p ->
    match find eqb [lf] l with
    | Some i => if suffixb eqb [cr; lf] (acc ++ firstn (i + 1) l) then LDos else LUnix
    | None => LUnix
    end = first_ending p l.
  Proof.
    induction l as [|y r IH]; intros acc p Hp; [reflexivity|].
    cbn [first_ending]. destruct (eqb lf y) eqn:E.
    - apply eqb_spec in E. subst y.
      rewrite (RoundTripGuess.find_here eqb [lf] (lf :: r))
        by (rewrite RoundTripGuess.prefixb_one; apply (eqb_refl eqb eqb_spec)).
      cbn [Nat.add firstn]. rewrite suffixb_snoc2, Hp. reflexivity.
    - rewrite (RoundTripGuess.find_cons eqb eqb_spec) by (rewrite RoundTripGuess.prefixb_one; exact E).
      specialize (IH (acc ++ [y]) (eqb cr y) (suffixb_snoc1 cr acc y)).
      destruct (find eqb [lf] r) as [i|]; cbn [option_map]; [|exact IH].
      cbn [Nat.add firstn]. rewrite <- app_assoc in IH. exact IH.
  Qed.

  Theorem detect_first_ending : forall l, detect_g l = first_ending false l.
  Proof. intros l. apply (detect_first_ending_aux l [] false). reflexivity. Qed.

  (* elements that are neither CR nor LF are skipped *)
  Lemma first_ending_skip : forall x l p, ~ In lf x -> ~ In cr x ->
    first_ending p (x ++ l) = first_ending (match x with [] => p | _ => false end) l.
  Proof.
    induction x as [|y x IH]; intros l p Hl Hc; [reflexivity|].
    cbn [app first_ending].
    assert (E1 : eqb lf y = false).
    { destruct (eqb lf y) eqn:E; [|reflexivity]. apply eqb_spec in E. subst y. exfalso. apply Hl. left. reflexivity. }
    assert (E2 : eqb cr y = false).
    { destruct (eqb cr y) eqn:E; [|reflexivity]. apply eqb_spec in E. subst y. exfalso. apply Hc. left. reflexivity. }
    rewrite E1, E2, IH by (intros Hi; (apply Hl + apply Hc); right; exact Hi).
    destruct x; reflexivity.
  Qed.

  (* nothing after the first LF matters *)
  Lemma first_ending_app : forall a b p, In lf a -> first_ending p (a ++ b) = first_ending p a.
  Proof.
    induction a as [|y a IH]; intros b p Hin; [destruct Hin|].
    cbn [app first_ending]. destruct (eqb lf y) eqn:E; [reflexivity|].
    apply IH. destruct Hin as [->|Hin]; [|exact Hin].
    rewrite (eqb_refl eqb eqb_spec) in E. discriminate E.
  Qed.
End FirstEnding.

(* ================================================================================================ *)
(** * 2. Text-level conditions *)

Definition cp_lf : N := 10%N.
Definition cp_cr : N := 13%N.
Definition cp_feff : N := 0xFEFF%N.

Definition has_lf (l : text) : bool := mem N.eqb cp_lf l.
(* some CR is immediately followed by LF *)
Fixpoint has_crlf (l : text) : bool :=
  match l with
  | [] => false
  | a :: r => (N.eqb cp_cr a && match r with b :: _ => N.eqb cp_lf b | [] => false end) || has_crlf r
  end.

(* the newline text of the kind does not occur inside the line *)
Definition line_clean_text (k : le_kind) (l : text) : bool :=
  match k with LUnix => negb (has_lf l) | LDos => negb (has_crlf l) end.

(* line-ending detection on the text: the first LF, preceded by CR or not *)
Definition detect_kind_text (t : text) : le_kind := first_ending N.eqb cp_cr cp_lf false t.

Definition le_ok_text (ps : list (bytes * bytes)) (k : le_kind) (jt : text) : bool :=
  match opt "line_endings" ps with
  | Some v => beq v (le_name k)
  | None => le_kind_eqb (detect_kind_text jt) k
  end.

Definition starts_feff (t : text) : bool := match t with c :: _ => N.eqb c cp_feff | [] => false end.

(* [detect_kind_text] is pydiffx's guess_line_endings on str *)
Lemma detect_kind_text_guess : forall t,
  fst (guess_line_endings_text t) = le_name (detect_kind_text t).
Proof.
  intros t. unfold detect_kind_text. rewrite <- (detect_first_ending N.eqb N_eqb_spec).
  unfold guess_line_endings_text, detect_g.
  change (nl_text GenText.le_unix) with [cp_lf]. change (nl_text GenText.le_dos) with [cp_cr; cp_lf].
  destruct (find N.eqb [cp_lf] t) as [i|]; [|reflexivity].
  cbn [List.length]. destruct (suffixb N.eqb [cp_cr; cp_lf] (firstn (i + 1) t)); reflexivity.
Qed.

(* occurrences of the newline texts *)
Lemma occ_lf_zero : forall l, occurrences N.eqb [cp_lf] l = 0 <-> has_lf l = false.
Proof.
  induction l as [|a r IH]; [split; reflexivity|].
  cbn [occurrences]. rewrite RoundTripGuess.prefixb_one. unfold has_lf in *. cbn [mem].
  destruct (N.eqb cp_lf a); cbn [orb]; [split; discriminate|]. exact IH.
Qed.

Lemma prefixb_crlf : forall a r,
  prefixb N.eqb [cp_cr; cp_lf] (a :: r) = N.eqb cp_cr a && match r with b :: _ => N.eqb cp_lf b | [] => false end.
Proof. intros a [|b r]; cbn; [reflexivity | rewrite andb_true_r; reflexivity]. Qed.

Lemma occ_crlf_zero : forall l, occurrences N.eqb [cp_cr; cp_lf] l = 0 <-> has_crlf l = false.
Proof.
  induction l as [|a r IH]; [split; reflexivity|].
  cbn [occurrences has_crlf]. rewrite prefixb_crlf.
  destruct (N.eqb cp_cr a && match r with b :: _ => N.eqb cp_lf b | [] => false end); cbn [orb]; [split; discriminate|].
  exact IH.
Qed.

Lemma occ_lf_snoc : forall l, occurrences N.eqb [cp_lf] (l ++ [cp_lf]) = S (occurrences N.eqb [cp_lf] l).
Proof.
  induction l as [|a r IH]; [reflexivity|]. cbn [app occurrences]. rewrite !RoundTripGuess.prefixb_one, IH. lia.
Qed.

Lemma occ_crlf_snoc : forall l,
  occurrences N.eqb [cp_cr; cp_lf] (l ++ [cp_cr; cp_lf]) = S (occurrences N.eqb [cp_cr; cp_lf] l).
Proof.
  induction l as [|a r IH]; [reflexivity|]. cbn [app occurrences]. rewrite !prefixb_crlf, IH.
  destruct r as [|b r]; [|cbn [app]; lia].
  cbn [app]. replace (N.eqb cp_lf cp_cr) with false by reflexivity. rewrite andb_false_r. lia.
Qed.

(* [lines_clean], on the text *)
Lemma line_clean_text_occ : forall k l,
  Nat.eqb (occurrences N.eqb (le_text k) (l ++ le_text k)) 1 = line_clean_text k l.
Proof.
  intros [|] l; cbn [le_text line_clean_text].
  - change [10%N] with [cp_lf]. rewrite occ_lf_snoc.
    destruct (has_lf l) eqn:E; cbn [negb].
    + destruct (occurrences N.eqb [cp_lf] l) eqn:Eo; [apply occ_lf_zero in Eo; congruence | reflexivity].
    + apply occ_lf_zero in E. rewrite E. reflexivity.
  - change [13%N; 10%N] with [cp_cr; cp_lf]. rewrite occ_crlf_snoc.
    destruct (has_crlf l) eqn:E; cbn [negb].
    + destruct (occurrences N.eqb [cp_cr; cp_lf] l) eqn:Eo; [apply occ_crlf_zero in Eo; congruence | reflexivity].
    + apply occ_crlf_zero in E. rewrite E. reflexivity.
Qed.

(* ================================================================================================ *)
(** * 3. Code-point codecs that are transparent for CR and LF *)

Section Transparent.
  Variable f : N -> option bytes.

  (* c is written as the single byte z, and z occurs in the encoding of no other code point *)
  Definition tr (c : N) (z : byte) : Prop :=
    f c = Some [z] /\ forall c' x, f c' = Some x -> In z x -> c' = c.

  Hypothesis f_nonempty : forall c x, f c = Some x -> x <> [].

  Lemma enc_all_cons : forall c r b, enc_all f (c :: r) = Some b ->
    exists x b', f c = Some x /\ enc_all f r = Some b' /\ b = x ++ b'.
  Proof.
    intros c r b H. cbn [enc_all] in H. destruct (f c) as [x|]; [|discriminate H].
    destruct (enc_all f r) as [b'|]; [|discriminate H]. injection H as <-. exists x, b'. auto.
  Qed.

  Lemma prefix_enc : forall pat patb, Forall2 tr pat patb -> forall t b, enc_all f t = Some b ->
    prefixb byte_eqb patb b = prefixb N.eqb pat t.
  Proof.
    induction 1 as [|c z pat patb [Hc Honly] _ IH]; intros t b Hb; [reflexivity|].
    destruct t as [|c' r].
    - cbn in Hb. injection Hb as <-. reflexivity.
    - destruct (enc_all_cons c' r b Hb) as (x & b' & Hx & Hr & ->).
      destruct (N.eqb c c') eqn:E.
      + apply N.eqb_eq in E. subst c'. rewrite Hc in Hx. injection Hx as <-.
        cbn [app prefixb]. rewrite N.eqb_refl, (eqb_refl byte_eqb byte_eqb_spec). cbn [andb]. exact (IH r b' Hr).
      + destruct x as [|y x']; [exfalso; exact (f_nonempty c' [] Hx eq_refl)|].
        cbn [app prefixb]. rewrite E.
        destruct (byte_eqb z y) eqn:Ez; [|reflexivity].
        apply byte_eqb_spec in Ez. subst y. rewrite (Honly c' _ Hx (or_introl eq_refl)), N.eqb_refl in E. discriminate E.
  Qed.

  Lemma occ_skip : forall z patb pre b, ~ In z pre ->
    occurrences byte_eqb (z :: patb) (pre ++ b) = occurrences byte_eqb (z :: patb) b.
  Proof.
    intros z patb pre b. induction pre as [|y pre IH]; intros H; [reflexivity|].
    cbn [app occurrences prefixb].
    destruct (byte_eqb z y) eqn:E; [apply byte_eqb_spec in E; subst y; exfalso; apply H; left; reflexivity|].
    cbn [andb]. rewrite IH; [reflexivity|]. intros Hi. apply H. right. exact Hi.
  Qed.

  Lemma occ_enc0 : forall c z pat patb, tr c z -> Forall2 tr pat patb -> forall t b, enc_all f t = Some b ->
    occurrences byte_eqb (z :: patb) b = occurrences N.eqb (c :: pat) t.
  Proof.
    intros c z pat patb Hcz Hp. pose proof (Forall2_cons c z Hcz Hp) as HP. destruct Hcz as [Hc Honly].
    induction t as [|c' r IH]; intros b Hb.
    - cbn in Hb. injection Hb as <-. reflexivity.
    - pose proof (prefix_enc _ _ HP _ _ Hb) as Hpre.
      destruct (enc_all_cons c' r b Hb) as (x & b' & Hx & Hr & ->).
      destruct x as [|y x']; [exfalso; exact (f_nonempty c' [] Hx eq_refl)|].
      change (occurrences byte_eqb (z :: patb) ((y :: x') ++ b'))
        with ((if prefixb byte_eqb (z :: patb) ((y :: x') ++ b') then 1 else 0)
              + occurrences byte_eqb (z :: patb) (x' ++ b')).
      rewrite Hpre. cbn [occurrences]. f_equal.
      rewrite occ_skip; [exact (IH b' Hr)|].
      intros Hi. assert (c' = c) by (apply (Honly c' _ Hx); right; exact Hi). subst c'.
      rewrite Hc in Hx. injection Hx as _ <-. destruct Hi.
  Qed.

  Lemma occ_enc : forall c z pat patb pre, tr c z -> Forall2 tr pat patb -> ~ In z pre ->
    forall t b, enc_all f t = Some b ->
    occurrences byte_eqb (z :: patb) (pre ++ b) = occurrences N.eqb (c :: pat) t.
  Proof. intros c z pat patb pre Hcz Hp Hpre t b Hb. rewrite occ_skip by exact Hpre. eapply occ_enc0; eassumption. Qed.

  (* first-line detection on the encoded bytes is detection on the text *)
  Lemma first_ending_enc : forall cr lf zc zl, tr cr zc -> tr lf zl ->
    forall t b rest p, enc_all f t = Some b -> In lf t ->
    first_ending byte_eqb zc zl p (b ++ rest) = first_ending N.eqb cr lf p t.
  Proof.
    intros cr lf zc zl [Hc Hconly] [Hl Hlonly]. induction t as [|c r IH]; intros b rest p Hb Hin; [destruct Hin|].
    destruct (enc_all_cons c r b Hb) as (x & b' & Hx & Hr & ->).
    cbn [first_ending]. destruct (N.eqb lf c) eqn:El.
    - apply N.eqb_eq in El. subst c. rewrite Hl in Hx. injection Hx as <-.
      cbn [app first_ending]. rewrite (eqb_refl byte_eqb byte_eqb_spec). reflexivity.
    - assert (Hin' : In lf r).
      { destruct Hin as [<-|Hin]; [rewrite N.eqb_refl in El; discriminate El | exact Hin]. }
      destruct (N.eqb cr c) eqn:Ec.
      + apply N.eqb_eq in Ec. subst c. rewrite Hc in Hx. injection Hx as <-.
        cbn [app first_ending]. rewrite (eqb_refl byte_eqb byte_eqb_spec).
        destruct (byte_eqb zl zc) eqn:E.
        * apply byte_eqb_spec in E. subst zl.
          rewrite (Hlonly cr [zc] Hc (or_introl eq_refl)), N.eqb_refl in El. discriminate El.
        * exact (IH b' rest true Hr Hin').
      + rewrite <- app_assoc. rewrite first_ending_skip.
        * destruct x as [|y x']; [exfalso; exact (f_nonempty c [] Hx eq_refl)|]. exact (IH b' rest false Hr Hin').
        * exact byte_eqb_spec.
        * intros Hi. rewrite (Hlonly c x Hx Hi), N.eqb_refl in El. discriminate El.
        * intros Hi. rewrite (Hconly c x Hx Hi), N.eqb_refl in Ec. discriminate Ec.
  Qed.

  Lemma enc_all_in : forall (P : byte -> Prop), (forall c x z, f c = Some x -> In z x -> P z) ->
    forall t b z, enc_all f t = Some b -> In z b -> P z.
  Proof.
    intros P HP. induction t as [|c r IH]; intros b z Hb Hi.
    - cbn in Hb. injection Hb as <-. destruct Hi.
    - destruct (enc_all_cons c r b Hb) as (x & b' & Hx & Hr & ->).
      apply in_app_or in Hi. destruct Hi as [Hi|Hi]; [exact (HP c x z Hx Hi) | exact (IH b' z Hr Hi)].
  Qed.
End Transparent.

(* ================================================================================================ *)
(** * 4. The four aligned codecs *)

Local Open Scope N_scope.
Ltac Zify.zify_post_hook ::= Z.to_euclidean_division_equations.

Lemma n_byte_byte_n : forall z, n_byte (byte_n z) = z.
Proof. intros z. unfold n_byte, byte_n. rewrite Byte.of_to_N. reflexivity. Qed.

Lemma byte_n_lt : forall z, byte_n z < 256.
Proof. intros z. unfold byte_n. pose proof (Byte.to_N_bounded z). lia. Qed.

Lemma n_byte_inj : forall u v, u < 256 -> v < 256 -> n_byte u = n_byte v -> u = v.
Proof. intros u v Hu Hv H. apply (f_equal byte_n) in H. rewrite !byte_n_n_byte in H by assumption. exact H. Qed.

Lemma byte_eqb_n_byte : forall z v, v < 256 -> byte_eqb z (n_byte v) = (byte_n z =? v).
Proof.
  intros z v Hv. destruct (byte_n z =? v) eqn:E.
  - apply N.eqb_eq in E. subst v. rewrite n_byte_byte_n. apply (eqb_refl byte_eqb byte_eqb_spec).
  - destruct (byte_eqb z (n_byte v)) eqn:E2; [|reflexivity].
    apply byte_eqb_spec in E2. subst z. rewrite byte_n_n_byte in E by exact Hv. rewrite N.eqb_refl in E. discriminate E.
Qed.

(* ascii / latin-1 *)
Lemma enc1_nonempty : forall limit c x, enc1 limit c = Some x -> x <> [].
Proof. intros limit c x H. unfold enc1 in H. destruct (c <? limit); [|discriminate H]. injection H as <-. discriminate. Qed.

Lemma enc1_tr : forall limit c, 128 <= limit -> limit <= 256 -> c < 128 -> tr (enc1 limit) c (n_byte c).
Proof.
  intros limit c Hlo Hhi Hc. split.
  - unfold enc1. destruct (c <? limit) eqn:E; [reflexivity | lia].
  - intros c' x H Hi. unfold enc1 in H. destruct (c' <? limit) eqn:E; [|discriminate H]. injection H as <-.
    destruct Hi as [Hi|[]]. apply n_byte_inj in Hi; lia.
Qed.

(* utf-8 *)
Lemma u8_nonempty : forall c x, u8_enc_cp c = Some x -> x <> [].
Proof.
  intros c x H. unfold u8_enc_cp in H.
  repeat match type of H with
         | (if ?b then _ else _) = _ => destruct b
         end; try discriminate H; apply some_inj in H; subst x; discriminate.
Qed.

Lemma u8_tr : forall c, c < 128 -> tr u8_enc_cp c (n_byte c).
Proof.
  intros c Hc. split.
  - unfold u8_enc_cp. destruct (c <? 0x80) eqn:E; [reflexivity | lia].
  - intros c' x H Hi. unfold u8_enc_cp in H.
    assert (K : forall v, v < 256 -> n_byte v = n_byte c -> v = c) by (intros v Hv E; apply n_byte_inj in E; lia).
    destruct (c' <? 0x80) eqn:E1.
    { apply some_inj in H; subst x. destruct Hi as [Hi|[]]. apply K in Hi; lia. }
    destruct (c' <? 0x800) eqn:E2.
    { apply some_inj in H; subst x. cbn [In] in Hi. destruct Hi as [Hi|[Hi|[]]]; apply K in Hi; lia. }
    destruct (c' <? 0x10000) eqn:E3.
    { destruct (is_surrogate c'); [discriminate|]. apply some_inj in H; subst x. cbn [In] in Hi.
      destruct Hi as [Hi|[Hi|[Hi|[]]]]; apply K in Hi; lia. }
    destruct (c' <=? 0x10FFFF) eqn:E4; [|discriminate].
    apply some_inj in H; subst x. cbn [In] in Hi. destruct Hi as [Hi|[Hi|[Hi|[Hi|[]]]]]; apply K in Hi; lia.
Qed.

(* no byte of a UTF-8 sequence is above F4 *)
Lemma u8_bytes_le : forall c x z, u8_enc_cp c = Some x -> In z x -> byte_n z <= 0xF4.
Proof.
  intros c x z H Hi. unfold u8_enc_cp in H.
  assert (K : forall v, v <= 0xF4 -> n_byte v = z -> byte_n z <= 0xF4)
    by (intros v Hv <-; rewrite byte_n_n_byte; lia).
  destruct (c <? 0x80) eqn:E1.
  { apply some_inj in H; subst x. destruct Hi as [Hi|[]]. apply K in Hi; lia. }
  destruct (c <? 0x800) eqn:E2.
  { apply some_inj in H; subst x. cbn [In] in Hi. destruct Hi as [Hi|[Hi|[]]]; apply K in Hi; lia. }
  destruct (c <? 0x10000) eqn:E3.
  { destruct (is_surrogate c); [discriminate|]. apply some_inj in H; subst x. cbn [In] in Hi.
    destruct Hi as [Hi|[Hi|[Hi|[]]]]; apply K in Hi; lia. }
  destruct (c <=? 0x10FFFF) eqn:E4; [|discriminate].
  apply some_inj in H; subst x. cbn [In] in Hi. destruct Hi as [Hi|[Hi|[Hi|[Hi|[]]]]]; apply K in Hi; lia.
Qed.

(* the only byte order mark a UTF-8 text can begin with is EF BB BF, the encoding of U+FEFF *)
Lemma boms_shape : forallb (fun m => beq m bom8 || mem byte_eqb xfe m) all_boms = true.
Proof. vm_compute. reflexivity. Qed.

Lemma bom8_in : In bom8 all_boms.
Proof. apply (HeaderFacts.in_ids_In bom8 all_boms). vm_compute. reflexivity. Qed.

Lemma u8_starts_with_bom : forall t b, enc_all u8_enc_cp t = Some b -> starts_with_bom b = bstarts bom8 b.
Proof.
  intros t b Hb. destruct (bstarts bom8 b) eqn:E.
  - unfold starts_with_bom. apply existsb_exists. exists bom8. split; [exact bom8_in | exact E].
  - unfold starts_with_bom. destruct (existsb (fun m => bstarts m b) all_boms) eqn:Ex; [|reflexivity].
    apply existsb_exists in Ex. destruct Ex as (m & Hm & Hs).
    pose proof boms_shape as Hsh. rewrite forallb_forall in Hsh. specialize (Hsh m Hm).
    apply orb_true_iff in Hsh. destruct Hsh as [Hsh|Hsh].
    + apply beq_eq in Hsh. subst m. congruence.
    + apply bstarts_spec in Hs. destruct Hs as [r ->].
      assert (Hfe : In xfe (m ++ r)).
      { apply in_or_app. left. clear -Hsh. induction m as [|y m IH]; [discriminate Hsh|].
        cbn [mem] in Hsh. apply orb_true_iff in Hsh. destruct Hsh as [Hy|Hy];
          [left; symmetry; apply byte_eqb_spec; exact Hy | right; exact (IH Hy)]. }
      pose proof (enc_all_in u8_enc_cp (fun z => byte_n z <= 0xF4) u8_bytes_le t _ xfe Hb Hfe) as Hle.
      vm_compute in Hle. exfalso. apply Hle. reflexivity.
Qed.

Lemma u8_bom8_feff : forall t b, enc_all u8_enc_cp t = Some b -> bstarts bom8 b = starts_feff t.
Proof.
  intros [|c r] b Hb.
  - cbn in Hb. injection Hb as <-. reflexivity.
  - destruct (enc_all_cons u8_enc_cp c r b Hb) as (x & b' & Hx & _ & ->).
    cbn [starts_feff]. unfold cp_feff, bom8, bstarts. unfold u8_enc_cp in Hx.
    destruct (c <? 0x80) eqn:E1.
    { apply some_inj in Hx; subst x. cbn [app prefixb]. rewrite byte_eqb_n_byte by lia.
      change (byte_n xef) with 239. destruct (239 =? c) eqn:E; [lia|]. cbn [andb]. lia. }
    destruct (c <? 0x800) eqn:E2.
    { apply some_inj in Hx; subst x. cbn [app prefixb]. rewrite byte_eqb_n_byte by lia.
      change (byte_n xef) with 239. destruct (239 =? 0xC0 + c / 64) eqn:E; [lia|]. cbn [andb]. lia. }
    destruct (c <? 0x10000) eqn:E3.
    { destruct (is_surrogate c); [discriminate|]. apply some_inj in Hx; subst x. cbn [app prefixb].
      rewrite !byte_eqb_n_byte by lia.
      change (byte_n xef) with 239. change (byte_n xbb) with 187. change (byte_n xbf) with 191.
      destruct (239 =? 0xE0 + c / 4096) eqn:Ea; destruct (187 =? 0x80 + (c / 64) mod 64) eqn:Eb;
        destruct (191 =? 0x80 + c mod 64) eqn:Ec; cbn [andb]; lia. }
    destruct (c <=? 0x10FFFF) eqn:E4; [|discriminate].
    apply some_inj in Hx; subst x. cbn [app prefixb]. rewrite byte_eqb_n_byte by lia.
    change (byte_n xef) with 239. destruct (239 =? 0xF0 + c / 262144) eqn:E; [lia|]. cbn [andb]. lia.
Qed.

Local Close Scope N_scope.

(* what the proofs below use of an aligned codec: its mark-free encoder is a code-point encoder [f], transparent
   for CR and LF; its byte order mark contains neither; and either it writes no mark or (utf-8-sig) a text reads as
   beginning with a mark exactly when it begins with U+FEFF *)
Record acodec (c : codec) (f : N -> option bytes) : Prop := {
  ac_enc : forall t, enc_nobom c t = enc_all f t;
  ac_nonempty : forall n x, f n = Some x -> x <> [];
  ac_lf : tr f cp_lf x0a;
  ac_cr : tr f cp_cr x0d;
  ac_bom_lf : ~ In x0a (enc_bom c);
  ac_bom_cr : ~ In x0d (enc_bom c);
  ac_mark : enc_bom c = [] \/ forall t b, enc_all f t = Some b -> starts_with_bom b = starts_feff t }.

Lemma enc_nobom_plain : forall c f, (forall t, c_enc c t = enc_all f t) -> forall t, enc_nobom c t = enc_all f t.
Proof.
  intros c f H t. unfold enc_nobom, enc_bom. rewrite !H. cbn [enc_all List.length skipn].
  destruct (enc_all f t); reflexivity.
Qed.

Lemma acodec_ascii : acodec ascii (enc1 128).
Proof.
  constructor.
  - apply enc_nobom_plain. reflexivity.
  - apply enc1_nonempty.
  - apply (enc1_tr 128 10); lia.
  - apply (enc1_tr 128 13); lia.
  - intros [].
  - intros [].
  - left. reflexivity.
Qed.

Lemma acodec_latin1 : acodec latin1 (enc1 256).
Proof.
  constructor.
  - apply enc_nobom_plain. reflexivity.
  - apply enc1_nonempty.
  - apply (enc1_tr 256 10); lia.
  - apply (enc1_tr 256 13); lia.
  - intros [].
  - intros [].
  - left. reflexivity.
Qed.

Lemma acodec_utf8 : acodec utf8 u8_enc_cp.
Proof.
  constructor.
  - apply enc_nobom_plain. reflexivity.
  - apply u8_nonempty.
  - apply (u8_tr 10). lia.
  - apply (u8_tr 13). lia.
  - intros [].
  - intros [].
  - left. reflexivity.
Qed.

Lemma acodec_utf8sig : acodec utf8sig u8_enc_cp.
Proof.
  constructor.
  - intros t. unfold enc_nobom, enc_bom. cbn [c_enc utf8sig]. unfold u8_enc.
    destruct (enc_all u8_enc_cp t); reflexivity.
  - apply u8_nonempty.
  - apply (u8_tr 10). lia.
  - apply (u8_tr 13). lia.
  - cbv. intuition discriminate.
  - cbv. intuition discriminate.
  - right. intros t b Hb. rewrite (u8_starts_with_bom t b Hb). exact (u8_bom8_feff t b Hb).
Qed.

(* the spellings that resolve to an aligned codec *)
Definition aligned_names : list bytes := [B "ascii"; B "iso8859-1"; B "utf-8"; B "utf-8-sig"].
Definition aligned_enc (eb : bytes) : bool :=
  match lookup_codec eb with
  | LOk canon _ => mem beq canon aligned_names
  | _ => false
  end.

Lemma aligned_acodec : forall eb c, aligned_enc eb = true -> codec_of eb = Some c -> exists f, acodec c f.
Proof.
  intros eb c Ha Hc. unfold aligned_enc in Ha. unfold codec_of in Hc.
  destruct (lookup_codec eb) as [canon c'| |] eqn:E; try discriminate Hc. injection Hc as ->.
  pose proof (lookup_modelled eb canon c E) as Hm.
  unfold aligned_names in Ha. cbn [mem] in Ha.
  repeat (apply orb_true_iff in Ha; destruct Ha as [Ha|Ha]); try discriminate Ha;
    apply beq_eq in Ha; subst canon.
  - assert (Em : assoc_get beq (B "ascii") modelled = Some ascii) by reflexivity.
    rewrite Em in Hm. apply some_inj in Hm. subst c. exists (enc1 128). exact acodec_ascii.
  - assert (Em : assoc_get beq (B "iso8859-1") modelled = Some latin1) by reflexivity.
    rewrite Em in Hm. apply some_inj in Hm. subst c. exists (enc1 256). exact acodec_latin1.
  - assert (Em : assoc_get beq (B "utf-8") modelled = Some utf8) by reflexivity.
    rewrite Em in Hm. apply some_inj in Hm. subst c. exists u8_enc_cp. exact acodec_utf8.
  - assert (Em : assoc_get beq (B "utf-8-sig") modelled = Some utf8sig) by reflexivity.
    rewrite Em in Hm. apply some_inj in Hm. subst c. exists u8_enc_cp. exact acodec_utf8sig.
Qed.

(* ================================================================================================ *)
(** * 5. The byte-level clauses of [text_ok], for an aligned codec *)

Section Clauses.
  Variables (c : codec) (f : N -> option bytes).
  Hypothesis ac : acodec c f.

  Lemma encodable_enc : forall nl l, encodable c nl l = true ->
    exists b, enc_all f (l ++ nl) = Some b /\ enc_line c nl l = b.
  Proof.
    intros nl l H. unfold encodable in H. unfold enc_line. rewrite (ac_enc c f ac) in *.
    destruct (enc_all f (l ++ nl)) as [b|]; [|discriminate H]. exists b. split; reflexivity.
  Qed.

  Lemma nl_bytes_unix : nl_bytes c LUnix = [x0a].
  Proof.
    unfold nl_bytes. rewrite (ac_enc c f ac). cbn [le_text enc_all].
    destruct (ac_lf c f ac) as [H _]. unfold cp_lf in H. rewrite H. reflexivity.
  Qed.

  Lemma nl_bytes_dos : nl_bytes c LDos = [x0d; x0a].
  Proof.
    unfold nl_bytes. rewrite (ac_enc c f ac). cbn [le_text enc_all].
    destruct (ac_lf c f ac) as [H _]. unfold cp_lf in H. rewrite H.
    destruct (ac_cr c f ac) as [H' _]. unfold cp_cr in H'. rewrite H'. reflexivity.
  Qed.

  (* one encoded line *)
  Lemma line_clean_bytes_text : forall k l pre, encodable c (le_text k) l = true -> ~ In x0a pre -> ~ In x0d pre ->
    Nat.eqb (occurrences byte_eqb (nl_bytes c k) (pre ++ enc_line c (le_text k) l)) 1 = line_clean_text k l.
  Proof.
    intros k l pre He Hlf Hcr. destruct (encodable_enc _ _ He) as (b & Hb & ->).
    rewrite <- line_clean_text_occ. f_equal. destruct k.
    - rewrite nl_bytes_unix.
      exact (occ_enc f (ac_nonempty c f ac) cp_lf x0a [] [] pre (ac_lf c f ac) (Forall2_nil _) Hlf _ _ Hb).
    - rewrite nl_bytes_dos.
      exact (occ_enc f (ac_nonempty c f ac) cp_cr x0d [cp_lf] [x0a] pre (ac_cr c f ac)
               (Forall2_cons _ _ (ac_lf c f ac) (Forall2_nil _)) Hcr _ _ Hb).
  Qed.

  Lemma mark_no_lf : forall t, ~ In x0a (tc_mark c t).
  Proof. intros t. unfold tc_mark. destruct (tc_bom t); [exact (ac_bom_lf c f ac) | intros []]. Qed.
  Lemma mark_no_cr : forall t, ~ In x0d (tc_mark c t).
  Proof. intros t. unfold tc_mark. destruct (tc_bom t); [exact (ac_bom_cr c f ac) | intros []]. Qed.

  (* [lines_clean] *)
  Lemma lines_clean_text : forall k mark ls, forallb (encodable c (le_text k)) ls = true ->
    ~ In x0a mark -> ~ In x0d mark ->
    lines_clean (nl_bytes c k) (text_pieces c (le_text k) mark ls) = forallb (line_clean_text k) ls.
  Proof.
    intros k mark ls He Hlf Hcr. destruct ls as [|l0 rest]; [reflexivity|].
    cbn [forallb] in He. apply andb_true_iff in He. destruct He as [He0 He].
    unfold lines_clean. cbn [text_pieces forallb].
    rewrite (line_clean_bytes_text k l0 mark He0 Hlf Hcr). f_equal.
    induction rest as [|l rest IH]; [reflexivity|].
    cbn [forallb] in He. apply andb_true_iff in He. destruct He as [Hel He].
    cbn [map forallb]. rewrite (IH He).
    rewrite <- (line_clean_bytes_text k l [] Hel) by (intros []). reflexivity.
  Qed.

  (* the encoding of the whole text *)
  Lemma joined_enc : forall nl ls, forallb (encodable c nl) ls = true ->
    enc_all f (concat (map (fun l => l ++ nl) ls)) = Some (concat (map (enc_line c nl) ls)).
  Proof.
    intros nl. induction ls as [|l ls IH]; intros He; [reflexivity|].
    cbn [forallb] in He. apply andb_true_iff in He. destruct He as [Hel He].
    cbn [map concat]. rewrite (enc_all_app f), (IH He).
    destruct (encodable_enc _ _ Hel) as (b & Hb & ->). rewrite Hb. reflexivity.
  Qed.

  (* the byte-order-mark clause *)
  Lemma bom_clause_text : forall (bomflag : bool) nl ls, forallb (encodable c nl) ls = true ->
    (bomflag || is_nil (enc_bom c) || negb (starts_with_bom (concat (map (enc_line c nl) ls))))
    = (bomflag || is_nil (enc_bom c) || negb (starts_feff (concat (map (fun l => l ++ nl) ls)))).
  Proof.
    intros bomflag nl ls He. destruct (ac_mark c f ac) as [E|E].
    - rewrite E. cbn [is_nil]. rewrite !orb_true_r. reflexivity.
    - rewrite (E _ _ (joined_enc nl ls He)). reflexivity.
  Qed.

  Lemma repeat_sp_in : forall n z, In z (repeat_b x20 n) -> z = x20.
  Proof. induction n as [|n IH]; intros z H; [destruct H|]. destruct H as [<-|H]; [reflexivity | exact (IH z H)]. Qed.

  (* first-line detection on the rendered body *)
  Lemma detect_body_text : forall k mark ind ls, ls <> [] -> forallb (encodable c (le_text k)) ls = true ->
    ~ In x0a mark -> ~ In x0d mark ->
    detect_kind (nl_bytes c LUnix) (nl_bytes c LDos) (text_body c (le_text k) mark ind ls)
    = detect_kind_text (concat (map (fun l => l ++ le_text k) ls)).
  Proof.
    intros k mark ind ls Hne He Hlf Hcr. destruct ls as [|l0 rest]; [congruence|].
    cbn [forallb] in He. apply andb_true_iff in He. destruct He as [He0 _].
    destruct (encodable_enc _ _ He0) as (b0 & Hb0 & Eb0).
    assert (Hin : In cp_lf (l0 ++ le_text k)).
    { apply in_or_app. right. destruct k; cbn; auto. }
    assert (Ht : detect_kind_text (concat (map (fun l => l ++ le_text k) (l0 :: rest)))
                 = first_ending N.eqb cp_cr cp_lf false (l0 ++ le_text k)).
    { unfold detect_kind_text. cbn [map concat]. apply (first_ending_app N.eqb N_eqb_spec). exact Hin. }
    rewrite Ht. clear Ht.
    rewrite nl_bytes_unix, nl_bytes_dos.
    change (detect_kind [x0a] [x0d; x0a]) with (detect_g byte_eqb x0d x0a).
    rewrite (detect_first_ending byte_eqb byte_eqb_spec).
    unfold text_body. cbn [text_pieces map concat]. rewrite Eb0.
    rewrite <- !app_assoc. rewrite (app_assoc (repeat_b x20 ind) mark).
    rewrite (first_ending_skip byte_eqb byte_eqb_spec).
    - replace (match repeat_b x20 ind ++ mark with [] => false | _ :: _ => false end) with false
        by (destruct (repeat_b x20 ind ++ mark); reflexivity).
      exact (first_ending_enc f (ac_nonempty c f ac) cp_cr cp_lf x0d x0a (ac_cr c f ac) (ac_lf c f ac)
               (l0 ++ le_text k) b0 _ false Hb0 Hin).
    - intros Hi. apply in_app_or in Hi. destruct Hi as [Hi|Hi]; [apply repeat_sp_in in Hi; discriminate Hi | exact (Hlf Hi)].
    - intros Hi. apply in_app_or in Hi. destruct Hi as [Hi|Hi]; [apply repeat_sp_in in Hi; discriminate Hi | exact (Hcr Hi)].
  Qed.

  Lemma le_ok_body_text : forall ps k mark ind ls, ls <> [] -> forallb (encodable c (le_text k)) ls = true ->
    ~ In x0a mark -> ~ In x0d mark ->
    le_ok ps c k (text_body c (le_text k) mark ind ls) = le_ok_text ps k (concat (map (fun l => l ++ le_text k) ls)).
  Proof.
    intros ps k mark ind ls Hne He Hlf Hcr. unfold le_ok, le_ok_text.
    destruct (opt "line_endings" ps); [reflexivity|].
    rewrite (detect_body_text k mark ind ls Hne He Hlf Hcr). reflexivity.
  Qed.
End Clauses.

(* ================================================================================================ *)
(** * 6. Well-formedness stated on texts *)

Section Gen.
  (* which spellings are allowed for text sections; [aligned_enc] below.  (The argument exists only so that the
     negative example can say what goes wrong without the restriction.) *)
  Variable al : bytes -> bool.

  Definition text_ok_g (x : ectx) (s : fsection) (t : tcontent) : bool :=
    match eff_enc x s with
    | None => false                                   (* an encoding is in force ... *)
    | Some eb =>
        al eb &&                                      (* ... an allowed one ... *)
        match codec_of eb with
        | None => false                               (* ... naming a modelled codec *)
        | Some c =>
            let nl := le_text (tc_kind t) in
            nonempty (tc_lines t) &&
            forallb (encodable c nl) (tc_lines t) &&
            (* written with the codec's mark, or the codec writes none, or the text does not begin with U+FEFF *)
            (tc_bom t || is_nil (enc_bom c) || negb (starts_feff (joined t))) &&
            (* no line contains the newline text *)
            forallb (line_clean_text (tc_kind t)) (tc_lines t) &&
            (* line_endings names the kind, or the first LF of the text is (dos) / is not (unix) preceded by CR *)
            le_ok_text (fs_opts s) (tc_kind t) (joined t) &&
            length_ok (fs_opts s) (content_body x s)
        end
    end.

  Definition wf_section_g (prev : option sid) (x : ectx) (s : fsection) : bool :=
    order_ok prev (fs_id s) &&
    forallb is_ws_line (fs_blank s) &&
    forallb pair_ok (fs_opts s) &&
    enc_opt_ok (fs_opts s) &&
    match sid_kind (fs_id s), fs_content s with
    | SContainer, None => match fs_id s with Main => version_ok (fs_opts s) | _ => true end
    | SPreamble, Some (FText t) => text_ok_g x s t && indent_ok (fs_opts s)
    | SMeta, Some (FMeta t _) => text_ok_g x s t && format_ok (fs_opts s)
    | SPreamble, Some (FRawText ls k) => raw_ok x s ls k && indent_ok (fs_opts s)
    | SMeta, Some (FRawMeta ls k _) => raw_ok x s ls k && format_ok (fs_opts s)
    | SDiff, Some (FDiff raw k) => diff_ok s raw k
    | _, _ => false
    end.

  Fixpoint wf_secs_g (prev : option sid) (x : ectx) (ss : list fsection) : bool :=
    match ss with
    | [] => true
    | s :: t => wf_section_g prev x s && wf_secs_g (Some (fs_id s)) (ectx_next x s) t
    end.

  Definition wf_file_g (f : ffile) : bool :=
    wf_secs_g None ectx0 (ff_sections f) && forallb is_ws_line (ff_trailing f).

  (* every text section's effective encoding is allowed *)
  Definition text_al (x : ectx) (s : fsection) : bool :=
    match eff_enc x s with Some eb => al eb | None => false end.
  Definition section_al (x : ectx) (s : fsection) : bool :=
    match fs_content s with
    | Some (FText _) | Some (FMeta _ _) => text_al x s
    | _ => true
    end.
  Fixpoint secs_al (x : ectx) (ss : list fsection) : bool :=
    match ss with
    | [] => true
    | s :: t => section_al x s && secs_al (ectx_next x s) t
    end.
  Definition file_al (f : ffile) : bool := secs_al ectx0 (ff_sections f).
End Gen.

(* the text-level well-formedness: [wf_file] with, for text sections, the three byte-level clauses replaced by
   their text-level forms, and every text section's effective encoding an aligned codec *)
Definition text_ok_t := text_ok_g aligned_enc.
Definition wf_section_t := wf_section_g aligned_enc.
Definition wf_secs_t := wf_secs_g aligned_enc.
Definition wf_file_text : ffile -> bool := wf_file_g aligned_enc.
Definition aligned_file : ffile -> bool := file_al aligned_enc.

(* ------------------------------------------------------------------------------------------------ *)
(* exactness *)

Lemma text_ok_t_eq : forall x s t,
  (fs_content s = Some (FText t) \/ exists j, fs_content s = Some (FMeta t j)) ->
  text_ok_t x s t = text_al aligned_enc x s && text_ok x s t.
Proof.
  intros x s t Hcont. unfold text_ok_t, text_ok_g, text_al, text_ok, text_codec.
  destruct (eff_enc x s) as [eb|] eqn:Eeff; [|reflexivity].
  destruct (aligned_enc eb) eqn:Ea; [|reflexivity]. cbn [andb].
  destruct (codec_of eb) as [c|] eqn:Ec; [|reflexivity]. cbv zeta.
  destruct (aligned_acodec eb c Ea Ec) as [f ac].
  destruct (nonempty (tc_lines t)) eqn:Hne; [|reflexivity]. cbn [andb].
  destruct (forallb (encodable c (le_text (tc_kind t))) (tc_lines t)) eqn:He; [|reflexivity]. cbn [andb].
  apply HeaderFacts.nonempty_true in Hne.
  assert (Hbody : content_body x s = text_body c (le_text (tc_kind t)) (tc_mark c t) (indent_of s) (tc_lines t)).
  { unfold content_body, text_codec. destruct Hcont as [-> | [j ->]]; rewrite Eeff, Ec; reflexivity. }
  rewrite (bom_clause_text c f ac (tc_bom t) _ _ He).
  rewrite (lines_clean_text c f ac (tc_kind t) (tc_mark c t) (tc_lines t) He (mark_no_lf c f ac t) (mark_no_cr c f ac t)).
  pose proof (le_ok_body_text c f ac (fs_opts s) (tc_kind t) (tc_mark c t) (indent_of s) (tc_lines t) Hne He
                (mark_no_lf c f ac t) (mark_no_cr c f ac t)) as Hle.
  rewrite <- Hbody in Hle. rewrite Hle. reflexivity.
Qed.

Lemma bool_rearr1 : forall a al t i : bool, a && (al && t && i) = al && (a && (t && i)).
Proof. intros [|] [|] [|] [|]; reflexivity. Qed.
Lemma bool_rearr2 : forall a1 w1 a2 w2 : bool, (a1 && w1) && (a2 && w2) = (a1 && a2) && (w1 && w2).
Proof. intros [|] [|] [|] [|]; reflexivity. Qed.

Lemma wf_section_t_eq : forall prev x s,
  wf_section_t prev x s = section_al aligned_enc x s && wf_section prev x s.
Proof.
  intros prev x s. unfold wf_section_t, wf_section_g, wf_section, section_al.
  destruct (sid_kind (fs_id s)); destruct (fs_content s) as [[t|t j|ls k|ls k j|raw k]|] eqn:Econt;
    try reflexivity;
    try (rewrite !andb_false_r; destruct (text_al aligned_enc x s); reflexivity);
    change (text_ok_g aligned_enc x s t) with (text_ok_t x s t).
  - rewrite (text_ok_t_eq x s t (or_introl Econt)). apply bool_rearr1.
  - rewrite (text_ok_t_eq x s t (or_intror (ex_intro _ j Econt))). apply bool_rearr1.
Qed.

Lemma wf_secs_t_eq : forall ss prev x, wf_secs_t prev x ss = secs_al aligned_enc x ss && wf_secs prev x ss.
Proof.
  induction ss as [|s ss IH]; intros prev x; [reflexivity|].
  unfold wf_secs_t in *. cbn [wf_secs_g secs_al wf_secs]. rewrite IH.
  fold (wf_section_t prev x s). rewrite wf_section_t_eq. apply bool_rearr2.
Qed.

(* [wf_file_text] is exactly [wf_file] on the files all of whose text sections are in an aligned encoding *)
Theorem wf_file_text_eq : forall f, wf_file_text f = aligned_file f && wf_file f.
Proof.
  intros f. unfold wf_file_text, wf_file_g, aligned_file, file_al, wf_file.
  fold (wf_secs_t None ectx0 (ff_sections f)). rewrite wf_secs_t_eq. symmetry. apply andb_assoc.
Qed.

Theorem wf_file_text_wf : forall f, wf_file_text f = true -> wf_file f = true.
Proof. intros f H. rewrite wf_file_text_eq in H. apply andb_true_iff in H. apply H. Qed.

Theorem wf_file_text_aligned : forall f, wf_file_text f = true -> aligned_file f = true.
Proof. intros f H. rewrite wf_file_text_eq in H. apply andb_true_iff in H. apply H. Qed.

Theorem wf_file_wf_text : forall f, aligned_file f = true -> wf_file f = true -> wf_file_text f = true.
Proof. intros f Ha Hw. rewrite wf_file_text_eq, Ha, Hw. reflexivity. Qed.

Theorem wf_file_text_iff : forall f, wf_file_text f = true <-> aligned_file f = true /\ wf_file f = true.
Proof. intros f. rewrite wf_file_text_eq. apply andb_true_iff. Qed.

(* ================================================================================================ *)
(** * 7. C03 with the hypothesis stated on texts *)

Theorem C03_reads_spec_text : forall f orc chunk,
  wf_file_text f = true -> oracle_ok_file orc f -> 0 < chunk ->
  (Z.of_nat (length (render_file f)) <= sys_maxsize)%Z ->
  read_all orc chunk (render_file f) = (spec_records f, TEnd).
Proof.
  intros f orc chunk Hwf. apply SpecReaderFacts.C03_reads_spec. exact (wf_file_text_wf f Hwf).
Qed.

(* ================================================================================================ *)
(** * 8. Examples (definitions; the facts are in props/C03_text.v) *)

Import SpecReaderExamples.

(* utf-8 main encoding.  .preamble (utf-8, indent 2, line endings NOT declared: unix detected): non-ASCII lines
   (U+E9, U+20AC, U+1F600), a later line ending in CR.  .meta (utf-8, undeclared unix).  .change switches to
   latin-1: ..preamble with DECLARED dos endings, a bare LF inside a dos line, U+E9 / U+FF, a line ending in CR;
   ..meta in utf-8-sig written WITHOUT its mark, undeclared dos.  ...meta inherits latin-1, two lines, undeclared
   unix.  A diff. *)
Definition tx_meta1 : text := [123%N; dq] ++ asc "k" ++ [dq; 58%N; 32%N; dq; 233%N; 8364%N; dq; 125%N].
Definition tx_file : ffile :=
  {| ff_crlf := false;
     ff_sections :=
       [ {| fs_id := Main; fs_opts := [(B "version", B "1.0"); (B "encoding", B "utf-8")];
            fs_blank := []; fs_content := None |};
         {| fs_id := MainPreamble; fs_opts := [(B "indent", B "2"); (B "length", B "26")]; fs_blank := [];
            fs_content := Some (FText {| tc_lines := [asc "caf" ++ [233%N]; [8364%N; 128512%N] ++ asc " ok"; asc "x" ++ [13%N]];
                                         tc_kind := LUnix; tc_bom := false |}) |};
         {| fs_id := MainMeta; fs_opts := [(B "length", B "15")]; fs_blank := [];
            fs_content := Some (FMeta {| tc_lines := [tx_meta1]; tc_kind := LUnix; tc_bom := false |}
                                      (JObj [(asc "k", JStr [233%N; 8364%N])])) |};
         {| fs_id := Change; fs_opts := [(B "encoding", B "latin-1")]; fs_blank := []; fs_content := None |};
         {| fs_id := ChangePreamble; fs_opts := [(B "line_endings", B "dos"); (B "length", B "11")]; fs_blank := [];
            fs_content := Some (FText {| tc_lines := [asc "a" ++ [10%N] ++ asc "b" ++ [233%N]; [255%N] ++ asc "c" ++ [13%N]];
                                         tc_kind := LDos; tc_bom := false |}) |};
         {| fs_id := ChangeMeta; fs_opts := [(B "length", B "4"); (B "encoding", B "utf-8-sig")]; fs_blank := [];
            fs_content := Some (FMeta {| tc_lines := [asc "{}"]; tc_kind := LDos; tc_bom := false |} (JObj [])) |};
         {| fs_id := File; fs_opts := []; fs_blank := []; fs_content := None |};
         {| fs_id := FileMeta; fs_opts := [(B "format", B "json"); (B "length", B "4")]; fs_blank := [];
            fs_content := Some (FMeta {| tc_lines := [asc "{"; asc "}"]; tc_kind := LUnix; tc_bom := false |} (JObj [])) |};
         {| fs_id := FileDiff; fs_opts := [(B "length", B "6"); (B "line_endings", B "unix")]; fs_blank := [];
            fs_content := Some (FDiff (B "-a" ++ [x0a] ++ B "+b" ++ [x0a]) LUnix) |} ];
     ff_trailing := [] |}.

Definition tx_orc : oracle :=
  [ (oracle_key_text (tx_meta1 ++ [10%N]), LoadsOk (JObj [(asc "k", JStr [233%N; 8364%N])]));
    (oracle_key_text (asc "{}" ++ [13%N; 10%N]), LoadsOk (JObj []));
    (oracle_key_text (asc "{" ++ [10%N] ++ asc "}" ++ [10%N]), LoadsOk (JObj [])) ].

(* the misaligned pair under utf-16-le: U+0A41 U+4100 is 41 0A 00 41, which contains the encoded LF 0A 00 at an odd
   offset.  One unix line, line endings declared, correct length.  On the text nothing is wrong: the line
   contains no LF. *)
Definition tx_utf16 : ffile :=
  {| ff_crlf := false;
     ff_sections :=
       [ {| fs_id := Main; fs_opts := [(B "version", B "1.0"); (B "encoding", B "utf-16-le")];
            fs_blank := []; fs_content := None |};
         {| fs_id := MainPreamble; fs_opts := [(B "line_endings", B "unix"); (B "length", B "6")]; fs_blank := [];
            fs_content := Some (FText {| tc_lines := [[0x0A41%N; 0x4100%N]]; tc_kind := LUnix; tc_bom := false |}) |};
         {| fs_id := Change; fs_opts := []; fs_blank := []; fs_content := None |} ];
     ff_trailing := [] |}.

(* the text-level clauses alone, with the restriction to aligned codecs dropped *)
Definition wf_file_text_any : ffile -> bool := wf_file_g (fun _ => true).

(* ================================================================================================ *)
(** * 9. The three clauses, stated for a spelling (for props/C03_text.v) *)

Theorem aligned_lines_clean : forall eb c k t ls, aligned_enc eb = true -> codec_of eb = Some c ->
  forallb (encodable c (le_text k)) ls = true ->
  lines_clean (nl_bytes c k) (text_pieces c (le_text k) (tc_mark c t) ls) = forallb (line_clean_text k) ls.
Proof.
  intros eb c k t ls Ha Hc He. destruct (aligned_acodec eb c Ha Hc) as [f ac].
  exact (lines_clean_text c f ac k (tc_mark c t) ls He (mark_no_lf c f ac t) (mark_no_cr c f ac t)).
Qed.

Theorem aligned_detect : forall eb c k t ind ls, aligned_enc eb = true -> codec_of eb = Some c ->
  ls <> [] -> forallb (encodable c (le_text k)) ls = true ->
  detect_kind (nl_bytes c LUnix) (nl_bytes c LDos) (text_body c (le_text k) (tc_mark c t) ind ls)
  = detect_kind_text (concat (map (fun l => l ++ le_text k) ls)).
Proof.
  intros eb c k t ind ls Ha Hc Hne He. destruct (aligned_acodec eb c Ha Hc) as [f ac].
  exact (detect_body_text c f ac k (tc_mark c t) ind ls Hne He (mark_no_lf c f ac t) (mark_no_cr c f ac t)).
Qed.

Theorem aligned_bom_clause : forall eb c (bomflag : bool) nl ls, aligned_enc eb = true -> codec_of eb = Some c ->
  forallb (encodable c nl) ls = true ->
  (bomflag || is_nil (enc_bom c) || negb (starts_with_bom (concat (map (enc_line c nl) ls))))
  = (bomflag || is_nil (enc_bom c) || negb (starts_feff (concat (map (fun l => l ++ nl) ls)))).
Proof.
  intros eb c bomflag nl ls Ha Hc He. destruct (aligned_acodec eb c Ha Hc) as [f ac].
  exact (bom_clause_text c f ac bomflag nl ls He).
Qed.

(* of the aligned codecs only utf-8-sig writes a mark: for the others the clause is vacuous *)
Lemma aligned_bom_cases : forall eb c, aligned_enc eb = true -> codec_of eb = Some c ->
  enc_bom c = [] \/ enc_bom c = bom8.
Proof.
  intros eb c Ha Hc. unfold aligned_enc in Ha. unfold codec_of in Hc.
  destruct (lookup_codec eb) as [canon c'| |] eqn:E; try discriminate Hc. injection Hc as ->.
  pose proof (lookup_modelled eb canon c E) as Hm.
  unfold aligned_names in Ha. cbn [mem] in Ha.
  repeat (apply orb_true_iff in Ha; destruct Ha as [Ha|Ha]); try discriminate Ha;
    apply beq_eq in Ha; subst canon.
  - assert (Em : assoc_get beq (B "ascii") modelled = Some ascii) by reflexivity.
    rewrite Em in Hm. apply some_inj in Hm. subst c. left. reflexivity.
  - assert (Em : assoc_get beq (B "iso8859-1") modelled = Some latin1) by reflexivity.
    rewrite Em in Hm. apply some_inj in Hm. subst c. left. reflexivity.
  - assert (Em : assoc_get beq (B "utf-8") modelled = Some utf8) by reflexivity.
    rewrite Em in Hm. apply some_inj in Hm. subst c. left. reflexivity.
  - assert (Em : assoc_get beq (B "utf-8-sig") modelled = Some utf8sig) by reflexivity.
    rewrite Em in Hm. apply some_inj in Hm. subst c. right. reflexivity.
Qed.

(* the allowed spellings are those of RoundTripStep.aligned_b *)
Lemma aligned_enc_is_aligned_b : forall eb, aligned_enc eb = RoundTripStep.aligned_b eb.
Proof. intros eb. reflexivity. Qed.

(* outside the aligned class the text-level clauses do not imply [wf_file], nor the conclusion of C03 *)
Theorem utf16_refuted :
  exists f, wf_file_text_any f = true /\ wf_file f = false /\ aligned_file f = false /\
            exists orc chunk, 0 < chunk /\ oracle_ok_file orc f /\
                              read_all orc chunk (render_file f) <> (spec_records f, TEnd).
Proof.
  exists tx_utf16. split; [vm_compute; reflexivity|]. split; [vm_compute; reflexivity|].
  split; [vm_compute; reflexivity|]. exists [], 96. split; [lia|]. split; [repeat constructor|].
  vm_compute. discriminate.
Qed.
