(* C14 — Unified-diff hunk parser reports exact hunk geometry or a positioned error.
   Spec layer (hunk_ast, render_hunk, wf_hunk, spec_geometry, interleave, seps_ok, open_fragment ...) and all
   proofs are in DX.HunksFacts; the parser model is DX.Hunks. *)
From Coq Require Import List NArith ZArith Bool Strings.Byte.
From Coq Require Strings.String.
From DX Require Import Bytes Res Hunks HunksFacts.
Import ListNotations.
Import String.StringSyntax.
Local Open Scope string_scope.
Local Open Scope list_scope.
Local Open Scope Z_scope.

(* decimal rendering is parsed back (used by the header lemma) *)
Theorem C14_dec_roundtrip : forall n : N, dec_to_N (N_to_dec n) = n.
Proof. exact dec_roundtrip. Qed.
Print Assumptions C14_dec_roundtrip.

(* the rendered header of a hunk is matched by the header regex and yields its numbers;
   an omitted count is absent (the parser then takes 1), the context is preserved *)
Theorem C14_header : forall a : hunk_ast, wf_hunk a ->
  match_hunk_header (render_header a) =
  Some (Z.of_N (a_os a), (if a_on_omit a then None else Some (Z.of_nat (a_on a))),
        Z.of_N (a_ms a), (if a_mn_omit a then None else Some (Z.of_nat (a_mn a))), a_ctx a).
Proof. exact match_hunk_header_render_header. Qed.
Print Assumptions C14_header.

(* garbage ignored: any number of well-formed hunks, separated / preceded / followed by non-header lines *)
Theorem C14_tolerant : forall (hs : list hunk_ast) (seps : list (list bytes)),
  Forall wf_hunk hs -> List.length seps = S (List.length hs) -> Forall (Forall non_header) seps ->
  get_unified_diff_hunks (interleave seps (map render_hunk hs)) true =
  HunksOk (map spec_geometry hs) (Z.of_nat (List.length (interleave seps (map render_hunk hs))))
          (Z.of_nat (total_del hs)) (Z.of_nat (total_ins hs)).
Proof. exact C14_tolerant_thm. Qed.
Print Assumptions C14_tolerant.

Theorem C14_tolerant_one : forall (a : hunk_ast) (before after : list bytes),
  wf_hunk a -> Forall non_header before -> Forall non_header after ->
  get_unified_diff_hunks (before ++ render_hunk a ++ after) true =
  HunksOk [spec_geometry a] (Z.of_nat (List.length (before ++ render_hunk a ++ after)))
          (Z.of_nat (countb is_del (a_body a))) (Z.of_nat (countb is_ins (a_body a))).
Proof. exact C14_tolerant_single. Qed.
Print Assumptions C14_tolerant_one.

(* garbage not ignored: consecutive hunks; the first non-header line after a complete hunk stops the parse,
   whatever follows it; processed = number of lines before that line *)
Theorem C14_strict : forall (hs : list hunk_ast), Forall wf_hunk hs ->
  let body := concat (map render_hunk hs) in
  let result := HunksOk (map spec_geometry hs) (Z.of_nat (List.length body))
                        (Z.of_nat (total_del hs)) (Z.of_nat (total_ins hs)) in
  get_unified_diff_hunks body false = result
  /\ (forall (g : bytes) (rest : list bytes), non_header g -> get_unified_diff_hunks (body ++ g :: rest) false = result).
Proof. exact C14_strict_both. Qed.
Print Assumptions C14_strict.

(* damage, after any well-formed prefix, in both modes ([seps_ok false] forces all separators to be empty):
   F is an open hunk = a header and body lines that do not reach both declared counts *)
Theorem C14_damage : forall (ig : bool) (hs : list hunk_ast) (seps : list (list bytes)) (h : hdr) (pre : list bline),
  Forall wf_hunk hs -> List.length seps = S (List.length hs) -> seps_ok ig seps -> open_fragment h pre ->
  let P := interleave seps (map render_hunk hs) in
  let F := render_open h pre in
  (* (a) end of input *)
  get_unified_diff_hunks (P ++ F) ig = Malformed (last F []) (Z.of_nat (List.length (P ++ F))) true
  (* (b) a line that is not context/insert/delete/marker and does not start with "@@" *)
  /\ (forall bad rest, bstarts (B "@@") bad = false -> not_body_line bad ->
        get_unified_diff_hunks (P ++ F ++ bad :: rest) ig = Malformed bad (Z.of_nat (List.length (P ++ F)) + 1) false)
  (* (b') a line that starts with "@@" but is not a hunk header *)
  /\ (forall bad rest, bstarts (B "@@") bad = true -> non_header bad ->
        get_unified_diff_hunks (P ++ F ++ bad :: rest) ig = Malformed bad (Z.of_nat (List.length (P ++ F)) + 1) false)
  (* (c) a hunk header *)
  /\ (forall bad rest r, match_hunk_header bad = Some r ->
        get_unified_diff_hunks (P ++ F ++ bad :: rest) ig = Malformed bad (Z.of_nat (List.length (P ++ F)) + 1) false).
Proof. exact C14_damage_thm. Qed.
Print Assumptions C14_damage.

(* every proper truncation of a well-formed hunk is such an open hunk *)
Theorem C14_damage_cut : forall (ig : bool) (hs : list hunk_ast) (seps : list (list bytes)) (a : hunk_ast) (k : nat),
  Forall wf_hunk hs -> List.length seps = S (List.length hs) -> seps_ok ig seps ->
  wf_hunk a -> (k < List.length (a_body a))%nat ->
  let lines := interleave seps (map render_hunk hs) ++ firstn (S k) (render_hunk a) in
  get_unified_diff_hunks lines ig = Malformed (last lines []) (Z.of_nat (List.length lines)) true.
Proof. exact C14_damage_truncated. Qed.
Print Assumptions C14_damage_cut.

(* for ANY list of lines the outcome is a result or MalformedHunkError; the error names an existing line
   (1-based) and carries that line's text; the end-of-file error names the last line *)
Theorem C14_no_other : forall (lines : list bytes) (ig : bool),
  (exists hs n d i, get_unified_diff_hunks lines ig = HunksOk hs n d i /\ 0 <= n <= Z.of_nat (List.length lines))
  \/ (exists l n e, get_unified_diff_hunks lines ig = Malformed l n e
                    /\ 1 <= n <= Z.of_nat (List.length lines)
                    /\ nth_error lines (Z.to_nat (n - 1)) = Some l
                    /\ (e = true -> n = Z.of_nat (List.length lines))).
Proof. exact C14_no_other_thm. Qed.
Print Assumptions C14_no_other.

Theorem C14_empty : forall ig, get_unified_diff_hunks [] ig = HunksOk [] 0 0 0.
Proof. exact HunksFacts.C14_empty. Qed.
Print Assumptions C14_empty.

(* ---- Examples: hypotheses are satisfiable; the model evaluates to the spec geometry ---- *)
Example C14_ex_wf : Forall wf_hunk ex_hs /\ Forall (Forall non_header) ex_seps /\ List.length ex_seps = S (List.length ex_hs).
Proof. repeat constructor. Qed.

(* two hunks with a marker inside the first, a "@@" garbage line, an empty (0,0) hunk, a trailing marker *)
Example C14_ex_lines :
  interleave ex_seps (map render_hunk ex_hs)
  = [B "diff --git a b"; B "--- a"; B "+++ b";
     B "@@ -1,2 +1,2 @@ def f():"; B " a"; B "-b"; B "\ No newline at end of file"; B "+B";
     B "@@ not a header";
     B "@@ -10 +12,2 @@"; B "---- x"; B "++++ y"; B "+@@ -1 +1 @@";
     B "@@ -0,0 +0,0 @@";
     B "\ No newline at end of file"].
Proof. vm_compute. reflexivity. Qed.

Example C14_ex_tolerant :
  get_unified_diff_hunks (interleave ex_seps (map render_hunk ex_hs)) true = HunksOk (map spec_geometry ex_hs) 15 2 3.
Proof. vm_compute. reflexivity. Qed.

Example C14_ex_geometry :
  map spec_geometry [ex_h1; ex_h2] =
  [ {| h_context := Some (B "def f():");
       h_orig := {| sd_first := Some 1; sd_last := Some 1; sd_num := 2; sd_changed := 1; sd_start := 0 |};
       h_mod := {| sd_first := Some 1; sd_last := Some 1; sd_num := 2; sd_changed := 1; sd_start := 0 |};
       h_pre := 1; h_post := 0 |};
    {| h_context := None;
       h_orig := {| sd_first := Some 9; sd_last := Some 9; sd_num := 1; sd_changed := 1; sd_start := 9 |};
       h_mod := {| sd_first := Some 11; sd_last := Some 12; sd_num := 2; sd_changed := 2; sd_start := 11 |};
       h_pre := 0; h_post := 0 |} ].
Proof. vm_compute. reflexivity. Qed.

Example C14_ex_strict :
  get_unified_diff_hunks (concat (map render_hunk [ex_h1; ex_h2]) ++ [B "@@ not a header"; B "@@ -1 +1 @@"]) false =
  HunksOk (map spec_geometry [ex_h1; ex_h2]) 9 2 3.
Proof. vm_compute. reflexivity. Qed.

Example C14_ex_damage :
  open_fragment (hdr_of ex_h2) [Del (B "--- x")]
  /\ get_unified_diff_hunks (render_hunk ex_h1 ++ render_open (hdr_of ex_h2) [Del (B "--- x")]) false
     = Malformed (B "---- x") 7 true
  /\ get_unified_diff_hunks (render_hunk ex_h1 ++ render_open (hdr_of ex_h2) [Del (B "--- x")] ++ [B "oops"; B "+y"]) false
     = Malformed (B "oops") 8 false
  /\ get_unified_diff_hunks (render_hunk ex_h1 ++ render_open (hdr_of ex_h2) [Del (B "--- x")] ++ [B "@@ -20 +22 @@ c"]) true
     = Malformed (B "@@ -20 +22 @@ c") 8 false.
Proof. split; [exact ex_open|]. vm_compute. repeat split. Qed.
