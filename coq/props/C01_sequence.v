(* C01 — writer -> reader round trip for WHOLE CALL SEQUENCES (the per-section core is props/C01.v).
   "Streaming write -> read round trip preserves structure, content and options": for every accepted sequence of
   writer calls, the reader model run on the bytes the writer model produced yields exactly one record per
   written section, in order, with the id / level / options / content written, and ends normally.

   Statements only; proofs: theories/RoundTripBase.v (one header line: what _read_header returns for a line the
   writer rendered, the exact option list), RoundTripSim.v (domains, expected records, the simulation relation,
   the constructor and the container calls), RoundTripStep.v (write_diff / write_preamble / write_meta),
   RoundTrip.v (all calls, whole sequences), RoundTripCor.v (corollaries), RoundTripSeqExample.v (non-vacuity).
   [read_content] is never unfolded there: the content part rests on the per-section theorems of props/C01.v.

   STATUS: full for the five calls of DiffXWriter over the stated argument domain; nothing is assumed but the
   hypotheses spelled out in each statement.

   Vocabulary (theories/RoundTripSim.v, RoundTripStep.v, RoundTrip.v):
   * [enc_ok v]            an encoding argument: None, or a str that is a catalogue spelling of one of the ten
                           modelled codecs (ascii, latin-1, utf-8, utf-8-sig, utf-16/-le/-be, utf-32/-le/-be).
   * [call_good c]         argument domain of a call: encodings [enc_ok]; write_preamble: indent omitted, None or
                           an int >= 0, line_endings None / "dos" / "unix"; write_diff: line_endings likewise;
                           write_meta: the metadata is a dict (JObj).  All other conditions of the property's
                           quantifier (text non-empty and encodable, mimetype / diff type / format legal, dict
                           non-empty and serialisable, diff bytes non-empty) FOLLOW from acceptance.
   * [accepted s cs]       every call of cs, run in order from state s, returned normally.
   * [oracle_ok orc cs]    the json.loads oracle: for every metadata value j of cs, loads (dumps j ++ "\n") = j
                           (the assumption recorded in DESIGN: json itself is not modelled).
   * [guesses_ok s cs]     metadata sections carry no line_endings option, the reader guesses the newline from the
                           bytes.  For every write_meta of cs whose effective encoding is NOT one of ascii / latin-1
                           / utf-8 / utf-8-sig, the guess on the bytes written is the newline written
                           ([meta_guess_b], a boolean computed by running the writer model).  It holds
                           unconditionally when no UTF-16/32 family encoding is in play (C01_guesses_ok_aligned);
                           it is a real condition otherwise (props/C01.v, C01_utf16_misaligned).
   * [metas_oracle_ok orc s cs]  ADDED with the fix of write_meta (`if not (encoding or self._cur_encoding): content =
                           content.encode('ascii')`).  [enc_ok] allows None everywhere, and in a DiffXWriter(encoding=
                           None) a write_meta without encoding used to raise TypeError (rejected) and is now ACCEPTED:
                           the pure-ASCII JSON goes out as bytes under a header without encoding, the reader yields
                           bytes and asks json.loads about BYTES.  [meta_enc_b s c]: at the write_meta c made in state
                           s an encoding IS in force (the call's encoding argument, or else the innermost open
                           container's, is truthy) - the case that existed before the fix.  [metas_oracle_ok]: at
                           every write_meta of cs an encoding is in force, OR the oracle answers for the bytes,
                           loads (dumps j ++ b"\n") = j ([meta_oracle_at], [meta_bytes_oracle]).  Without it the
                           statements below are false (C01_round_trip_unencoded_refuted: [oracle_ok] speaks about the
                           JSON text only); with it the new path is covered (C01_round_trip_unencoded_ex).
                           [metas_encoded s cs] (an encoding in force at every write_meta) implies it for every
                           oracle (C01_metas_oracle_of_encoded) and holds for every program of a writer constructed
                           with an encoding, pydiffx's default being utf-8 (C01_metas_encoded_init,
                           C01_round_trip_encoded).  [call_prepared] / [call_nlines] follow the writer: text path
                           under [meta_enc_b], bytes path otherwise (C01_call_prepared).
   * size                  the whole output is at most sys.maxsize bytes (the reader reads min(length, sys.maxsize);
                           it also keeps every length / indent below CPython's 4300-digit int limit).
   * [expected_record s line c body le]   the record the reader must yield for call c accepted in writer state s:
                           id = the section id written, level = its number of dots, line = the reader's line
                           counter, options = [expected_opts] of the dict handed to the header writer (the non-None
                           entries in key order; ints as VInt: length, indent; strings as VStr: encoding,
                           line_endings, mimetype, format, type, version), payload = PText (final_text nl t) for
                           preambles, PMeta j for metadata, PBytes body for diffs, PNone for containers.
   * [expected_records s line cs]         these records for a sequence; the line counter advances by 1 per header
                           and by the number of lines of each content ([call_nlines]: the encoded content split on
                           the encoded newline, as the reader counts).
   * [Sim s st valid encs prev]           writer state vs. reader loop variables: s reachable, every entry of the
                           writer's encoding stack [enc_ok], header newline fixed to LF, [valid] = the table row of
                           the last written section, [encs] = the writer's stack as the reader holds it (bottom
                           entry None), stack depth = prev + 2. *)
From Coq Require Import List Arith NArith ZArith Bool Strings.Byte.
From Coq Require Strings.String.
From DX Require Import Bytes Res Codec Text Sections Header Stream Json Reader Writer.
From DX Require WriterFacts WriterCanonFacts ReaderSpecFacts.
From DX Require Import RoundTripCodec RoundTripContent RoundTripBase RoundTripSim RoundTripStep RoundTrip RoundTripCor
                       RoundTripSeqExample.
From DXGen Require GenSections GenText GenCodecs.
Import ListNotations.
Import String.StringSyntax.
Local Open Scope string_scope.
Local Open Scope list_scope.

(* ---- the whole-sequence round trip ---- *)

Theorem C01_round_trip : forall (enc0 ver : wv) (s0 : wstate) (cs : list call) (orc : oracle) (chunk : nat),
  writer_init enc0 ver = (s0, Ok tt) ->           (* DiffXWriter(encoding=enc0, version=ver) succeeded *)
  enc_ok enc0 ->
  Forall call_good cs ->
  accepted s0 cs ->
  metas_oracle_ok orc s0 cs ->                    (* write_meta with no encoding in force: the oracle answers for bytes *)
  guesses_ok s0 cs ->
  oracle_ok orc cs ->
  0 < chunk ->
  (Z.of_nat (length (w_out (snd (run_calls s0 cs)))) <= sys_maxsize)%Z ->
  read_all orc chunk (w_out (snd (run_calls s0 cs))) = (main_record enc0 ver :: expected_records s0 1 cs, TEnd).
Proof. exact RoundTrip.C01_round_trip. Qed.
Print Assumptions C01_round_trip.

(* no hypothesis about newline guesses when every encoding argument is None or a spelling of ascii, latin-1,
   utf-8 or utf-8-sig *)
Theorem C01_round_trip_aligned : forall (enc0 ver : wv) (s0 : wstate) (cs : list call) (orc : oracle) (chunk : nat),
  writer_init enc0 ver = (s0, Ok tt) -> enc_aligned enc0 ->
  Forall call_good cs -> Forall (fun c => enc_aligned (call_enc c)) cs -> accepted s0 cs -> metas_oracle_ok orc s0 cs ->
  oracle_ok orc cs ->
  0 < chunk -> (Z.of_nat (length (w_out (snd (run_calls s0 cs)))) <= sys_maxsize)%Z ->
  read_all orc chunk (w_out (snd (run_calls s0 cs))) = (main_record enc0 ver :: expected_records s0 1 cs, TEnd).
Proof. exact RoundTripCor.C01_round_trip_aligned. Qed.
Print Assumptions C01_round_trip_aligned.

(* [metas_encoded] for a writer constructed with an encoding, whatever the program *)
Theorem C01_metas_encoded_init : forall enc0 ver s0 cs,
  writer_init enc0 ver = (s0, Ok tt) -> wv_truthy enc0 = true -> metas_encoded s0 cs.
Proof. exact RoundTripCor.metas_encoded_init. Qed.
Print Assumptions C01_metas_encoded_init.

Theorem C01_metas_encoded_def : forall s c cs,
  (metas_encoded s [] <-> True) /\
  (metas_encoded s (c :: cs) <-> meta_enc_b s c = true /\ metas_encoded (fst (do_call c s)) cs) /\
  meta_enc_b s c =
    match c with
    | WriteMeta _ enc _ => wv_truthy (if negb (wv_truthy enc) && true then hd WNone (w_stack s) else enc)
    | _ => true
    end.
Proof. intros. split; [reflexivity|]. split; reflexivity. Qed.

Theorem C01_metas_oracle_ok_def : forall orc s c cs,
  (metas_oracle_ok orc s [] <-> True) /\
  (metas_oracle_ok orc s (c :: cs) <-> meta_oracle_at orc s c /\ metas_oracle_ok orc (fst (do_call c s)) cs) /\
  (meta_oracle_at orc s c <-> meta_enc_b s c = true \/ meta_bytes_oracle orc c) /\
  meta_bytes_oracle orc c =
    match c with
    | WriteMeta (WDict j) _ _ =>
        forall d, json_dump j = Ok d -> assoc_get beq (oracle_key_bytes (d ++ [x0a])) orc = Some (LoadsOk j)
    | _ => True
    end.
Proof. intros. split; [reflexivity|]. split; [reflexivity|]. split; reflexivity. Qed.

Theorem C01_metas_oracle_of_encoded : forall orc cs s, metas_encoded s cs -> metas_oracle_ok orc s cs.
Proof. exact RoundTrip.metas_oracle_of_encoded. Qed.
Print Assumptions C01_metas_oracle_of_encoded.

(* the whole-sequence round trip for a writer constructed with an encoding *)
Theorem C01_round_trip_encoded : forall (enc0 ver : wv) (s0 : wstate) (cs : list call) (orc : oracle) (chunk : nat),
  writer_init enc0 ver = (s0, Ok tt) -> enc_ok enc0 -> wv_truthy enc0 = true ->
  Forall call_good cs -> accepted s0 cs -> guesses_ok s0 cs -> oracle_ok orc cs ->
  0 < chunk -> (Z.of_nat (length (w_out (snd (run_calls s0 cs)))) <= sys_maxsize)%Z ->
  read_all orc chunk (w_out (snd (run_calls s0 cs))) = (main_record enc0 ver :: expected_records s0 1 cs, TEnd).
Proof. exact RoundTripCor.C01_round_trip_encoded. Qed.
Print Assumptions C01_round_trip_encoded.

(* without [metas_oracle_ok] C01_round_trip is false of the fixed writer: DiffXWriter(encoding=None);
   write_meta({'k': 1}) with an oracle that answers for the JSON text only *)
Theorem C01_round_trip_unencoded_refuted :
  exists enc0 ver s0 cs orc chunk,
    writer_init enc0 ver = (s0, Ok tt) /\ enc_ok enc0 /\ Forall call_good cs /\ accepted s0 cs /\
    guesses_ok s0 cs /\ oracle_ok orc cs /\ 0 < chunk /\
    (Z.of_nat (length (w_out (snd (run_calls s0 cs)))) <= sys_maxsize)%Z /\
    ~ metas_oracle_ok orc s0 cs /\
    read_all orc chunk (w_out (snd (run_calls s0 cs))) <> (main_record enc0 ver :: expected_records s0 1 cs, TEnd).
Proof. exact RoundTripCor.C01_round_trip_unencoded_refuted. Qed.
Print Assumptions C01_round_trip_unencoded_refuted.

(* ... and with an oracle that answers for the bytes the same program (no encoding anywhere) round-trips: the
   hypotheses of C01_round_trip hold, these are the bytes, and the reader returns the dict *)
Theorem C01_round_trip_unencoded_ex :
  exists enc0 ver s0 cs orc,
    writer_init enc0 ver = (s0, Ok tt) /\ enc_ok enc0 /\ Forall call_good cs /\ accepted s0 cs /\
    ~ metas_encoded s0 cs /\ metas_oracle_ok orc s0 cs /\ guesses_ok s0 cs /\ oracle_ok orc cs /\
    (Z.of_nat (length (w_out (snd (run_calls s0 cs)))) <= sys_maxsize)%Z /\
    w_out (snd (run_calls s0 cs)) =
      B "#diffx: version=1.0" ++ [x0a] ++ B "#.meta: format=json, length=15" ++ [x0a] ++
      B "{" ++ [x0a] ++ B "    ""k"": 1" ++ [x0a] ++ B "}" ++ [x0a] /\
    map r_payload (fst (read_all orc 96 (w_out (snd (run_calls s0 cs))))) = [PNone; PMeta (JObj [(ascii_text (B "k"), JInt 1)])] /\
    read_all orc 96 (w_out (snd (run_calls s0 cs))) = (main_record enc0 ver :: expected_records s0 1 cs, TEnd).
Proof. exact RoundTripCor.C01_round_trip_unencoded_ex. Qed.
Print Assumptions C01_round_trip_unencoded_ex.

Theorem C01_guesses_ok_aligned : forall cs s, w_stack s <> [] -> Forall enc_aligned (w_stack s) ->
  Forall (fun c => enc_aligned (call_enc c)) cs -> guesses_ok s cs.
Proof. exact RoundTripCor.guesses_ok_aligned. Qed.
Print Assumptions C01_guesses_ok_aligned.

(* accepted and rejected calls mixed: rejected calls write nothing and change nothing (C09), the reader yields the
   records of the accepted ones ([ok_calls s0 cs]: the calls of cs that returned normally, in order) *)
Theorem C01_round_trip_mixed : forall (enc0 ver : wv) (s0 : wstate) (cs : list call) (orc : oracle) (chunk : nat),
  writer_init enc0 ver = (s0, Ok tt) -> enc_ok enc0 ->
  Forall call_good cs -> metas_oracle_ok orc s0 (ok_calls s0 cs) -> guesses_ok s0 (ok_calls s0 cs) -> oracle_ok orc cs ->
  0 < chunk -> (Z.of_nat (length (w_out (snd (run_calls s0 cs)))) <= sys_maxsize)%Z ->
  read_all orc chunk (w_out (snd (run_calls s0 cs)))
  = (main_record enc0 ver :: expected_records s0 1 (ok_calls s0 cs), TEnd).
Proof. exact RoundTripCor.C01_round_trip_mixed. Qed.
Print Assumptions C01_round_trip_mixed.

Theorem C01_ok_calls : forall cs s, WriterFacts.reachable s ->
  snd (run_calls s cs) = snd (run_calls s (ok_calls s cs)) /\ accepted s (ok_calls s cs).
Proof. exact RoundTripCor.ok_calls_run. Qed.
Print Assumptions C01_ok_calls.

(* ---- the simulation: the constructor, then one call = one iteration of iter_sections ---- *)

Theorem C01_sim_init : forall orc chunk enc0 ver s0,
  writer_init enc0 ver = (s0, Ok tt) -> enc_ok enc0 -> 0 < chunk ->
  forall rest, exists st1 valid' encs',
    iter_step orc chunk (ReaderSpecFacts.init_state (w_out s0 ++ rest)) [GenSections.sec_main] [None] 0
      = SYield (main_record enc0 ver) st1 valid' encs' 0 /\
    Sim s0 st1 valid' encs' 0 /\ remaining (st_stream st1) = rest /\ st_linenum st1 = 1%Z /\
    s_data (st_stream st1) = w_out s0 ++ rest.
Proof. exact RoundTripSim.sim_init. Qed.
Print Assumptions C01_sim_init.

Theorem C01_sim_step : forall orc chunk s s' st valid encs prev c,
  Sim s st valid encs prev -> call_good c -> meta_oracle_at orc s c -> meta_guess_b s c = true -> oracle_ok_call orc c ->
  do_call c s = (s', Ok tt) -> 0 < chunk ->
  (Z.of_nat (length (w_out s')) <= sys_maxsize)%Z ->
  exists new, w_out s' = w_out s ++ new /\
    forall rest, remaining (st_stream st) = new ++ rest ->
      exists st' valid' encs' prev',
        iter_step orc chunk st valid encs prev =
          SYield (expected_record s (st_linenum st) c (fst (call_prepared s c)) (snd (call_prepared s c)))
                 st' valid' encs' prev' /\
        Sim s' st' valid' encs' prev' /\ remaining (st_stream st') = rest /\
        st_linenum st' = (st_linenum st + 1 + Z.of_nat (call_nlines s c))%Z.
Proof. exact RoundTrip.sim_step. Qed.
Print Assumptions C01_sim_step.

(* what [call_prepared] is: the (body, line_endings) pair _prepare_content returned for the call; write_meta hands
   it the JSON text when an encoding is in force, the JSON bytes otherwise (CHANGED with the fix of write_meta:
   it was the text in both cases) *)
Theorem C01_call_prepared : forall s c,
  call_prepared s c =
  let get (r : res (bytes * wv)) := match r with Ok p => p | Err _ => ([], WNone) end in
  match c with
  | WritePreamble (WStr t) enc ind le _ => get (prepare_content s (CText t) (preamble_indent ind) le enc true)
  | WriteMeta (WDict j) enc _ =>
      match json_dump j with
      | Ok d => get (prepare_content s
                         (if wv_truthy (if negb (wv_truthy enc) && true then hd WNone (w_stack s) else enc)
                          then CText (ascii_text d) else CBytes d) WNone WNone enc true)
      | Err _ => ([], WNone)
      end
  | WriteDiff (WBytes b) _ enc le => get (prepare_content s (CBytes b) WNone le enc false)
  | _ => ([], WNone)
  end.
Proof. reflexivity. Qed.

(* ---- corollaries ---- *)

(* one record per accepted call plus the main header, in order; ids, levels and types as written; normal end *)
Theorem C01_structure : forall enc0 ver s0 cs orc chunk,
  writer_init enc0 ver = (s0, Ok tt) -> enc_ok enc0 ->
  Forall call_good cs -> accepted s0 cs -> metas_oracle_ok orc s0 cs -> guesses_ok s0 cs -> oracle_ok orc cs ->
  0 < chunk -> (Z.of_nat (length (w_out (snd (run_calls s0 cs)))) <= sys_maxsize)%Z ->
  let rs := fst (read_all orc chunk (w_out (snd (run_calls s0 cs)))) in
  snd (read_all orc chunk (w_out (snd (run_calls s0 cs)))) = TEnd /\
  length rs = S (length cs) /\
  map (fun r => (r_id r, r_level r, r_type r)) rs = (GenSections.sec_main, 0, B "diffx") :: call_sections s0 cs /\
  Forall (fun r => r_id r = build_id (r_level r) (r_type r)) rs.
Proof. exact RoundTripCor.C01_structure. Qed.
Print Assumptions C01_structure.

(* content equal to what was written, up to the appended final newline: preambles decode to the text (plus the
   newline text if it did not end with it), metadata is the dict, diffs are the bytes (plus the encoded newline) *)
Theorem C01_content : forall enc0 ver s0 cs orc chunk,
  writer_init enc0 ver = (s0, Ok tt) -> enc_ok enc0 ->
  Forall call_good cs -> accepted s0 cs -> metas_oracle_ok orc s0 cs -> guesses_ok s0 cs -> oracle_ok orc cs ->
  0 < chunk -> (Z.of_nat (length (w_out (snd (run_calls s0 cs)))) <= sys_maxsize)%Z ->
  exists r0 rs, fst (read_all orc chunk (w_out (snd (run_calls s0 cs)))) = r0 :: rs /\
                r_payload r0 = PNone /\ Forall2 content_matches cs (map r_payload rs).
Proof. exact RoundTripCor.C01_content. Qed.
Print Assumptions C01_content.

Theorem C01_content_matches : forall c p,
  content_matches c p =
  match c with
  | NewChange _ | NewFile _ => p = PNone
  | WritePreamble (WStr t) _ _ _ _ =>
      exists nl, In nl (map snd GenText.newline_formats) /\
                 ((suffixb N.eqb nl t = true /\ p = PText t) \/ (suffixb N.eqb nl t = false /\ p = PText (t ++ nl)))
  | WriteMeta (WDict j) _ _ => p = PMeta j
  | WriteDiff (WBytes b) _ enc _ =>
      exists le nlb, In le GenText.line_endings_values /\ get_newline_for_type le (enc_bytes enc) = Ok nlb /\
                     ((bends nlb b = true /\ p = PBytes b) \/ (bends nlb b = false /\ p = PBytes (b ++ nlb)))
  | _ => True
  end.
Proof. reflexivity. Qed.

(* options given or derived: each record's options are exactly the non-None entries of the dict the writer
   handed to the header ([call_opts]: the given encoding / indent / mimetype / format / type and the derived
   length / line_endings), ints as VInt, strings as VStr *)
Theorem C01_options : forall enc0 ver s0 cs orc chunk,
  writer_init enc0 ver = (s0, Ok tt) -> enc_ok enc0 ->
  Forall call_good cs -> accepted s0 cs -> metas_oracle_ok orc s0 cs -> guesses_ok s0 cs -> oracle_ok orc cs ->
  0 < chunk -> (Z.of_nat (length (w_out (snd (run_calls s0 cs)))) <= sys_maxsize)%Z ->
  exists r0 rs, fst (read_all orc chunk (w_out (snd (run_calls s0 cs)))) = r0 :: rs /\
    r_opts r0 = expected_opts (main_opts enc0 ver) /\
    Forall2 (fun c r => exists body le_out,
               r_opts r = expected_opts (call_opts c body le_out) /\
               forall k, assoc_get beq k (r_opts r) =
                         match assoc_get beq k (call_opts c body le_out) with
                         | Some WNone | None => None
                         | Some v => Some (rd_val v)
                         end) cs rs.
Proof. exact RoundTripCor.C01_options. Qed.
Print Assumptions C01_options.

Theorem C01_call_opts : forall c body le_out k,
  assoc_get beq k (call_opts c body le_out) =
  match c with
  | NewChange e | NewFile e => if beq k (B "encoding") then Some e else None
  | WritePreamble _ enc ind _ mt =>
      if beq k (B "line_endings") then Some le_out
      else if beq k (B "length") then Some (WInt (Z.of_nat (length body)))
      else if beq k (B "indent") then Some (preamble_indent ind)
      else if beq k (B "encoding") then Some enc
      else if beq k (B "mimetype") then Some mt else None
  | WriteMeta _ enc fmt =>
      if beq k (B "length") then Some (WInt (Z.of_nat (length body)))
      else if beq k (B "indent") then Some WNone
      else if beq k (B "encoding") then Some enc
      else if beq k (B "format") then Some (meta_fmt fmt) else None
  | WriteDiff _ dt enc _ =>
      if beq k (B "line_endings") then Some le_out
      else if beq k (B "length") then Some (WInt (Z.of_nat (length body)))
      else if beq k (B "indent") then Some WNone
      else if beq k (B "encoding") then Some enc
      else if beq k (B "type") then Some dt else None
  end.
Proof. exact RoundTripCor.call_opts_get. Qed.
Print Assumptions C01_call_opts.

(* the header the writer renders is one line that the reader's header parser maps to exactly [expected_opts] *)
Theorem C01_header_exact : forall valid dots name opts,
  dots <= 3 -> In name HeaderFacts.spec_names -> In (build_id dots name) valid ->
  NoDup (map fst opts) -> Forall WriterCanonFacts.good_opt opts -> Forall (fun kv => exact_value (snd kv)) opts ->
  exists r,
    render_header (build_id dots name) opts = Ok (("#"%byte :: r) ++ [x0a]) /\
    parse_header valid ("#"%byte :: r) = HOk dots name (build_id dots name) (expected_opts opts) /\
    ~ In lf ("#"%byte :: r) /\ ~ In x0d ("#"%byte :: r) /\
    (forall k, assoc_get beq k (expected_opts opts) =
               match assoc_get beq k opts with Some v => WriterCanonFacts.read_back v | None => None end).
Proof. exact RoundTripBase.header_rt. Qed.
Print Assumptions C01_header_exact.

(* ---- non-vacuity: three changes, six encodings (own and inherited), indentation, declared and guessed line
        endings; pydiffx writes the same 857 bytes and reads the same 15 sections ---- *)
Example C01_round_trip_ex :
  writer_init ex_enc0 ex_ver = (ex_s0, Ok tt) /\ enc_ok ex_enc0 /\
  Forall call_good ex_cs /\ accepted ex_s0 ex_cs /\ metas_oracle_ok ex_orc ex_s0 ex_cs /\ guesses_ok ex_s0 ex_cs /\
  oracle_ok ex_orc ex_cs /\
  (Z.of_nat (length (w_out (snd (run_calls ex_s0 ex_cs)))) <= sys_maxsize)%Z /\
  length (w_out (snd (run_calls ex_s0 ex_cs))) = 857 /\
  main_record ex_enc0 ex_ver :: expected_records ex_s0 1 ex_cs = ex_records /\
  read_all ex_orc 96 (w_out (snd (run_calls ex_s0 ex_cs))) = (ex_records, TEnd).
Proof. exact RoundTripSeqExample.C01_round_trip_ex. Qed.

Example C01_ex_calls :
  ex_cs =
  [ WritePreamble (WStr ex_text1) WNone None WNone (WStr (T "text/plain"));
    WriteMeta (WDict ex_j1) WNone None;
    NewChange (WStr (T "latin-1"));
    WritePreamble (WStr ex_text2) WNone (Some (WInt 2)) (WStr (T "dos")) WNone;
    NewFile WNone;
    WriteMeta (WDict ex_j2) (WStr (T "utf-16")) None;
    WriteDiff (WBytes (B "-a" ++ LF ++ B "+b")) (WStr (T "text")) WNone WNone;
    NewChange WNone;
    NewFile (WStr (T "utf-32-be"));
    WriteMeta (WDict ex_j3) WNone (Some (WStr (T "json")));
    NewChange (WStr (T "ascii"));
    NewFile WNone;
    WriteMeta (WDict ex_j4) WNone None;
    WriteDiff (WBytes ex_diff2) WNone (WStr (T "utf-16-le")) (WStr (T "dos")) ] /\
  ex_records =
  [ rec 0 0 "diffx" "diffx" [S_ "encoding" "utf-8"; S_ "version" "1.0"] PNone;
    rec 1 1 ".preamble" "preamble"
        [I_ "indent" 4; I_ "length" 21; S_ "line_endings" "unix"; S_ "mimetype" "text/plain"]
        (PText (ex_text1 ++ [10%N]));
    rec 1 4 ".meta" "meta" [S_ "format" "json"; I_ "length" 46] (PMeta ex_j1);
    rec 1 10 ".change" "change" [S_ "encoding" "latin-1"] PNone;
    rec 2 11 "..preamble" "preamble" [I_ "indent" 2; I_ "length" 8; S_ "line_endings" "dos"]
        (PText (ex_text2 ++ [13%N; 10%N]));
    rec 2 13 "..file" "file" [] PNone;
    rec 3 14 "...meta" "meta" [S_ "encoding" "utf-16"; S_ "format" "json"; I_ "length" 50] (PMeta ex_j2);
    rec 3 18 "...diff" "diff" [I_ "length" 6; S_ "line_endings" "unix"; S_ "type" "text"]
        (PBytes (B "-a" ++ LF ++ B "+b" ++ LF));
    rec 1 21 ".change" "change" [] PNone;
    rec 2 22 "..file" "file" [S_ "encoding" "utf-32-be"] PNone;
    rec 3 23 "...meta" "meta" [S_ "format" "json"; I_ "length" 176] (PMeta ex_j3);
    rec 1 28 ".change" "change" [S_ "encoding" "ascii"] PNone;
    rec 2 29 "..file" "file" [] PNone;
    rec 3 30 "...meta" "meta" [S_ "format" "json"; I_ "length" 24] (PMeta ex_j4);
    rec 3 34 "...diff" "diff" [S_ "encoding" "utf-16-le"; I_ "length" 6; S_ "line_endings" "dos"] (PBytes ex_diff2) ].
Proof. split; reflexivity. Qed.
