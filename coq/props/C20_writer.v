(* C20, second half, gap (a) of props/C20.v — "for UTF-8 writer outputs whose contents contain no `#.` sequence, the
   pygments DiffX lexer produces no error token and its header (Name.Tag) tokens are exactly the file's section
   headers": here for the outputs of the WRITER MODEL (Writer.v), no longer for an abstract grammar only.

   Statements only.  Definitions and proofs: theories/LexerWriterFacts.v (the writer side: [encodings_utf8],
   [contents_no_marker], [expected_headers], [doc_of_calls]) and theories/LexerWriterUtf.v (strict UTF-8 decoding
   cut after ASCII bytes; "#." is not created by appending a newline or by indenting with spaces).

   Route: C02_writer_is_spec (props/C02_spec.v) identifies the writer's output with the specification's serializer,
   i.e. with a concatenation of sections "header line ++ content"; each header line is ASCII without LF (every
   option value is in [A-Za-z0-9/._-]+), each content is valid UTF-8, non-empty, and its decoded text has no "#.";
   so the decoded file is [render_doc d] for the abstract document d = [doc_of_calls enc0 ver cs], which satisfies
   LexerHeaderFacts.wf_doc, and C20_headers_partial's proof ([headers_thm]) applies.

   Premises (besides those of C02_writer_is_spec: the constructor returned normally, [enc_ok] / [call_good]
   arguments, every call accepted):
   * [encodings_utf8 enc0 cs = true]: the constructor's encoding is a catalogue spelling of utf-8 (any of the 21 rows
     of GenCodecs.rows with canonical name utf-8: "utf-8", "UTF-8", "utf8", "U8", "cp65001", ...; NOT "utf-8-sig")
     and the encoding argument of every call is None or such a spelling;
   * [contents_no_marker cs = true], on the contents AS GIVEN: the preamble text has no "#."; the canonical JSON
     text ([json_dump]) of the metadata has no "#."; the diff bytes are valid UTF-8 and their decoded text has no
     "#.".  (A '#' ending a line followed by a line starting with '.' is fine: an LF, and under indentation spaces,
     intervene; a '#' ending a body is fine: the next character is the '#' of the next header.)
     The premise is needed: C20_writer_marker_needed.

   [wf_doc] did not have to be generalised: it only asks for an option text without LF and a non-empty body without
   "#."; CR LF line endings, indentation, non-ASCII text and a body ending in '#' are all inside it.

   STATUS: C20_writer_shape and C20_headers_writer are FULL for gap (a).  What remains of C20's second half is gap
   (b) only: tokens produced INSIDE JSON and diff bodies by pygments' JsonLexer / DiffLexer are not modelled (the
   statement is about the tokens of the DiffX-level rules: [hide] relabels the sub-lexer oracle's tokens), and the
   engine model = pygments and the codec model = CPython are validated by the `lex` / `codec` correspondence
   families, not proved. *)
From Coq Require Import List Arith NArith ZArith Bool Strings.Byte.
From Coq Require Strings.String.
From DX Require Import Bytes Res Codec Writer.
From DX Require Import RoundTripSim RoundTrip SpecSerializer.
From DX Require Lexer LexerFacts LexerHeaderFacts.
From DX Require Import LexerWriterFacts.
From DXGen Require GenLexer.
Import ListNotations.
Import String.StringSyntax.
Local Open Scope string_scope.
Local Open Scope list_scope.

(* the specification's serialization of utf-8 calls with "#."-free contents, decoded as UTF-8, is the rendering of the
   abstract document of the calls; the document is well-formed and its headers are the ones the calls determine *)
Theorem C20_spec_shape : forall enc0 ver cs out,
  encodings_utf8 enc0 cs = true -> contents_no_marker cs = true -> spec_serialize enc0 ver cs = Some out ->
  exists d, doc_of_calls enc0 ver cs = Some d /\ c_dec utf8 out = Some (LexerHeaderFacts.render_doc d) /\
            LexerHeaderFacts.wf_doc d /\ map LexerHeaderFacts.s_hdr d = expected_headers cs.
Proof. exact serialize_doc. Qed.
Print Assumptions C20_spec_shape.

(* every UTF-8 output of the writer whose contents contain no "#." has the shape C20_headers_partial is about *)
Theorem C20_writer_shape : forall enc0 ver s0 cs out,
  writer_init enc0 ver = (s0, Ok tt) -> enc_ok enc0 -> Forall call_good cs -> accepted s0 cs ->
  encodings_utf8 enc0 cs = true -> contents_no_marker cs = true ->
  w_out (snd (run_calls s0 cs)) = out ->
  exists t d, c_dec utf8 out = Some t /\ doc_of_calls enc0 ver cs = Some d /\
              LexerHeaderFacts.render_doc d = t /\ LexerHeaderFacts.wf_doc d /\
              map LexerHeaderFacts.s_hdr d = expected_headers cs.
Proof. exact C20_writer_shape_thm. Qed.
Print Assumptions C20_writer_shape.

(* ... so on it the lexer model produces no Error token and its Name.Tag tokens are exactly the section headers the
   calls determine, in order (tokens of the DiffX-level rules; any lossless total sub-lexer oracle) *)
Theorem C20_headers_writer : forall enc0 ver s0 cs out,
  writer_init enc0 ver = (s0, Ok tt) -> enc_ok enc0 -> Forall call_good cs -> accepted s0 cs ->
  encodings_utf8 enc0 cs = true -> contents_no_marker cs = true ->
  w_out (snd (run_calls s0 cs)) = out ->
  forall oracle, LexerFacts.oracle_lossless oracle -> (forall name txt, oracle name txt <> None) ->
  exists t toks, c_dec utf8 out = Some t /\
                 Lexer.lex_default (LexerHeaderFacts.hide oracle) GenLexer.rules t = Lexer.LOk toks /\
                 LexerHeaderFacts.tagvals toks = expected_headers cs /\ LexerHeaderFacts.errors toks = [].
Proof. exact C20_headers_writer_thm. Qed.
Print Assumptions C20_headers_writer.

(* hypotheses satisfiable on a non-trivial instance (LexerWriterFacts.ex_cs: seven calls; utf-8 spelled three ways,
   inherited and own; 2- and 3-byte characters; default and explicit indentation; detected and declared "dos" line
   endings; '#' at the end of a line before a line starting with '.', '#' at the very end of bodies): the 443 bytes
   written are [ex_out]; what the two theorems say for them; and the same obtained by running the models *)
Example C20_writer_example :
  writer_init ex_enc0 ex_ver = (ex_s0, Ok tt) /\ enc_ok ex_enc0 /\ Forall call_good ex_cs /\ accepted ex_s0 ex_cs /\
  encodings_utf8 ex_enc0 ex_cs = true /\ contents_no_marker ex_cs = true /\
  w_out (snd (run_calls ex_s0 ex_cs)) = ex_out /\
  expected_headers ex_cs = ex_headers /\
  c_dec utf8 ex_out = Some ex_text /\
  (exists d, doc_of_calls ex_enc0 ex_ver ex_cs = Some d /\ LexerHeaderFacts.render_doc d = ex_text /\
             LexerHeaderFacts.wf_doc d /\ map LexerHeaderFacts.s_hdr d = ex_headers) /\
  (exists toks, Lexer.lex_default (LexerHeaderFacts.hide LexerFacts.one_token_oracle) GenLexer.rules ex_text
                = Lexer.LOk toks /\
                LexerHeaderFacts.tagvals toks = ex_headers /\ LexerHeaderFacts.errors toks = []) /\
  (* computed *)
  option_map LexerHeaderFacts.render_doc (doc_of_calls ex_enc0 ex_ver ex_cs) = Some ex_text /\
  match Lexer.lex_default (LexerHeaderFacts.hide LexerFacts.one_token_oracle) GenLexer.rules ex_text with
  | Lexer.LOk toks => LexerHeaderFacts.tagvals toks = ex_headers /\ LexerHeaderFacts.errors toks = []
  | _ => False
  end.
Proof. exact writer_example. Qed.

(* the premise on the contents cannot be dropped: an accepted utf-8 program (one unindented preamble whose second
   line is "#.meta: x=1") for which the lexer's Name.Tag tokens are NOT the section headers *)
Theorem C20_writer_marker_needed :
  writer_init ex_enc0 ex_ver = (ex_s0, Ok tt) /\ enc_ok ex_enc0 /\ Forall call_good ex_bad_cs /\
  accepted ex_s0 ex_bad_cs /\ encodings_utf8 ex_enc0 ex_bad_cs = true /\ contents_no_marker ex_bad_cs = false /\
  exists t toks, c_dec utf8 (w_out (snd (run_calls ex_s0 ex_bad_cs))) = Some t /\
    Lexer.lex_default (LexerHeaderFacts.hide LexerFacts.one_token_oracle) GenLexer.rules t = Lexer.LOk toks /\
    expected_headers ex_bad_cs = map LexerFacts.ascii_text ["#diffx:"; "#.preamble:"] /\
    LexerHeaderFacts.tagvals toks = map LexerFacts.ascii_text ["#diffx:"; "#.preamble:"; "#.meta:"].
Proof. exact marker_needed. Qed.
Print Assumptions C20_writer_marker_needed.
