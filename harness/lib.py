"""Shared machinery for the checks: environment, S-expression wire format, building the Coq
development and the extracted model, running the model, evidence / replay / verdict output."""
import fcntl
import hashlib
import json
import os
import random
import re
import subprocess
import sys
import time

VERIF = os.path.dirname(os.path.dirname(os.path.abspath(__file__)))
REPO = '/repo'
COQ = os.path.join(VERIF, 'coq')
BUILD = os.path.join(VERIF, 'build')
WORK = os.path.join(VERIF, 'work')
MODEL_RUN = os.path.join(BUILD, 'model_run')
PY = '/venv/bin/python'
NPROC = min(16, os.cpu_count() or 4)

os.environ['PYTHONHASHSEED'] = os.environ.get('PYTHONHASHSEED', '0')
os.environ['PIP_NO_INDEX'] = '1'
sys.path.insert(0, os.path.join(REPO, 'python'))
import logging  # noqa: E402
logging.disable(logging.CRITICAL)    # pydiffx logs swallowed hunk-parser errors


def seed():
    try:
        return int(os.environ.get('VERIF_SEED', '0'))
    except ValueError:
        return 0


def rng_for(family):
    """One PRNG per family, derived from VERIF_SEED only, so that every run replays exactly."""
    h = hashlib.sha256(('%d/%s' % (seed(), family)).encode()).digest()
    return random.Random(int.from_bytes(h[:8], 'big'))


# ------------------------------------------------------------------ wire format
def H(b):
    return '#' + bytes(b).hex()


def T(s):
    return '(u #' + s.encode('utf-32-be', 'surrogatepass').hex() + ')'


def L(*items):
    return '(' + ' '.join(items) + ')'


def Lst(items):
    return '(' + ' '.join(items) + ')'


def Opt(x, f=lambda v: v):
    return 'none' if x is None else '(some ' + f(x) + ')'


def Bool(b):
    return 'true' if b else 'false'


def parse_sx(line):
    """Parse a wire line back into nested python lists / ('hex', bytes) / str symbols."""
    pos = 0
    n = len(line)

    def item():
        nonlocal pos
        while pos < n and line[pos] == ' ':
            pos += 1
        if line[pos] == '(':
            pos += 1
            out = []
            while True:
                while pos < n and line[pos] == ' ':
                    pos += 1
                if line[pos] == ')':
                    pos += 1
                    return out
                out.append(item())
        st = pos
        while pos < n and line[pos] not in ' ()':
            pos += 1
        tok = line[st:pos]
        if tok.startswith('#'):
            return ('hex', bytes.fromhex(tok[1:]))
        return tok
    return item()


# ------------------------------------------------------------------ building
class BuildResult(object):
    def __init__(self):
        self.translate_ok = True
        self.translate_msg = ''
        self.changed_gen = []
        self.failed_files = []     # .v files that failed to compile
        self.first_error = {}      # file -> first error text
        self.model_ok = True
        self.model_msg = ''
        self.wall = 0.0


def _run(cmd, cwd=None, timeout=1800, env=None):
    p = subprocess.run(cmd, cwd=cwd, stdout=subprocess.PIPE, stderr=subprocess.STDOUT, timeout=timeout,
                       env=env, universal_newlines=True, errors='replace')
    return p.returncode, p.stdout


def build(full=False):
    """Regenerate gen/*.v from /repo, make the Coq project (keep going), re-extract and recompile the model if needed."""
    t0 = time.time()
    res = BuildResult()
    os.makedirs(BUILD, exist_ok=True)
    os.makedirs(WORK, exist_ok=True)
    lock = open(os.path.join(BUILD, '.lock'), 'w')
    fcntl.flock(lock, fcntl.LOCK_EX)
    try:
        env = dict(os.environ, PYTHONPATH=os.path.join(REPO, 'python'), PYTHONHASHSEED='0')
        rc, out = _run([PY, os.path.join(VERIF, 'gen', 'translate.py')], env=env, timeout=600)
        if rc != 0:
            res.translate_ok = False
            res.translate_msg = out.strip()[-2000:]
        else:
            m = re.search(r'changed:(.*)', out)
            res.changed_gen = m.group(1).split() if m else []
        if not os.path.exists(os.path.join(COQ, 'Makefile')) or full:
            _run(['coq_makefile', '-f', '_CoqProject', '-o', 'Makefile'], cwd=COQ)
        if full:
            _run(['make', 'clean'], cwd=COQ)
        rc, out = _run(['timeout', '3000', 'make', '-k', '-j%d' % NPROC], cwd=COQ, timeout=3100)
        if rc != 0:
            cur = None
            for line in out.splitlines():
                m = re.match(r'File "\./([^"]+)", line', line)
                if m:
                    cur = m.group(1)
                    if cur not in res.failed_files:
                        res.failed_files.append(cur)
                        res.first_error[cur] = line
                elif cur and line.startswith('Error') and 'Error' not in res.first_error[cur]:
                    res.first_error[cur] += ' ' + line
                elif cur and res.first_error[cur].rstrip().endswith('Error:'):
                    res.first_error[cur] += ' ' + line.strip()
            for m in re.finditer(r"make.*\*\*\* \[[^\]]*?([\w/]+)\.vo\]", out):
                f = m.group(1) + '.v'
                if f not in res.failed_files:
                    res.failed_files.append(f)
                    res.first_error.setdefault(f, 'failed (dependency or error)')
            if not res.failed_files:
                res.failed_files.append('?')
                res.first_error['?'] = out[-1500:]
        # extracted model: rebuild if any model .vo is newer than the binary
        need = not os.path.exists(MODEL_RUN)
        if not need:
            mt = os.path.getmtime(MODEL_RUN)
            for d in ('theories', 'gen'):
                for f in os.listdir(os.path.join(COQ, d)):
                    if f.endswith('.vo') and os.path.getmtime(os.path.join(COQ, d, f)) > mt:
                        need = True
            for f in (os.path.join(VERIF, 'ocaml', 'driver.ml'), os.path.join(COQ, 'extract', 'Extract.v')):
                if os.path.getmtime(f) > mt:
                    need = True
        if need:
            rc, out = _run(['timeout', '600', 'coqc', '-Q', os.path.join(COQ, 'theories'), 'DX', '-Q',
                            os.path.join(COQ, 'gen'), 'DXGen', os.path.join(COQ, 'extract', 'Extract.v')], cwd=BUILD)
            if rc != 0 or not os.path.exists(os.path.join(BUILD, 'model.ml')):
                res.model_ok = False
                res.model_msg = out[-1500:]
            else:
                _run(['cp', os.path.join(VERIF, 'ocaml', 'driver.ml'), BUILD])
                rc, out = _run(['timeout', '600', 'ocamlfind', 'ocamlopt', '-O3', '-w', '-a', 'model.mli', 'model.ml',
                                'driver.ml', '-o', 'model_run.new'], cwd=BUILD)
                if rc != 0:
                    res.model_ok = False
                    res.model_msg = out[-1500:]
                else:
                    os.replace(os.path.join(BUILD, 'model_run.new'), MODEL_RUN)
    finally:
        fcntl.flock(lock, fcntl.LOCK_UN)
        lock.close()
    res.wall = time.time() - t0
    return res


def coq_deps(vfile):
    """Transitive .v dependencies (project-local) of a file, via coqdep."""
    rc, out = _run(['coqdep', '-f', '_CoqProject'], cwd=COQ)
    deps = {}
    for line in out.splitlines():
        if ':' not in line:
            continue
        lhs, rhs = line.split(':', 1)
        tgt = [t for t in lhs.split() if t.endswith('.vo')]
        if not tgt:
            continue
        deps[tgt[0][:-1]] = [d[:-1] for d in rhs.split() if d.endswith('.vo')]
    seen = set()
    stack = [vfile]
    while stack:
        f = stack.pop()
        if f in seen:
            continue
        seen.add(f)
        stack.extend(deps.get(f, []))
    return seen


def check_props(prop_id):
    """Re-run coqc on props/<id>.v to capture fresh Print Assumptions output.
    Returns (ok, theorems:list[str], assumptions_text, log)."""
    vfile = 'props/%s.v' % prop_id
    src = open(os.path.join(COQ, vfile)).read()
    theorems = re.findall(r'^\s*(?:Theorem|Corollary)\s+(\w+)', src, re.M)
    rc, out = _run(['timeout', '900', 'coqc', '-Q', 'theories', 'DX', '-Q', 'gen', 'DXGen', '-Q', 'props', 'DXProps',
                    vfile], cwd=COQ)
    return rc == 0, theorems, out, out


LINT_RE = re.compile(r'\b(Admitted|admit|Axiom|Parameter|Conjecture|Unset\s+Guard|bypass_check|Admit\s+Obligations'
                     r'|type-in-type|impredicative-set|Unset\s+Positivity|Unset\s+Universe)\b')


def lint():
    """Refuse axioms / admits anywhere in the development. Returns list of offending lines."""
    bad = []
    project = set(open(os.path.join(COQ, '_CoqProject')).read().split())
    for d in ('theories', 'props', 'extract', 'gen'):
        for f in sorted(os.listdir(os.path.join(COQ, d))):
            if not f.endswith('.v'):
                continue
            if d != 'extract' and ('%s/%s' % (d, f)) not in project:
                continue        # not part of the development (e.g. a file still being written)
            text = open(os.path.join(COQ, d, f)).read()
            text = re.sub(r'\(\*.*?\*\)', '', text, flags=re.S)
            depth = 0
            for i, line in enumerate(text.splitlines(), 1):
                if LINT_RE.search(line):
                    bad.append('%s/%s:%d: %s' % (d, f, i, line.strip()))
                if re.match(r'\s*Section\b', line):
                    depth += 1
                if re.match(r'\s*End\b', line) and depth:
                    depth -= 1
                if depth == 0 and re.match(r'\s*(Variable|Variables|Hypothesis|Hypotheses|Context)\b', line):
                    bad.append('%s/%s:%d: %s (outside a section)' % (d, f, i, line.strip()))
    proj = open(os.path.join(COQ, '_CoqProject')).read()
    if re.search(r'type-in-type|impredicative-set', proj):
        bad.append('_CoqProject passes a forbidden flag')
    return bad


# ------------------------------------------------------------------ running the model
def run_model(lines, shards=None):
    """Run the extracted model on the given case lines; returns the output lines (same order)."""
    if not lines:
        return []
    shards = shards or min(NPROC, max(1, len(lines) // 50))
    chunks = [lines[i::shards] for i in range(shards)]
    procs = []
    for ch in chunks:
        p = subprocess.Popen(['bash', '-c', 'ulimit -s 4000000 2>/dev/null; exec timeout -s KILL %d "$0"'
                              % int(os.environ.get('VERIF_MODEL_TIMEOUT', '1500')), MODEL_RUN],
                             stdin=subprocess.PIPE, stdout=subprocess.PIPE, stderr=subprocess.DEVNULL)
        procs.append(p)
    import threading
    outs = [None] * shards

    def feed(i):
        data = ('\n'.join(chunks[i]) + '\n').encode('ascii')
        o, _ = procs[i].communicate(data)
        outs[i] = o.decode('ascii', 'replace').splitlines()
    ths = [threading.Thread(target=feed, args=(i,)) for i in range(shards)]
    for t in ths:
        t.start()
    for t in ths:
        t.join()
    res = [None] * len(lines)
    for i in range(shards):
        got = outs[i]
        if len(got) != len(chunks[i]):
            got = got + ['(driver-error missing-output)'] * (len(chunks[i]) - len(got))
        for j, o in enumerate(got):
            res[i + j * shards] = o
    return res


# ------------------------------------------------------------------ known findings
def load_known_findings():
    p = os.path.join(VERIF, 'known_findings.json')
    try:
        with open(p) as f:
            return json.load(f).get('findings', [])
    except FileNotFoundError:
        return []


# ------------------------------------------------------------------ verdict
def write_replay(prop_id, payload):
    os.makedirs(os.path.join(VERIF, 'replays'), exist_ok=True)
    text = json.dumps(payload, indent=1, sort_keys=True, default=repr)
    h = hashlib.sha256(text.encode()).hexdigest()[:12]
    path = os.path.join(VERIF, 'replays', '%s-%s.json' % (prop_id, h))
    with open(path, 'w') as f:
        f.write(text + '\n')
    return path


def write_evidence(prop_id, ev):
    os.makedirs(os.path.join(VERIF, 'evidence'), exist_ok=True)
    path = os.path.join(VERIF, 'evidence', '%s.json' % prop_id)
    tmp = path + '.tmp'
    with open(tmp, 'w') as f:
        json.dump(ev, f, indent=1, sort_keys=True, default=repr)
        f.write('\n')
    os.replace(tmp, path)
    return path
