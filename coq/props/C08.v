(* C08 — Reader error contract: any bytes give records or a positioned parse error.
   Statements are modulo the two model artefacts EUnmodelled (the input names a text codec CPython knows and the model
   does not execute; the harness discards such inputs) and EOracleMiss (no json.loads answer recorded for the case;
   the harness always records one).

   C08_message: the model carries no message strings; DiffXParseError.__init__ builds the message prefix from its
   linenum / column arguments alone, so "the message agrees with the attributes" is a property of that constructor and
   is checked by the harness oracle on every fuzz case. No theorem.
   "A stream handed over for loading is closed whether loading succeeds or fails" is the `with stream:` bracket of
   DiffXDOMReader; Dom.dom_read is a function of the bytes and has no stream object, so this too is observed by the
   harness (stream.closed) and has no theorem. *)
From Coq Require Import List Arith ZArith Strings.Byte.
From Coq Require Strings.String.
From DX Require Import Bytes Res Header Stream Json Reader StreamFacts Dom ReaderFacts.
Import ListNotations.
Import String.StringSyntax.
Local Open Scope string_scope.
Local Open Scope list_scope.

(* The iteration terminates: the fuel S (length data) the model gives the loop of iter_sections is never exhausted
   (every yielded section consumes at least one byte; the blank-line loop of _read_header likewise). *)
Theorem C08_total : forall orc chunk data, 0 < chunk -> snd (read_all orc chunk data) <> TFuel.
Proof. exact C08_total_proof. Qed.
Print Assumptions C08_total.

(* No exception type other than DiffXParseError escapes the iterator (no TypeError, LookupError, UnicodeDecodeError,
   AssertionError, IndexError, KeyError, ValueError ...). *)
Theorem C08_no_other_exception : forall orc chunk data e, 0 < chunk ->
  snd (read_all orc chunk data) = TExc e -> e = EUnmodelled \/ e = EOracleMiss.
Proof. exact C08_no_other_exception_proof. Qed.
Print Assumptions C08_no_other_exception.

(* The line number of the parse error lies within the input: 0 <= linenum <= len(data) (the form the oracle checks). *)
Theorem C08_linenum : forall orc chunk data l c, 0 < chunk ->
  snd (read_all orc chunk data) = TParse l c -> (0 <= l)%Z /\ (l <= Z.of_nat (List.length data))%Z.
Proof. exact C08_linenum_proof. Qed.
Print Assumptions C08_linenum.

(* The three together, as one classification of how the iteration can end. *)
Theorem C08_contract : forall orc chunk data, 0 < chunk ->
  let t := snd (read_all orc chunk data) in
  t = TEnd \/ (exists l c, t = TParse l c /\ (0 <= l <= Z.of_nat (List.length data))%Z) \/
  t = TExc EUnmodelled \/ t = TExc EOracleMiss.
Proof. exact C08_contract_proof. Qed.
Print Assumptions C08_contract.

(* Progress: at every state reachable in a run, a yielded section has consumed at least one byte. *)
Theorem C08_progress : forall orc chunk data st valid encs prev r st' valid' encs' prev',
  0 < chunk -> reachable orc chunk data st valid encs prev ->
  iter_step orc chunk st valid encs prev = SYield r st' valid' encs' prev' ->
  List.length (remaining (st_stream st')) < List.length (remaining (st_stream st)).
Proof. exact iter_step_progress. Qed.
Print Assumptions C08_progress.

(* At every reachable state the line counter is at most the number of bytes consumed so far. *)
Theorem C08_linenum_invariant : forall orc chunk data st valid encs prev,
  0 < chunk -> reachable orc chunk data st valid encs prev ->
  (0 <= st_linenum st <= Z.of_nat (s_pos (st_stream st)))%Z /\ s_pos (st_stream st) <= List.length data.
Proof. exact reachable_linenum. Qed.
Print Assumptions C08_linenum_invariant.

(* The sharper reading: the line number is at most the number of LF bytes of the input, i.e. it is the 0-based index
   of a physical line of the input (an unterminated last line counted). Every header line ends with LF; a content is
   accepted only if its raw bytes end with the section's newline, so each counted content line ends with that
   newline, and every newline of the codec catalogue contains an LF byte (table fact, by computation). Holds for
   every chunk size (with chunk = 0 nothing is read). This was false (C08_linenum_lf_refuted) while the newline test
   was made only after the indentation had been stripped; the former witness is ReaderFacts.lf_witness. *)
Theorem C08_linenum_lines : forall orc chunk data l c,
  snd (read_all orc chunk data) = TParse l c -> (l <= Z.of_nat (count_lf data))%Z.
Proof. exact C08_linenum_lines_proof. Qed.
Print Assumptions C08_linenum_lines.

(* the bound is attained (unterminated content "ab" on physical line 2 of an input with 2 LF bytes), and the former
   counter-example is now rejected on its line 2 *)
Example C08_linenum_lines_ex :
  snd (read_all [] 96 (ex_main_hdr ++ B "#.preamble: length=2" ++ ex_nl ++ B "ab")) = TParse 2 None /\
  count_lf (ex_main_hdr ++ B "#.preamble: length=2" ++ ex_nl ++ B "ab") = 2 /\
  snd (read_all [] default_chunk lf_witness) = TParse 2 None /\ count_lf lf_witness = 4.
Proof. repeat split; vm_compute; reflexivity. Qed.

(* DOM half: loading any bytes into the object model fails only with errors of the library's own family
   (DiffXParseError and the option/content/order errors). *)
Theorem C08_dom : forall orc data e, dom_read orc data = Err e ->
  is_lib_error e = true \/ e = EUnmodelled \/ e = EOracleMiss.
Proof. exact C08_dom_proof. Qed.
Print Assumptions C08_dom.

(* ---- non-vacuity: concrete inputs for every way of ending ---- *)
Example C08_examples :
  (* a well-formed file *)
  snd (read_all ex_orc 96 ex_file) = TEnd /\ List.length (fst (read_all ex_orc 96 ex_file)) = 6 /\
  (* length=abc: parse error on the header's line *)
  snd (read_all [] 96 (ex_main_hdr ++ B "#.preamble: length=abc" ++ ex_nl)) = TParse 1 None /\
  (* unknown codec: LookupError caught, parse error on the first content line *)
  snd (read_all [] 96 (B "#diffx: version=1.0, encoding=nope" ++ ex_nl ++ B "#.preamble: length=2" ++ ex_nl ++ B "a" ++ ex_nl))
    = TParse 2 None /\
  (* undecodable content: UnicodeDecodeError caught *)
  snd (read_all [] 96 (B "#diffx: version=1.0, encoding=utf-8" ++ ex_nl ++ B "#.preamble: length=2" ++ ex_nl ++ [xff] ++ ex_nl))
    = TParse 2 None /\
  (* an invalid option key: column reported *)
  snd (read_all [] 96 (B "#diffx: version=1.0, 1a=b" ++ ex_nl)) = TParse 0 (Some 21%Z) /\
  (* random bytes *)
  snd (read_all [] 96 [x01; xff; x0a; x23; x00]) = TParse 0 None /\
  (* a section out of order *)
  snd (read_all [] 96 (ex_main_hdr ++ B "#..file:" ++ ex_nl)) = TParse 1 None /\
  (* the empty input and a blank input *)
  read_all [] 96 [] = ([], TEnd) /\ read_all [] 96 (ex_nl ++ ex_nl) = ([], TEnd) /\
  (* the two artefacts do occur, so the theorems cannot be stated without them *)
  snd (read_all [] 96 (B "#diffx: version=1.0, encoding=cp037" ++ ex_nl ++ B "#.preamble: length=2" ++ ex_nl ++ B "a" ++ ex_nl))
    = TExc EUnmodelled /\
  snd (read_all [] 96 (ex_main_hdr ++ B "#.meta: length=3, format=json" ++ ex_nl ++ B "{}" ++ ex_nl)) = TExc EOracleMiss.
Proof. repeat (match goal with |- _ /\ _ => split; [vm_compute; reflexivity|] end). vm_compute; reflexivity. Qed.

Example C08_dom_examples :
  (* a preamble left as bytes (no encoding in force) cannot be stored: TypeError -> DiffXParseError *)
  dom_read [] (ex_main_hdr ++ B "#.preamble: length=2" ++ ex_nl ++ B "a" ++ ex_nl) = Err ELibParse /\
  (* a non-string encoding on a container: DiffXOptionValueError *)
  dom_read [] (ex_main_hdr ++ B "#.change: encoding=1" ++ ex_nl) = Err ELibOptionValue /\
  (* an unknown container option: DiffXUnknownOptionError *)
  dom_read [] (ex_main_hdr ++ B "#.change: zzz=1" ++ ex_nl) = Err ELibUnknownOption /\
  (* a reader parse error is passed on *)
  dom_read [] (ex_main_hdr ++ B "#..file:" ++ ex_nl) = Err ELibParse /\
  (* metadata that is not an object *)
  dom_read [("s"%byte :: B "[1]" ++ ex_nl, LoadsOk (JList [JInt 1]))]
           (B "#diffx: version=1.0, encoding=utf-8" ++ ex_nl ++ B "#.meta: length=4, format=json" ++ ex_nl ++ B "[1]" ++ ex_nl)
    = Err ELibParse /\
  (* and a file that loads *)
  match dom_read ex_orc ex_file with Ok t => List.length (d_changes t) = 1 | Err _ => False end.
Proof. repeat (match goal with |- _ /\ _ => split; [vm_compute; reflexivity|] end). vm_compute; reflexivity. Qed.
