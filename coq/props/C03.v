(* C03 — "the reader yields exactly what the spec says".  Proofs: theories/ReaderSpecFacts.v.

   Status.
   Part A (rejection) is proved in full for one iteration of iter_sections and lifted to iter_loop / read_all:
     each defect of the catalogue (unsupported or missing version, missing length, format other than json, unknown
     line_endings value, content not ending in its newline, invalid JSON) makes the iteration that read the
     offending header raise DiffXParseError; the iteration yields nothing; the records of the sections before it
     are yielded unchanged (C03_defect_read_all); the error's line is the offending header's line or the line
     after it, i.e. inside the offending section (C03_error_line_in_section, for EVERY parse error).
   Part B (acceptance) is per section: C03_container_ok is complete for container sections;
     C03_content_ok_partial takes the success of _read_content as a hypothesis and C03_read_content_ok says
     what that success means (declared number of bytes, split on the declared or detected newline, indentation
     stripped before decoding, bytes for diffs, content ends with its newline, line counter).
     MISSING for the design's C03_reads_spec: the AST of well-formed files with render_foreign / spec_records and
     the induction over its sections, i.e. deriving [content_call ... = COk ...] from a syntactic well-formedness
     of the rendered content (needs the codec round trip and split_lines/concat facts for every codec).
   Part C: CRLF header lines (C03_crlf_headers); blank lines (C03_blank_lines_skipped, _nonblank, _bytes). *)
From Coq Require Import List Arith NArith ZArith Bool Strings.Byte.
From Coq Require Strings.String.
From DX Require Import Bytes Res Codec Text Sections Header Stream Json Reader SectionsSpec StreamFacts SectionsFacts
                       ReaderSpecFacts.
From DXGen Require GenSections GenText.
Import ListNotations.
Import String.StringSyntax.
Local Open Scope string_scope.
Local Open Scope list_scope.

(* In all statements: [read_header chunk valid st = HdrOk level name id opts line st1] says that _read_header
   accepted the section's header; then line = st_linenum st (the header's own 0-based logical line) and
   st_linenum st1 = line + 1. *)
Theorem C03_header_lines : forall chunk valid st level name id opts line st1,
  read_header chunk valid st = HdrOk level name id opts line st1 ->
  line = st_linenum st /\ st_linenum st1 = (line + 1)%Z.
Proof. exact read_header_lines. Qed.
Print Assumptions C03_header_lines.

(* in every state the loop can be in the encoding stack is not empty (hypothesis [top encs = Some inh] below) *)
Theorem C03_stack_nonempty : forall valid encs prev, step_inv valid encs prev -> exists inh, top encs = Some inh.
Proof. exact step_inv_top. Qed.
Print Assumptions C03_stack_nonempty.

(* ================================================================================================= *)
(* A. the defect catalogue                                                                            *)
(* ================================================================================================= *)

(* ---- A.1 unsupported or missing version ---- *)
Theorem C03_bad_version : forall orc chunk st valid encs prev level name opts line st1,
  read_header chunk valid st = HdrOk level name GenSections.sec_main opts line st1 ->
  version_ok opts = false ->
  iter_step orc chunk st valid encs prev = SParse line None.
Proof. exact bad_version. Qed.
Print Assumptions C03_bad_version.

Theorem C03_bad_version_cases : forall opts,
  version_ok opts = false <->
  (opt_get "version" opts = None \/
   (exists z, opt_get "version" opts = Some (VInt z)) \/
   (exists v, opt_get "version" opts = Some (VStr v) /\ in_ids v GenText.versions = false)).
Proof. exact version_bad_cases. Qed.
Print Assumptions C03_bad_version_cases.

Example C03_bad_version_ex :
  (exists st1, read_header 96 [GenSections.sec_main] (init_state c03_bad_version) =
     HdrOk 0 (B "diffx") GenSections.sec_main [(B "encoding", VStr (B "utf-8")); (B "version", VStr (B "2.0"))] 0 st1) /\
  version_ok [(B "encoding", VStr (B "utf-8")); (B "version", VStr (B "2.0"))] = false /\
  read_all [] 96 c03_bad_version = ([], TParse 0 None) /\
  read_all [] 96 c03_no_version = ([], TParse 0 None) /\       (* no version option *)
  read_all [] 96 c03_int_version = ([], TParse 0 None).        (* version=1 is converted to an integer *)
Proof. split; [eexists; vm_compute; reflexivity|]. vm_compute. repeat split; reflexivity. Qed.

(* ---- A.2 missing length ---- *)
Theorem C03_missing_length : forall orc chunk st valid encs prev level name id opts line st1 inh,
  read_header chunk valid st = HdrOk level name id opts line st1 ->
  is_content id = true -> top encs = Some inh ->
  opt_get "length" opts = None ->
  iter_step orc chunk st valid encs prev = SParse line None.
Proof. exact missing_length. Qed.
Print Assumptions C03_missing_length.

(* diffx, .change yielded; "#..meta: format=json" on line 2 has no length *)
Example C03_missing_length_ex :
  exists rs st2 v2 e2 p2 level name id opts st1 inh,
    run [] 96 (init_state c03_missing_length) [GenSections.sec_main] [None] 0 rs st2 v2 e2 p2 /\
    map r_id rs = [B "diffx"; B ".change"] /\
    read_header 96 v2 st2 = HdrOk level name id opts 2 st1 /\
    is_content id = true /\ top e2 = Some inh /\ opt_get "length" opts = None /\
    read_all [] 96 c03_missing_length = (rs, TParse 2 None).
Proof. do 11 eexists. split; [apply (run_n_run 2); vm_compute; reflexivity|]. ex_conj. Qed.

(* ---- A.3 format other than json ---- *)
Theorem C03_format_not_json : forall orc chunk st valid encs prev level name id opts line st1 inh,
  read_header chunk valid st = HdrOk level name id opts line st1 ->
  is_meta id = true -> top encs = Some inh ->
  fmt_ok opts = false ->
  iter_step orc chunk st valid encs prev = SParse line None.
Proof. exact format_not_json. Qed.
Print Assumptions C03_format_not_json.

Theorem C03_format_not_json_cases : forall opts,
  fmt_ok opts = false <->
  ((exists s, opt_get "format" opts = Some (VStr s) /\ beq s (B "json") = false) \/
   (exists z, opt_get "format" opts = Some (VInt z))).
Proof. exact fmt_bad_cases. Qed.
Print Assumptions C03_format_not_json_cases.

Example C03_format_not_json_ex :
  exists rs st2 v2 e2 p2 level name id opts st1 inh,
    run [] 96 (init_state c03_format_yaml) [GenSections.sec_main] [None] 0 rs st2 v2 e2 p2 /\
    map r_id rs = [B "diffx"] /\
    read_header 96 v2 st2 = HdrOk level name id opts 1 st1 /\
    is_meta id = true /\ top e2 = Some inh /\ opt_get "format" opts = Some (VStr (B "yaml")) /\ fmt_ok opts = false /\
    read_all [] 96 c03_format_yaml = (rs, TParse 1 None).
Proof. do 11 eexists. split; [apply (run_n_run 1); vm_compute; reflexivity|]. ex_conj. Qed.

(* ---- A.4 unknown line_endings value: the error is on the line after the header ---- *)
Theorem C03_unknown_line_endings : forall orc chunk st valid encs prev level name id opts line st1 k inh len le,
  read_header chunk valid st = HdrOk level name id opts line st1 ->
  is_content id = true -> kind_of id = Some k ->
  top encs = Some inh ->
  opt_get "length" opts = Some (VInt len) -> (0 < len)%Z -> remaining (st_stream st1) <> [] ->
  (k = KMeta -> fmt_ok opts = true) ->
  enc_valid (encoding_of k opts inh) -> indent_valid (indent_of k opts) ->
  opt_get "line_endings" opts = Some (VStr le) -> assoc_get beq le GenText.newline_formats = None ->
  iter_step orc chunk st valid encs prev = SParse (line + 1)%Z None.
Proof. exact unknown_line_endings_str. Qed.
Print Assumptions C03_unknown_line_endings.

(* the same for any value that is not a key of NEWLINE_FORMATS, e.g. an integer (line_endings=1, and since pydiffx
   fix D19 also line_endings=0) *)
Theorem C03_unknown_line_endings_gen : forall orc chunk st valid encs prev level name id opts line st1 k inh len,
  read_header chunk valid st = HdrOk level name id opts line st1 ->
  is_content id = true -> kind_of id = Some k ->
  top encs = Some inh ->
  opt_get "length" opts = Some (VInt len) -> (0 < len)%Z -> remaining (st_stream st1) <> [] ->
  (k = KMeta -> fmt_ok opts = true) ->
  enc_valid (encoding_of k opts inh) -> indent_valid (indent_of k opts) ->
  le_unknown (opt_get "line_endings" opts) ->
  iter_step orc chunk st valid encs prev = SParse (line + 1)%Z None.
Proof. exact unknown_line_endings. Qed.
Print Assumptions C03_unknown_line_endings_gen.

(* every content section is a preamble, a metadata section or the diff *)
Theorem C03_content_kind : forall id, is_content id = true -> exists k, kind_of id = Some k.
Proof. exact content_kind. Qed.
Print Assumptions C03_content_kind.

Example C03_unknown_line_endings_ex :
  exists rs st2 v2 e2 p2 level name id opts st1 inh,
    run [] 96 (init_state c03_le_mac) [GenSections.sec_main] [None] 0 rs st2 v2 e2 p2 /\
    map r_id rs = [B "diffx"] /\
    read_header 96 v2 st2 = HdrOk level name id opts 1 st1 /\
    is_content id = true /\ kind_of id = Some KPreamble /\ top e2 = Some inh /\
    opt_get "length" opts = Some (VInt 3) /\ nonempty (remaining (st_stream st1)) = true /\
    encoding_of KPreamble opts inh = Some (VStr (B "utf-8")) /\ indent_bad (indent_of KPreamble opts) = false /\
    opt_get "line_endings" opts = Some (VStr (B "mac")) /\
    assoc_get beq (B "mac") GenText.newline_formats = None /\
    read_all [] 96 c03_le_mac = (rs, TParse 2 None).
Proof. do 11 eexists. split; [apply (run_n_run 1); vm_compute; reflexivity|]. ex_conj. Qed.

(* ---- A.5 content not ending in its newline ---- *)
Theorem C03_no_final_newline_bytes : forall st len enc ind le keep newline lines,
  is_nil (content_bytes st len) = false -> enc_valid enc -> indent_valid ind ->
  nl_res_of le (enc_name enc) (content_bytes st len) = Ok newline ->
  split_lines (content_bytes st len) newline true = Ok lines ->
  enc_name enc = None \/ keep = true ->
  bends newline (strip_indent ind (content_bytes st len) lines) = false ->
  read_content st len enc ind le keep = CParse (st_linenum st).
Proof. exact no_final_newline_bytes. Qed.
Print Assumptions C03_no_final_newline_bytes.

Theorem C03_no_final_newline_text : forall st len e ind le newline lines t nlt,
  is_nil (content_bytes st len) = false -> indent_valid ind ->
  nl_res_of le (Some e) (content_bytes st len) = Ok newline ->
  split_lines (content_bytes st len) newline true = Ok lines ->
  py_decode (strip_indent ind (content_bytes st len) lines) e = Ok t ->
  py_decode newline e = Ok nlt ->
  suffixb N.eqb nlt t = false ->
  read_content st len (Some (VStr e)) ind le false = CParse (st_linenum st).
Proof. exact no_final_newline_text. Qed.
Print Assumptions C03_no_final_newline_text.

(* the bytes read must themselves end with the newline, before indentation is stripped and before decoding *)
Theorem C03_no_final_newline_raw : forall st len enc ind le keep newline lines,
  is_nil (content_bytes st len) = false -> enc_valid enc -> indent_valid ind ->
  nl_res_of le (enc_name enc) (content_bytes st len) = Ok newline ->
  split_lines (content_bytes st len) newline true = Ok lines ->
  bends newline (content_bytes st len) = false ->
  read_content st len enc ind le keep = CParse (st_linenum st).
Proof. exact no_final_newline_raw. Qed.
Print Assumptions C03_no_final_newline_raw.

(* lifted to the iteration: DiffXParseError on the line after the header *)
Theorem C03_no_final_newline : forall orc chunk st valid encs prev level name id opts line st1 k inh len,
  read_header chunk valid st = HdrOk level name id opts line st1 ->
  is_content id = true -> kind_of id = Some k ->
  top encs = Some inh ->
  opt_get "length" opts = Some (VInt len) -> (0 <= len)%Z ->
  (k = KMeta -> fmt_ok opts = true) ->
  content_call k st1 len opts inh = CParse (st_linenum st1) ->
  iter_step orc chunk st valid encs prev = SParse (line + 1)%Z None.
Proof. exact no_final_newline_step. Qed.
Print Assumptions C03_no_final_newline.

Theorem C03_content_call : forall k st1 len opts inh,
  content_call k st1 len opts inh =
  read_content st1 len (encoding_of k opts inh) (indent_of k opts) (opt_get "line_endings" opts) (keep_of k).
Proof. exact content_call_eq. Qed.
Print Assumptions C03_content_call.

(* four sections yielded, then "#...diff: length=5" on line 5 whose 5 bytes "-a\n+b" lack the final newline *)
Example C03_no_final_newline_ex :
  exists rs st2 v2 e2 p2 level name id opts st1 inh,
    run c03_empty_obj_orc 96 (init_state c03_no_final_nl) [GenSections.sec_main] [None] 0 rs st2 v2 e2 p2 /\
    map r_id rs = [B "diffx"; B ".change"; B "..file"; B "...meta"] /\
    read_header 96 v2 st2 = HdrOk level name id opts 5 st1 /\
    is_content id = true /\ kind_of id = Some KDiff /\ top e2 = Some inh /\
    opt_get "length" opts = Some (VInt 5) /\
    content_bytes st1 5 = B "-a" ++ c03_nl ++ B "+b" /\
    encoding_of KDiff opts inh = None /\
    nl_res_of (opt_get "line_endings" opts) None (content_bytes st1 5) = Ok c03_nl /\
    split_lines (content_bytes st1 5) c03_nl true = Ok [B "-a" ++ c03_nl; B "+b"] /\
    bends c03_nl (strip_indent None (content_bytes st1 5) [B "-a" ++ c03_nl; B "+b"]) = false /\
    content_call KDiff st1 5 opts inh = CParse (st_linenum st1) /\
    read_all c03_empty_obj_orc 96 c03_no_final_nl = (rs, TParse 6 None).
Proof. do 11 eexists. split; [apply (run_n_run 4); vm_compute; reflexivity|]. ex_conj. Qed.

(* text case: "#.preamble: length=2" + "ab": decoded content "ab" does not end with the decoded newline *)
Example C03_no_final_newline_text_ex :
  exists rs st2 v2 e2 p2 level name id opts st1 inh,
    run [] 96 (init_state c03_no_final_nl_text) [GenSections.sec_main] [None] 0 rs st2 v2 e2 p2 /\
    read_header 96 v2 st2 = HdrOk level name id opts 1 st1 /\
    kind_of id = Some KPreamble /\ top e2 = Some inh /\
    encoding_of KPreamble opts inh = Some (VStr (B "utf-8")) /\
    content_bytes st1 2 = B "ab" /\
    nl_res_of (opt_get "line_endings" opts) (Some (B "utf-8")) (content_bytes st1 2) = Ok c03_nl /\
    split_lines (content_bytes st1 2) c03_nl true = Ok [B "ab"] /\
    py_decode (strip_indent (indent_of KPreamble opts) (content_bytes st1 2) [B "ab"]) (B "utf-8") = Ok [97; 98]%N /\
    py_decode c03_nl (B "utf-8") = Ok [10]%N /\
    suffixb N.eqb [10]%N [97; 98]%N = false /\
    read_all [] 96 c03_no_final_nl_text = (rs, TParse 2 None).
Proof. do 11 eexists. split; [apply (run_n_run 1); vm_compute; reflexivity|]. ex_conj. Qed.

(* raw case: "#.preamble: indent=2, length=4" + "a\n  ": the stripped, decoded content "a\n" ends with the newline,
   the bytes read do not *)
Example C03_no_final_newline_raw_ex :
  exists rs st2 v2 e2 p2 level name id opts st1 inh,
    run [] 96 (init_state c03_no_final_nl_raw) [GenSections.sec_main] [None] 0 rs st2 v2 e2 p2 /\
    read_header 96 v2 st2 = HdrOk level name id opts 1 st1 /\
    kind_of id = Some KPreamble /\ top e2 = Some inh /\
    encoding_of KPreamble opts inh = Some (VStr (B "utf-8")) /\
    indent_of KPreamble opts = Some (VInt 2) /\
    content_bytes st1 4 = B "a" ++ c03_nl ++ B "  " /\
    nl_res_of (opt_get "line_endings" opts) (Some (B "utf-8")) (content_bytes st1 4) = Ok c03_nl /\
    split_lines (content_bytes st1 4) c03_nl true = Ok [B "a" ++ c03_nl; B "  "] /\
    strip_indent (indent_of KPreamble opts) (content_bytes st1 4) [B "a" ++ c03_nl; B "  "] = B "a" ++ c03_nl /\
    bends c03_nl (content_bytes st1 4) = false /\
    read_all [] 96 c03_no_final_nl_raw = (rs, TParse 2 None).
Proof. do 11 eexists. split; [apply (run_n_run 1); vm_compute; reflexivity|]. ex_conj. Qed.

(* ---- A.6 invalid JSON (json.loads raised ValueError, or RecursionError) ---- *)
Theorem C03_invalid_json : forall orc chunk st valid encs prev level name id opts line st1 inh len p st2 a,
  read_header chunk valid st = HdrOk level name id opts line st1 ->
  is_meta id = true -> top encs = Some inh ->
  opt_get "length" opts = Some (VInt len) -> (0 <= len)%Z -> fmt_ok opts = true ->
  content_call KMeta st1 len opts inh = COk p st2 ->
  assoc_get beq (oracle_key p) orc = Some a -> a = LoadsValueError \/ a = LoadsRecursion ->
  iter_step orc chunk st valid encs prev = SParse line None.
Proof. exact invalid_json. Qed.
Print Assumptions C03_invalid_json.

Example C03_invalid_json_ex :
  exists rs st2 v2 e2 p2 level name id opts st1 inh p st3,
    run c03_bad_json_orc 96 (init_state c03_bad_json) [GenSections.sec_main] [None] 0 rs st2 v2 e2 p2 /\
    map r_id rs = [B "diffx"] /\
    read_header 96 v2 st2 = HdrOk level name id opts 1 st1 /\
    is_meta id = true /\ top e2 = Some inh /\
    opt_get "length" opts = Some (VInt 3) /\ fmt_ok opts = true /\
    content_call KMeta st1 3 opts inh = COk p st3 /\
    p = PText [123; 120; 10]%N /\
    assoc_get beq (oracle_key p) c03_bad_json_orc = Some LoadsValueError /\
    read_all c03_bad_json_orc 96 c03_bad_json = (rs, TParse 1 None).
Proof. do 13 eexists. split; [apply (run_n_run 1); vm_compute; reflexivity|]. ex_conj. Qed.

(* ---- the whole iteration ---- *)
Theorem C03_iter_loop_prefix : forall fuel orc chunk st valid encs prev acc rs t,
  iter_loop fuel orc chunk st valid encs prev acc = (rs, t) -> exists new, rs = rev acc ++ new.
Proof. exact iter_loop_prefix. Qed.
Print Assumptions C03_iter_loop_prefix.

Theorem C03_iter_loop_parse : forall fuel orc chunk st valid encs prev acc l c,
  iter_step orc chunk st valid encs prev = SParse l c ->
  iter_loop (S fuel) orc chunk st valid encs prev acc = (rev acc, TParse l c).
Proof. exact iter_loop_parse. Qed.
Print Assumptions C03_iter_loop_parse.

Theorem C03_defect_after_prefix : forall orc chunk st v e p rs st2 v2 e2 p2 l c fuel acc,
  run orc chunk st v e p rs st2 v2 e2 p2 ->
  iter_step orc chunk st2 v2 e2 p2 = SParse l c ->
  List.length rs < fuel ->
  iter_loop fuel orc chunk st v e p acc = (rev acc ++ rs, TParse l c).
Proof. exact defect_after_prefix. Qed.
Print Assumptions C03_defect_after_prefix.

(* the k sections before the defective one are yielded unchanged, the defective one is not, the iterator raises
   DiffXParseError at the defective section's header line or the line after it *)
Theorem C03_defect_read_all : forall orc chunk data rs st2 v2 e2 p2 l c,
  0 < chunk ->
  run orc chunk (init_state data) [GenSections.sec_main] [None] 0 rs st2 v2 e2 p2 ->
  iter_step orc chunk st2 v2 e2 p2 = SParse l c ->
  read_all orc chunk data = (rs, TParse l c) /\
  (st_linenum st2 <= l <= st_linenum st2 + 1)%Z /\ step_inv v2 e2 p2.
Proof. exact defect_read_all. Qed.
Print Assumptions C03_defect_read_all.

(* ---- A.7 the line number designates the offending section: for EVERY parse error of an iteration ---- *)
Theorem C03_error_line_in_section : forall orc chunk st valid encs prev l c,
  iter_step orc chunk st valid encs prev = SParse l c ->
  l = st_linenum st \/ l = (st_linenum st + 1)%Z.
Proof. exact error_line_in_section. Qed.
Print Assumptions C03_error_line_in_section.

Theorem C03_error_line_bounds : forall orc chunk st valid encs prev l c,
  iter_step orc chunk st valid encs prev = SParse l c ->
  (st_linenum st <= l <= st_linenum st + 1)%Z.
Proof. exact error_line_bounds. Qed.
Print Assumptions C03_error_line_bounds.

(* ================================================================================================= *)
(* B. acceptance of one section                                                                       *)
(* ================================================================================================= *)

Theorem C03_container_ok : forall orc chunk st valid encs prev level name id opts line st1,
  step_inv valid encs prev ->
  read_header chunk valid st = HdrOk level name id opts line st1 ->
  is_content id = false ->
  (id = GenSections.sec_main -> version_ok opts = true) ->
  exists valid' encs',
    iter_step orc chunk st valid encs prev =
      SYield {| r_level := level; r_line := line; r_opts := opts; r_id := id; r_type := name; r_payload := PNone |}
             st1 valid' encs' level /\
    table_get id = Some valid' /\ id = build_id level name /\
    line = st_linenum st /\ st_linenum st1 = (line + 1)%Z.
Proof. exact container_ok. Qed.
Print Assumptions C03_container_ok.

Example C03_container_ok_ex :
  exists st1,
    step_inv [GenSections.sec_main] [None] 0 /\
    read_header 96 [GenSections.sec_main] (init_state c03_foreign) =
      HdrOk 0 (B "diffx") (B "diffx") [(B "version", VStr (B "1.0")); (B "encoding", VStr (B "utf-8"))] 0 st1 /\
    is_content (B "diffx") = false /\
    version_ok [(B "version", VStr (B "1.0")); (B "encoding", VStr (B "utf-8"))] = true.
Proof. eexists. split; [left; auto|]. ex_conj. Qed.

(* what a successful _read_content has done *)
Theorem C03_read_content_ok : forall st len enc ind le keep p st2,
  read_content st len enc ind le keep = COk p st2 ->
  content_bytes st len <> [] /\ enc_valid enc /\ indent_valid ind /\
  exists newline lines,
    nl_res_of le (enc_name enc) (content_bytes st len) = Ok newline /\
    split_lines (content_bytes st len) newline true = Ok lines /\
    st2 = state_after st (stream_after st len) (List.length lines) /\
    bends newline (content_bytes st len) = true /\
    match enc_name enc, keep with
    | Some e, false =>
        exists t nlt, py_decode (strip_indent ind (content_bytes st len) lines) e = Ok t /\
                      py_decode newline e = Ok nlt /\ suffixb N.eqb nlt t = true /\ p = PText t
    | _, _ => bends newline (strip_indent ind (content_bytes st len) lines) = true /\
              p = PBytes (strip_indent ind (content_bytes st len) lines)
    end.
Proof. exact read_content_ok_inv. Qed.
Print Assumptions C03_read_content_ok.

(* the content is exactly the declared number of bytes after the header; the stream continues right after them *)
Theorem C03_content_bytes : forall st len,
  remaining (st_stream st) = content_bytes st len ++ remaining (stream_after st len) /\
  List.length (content_bytes st len) = content_len st len.
Proof. exact content_bytes_split. Qed.
Print Assumptions C03_content_bytes.

Theorem C03_content_len : forall st len,
  (0 <= len <= Z.of_nat (List.length (remaining (st_stream st))))%Z -> (len <= sys_maxsize)%Z ->
  content_len st len = Z.to_nat len.
Proof. exact content_len_exact. Qed.
Print Assumptions C03_content_len.

(* PARTIAL: the success of _read_content on the section's content is a hypothesis (see the header comment) *)
Theorem C03_content_ok_partial : forall orc chunk st valid encs prev level name id opts line st1 k inh len p st2 q,
  step_inv valid encs prev ->
  read_header chunk valid st = HdrOk level name id opts line st1 ->
  is_content id = true -> kind_of id = Some k ->
  top encs = Some inh ->
  opt_get "length" opts = Some (VInt len) -> (0 <= len)%Z ->
  (k = KMeta -> fmt_ok opts = true) ->
  content_call k st1 len opts inh = COk p st2 ->
  match k with
  | KMeta => exists j, assoc_get beq (oracle_key p) orc = Some (LoadsOk j) /\ q = PMeta j
  | _ => q = p
  end ->
  exists valid',
    iter_step orc chunk st valid encs prev =
      SYield {| r_level := level; r_line := line; r_opts := opts; r_id := id; r_type := name; r_payload := q |}
             st2 valid' encs prev /\
    table_get id = Some valid' /\ line = st_linenum st /\
    exists newline lines,
      nl_res_of (opt_get "line_endings" opts) (enc_name (encoding_of k opts inh)) (content_bytes st1 len) = Ok newline /\
      split_lines (content_bytes st1 len) newline true = Ok lines /\
      st_linenum st2 = (line + 1 + Z.of_nat (List.length lines))%Z /\
      st_stream st2 = stream_after st1 len /\ st_fnl st2 = st_fnl st1.
Proof. exact content_ok. Qed.
Print Assumptions C03_content_ok_partial.

(* the indented two-line preamble of c03_foreign: options in another order, a blank line before the header *)
Example C03_content_ok_ex :
  exists rs st2 v2 e2 p2 level name id opts st1 inh st3,
    run c03_foreign_orc 96 (init_state c03_foreign) [GenSections.sec_main] [None] 0 rs st2 v2 e2 p2 /\
    map r_id rs = [B "diffx"] /\
    step_inv v2 e2 p2 /\
    read_header 96 v2 st2 = HdrOk level name id opts 1 st1 /\
    opts = [(B "length", VInt 10); (B "indent", VInt 2)] /\
    is_content id = true /\ kind_of id = Some KPreamble /\ top e2 = Some inh /\
    content_call KPreamble st1 10 opts inh = COk (PText [97; 98; 10; 99; 100; 10]%N) st3 /\
    st_linenum st3 = 4%Z.
Proof.
  do 12 eexists. split; [apply (run_n_run 1); vm_compute; reflexivity|].
  split; [vm_compute; reflexivity|].
  split; [right; exists Main; vm_compute; auto|]. ex_conj.
Qed.

(* the whole foreign file: ids, lines (blank lines are not counted), levels, payloads *)
Example C03_foreign_ex :
  (let (rs, t) := read_all c03_foreign_orc 96 c03_foreign in
   (map (fun r => (r_id r, r_line r, r_level r, r_payload r)) rs, t)) =
  ([(B "diffx", 0%Z, 0, PNone);
    (B ".preamble", 1%Z, 1, PText [97; 98; 10; 99; 100; 10]%N);
    (B ".change", 4%Z, 1, PNone);
    (B "..file", 5%Z, 2, PNone);
    (B "...meta", 6%Z, 3, PMeta (JObj []));
    (B "...diff", 8%Z, 3, PBytes (B "-a" ++ c03_nl ++ B "+b" ++ c03_nl))], TEnd).
Proof. vm_compute. reflexivity. Qed.

(* ---- blank (whitespace-only) lines before a header ---- *)
Theorem C03_blank_lines_skipped_nonblank : forall chunk s l s1,
  0 < chunk -> read_until chunk s = Ok (l, false, s1) -> strip l = [] ->
  next_nonblank (S (List.length (remaining s))) chunk s = next_nonblank (S (List.length (remaining s1))) chunk s1.
Proof. exact next_nonblank_skip_blank. Qed.
Print Assumptions C03_blank_lines_skipped_nonblank.

Theorem C03_blank_lines_skipped : forall orc chunk valid encs prev st l s1,
  0 < chunk -> read_until chunk (st_stream st) = Ok (l, false, s1) -> strip l = [] ->
  read_header chunk valid st = read_header chunk valid (with_stream st s1) /\
  iter_step orc chunk st valid encs prev = iter_step orc chunk (with_stream st s1) valid encs prev.
Proof.
  intros; split; [eapply blank_line_skipped_header | eapply blank_line_skipped]; eauto.
Qed.
Print Assumptions C03_blank_lines_skipped.

Theorem C03_blank_lines_skipped_bytes : forall orc chunk valid encs prev st w rest,
  0 < chunk ->
  remaining (st_stream st) = w ++ lf :: rest -> forallb is_space w = true -> ~ In lf w ->
  iter_step orc chunk st valid encs prev =
  iter_step orc chunk (with_stream st (skip_bytes (st_stream st) (List.length w + 1))) valid encs prev /\
  remaining (skip_bytes (st_stream st) (List.length w + 1)) = rest.
Proof. exact blank_line_skipped_bytes. Qed.
Print Assumptions C03_blank_lines_skipped_bytes.

Example C03_blank_lines_skipped_ex :
  let st := {| st_stream := {| s_data := B " " ++ [x09; x0d; x0a] ++ B "#.change:" ++ c03_nl; s_pos := 0 |};
               st_linenum := 7%Z; st_fnl := Some [x0a] |} in
  remaining (st_stream st) = (B " " ++ [x09; x0d]) ++ lf :: B "#.change:" ++ c03_nl /\
  forallb is_space (B " " ++ [x09; x0d]) = true /\
  (exists st1, read_header 96 [B ".change"] st = HdrOk 1 (B "change") (B ".change") [] 7 st1).
Proof. cbv zeta. split; [reflexivity|]. split; [reflexivity|]. eexists. vm_compute. reflexivity. Qed.

(* ================================================================================================= *)
(* C. CRLF header lines                                                                               *)
(* ================================================================================================= *)

Theorem C03_first_header_fixes_newline : forall chunk valid st header s1 level name id opts line st1,
  st_fnl st = None ->
  next_line chunk st = Ok (Some header, s1) ->
  read_header chunk valid st = HdrOk level name id opts line st1 ->
  st_fnl st1 = Some (if bends crlf header then crlf else [lf]).
Proof. exact first_header_fixes_newline. Qed.
Print Assumptions C03_first_header_fixes_newline.

Theorem C03_crlf_required : forall orc chunk valid encs prev st f header s1,
  st_fnl st = Some f ->
  next_line chunk st = Ok (Some header, s1) ->
  bends f header = false ->
  read_header chunk valid st = HdrParse (st_linenum st) None /\
  iter_step orc chunk st valid encs prev = SParse (st_linenum st) None.
Proof.
  intros; split; [eapply crlf_required_header | eapply crlf_required]; eauto.
Qed.
Print Assumptions C03_crlf_required.

Theorem C03_newline_kept : forall orc chunk st valid encs prev r st' valid' encs' prev',
  iter_step orc chunk st valid encs prev = SYield r st' valid' encs' prev' ->
  (exists f, st_fnl st' = Some f) /\ (forall f, st_fnl st = Some f -> st_fnl st' = Some f).
Proof. exact iter_step_newline. Qed.
Print Assumptions C03_newline_kept.

Theorem C03_crlf_headers : forall orc chunk st v e p header s1 r st1 v1 e1 p1 rs st2 v2 e2 p2 header2 s2,
  st_fnl st = None ->
  next_line chunk st = Ok (Some header, s1) -> bends crlf header = true ->
  iter_step orc chunk st v e p = SYield r st1 v1 e1 p1 ->
  run orc chunk st1 v1 e1 p1 rs st2 v2 e2 p2 ->
  st_fnl st1 = Some crlf /\ st_fnl st2 = Some crlf /\
  (next_line chunk st2 = Ok (Some header2, s2) -> bends crlf header2 = false ->
   iter_step orc chunk st2 v2 e2 p2 = SParse (st_linenum st2) None).
Proof. exact crlf_headers. Qed.
Print Assumptions C03_crlf_headers.

(* CRLF header lines with LF content are read; a later header line ending in LF only is rejected at its line *)
Example C03_crlf_headers_ex :
  (let (rs, t) := read_all c03_empty_obj_orc 96 c03_crlf_ok in (map (fun r => (r_id r, r_line r)) rs, t)) =
    ([(B "diffx", 0%Z); (B ".change", 1%Z); (B "..file", 2%Z); (B "...meta", 3%Z); (B "...diff", 5%Z)], TEnd) /\
  (let (rs, t) := read_all [] 96 c03_crlf_then_lf in (map r_id rs, t)) = ([B "diffx"; B ".change"], TParse 2 None) /\
  (exists s1, next_line 96 (init_state c03_crlf_then_lf) = Ok (Some (B "#diffx: encoding=utf-8, version=1.0" ++ c03_crlf), s1)) /\
  bends crlf (B "#diffx: encoding=utf-8, version=1.0" ++ c03_crlf) = true.
Proof.
  split; [vm_compute; reflexivity|]. split; [vm_compute; reflexivity|].
  split; [eexists; vm_compute; reflexivity|]. vm_compute. reflexivity.
Qed.
