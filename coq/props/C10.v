(* C10 — "Reader accepts exactly the section orders the hierarchy allows".
   Spec layer: theories/SectionsSpec.v (sid, may_follow, HFile).  Proofs: theories/SectionsFacts.v.

   For every sequence of syntactically valid section headers, the reader accepts the sequence up to and including
   section k and rejects section k+1 with a parse error exactly when section k+1 may not follow section k in the
   specification's hierarchy; the nine legal section ids are the only ones ever accepted, and the main header must
   come first and only once. *)
From Coq Require Import List Arith NArith ZArith Bool Strings.Byte.
From Coq Require Strings.String.
From DX Require Import Bytes Res Sections Header Stream Json Reader SectionsSpec SectionsFacts.
From DXGen Require GenSections GenText.
Import ListNotations.
Import String.StringSyntax.
Local Open Scope string_scope.
Local Open Scope list_scope.

(* ---- the generated table is the spec's state tree (81 pairs, recomputed against GenSections.valid_states) ---- *)
Theorem C10_table : forall a b : sid, In (sid_bytes b) (table a) <-> may_follow a b = true.
Proof. exact table_is_spec. Qed.
Print Assumptions C10_table.

Theorem C10_table_total : forall a : sid, table_get (sid_bytes a) = Some (table a).
Proof. exact table_total. Qed.
Print Assumptions C10_table_total.

(* the same with no reference to [sid] on the table side: keys and members of the table are the nine ids only *)
Theorem C10_table_bytes : forall id x,
  (exists row, table_get id = Some row /\ In x row) <->
  (exists a b, id = sid_bytes a /\ x = sid_bytes b /\ may_follow a b = true).
Proof. exact table_is_spec_bytes. Qed.
Print Assumptions C10_table_bytes.

Theorem C10_table_closed : forall id row x, table_get id = Some row -> In x row -> table_get x <> None.
Proof. exact table_closed. Qed.
Print Assumptions C10_table_closed.

Theorem C10_table_main_in_no_row : forall id row, table_get id = Some row -> ~ In GenSections.sec_main row.
Proof. exact main_in_no_row. Qed.
Print Assumptions C10_table_main_in_no_row.

Example C10_table_ex :
  In (sid_bytes File) (table Change) /\ ~ In (sid_bytes Change) (table Change) /\ may_follow ChangeMeta Change = true.
Proof.
  split; [apply table_is_spec; reflexivity|]. split; [|reflexivity].
  intro H. apply table_is_spec in H. discriminate H.
Qed.

(* ---- the state tree against the hierarchy of sections.rst ---- *)
Theorem C10_hierarchy_sound : forall w, HFile w ->
  (exists t, w = Main :: t /\ ~ In Main t) /\
  (forall a b, Adjacent a b w -> may_follow a b = true).
Proof. exact hierarchy_sound. Qed.
Print Assumptions C10_hierarchy_sound.

Theorem C10_hierarchy_complete : forall a b, may_follow a b = true -> (a, b) <> (ChangeMeta, Change) ->
  exists w, HFile w /\ Adjacent a b w.
Proof. exact hierarchy_complete. Qed.
Print Assumptions C10_hierarchy_complete.

(* the adjacencies of the hierarchy are exactly the state tree minus (..meta, .change) *)
Theorem C10_hierarchy_exact : forall a b,
  (exists w, HFile w /\ Adjacent a b w) <-> (may_follow a b = true /\ (a, b) <> (ChangeMeta, Change)).
Proof. exact hierarchy_exact. Qed.
Print Assumptions C10_hierarchy_exact.

Example C10_hierarchy_ex :
  HFile [Main; MainPreamble; MainMeta; Change; ChangePreamble; ChangeMeta; File; FileMeta; FileDiff; File; FileMeta;
         Change; File; FileMeta] /\
  witness_word FileDiff Change = [Main; Change; File; FileMeta; FileDiff; Change; File; FileMeta].
Proof.
  split; [|reflexivity].
  exact (HFile_gen true true [(true, true, [true; false]); (false, false, [false])] eq_refl).
Qed.

(* ---- the reader: soundness for ALL inputs ---- *)
Theorem C10_reader_sound : forall orc chunk data rs t,
  read_all orc chunk data = (rs, t) ->
  exists w : list sid, map r_id rs = map sid_bytes w /\ spec_path w.
Proof. exact SectionsFacts.C10_reader_sound. Qed.
Print Assumptions C10_reader_sound.

Theorem C10_reader_sound_bytes : forall orc chunk data rs t,
  read_all orc chunk data = (rs, t) ->
  let ids := map r_id rs in
  (ids = [] \/ exists rest, ids = GenSections.sec_main :: rest /\ ~ In GenSections.sec_main rest) /\
  (forall x y, Adjacent x y ids ->
     (exists row, table_get x = Some row /\ In y row) /\
     (exists a b, x = sid_bytes a /\ y = sid_bytes b /\ may_follow a b = true)) /\
  (forall x, In x ids -> exists a, x = sid_bytes a).
Proof. exact SectionsFacts.C10_reader_sound_bytes. Qed.
Print Assumptions C10_reader_sound_bytes.

Theorem C10_nine : forall orc chunk data rs t,
  read_all orc chunk data = (rs, t) ->
  (forall r, In r rs -> exists a, r_id r = sid_bytes a) /\
  (forall i r, nth_error rs i = Some r -> (r_id r = sid_bytes Main <-> i = 0)).
Proof. exact SectionsFacts.C10_nine. Qed.
Print Assumptions C10_nine.

(* two records are yielded for "#diffx: version=1.0\n#.change:\n" *)
Example C10_reader_ex_two :
  (let (rs, t) := read_all [] 96 ex_two in (map r_id rs, t)) = ([sid_bytes Main; sid_bytes Change], TEnd).
Proof. vm_compute. reflexivity. Qed.

(* a longer legal sequence, with content sections and a json oracle, read with a 7-byte chunk size *)
Example C10_reader_ex_long :
  (let (rs, t) := read_all ex_long_orc 7 ex_long in (map r_id rs, t)) =
  (map sid_bytes [Main; Change; File; FileMeta; FileDiff; Change; ChangeMeta; Change], TEnd).
Proof. vm_compute. reflexivity. Qed.

(* ---- the reader: an out-of-order (or unknown) section id is a parse error at that header ---- *)
Theorem C10_rejects : forall orc chunk st valid encs prev h s1 fnl dots name ostr,
  next_header chunk st = Some (h, s1, fnl) ->
  match_header_re h = Some (dots, name, ostr) ->
  in_ids (build_id dots name) valid = false ->
  iter_step orc chunk st valid encs prev = SParse (st_linenum st) None.
Proof. exact SectionsFacts.C10_rejects. Qed.
Print Assumptions C10_rejects.

Theorem C10_rejects_loop : forall fuel orc chunk st valid encs prev acc h s1 fnl dots name ostr,
  next_header chunk st = Some (h, s1, fnl) ->
  match_header_re h = Some (dots, name, ostr) ->
  in_ids (build_id dots name) valid = false ->
  iter_loop (S fuel) orc chunk st valid encs prev acc = (rev acc, TParse (st_linenum st) None).
Proof. exact SectionsFacts.C10_rejects_loop. Qed.
Print Assumptions C10_rejects_loop.

(* and a record is yielded only for a header that parses and whose id is in [valid] *)
Theorem C10_yield_inv : forall orc chunk st valid encs prev r st' valid' encs' prev',
  iter_step orc chunk st valid encs prev = SYield r st' valid' encs' prev' ->
  exists h s1 fnl ostr,
    next_header chunk st = Some (h, s1, fnl) /\
    match_header_re h = Some (r_level r, r_type r, ostr) /\
    r_id r = build_id (r_level r) (r_type r) /\
    in_ids (r_id r) valid = true /\ table_get (r_id r) = Some valid' /\ r_line r = st_linenum st.
Proof. exact SectionsFacts.C10_yield_inv. Qed.
Print Assumptions C10_yield_inv.

(* the hypotheses of C10_rejects on "#.change:\n" read from the initial state *)
Example C10_rejects_ex :
  exists s1,
    next_header 96 (ex_init ex_no_main) = Some (B "#.change:", s1, [x0a]) /\
    match_header_re (B "#.change:") = Some (1, B "change", None) /\
    in_ids (build_id 1 (B "change")) [GenSections.sec_main] = false.
Proof. eexists. vm_compute. repeat split; reflexivity. Qed.

Example C10_rejects_ex_order :   (* ..file directly after diffx *)
  (let (rs, t) := read_all [] 96 ex_bad_order in (map r_id rs, t)) = ([sid_bytes Main], TParse 1 None).
Proof. vm_compute. reflexivity. Qed.

Example C10_rejects_ex_main_twice :
  (let (rs, t) := read_all [] 96 ex_main_twice in (map r_id rs, t)) = ([sid_bytes Main], TParse 1 None).
Proof. vm_compute. reflexivity. Qed.

Example C10_rejects_ex_no_main :
  read_all [] 96 ex_no_main = ([], TParse 0 None).
Proof. vm_compute. reflexivity. Qed.

Example C10_rejects_ex_tenth_id :   (* "#.file:" matches the header regex but is not one of the nine ids *)
  (let (rs, t) := read_all [] 96 ex_tenth_id in (map r_id rs, t)) = ([sid_bytes Main], TParse 1 None).
Proof. vm_compute. reflexivity. Qed.

(* ---- acceptance (partial) ----
   What is proved: (1) a header that parses, whose id may come next and whose options are well-formed passes
   _read_header (the order check never rejects a legal successor); (2) for the container sections (diffx, .change,
   ..file), in every state the loop can reach, the section is then yielded and [valid] becomes its table row.
   What is missing for the full "every legal sequence is accepted up to k": acceptance of the content sections
   (.preamble, .meta, ..preamble, ..meta, ...meta, ...diff) also depends on length=, encoding, line endings, the
   content bytes and the JSON oracle (properties C01/C07), so it needs a rendering function for section contents. *)
Theorem C10_header_accepts_partial : forall chunk st valid h s1 fnl dots name ostr,
  next_header chunk st = Some (h, s1, fnl) ->
  match_header_re h = Some (dots, name, ostr) ->
  in_ids (build_id dots name) valid = true ->
  opts_wf ostr = true ->
  exists opts, parse_header valid h = HOk dots name (build_id dots name) opts /\
    read_header chunk valid st = HdrOk dots name (build_id dots name) opts (st_linenum st) (after_header st s1 fnl).
Proof. exact C10_header_accepts. Qed.
Print Assumptions C10_header_accepts_partial.

Theorem C10_parse_header_ok_iff : forall valid h level name id,
  (exists opts, parse_header valid h = HOk level name id opts) <->
  (exists ostr, match_header_re h = Some (level, name, ostr) /\ id = build_id level name /\
                in_ids id valid = true /\ opts_wf ostr = true).
Proof. exact parse_header_ok_iff. Qed.
Print Assumptions C10_parse_header_ok_iff.

Theorem C10_reach_inv : forall orc chunk st valid encs prev,
  reach orc chunk st valid encs prev -> step_inv valid encs prev.
Proof. exact reach_inv. Qed.
Print Assumptions C10_reach_inv.

Theorem C10_accepts_container_partial : forall orc chunk st valid encs prev h s1 fnl dots name ostr,
  step_inv valid encs prev ->
  next_header chunk st = Some (h, s1, fnl) ->
  match_header_re h = Some (dots, name, ostr) ->
  in_ids (build_id dots name) valid = true ->
  opts_wf ostr = true ->
  is_content (build_id dots name) = false ->
  (build_id dots name = GenSections.sec_main ->
     forall opts, parse_header valid h = HOk dots name (build_id dots name) opts ->
     exists v, opt_get "version" opts = Some (VStr v) /\ in_ids v GenText.versions = true) ->
  exists r valid' encs',
    iter_step orc chunk st valid encs prev = SYield r (after_header st s1 fnl) valid' encs' dots /\
    r_id r = build_id dots name /\ r_level r = dots /\ r_line r = st_linenum st /\ r_payload r = PNone /\
    table_get (build_id dots name) = Some valid'.
Proof. exact C10_accepts_container. Qed.
Print Assumptions C10_accepts_container_partial.

(* the hypotheses of C10_accepts_container_partial on "#diffx: version=1.0" read from the initial state *)
Example C10_accepts_ex :
  let h := B "#diffx: version=1.0" in
  step_inv [GenSections.sec_main] [None] 0 /\
  (exists s1, next_header 96 (ex_init ex_two) = Some (h, s1, [x0a])) /\
  match_header_re h = Some (0, B "diffx", Some (B "version=1.0")) /\
  in_ids (build_id 0 (B "diffx")) [GenSections.sec_main] = true /\
  opts_wf (Some (B "version=1.0")) = true /\
  is_content (build_id 0 (B "diffx")) = false /\
  parse_header [GenSections.sec_main] h = HOk 0 (B "diffx") (B "diffx") [(B "version", VStr (B "1.0"))].
Proof.
  cbv zeta. split; [left; auto|]. split; [eexists; vm_compute; reflexivity|].
  vm_compute. repeat split; reflexivity.
Qed.
