(* DomForeign.v — SPEC-side definitions for the second sentence of property C06:
     "For every well-formed file from ANOTHER producer that the object model accepts, re-serialising succeeds,
      carries the same section contents, and is a fixed point."
   The files are the ASTs of SpecReader.v ([ffile], [render_file], [wf_file], [spec_records]).  Definitions only;
   proofs are in DomForeignFacts.v, statements in props/C06_foreign.v.

   1. what the object model builds from such a file, section by section ([tree_of_file]), and when it accepts it
      ([dom_accepts], decidable);
   2. the named, decidable premises under which the tree re-serialises;
   3. the calls the object model issues to the streaming writer for such a file ([file_calls]);
   4. "same section contents". *)
From Coq Require Import List Arith NArith ZArith Bool Strings.Byte.
From Coq Require Strings.String.
From DX Require Import Bytes Res Codec Text Sections Header Json Reader Writer Dom SectionsSpec SpecReader.
From DX Require HeaderFacts DomFacts.
From DX Require Import DomSpec.
From DXGen Require GenSections GenText.
Import ListNotations.
Import String.StringSyntax.
Local Open Scope string_scope.
Local Open Scope list_scope.

(* ================================================================================================ *)
(** * 1. The tree the object model builds *)

(* the options dict of a header as the DOM reader stores it: every option, integers converted; content sections
   lose [length] *)
Definition sec_dopts (s : fsection) : dopts := dopts_of_options (HeaderFacts.opts_of spec_conv (fs_opts s)).
Definition sec_copts (s : fsection) : dopts := content_options (HeaderFacts.opts_of spec_conv (fs_opts s)).

(* DiffXChangeSection / DiffXFileSection called with the options dict: every header option is a keyword argument *)
Definition change_of (s : fsection) : res dchange :=
  if has_slot_key (sec_dopts s) then Err EUnmodelled
  else to_parse (apply_attrs set_change_attr new_change (sec_dopts s)).
Definition file_of (s : fsection) : res dfile :=
  if has_slot_key (sec_dopts s) then Err EUnmodelled
  else to_parse (apply_attrs set_file_attr new_file (sec_dopts s)).

Definition is_ok {A} (r : res A) : bool := match r with Ok _ => true | Err _ => false end.
Definition res_or {A} (d : A) (r : res A) : A := match r with Ok a => a | Err _ => d end.

(* one section is accepted by the DOM reader's handler: a preamble must have been decoded (an encoding is in force),
   metadata must be a JSON object, the keyword arguments of a container must be accepted by its constructor *)
Definition sec_accepts (s : fsection) : bool :=
  match fs_id s with
  | Main => true
  | Change => is_ok (change_of s)
  | File => is_ok (file_of s)
  | MainPreamble | ChangePreamble => match sec_payload s with PText _ => true | _ => false end
  | MainMeta | ChangeMeta | FileMeta => match sec_payload s with PMeta (JObj _) => true | _ => false end
  | FileDiff => match sec_payload s with PBytes _ => true | _ => false end
  end.
(* ... and the exception otherwise *)
Definition sec_error (s : fsection) : exn :=
  match fs_id s with
  | Change => match change_of s with Err e => e | Ok _ => ELibParse end
  | File => match file_of s with Err e => e | Ok _ => ELibParse end
  | _ => ELibParse
  end.

Definition dom_accepts (f : ffile) : bool := forallb sec_accepts (ff_sections f).

Definition payload_text (s : fsection) : text := match sec_payload s with PText t => t | _ => [] end.
Definition payload_kv (s : fsection) : list (text * json) := match sec_payload s with PMeta (JObj kv) => kv | _ => [] end.
Definition payload_bytes (s : fsection) : bytes := match sec_payload s with PBytes b => b | _ => [] end.

Fixpoint map_last {A} (f : A -> A) (l : list A) : list A :=
  match l with
  | [] => []
  | [x] => [f x]
  | x :: t => x :: map_last f t
  end.

Definition on_last_change (g : dchange -> dchange) (t : dtree) : dtree :=
  {| d_opts := d_opts t; d_pre := d_pre t; d_meta := d_meta t; d_changes := map_last g (d_changes t) |}.
Definition on_last_file (g : dfile -> dfile) (t : dtree) : dtree :=
  on_last_change (fun c => {| c_opts := c_opts c; c_pre := c_pre c; c_meta := c_meta c;
                              c_files := map_last g (c_files c) |}) t.

Definition sec_psec (s : fsection) : psec := {| p_opts := sec_copts s; p_content := Some (payload_text s) |}.
Definition sec_msec (s : fsection) : msec := {| m_opts := sec_copts s; m_content := payload_kv s |}.
Definition sec_dsec (s : fsection) : dsec := {| x_opts := sec_copts s; x_content := Some (payload_bytes s) |}.

(* the effect of one accepted section on the tree *)
Definition tof_step (t : dtree) (s : fsection) : dtree :=
  match fs_id s with
  | Main => {| d_opts := sec_dopts s; d_pre := d_pre t; d_meta := d_meta t; d_changes := d_changes t |}
  | MainPreamble => {| d_opts := d_opts t; d_pre := sec_psec s; d_meta := d_meta t; d_changes := d_changes t |}
  | MainMeta => {| d_opts := d_opts t; d_pre := d_pre t; d_meta := sec_msec s; d_changes := d_changes t |}
  | Change => {| d_opts := d_opts t; d_pre := d_pre t; d_meta := d_meta t;
                 d_changes := d_changes t ++ [res_or new_change (change_of s)] |}
  | ChangePreamble =>
      on_last_change (fun c => {| c_opts := c_opts c; c_pre := sec_psec s; c_meta := c_meta c; c_files := c_files c |}) t
  | ChangeMeta =>
      on_last_change (fun c => {| c_opts := c_opts c; c_pre := c_pre c; c_meta := sec_msec s; c_files := c_files c |}) t
  | File =>
      on_last_change (fun c => {| c_opts := c_opts c; c_pre := c_pre c; c_meta := c_meta c;
                                  c_files := c_files c ++ [res_or new_file (file_of s)] |}) t
  | FileMeta => on_last_file (fun f => {| f_opts := f_opts f; f_meta := sec_msec s; f_diff := f_diff f |}) t
  | FileDiff => on_last_file (fun f => {| f_opts := f_opts f; f_meta := f_meta f; f_diff := sec_dsec s |}) t
  end.

Definition tree_of_secs (t : dtree) (ss : list fsection) : dtree := fold_left tof_step ss t.
Definition tree_of_file (f : ffile) : dtree := tree_of_secs new_tree (ff_sections f).

(* the DOM reader's cursor after a section *)
Definition depth_of (prev : option sid) : nat := match prev with None => 0 | Some a => sid_depth a end.
Definition cursor_at (d : nat) : cursor := match d with 0 => AtMain | 1 => AtChange | _ => AtFile end.
Definition cursor_of (prev : option sid) : cursor := cursor_at (depth_of prev).

Fixpoint last_sid (prev : option sid) (ss : list fsection) : option sid :=
  match ss with [] => prev | s :: t => last_sid (Some (fs_id s)) t end.

(* ================================================================================================ *)
(** * 2. The premises of re-serialisation (all decidable) *)

(* the options the specification defines for each kind of section *)
Definition known_keys (a : sid) : list String.string :=
  match a with
  | Main => ["encoding"; "version"]
  | Change | File => ["encoding"]
  | MainPreamble | ChangePreamble => ["encoding"; "indent"; "length"; "line_endings"; "mimetype"]
  | MainMeta | ChangeMeta | FileMeta => ["encoding"; "format"; "length"; "line_endings"]
  | FileDiff => ["encoding"; "length"; "line_endings"; "type"]
  end.
Definition keys_in (ps : list (bytes * bytes)) (allowed : list String.string) : bool :=
  forallb (fun p => existsb (fun a => beq (fst p) (B a)) allowed) ps.
(* [opts_known]: no header carries an option outside that list.  (Unknown options on the main header and on content
   sections load and then make to_bytes() raise TypeError; on .change / ..file headers they are constructor keywords:
   rejected at load, except the forwarded attribute names.) *)
Definition sec_opts_known (s : fsection) : bool := keys_in (fs_opts s) (known_keys (fs_id s)).
Definition opts_known (f : ffile) : bool := forallb sec_opts_known (ff_sections f).

(* finding D15 (meta-line-endings-not-reserialisable): write_meta() has no line_endings parameter.  Repaired in
   pydiffx (the DOM writer drops the option for metadata sections), so this is NO LONGER a premise of C06_foreign;
   the predicate is kept to describe files: it is the second component of DomForeignFacts.other_premises, false
   for the example C06_foreign_meta_line_endings_ok. *)
Definition sec_no_meta_le (s : fsection) : bool :=
  match sid_kind (fs_id s) with
  | SMeta => match opt "line_endings" (fs_opts s) with None => true | Some _ => false end
  | _ => true
  end.
Definition no_meta_line_endings (f : ffile) : bool := forallb sec_no_meta_le (ff_sections f).

(* mimetype / type, when present, are values the specification lists (the reader does not look at them, the writer
   rejects anything else) *)
Definition in_set (v : option bytes) (set : list bytes) : bool :=
  match v with None => true | Some x => mem beq x set end.
Definition sec_choices_ok (s : fsection) : bool :=
  match sid_kind (fs_id s) with
  | SPreamble => in_set (opt "mimetype" (fs_opts s)) GenText.mimetypes
  | SDiff => in_set (opt "type" (fs_opts s)) GenText.diff_types
  | _ => true
  end.
Definition choice_values_ok (f : ffile) : bool := forallb sec_choices_ok (ff_sections f).

(* a ..meta / ...meta section whose JSON object is empty is silently skipped by the DOM writer (`if content:`), after
   which the streaming writer's order table rejects the next call (new_file / write_diff after new_file, new_change
   after new_change / write_preamble).  The specification requires keys in both. *)
Definition sec_meta_nonempty (s : fsection) : bool :=
  match fs_id s with
  | ChangeMeta | FileMeta => match sec_payload s with PMeta (JObj (_ :: _)) => true | _ => false end
  | _ => true
  end.
Definition sub_metas_nonempty (f : ffile) : bool := forallb sec_meta_nonempty (ff_sections f).

(* the JSON value of a metadata section is one json.dumps accepts and renders in ASCII (every value json.loads
   returns is: no [JBad], float reprs are ASCII) *)
Definition json_plain : json -> bool :=
  DomFacts.json_all (fun j => match j with
                              | JBad => false
                              | JFloat r => forallb (fun b => N.ltb (byte_n b) 128) r
                              | _ => true
                              end).
Definition sec_meta_plain (s : fsection) : bool :=
  match sec_payload s with PMeta j => json_plain j | _ => true end.
Definition metas_plain (f : ffile) : bool := forallb sec_meta_plain (ff_sections f).

(* ================================================================================================ *)
(** * 3. The calls issued to the streaming writer *)

(* the encoding option of a header as a keyword argument *)
Definition wenc (e : option bytes) : wv := match e with Some eb => WStr (ascii_text eb) | None => WNone end.
Definition wopt (k : String.string) (s : fsection) : wv := kw (sec_copts s) k.

Definition sec_calls (s : fsection) : list call :=
  match fs_id s with
  | Main => []
  | Change => [NewChange (wenc (opt "encoding" (fs_opts s)))]
  | File => [NewFile (wenc (opt "encoding" (fs_opts s)))]
  | MainPreamble | ChangePreamble =>
      [WritePreamble (WStr (payload_text s)) (wopt "encoding" s) (kw_opt (sec_copts s) "indent")
                     (wopt "line_endings" s) (wopt "mimetype" s)]
  | MainMeta | ChangeMeta | FileMeta =>
      match payload_kv s with
      | [] => []
      | kv => [WriteMeta (WDict (JObj kv)) (wopt "encoding" s) (kw_opt (sec_copts s) "format")]
      end
  | FileDiff =>
      [WriteDiff (WBytes (payload_bytes s)) (wopt "type" s) (wopt "encoding" s) (wopt "line_endings" s)]
  end.
Definition file_calls (f : ffile) : list call := flat_map sec_calls (ff_sections f).

(* the contents of a text / diff section already end with the line ending the object model determines for them
   (declared, or detected by ITS detection: on the decoded text for preambles, on the bytes for diffs), so that the
   documented normalisation "a final line ending is appended if missing" changes nothing.  Decidable; it follows from
   [wf_file] (DomForeignFacts.contents_final_wf), and is kept as a definition because that is how "same contents" is
   proved. *)
Definition sec_content_final (s : fsection) : bool :=
  match sid_kind (fs_id s), sec_payload s with
  | SPreamble, PText t => teq (final_text (snd (pre_resolve (wopt "line_endings" s) t)) t) t
  | SDiff, PBytes b => beq (fst (diff_prepared (wopt "line_endings" s) (wopt "encoding" s) b)) b
  | _, _ => true
  end.
Definition contents_final (f : ffile) : bool := forallb sec_content_final (ff_sections f).

(* ================================================================================================ *)
(** * 4. Same section contents *)

Definition psec_text (p : psec) : text := match p_content p with Some t => t | None => [] end.
Definition dsec_bytes (d : dsec) : bytes := match x_content d with Some b => b | None => [] end.

(* the contents of the sections of a tree, in file order; an absent section and an empty one are not distinguished
   (neither is written) *)
Definition file_contents (f : dfile) : list (text * json) * bytes := (m_content (f_meta f), dsec_bytes (f_diff f)).
Definition change_contents (c : dchange) : text * list (text * json) * list (list (text * json) * bytes) :=
  (psec_text (c_pre c), m_content (c_meta c), map file_contents (c_files c)).
Definition tree_contents (t : dtree) :=
  (psec_text (d_pre t), m_content (d_meta t), map change_contents (d_changes t)).
Definition same_contents (a b : dtree) : Prop := tree_contents a = tree_contents b.
