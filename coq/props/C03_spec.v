(* C03, file level — "for every structurally well-formed DiffX file, including files from other producers, the
   streaming reader yields records whose id, level, logical start line, options (integers converted) and content
   equal the specification's reading".  The acceptance half, for whole files.
   Spec: theories/SpecReader.v (AST [ffile], [render_file], [wf_file], [spec_records], written from the format
   documentation).  Proofs: theories/SpecReaderBase.v, SpecReaderCodec.v, SpecReaderContent.v, SpecReaderFacts.v.
   (The rejection half and the per-section statements are in props/C03.v.)

   What [wf_file f = true] says (all of it decidable, checked by computation in the Examples):
     - the first section is diffx with version=1.0, each section may follow its predecessor (SectionsSpec.may_follow);
     - every header is in the grammar of C11 (keys [A-Za-z][A-Za-z0-9_-]*, values [A-Za-z0-9/._-]+), options in any
       order, unknown options allowed, a repeated key counts once (the last one); blank lines are whitespace only;
     - every encoding option is a catalogue spelling of one of the ten executable codecs;
     - containers have no content; a preamble / metadata / diff section has content of its kind;
     - length is integer-valued and equals the number of content bytes;
     - text content (an encoding in force): at least one line, every line encodable; the content starts with the
       codec's byte order mark, or the codec writes none, or the encoded text does not begin with bytes that read
       as a byte order mark; [lines_clean]: the encoded newline occurs at the end of each encoded line and nowhere
       else; line_endings names the kind, or is absent and first-line detection on the content finds the kind
       ([le_ok], the "first_nl_aligned" condition, checked on the rendered bytes);
     - indent (preambles) absent or an integer >= 0, every line carrying exactly that many spaces; format (metadata)
       absent or json;
     - content with no encoding in force: the same with lines given as bytes and the ASCII newline;
     - diffs: non-empty bytes ending with the newline of their kind in their own encoding (ASCII if none). *)
From Coq Require Import List Arith NArith ZArith Bool Strings.Byte Lia.
From Coq Require Strings.String.
From DX Require Import Bytes Res Codec Text Sections Header Stream Json Reader SectionsSpec
                       SpecReader SpecReaderBase SpecReaderCodec SpecReaderFacts SpecReaderExamples.
From DX Require HeaderFacts SectionsFacts RoundTripCodec.
Import ListNotations.
Import String.StringSyntax.
Local Open Scope string_scope.
Local Open Scope list_scope.

(* The theorem.  Hypotheses: the file is well-formed; the json.loads oracle answers, for the text of every metadata
   section, with the value the AST gives it; the reader's chunk size is positive; the file is not larger than
   sys.maxsize bytes (fp.read(min(length, sys.maxsize))). *)
Theorem C03_reads_spec : forall f orc chunk,
  wf_file f = true -> oracle_ok_file orc f -> 0 < chunk ->
  (Z.of_nat (length (render_file f)) <= sys_maxsize)%Z ->
  read_all orc chunk (render_file f) = (spec_records f, TEnd).
Proof. exact SpecReaderFacts.C03_reads_spec. Qed.
Print Assumptions C03_reads_spec.

(* one section: from a loop state that matches the position in the AST ([Inv]: newline style of header lines
   fixed by the first header, valid-ids list = table row of the previous id, encoding stack = the effective
   encodings of the enclosing containers, previous container level), on a stream that starts with the section's
   bytes, one iteration yields the specified record, consumes exactly those bytes, advances the line counter by
   1 + the number of content lines, and re-establishes the invariant *)
Theorem C03_step_section : forall orc chunk crlf prev x s st valid encs pl rest,
  0 < chunk -> Inv crlf prev x st valid encs pl -> wf_section prev x s = true -> oracle_ok_section orc s ->
  remaining (st_stream st) = sec_render crlf x s ++ rest ->
  (Z.of_nat (length (content_body x s)) <= sys_maxsize)%Z ->
  exists st' valid' encs' pl',
    iter_step orc chunk st valid encs pl = SYield (sec_record (st_linenum st) s) st' valid' encs' pl' /\
    Inv crlf (Some (fs_id s)) (ectx_next x s) st' valid' encs' pl' /\
    remaining (st_stream st') = rest /\
    st_linenum st' = (st_linenum st + 1 + Z.of_nat (content_nlines s))%Z.
Proof. exact SpecReaderFacts.step_section. Qed.
Print Assumptions C03_step_section.

(* the integer conversion of the spec AST is the one the header grammar specifies (HeaderFacts.spec_convert) *)
Theorem C03_spec_conv : forall v, HeaderFacts.spec_convert v (spec_conv v).
Proof. exact SpecReaderBase.spec_conv_spec. Qed.
Print Assumptions C03_spec_conv.

(* every executable codec decodes content written without the byte order mark Python's encoder would write,
   unless the content itself begins with bytes that read as one *)
Theorem C03_codec_nobom : forall eb c, codec_of eb = Some c ->
  exists bom enc0, RoundTripCodec.codec_laws eb c bom enc0 /\ nobom_dec c bom enc0.
Proof. exact SpecReaderCodec.codec_laws_x. Qed.
Print Assumptions C03_codec_nobom.

(* ---- Example 1: a file from another producer (see SpecReaderExamples.sx_foreign) ---- *)

(* well-formed, by computation *)
Example C03_spec_ex_wf : wf_file sx_foreign = true.
Proof. vm_compute. reflexivity. Qed.

(* its bytes *)
Example C03_spec_ex_bytes : render_file sx_foreign = sx_foreign_bytes.
Proof. vm_compute. reflexivity. Qed.

(* the specification's reading: 7 records; the preamble starts on logical line 1 (the two blank lines are not
   counted) and has 2 lines, so .meta is on line 4; integers converted; the unknown option kept; the text without
   byte order mark and indentation, with its DOS newlines; the diff as bytes *)
Example C03_spec_ex_records :
  spec_records sx_foreign =
  [ {| r_level := 0; r_line := 0; r_opts := [(B "version", VStr (B "1.0")); (B "encoding", VStr (B "utf-8"))];
       r_id := B "diffx"; r_type := B "diffx"; r_payload := PNone |};
    {| r_level := 1; r_line := 1;
       r_opts := [(B "length", VInt 20); (B "x-producer", VStr (B "other/1.0")); (B "indent", VInt 2);
                  (B "encoding", VStr (B "utf-8-sig"))];
       r_id := B ".preamble"; r_type := B "preamble";
       r_payload := PText (asc "hello" ++ [13; 10] ++ asc " w" ++ [233; 13; 10])%N |};
    {| r_level := 1; r_line := 4; r_opts := [(B "length", VInt 8)];
       r_id := B ".meta"; r_type := B "meta"; r_payload := PMeta (JObj []) |};
    {| r_level := 1; r_line := 6; r_opts := []; r_id := B ".change"; r_type := B "change"; r_payload := PNone |};
    {| r_level := 2; r_line := 7; r_opts := [(B "encoding", VStr (B "latin-1"))];
       r_id := B "..file"; r_type := B "file"; r_payload := PNone |};
    {| r_level := 3; r_line := 8; r_opts := [(B "format", VStr (B "json")); (B "length", VInt 3)];
       r_id := B "...meta"; r_type := B "meta"; r_payload := PMeta (JObj []) |};
    {| r_level := 3; r_line := 10; r_opts := [(B "length", VInt 6); (B "line_endings", VStr (B "unix"))];
       r_id := B "...diff"; r_type := B "diff"; r_payload := PBytes (B "-a" ++ nl ++ B "+b" ++ nl) |} ].
Proof. vm_compute. reflexivity. Qed.

Example C03_spec_ex_oracle : oracle_ok_file sx_foreign_orc sx_foreign.
Proof. unfold oracle_ok_file. repeat constructor. Qed.

(* the reader yields exactly that, by the theorem (for any positive chunk size) *)
Example C03_spec_ex_read : forall chunk, 0 < chunk ->
  read_all sx_foreign_orc chunk sx_foreign_bytes = (spec_records sx_foreign, TEnd).
Proof.
  intros chunk Hc. rewrite <- C03_spec_ex_bytes. apply C03_reads_spec.
  - exact C03_spec_ex_wf.
  - exact C03_spec_ex_oracle.
  - exact Hc.
  - vm_compute. discriminate.
Qed.

(* ... and by running the model (chunk size 96, and 1) *)
Example C03_spec_ex_run :
  read_all sx_foreign_orc 96 sx_foreign_bytes = (spec_records sx_foreign, TEnd) /\
  read_all sx_foreign_orc 1 sx_foreign_bytes = (spec_records sx_foreign, TEnd).
Proof. split; vm_compute; reflexivity. Qed.

(* ---- Example 2: no main encoding (a preamble read as bytes), utf-16 content without and with byte order
        mark, LF header lines (SpecReaderExamples.sx_mixed) ---- *)
Example C03_spec_ex2 :
  wf_file sx_mixed = true /\ render_file sx_mixed = sx_mixed_bytes /\ oracle_ok_file sx_mixed_orc sx_mixed /\
  map r_payload (spec_records sx_mixed) =
    [PNone; PBytes (B "ab" ++ nl ++ B "cd" ++ nl); PNone; PText (asc "hi" ++ [13; 10])%N; PNone; PMeta (JObj []);
     PBytes [x61; x00; x0a; x00]] /\
  map r_line (spec_records sx_mixed) = [0; 1; 4; 5; 7; 8; 10]%Z.
Proof.
  split; [vm_compute; reflexivity|]. split; [vm_compute; reflexivity|].
  split; [unfold oracle_ok_file; repeat constructor|]. split; vm_compute; reflexivity.
Qed.

Example C03_spec_ex2_read : forall chunk, 0 < chunk ->
  read_all sx_mixed_orc chunk sx_mixed_bytes = (spec_records sx_mixed, TEnd).
Proof.
  intros chunk Hc. destruct C03_spec_ex2 as (Hwf & Hb & Ho & _). rewrite <- Hb. apply C03_reads_spec; auto.
  vm_compute. discriminate.
Qed.

(* ---- the conditions of wf_file are not vacuous ---- *)
(* a unix-kind text whose first line ends in CR, line endings undeclared: detection finds dos; not well-formed,
   and indeed the reader rejects the file (content does not end in CR LF); declaring the kind makes it well-formed *)
Example C03_spec_ex_detect :
  wf_file sx_bad_detect = false /\ snd (read_all [] 96 (render_file sx_bad_detect)) = TParse 2 None /\
  wf_file sx_good_declared = true /\
  read_all [] 96 (render_file sx_good_declared) = (spec_records sx_good_declared, TEnd).
Proof. repeat split; vm_compute; reflexivity. Qed.

(* a "line" containing the newline, a wrong length: not well-formed *)
Example C03_spec_ex_not_wf : wf_file sx_bad_clean = false /\ wf_file sx_bad_length = false.
Proof. split; vm_compute; reflexivity. Qed.
