"""Pygments lexer family (C20): DiffXLexer.get_tokens_unprocessed vs the engine model (Lexer.v run on
GenLexer.rules), with JsonLexer / DiffLexer as per-case oracles recorded from the implementation run."""
import itertools

import lib
import streamlib as sl
import gen_calls as gc
from lib import H, T, L, Lst
from family import Family


# ------------------------------------------------------------------ running the implementation
def _tok_sx(i, t, v):
    return '(%d %s %s)' % (i, H(str(t).encode('ascii')), T(v))


def _toks_sx(toks):
    return '(' + ' '.join(_tok_sx(i, t, v) for (i, t, v) in toks) + ')'


class _Recorder(object):
    """Wraps get_tokens_unprocessed of the sub-lexer classes for the duration of one implementation run and logs
    (lexer class name, text) -> tokens for exactly the texts DiffXLexer handed to them."""

    def __init__(self, classes):
        self.classes = classes
        self.log = []
        self.saved = []

    def __enter__(self):
        for cls in self.classes:
            had = 'get_tokens_unprocessed' in cls.__dict__
            orig = cls.get_tokens_unprocessed
            self.saved.append((cls, had, orig))

            def wrapped(inner_self, text, *a, _orig=orig, _name=cls.__name__, **kw):
                toks = list(_orig(inner_self, text, *a, **kw))
                if not a and not kw:
                    self.log.append((_name, text, toks))
                return iter(toks)
            cls.get_tokens_unprocessed = wrapped
        return self

    def __exit__(self, *exc):
        for cls, had, orig in self.saved:
            if had:
                cls.get_tokens_unprocessed = orig
            else:
                del cls.get_tokens_unprocessed
        return False


def run_impl(text):
    """(observation, tokens or None, oracle log)."""
    from pydiffx.integrations.pygments_lexer import DiffXLexer
    from pygments.lexers.data import JsonLexer
    from pygments.lexers.diff import DiffLexer
    with _Recorder([JsonLexer, DiffLexer]) as rec:
        try:
            toks = list(DiffXLexer().get_tokens_unprocessed(text))
        except Exception as e:
            return '(exc %s)' % type(e).__name__, None, rec.log
    return _toks_sx(toks), toks, rec.log


# ------------------------------------------------------------------ case generators
TINY = ['#', '.', '\n', 'a', ':', ' ']

FRAGS = ['#', '.', '..', '...', '\n', '\n', ':', ' ', 'diffx', 'change', 'file', 'meta', 'preamble', 'diff',
         '#diffx:', '#.change:', '#..file:', '#.meta:', '#..meta:', '#...meta:', '#.preamble:', '#..preamble:',
         '#...diff:', '#....diff:', '#.x', '#.', '#..', '#...', '...\n', '...', 'delta 3\n', 'delta ', 'delta 12',
         '٣', '१\n', '\xe9', '\U0001f600', '\U0010ffff', '\r', '\r\n', 'a', 'z', 'A', '{', '}', '"', '[1, 2]',
         ' x=1', ' length=3', ' length=3, encoding=utf-8', ' ', '\x85', '0', '9', '-a\n', '+b\n', '@@ -1 +1 @@\n',
         '--- a\n+++ b\n', '\t', '\x00', 'Index: x\n', 'diff --git a b\n', ' \n', '  ']

HEADERS = ['#diffx:', '#.change:', '#..file:', '#.meta:', '#..meta:', '#...meta:', '#.preamble:', '#..preamble:',
           '#...preamble:', '#...diff:', '#.diff:', '#..diff:', '#....diff:', '#....meta:', '#meta:', '#.Change:',
           '#.change', '#..files:', ' #.change:', '#diffx', '#.changes:']
OPTIONS = ['', '', ' ', ' version=1.0', ' length=3', ' length=12, encoding=utf-8', ' format=json, length=2', '  x',
           ' \xe9=あ', 'x=1', ' a=b\r', ' indent=\u00b2, length=6', ' indent=\u2460', ' length=\u0663', ' indent=' + '9' * 4301,
           ' indent=-1', ' indent=True', ' indent= 4', ' mimetype=text/markdown, indent=\u00b3']
OPTION_KEYS = ['encoding', 'length', 'indent', 'line_endings', 'format', 'version', 'type', 'mimetype', 'x']
HOSTILE_VALUES = ['', '\x00', 'a\x00b', '\ud800', 'x\udcff', '\ufeff', 'utf-8\x00', 'bogus', 'utf-16', '\u0663', '-', '%s', '{0}', '\x85',
                  '\u2028', ' ', 'a b', '\t', '=', ',', '\xe9', '\U0001f600', '9' * 5000, 'text/x-diff; charset=utf-16', '\\N{DIGIT ONE}']
LINES = ['{\n', '    "a": 1,\n', '}\n', '{"k": [true, null, "s"]}\n', 'not json\n', '--- a/f\n', '+++ b/f\n',
         '@@ -1,2 +1,2 @@\n', '-old\n', '+new\n', ' ctx\n', 'delta 3\n', 'delta 12\n', 'delta ٣\n', 'delta x\n',
         '...\n', '....\n', ' ...\n', '\n', 'text', 'text\r\n', '#.x\n', '#. \n', '#..f', '#.Z\n', 'a #.b\n', '#\n', '\xe9\n',
         '\U0001f600\n', '\x00\n', 'Binary files differ\n']


def gen_random(rng):
    n = rng.choice([0, 1, 2, 3, 4, 5, 6, 8, 10, 14])
    return ''.join(rng.choice(FRAGS) for _ in range(n))


def gen_shaped(rng):
    out = []
    if rng.random() < 0.15:
        out.append(rng.choice(LINES))
    for _ in range(rng.randint(1, 5)):
        h = rng.choice(HEADERS[:10]) if rng.random() < 0.75 else rng.choice(HEADERS)
        out.append(h + rng.choice(OPTIONS) + ('\n' if rng.random() < 0.93 else ''))
        if rng.random() < 0.7:
            body = ''.join(rng.choice(LINES) for _ in range(rng.randint(0, 4)))
            if body and rng.random() < 0.1:
                body = body[:-1]
            out.append(body)
    return ''.join(out)


def _no_marker(s):
    while '#.' in s:
        s = s.replace('#.', '#,')
    return s


def _clean_json(j):
    if isinstance(j, str):
        return _no_marker(j)
    if isinstance(j, list):
        return [_clean_json(x) for x in j]
    if isinstance(j, dict):
        return {_no_marker(k): _clean_json(v) for k, v in j.items()}
    return j


def gen_writer_case(rng):
    """A UTF-8 writer output whose contents contain no "#." : (text, expected section headers) or None."""
    main, calls = gc.gen_wellformed_calls(rng)
    utf8 = lambda: rng.choice([None, None, None, sl.S('utf-8'), sl.S('UTF-8'), sl.S('utf8')])
    headers = ['#diffx:']
    level = 0
    out_calls = []
    for c in calls:
        c = list(c)
        if c[0] == 'new_change':
            c[1] = utf8()
            level = 1
            headers.append('#.change:')
        elif c[0] == 'new_file':
            c[1] = utf8()
            level = 2
            headers.append('#..file:')
        elif c[0] == 'write_preamble':
            c[1] = sl.S(_no_marker(c[1]['s']))
            if rng.random() < 0.2:
                c[1] = sl.S(c[1]['s'] + rng.choice(['\n\n#diffx: version=1.0\n', '\n#diffx:\n']))
            if rng.random() < 0.25:
                # Markdown that other lexers would choke on, declared as Markdown: to this lexer it is plain preamble text
                c[1] = sl.S(rng.choice(['# Title\n\n```python\n$ pip install x\nfoo?\n```\n', '```json\n{"a": ...}\n```\n',
                                        '~~~c\n#include <x>\n@@@\n~~~\n', '<div>\n```\n`\n', '```diff\n--- a\n+++ b\n@@ bad\n```\n']))
                c[5] = sl.S('text/markdown')
            c[2] = utf8()
            headers.append('#' + '.' * (level + 1) + 'preamble:')
        elif c[0] == 'write_meta':
            c[1] = {'d': _clean_json(c[1]['d'])}
            c[2] = utf8()
            headers.append('#' + '.' * (level + 1) + 'meta:')
        elif c[0] == 'write_diff':
            d = bytes.fromhex(c[1]['b'])
            try:
                s = d.decode('utf-8')
            except UnicodeDecodeError:
                s = d.decode('latin-1')
            s = _no_marker(s)
            if rng.random() < 0.35:
                # an EMPTY line directly followed by a line that looks like the main header (no "#." involved):
                # still content, never a section header
                cut = s.find('\n') + 1
                s = s[:cut] + rng.choice(['\n#diffx: version=1.0\n', '\n#diffx:\n+x\n', '\n\n#diffx: encoding=utf-8\n']) + s[cut:]
            c[1] = sl.Bv(s.encode('utf-8'))
            c[3] = utf8()
            headers.append('#...diff:')
        out_calls.append(c)
    obs, data, per = sl.run_writer(sl.S('utf-8'), sl.S('1.0'), out_calls)
    if data is None or not all(p[0] for p in per):
        return None
    try:
        text = data.decode('utf-8')
    except UnicodeDecodeError:
        return None
    # every "#." of the file must be the start of one of the section headers
    if text.count('#.') != sum(1 for h in headers if h.startswith('#.')):
        return None
    return text, headers


class Lex(Family):
    name = 'lex'
    rule = ('every string up to a bounded length over {#, ., LF, a, :, space}; random concatenations of 60 fragments '
            '(header names with 0-4 dots, "...\\n", "delta N\\n" with ASCII and non-ASCII digits, CR, NUL, astral and '
            'line-separator characters, JSON and diff lines); DiffX-shaped documents (1-5 valid or near-miss headers '
            'with options, bodies of JSON / diff / delta / example / "#." lines, missing final newline); UTF-8 writer '
            'outputs of random well-ordered call sequences whose contents contain no "#.", and of contents that are n '
            'copies of a 1/2/3/4-byte character (every n up to a bound) before every kind of next section; every header '
            'rule x option key x hostile value (NUL, lone surrogates, separators, ...); the words of the lexer\'s own '
            'patterns (harvested from its source) as plain content behind every diff prefix; '
            'sub-lexer results are recorded from the implementation run; non-trivial = some token other than '
            'Token.Text is produced; distinct by the text')

    def cases(self, tier, rng, prop_id):
        quick = tier == 'quick'
        for n in range(0, (3 if quick else 5) + 1):
            for tup in itertools.product(TINY, repeat=n):
                yield dict(kind='exh%d' % n, text=''.join(tup))
        for _ in range(600 if quick else 10000):
            yield dict(kind='random', text=gen_random(rng))
        for _ in range(400 if quick else 7000):
            yield dict(kind='shaped', text=gen_shaped(rng))
        # every header rule x every option key x hostile values (NUL, lone surrogates, separators, non-decimal digits, unknown
        # names, very long), as the first option and after another one: option TEXT is never interpreted by a highlighter
        for h in HEADERS[:10]:
            for key in OPTION_KEYS:
                for val in HOSTILE_VALUES:
                    yield dict(kind='option-grid', text='#diffx: version=1.0\n%s %s=%s\nbody\n#.change:\n' % (h, key, val))
                    yield dict(kind='option-grid', text='%s a=b, %s=%s, c=d\n' % (h, key, val))
        # size boundaries: very long option texts and body lines, many sections
        for n in (255, 1024, 4096, 8193):
            yield dict(kind='big', text='#diffx: version=1.0, x=' + 'v' * n + '\n#.preamble: length=%d\n' % (n + 1) + 'p' * n + '\n#.change:\n')
            yield dict(kind='big', text='#diffx:\n#.change:\n#..file:\n#...diff: length=1\n' + '-' + 'a' * n + '\n+' + 'b' * n + '\n\n#diffx: not a header\n')
        yield dict(kind='big', text='#diffx: version=1.0\n' + ''.join('#.change:\n#..file:\n#...meta: length=3\n{}\n' for _ in range(150)))
        # writer files whose content is n copies of one character (1, 2, 3 and 4 UTF-8 bytes; 1 or 2 UTF-16 units) for every
        # n up to a bound, followed by every kind of next section: byte lengths, character counts and code-unit counts all
        # differ, and every small difference between them coincides with the length of some following header
        for n in range(1, (33 if quick else 97)):
            for ch in ('a', '\u00e9', '\u20ac', '\U0001f600'):
                for kind in ('preamble', 'diff'):
                    for nxt in ('change', 'file', 'eof'):
                        calls, headers = [], ['#diffx:']
                        if kind == 'preamble':
                            calls += [['write_preamble', sl.S(ch * n + '\n'), None, {'i': 0} if n % 2 else 'omitted', None, None],
                                      ['new_change', None], ['new_file', None], ['write_meta', {'d': {'k': ch}}, None, 'omitted']]
                            headers += ['#.preamble:', '#.change:', '#..file:', '#...meta:']
                        else:
                            calls += [['new_change', None], ['new_file', None], ['write_meta', {'d': {'path': 'a'}}, None, 'omitted'],
                                      ['write_diff', sl.Bv(('-' + ch * n + '\n').encode('utf-8')), None, None, None]]
                            headers += ['#.change:', '#..file:', '#...meta:', '#...diff:']
                        if nxt == 'change':
                            calls += [['new_change', None], ['new_file', None], ['write_meta', {'d': {'path': 'b'}}, None, 'omitted'],
                                      ['write_diff', sl.Bv(b'-a\n+b\n'), None, None, None]]
                            headers += ['#.change:', '#..file:', '#...meta:', '#...diff:']
                        elif nxt == 'file':
                            calls += [['new_file', None], ['write_meta', {'d': {'path': 'b'}}, None, 'omitted'],
                                      ['write_diff', sl.Bv(b'-a\n+b\n'), None, None, None]]
                            headers += ['#..file:', '#...meta:', '#...diff:']
                        obs, data, per = sl.run_writer(sl.S('utf-8'), sl.S('1.0'), calls)
                        if data is not None and all(p_[0] for p_ in per):
                            yield dict(kind='writer', text=data.decode('utf-8'), headers=headers, sweep=True)
        # the words the lexer's own patterns look for (harvested from its source as it stands now), in writer files where
        # they are plain content: at the start of a line and behind every diff prefix, as a whole line and inside one
        import sizes
        words = sizes.harvested_words()
        for w in words:
            lines = [p_ + w + s_ for p_ in ('', '+', '-', ' ', 'x ', '+x ') for s_ in ('', ' 3', ' y')]
            body = ''.join(l + '\n' for l in lines)
            if '#.' in body:
                continue
            for where in ('diff', 'preamble'):
                if where == 'diff':
                    calls = [['new_change', None], ['new_file', None], ['write_meta', {'d': {'path': 'a'}}, None, 'omitted'],
                             ['write_diff', sl.Bv(('--- a\n+++ b\n@@ -1 +1 @@\n' + body).encode('utf-8')), None, None, None],
                             ['new_file', None], ['write_meta', {'d': {'path': 'b'}}, None, 'omitted']]
                    headers = ['#diffx:', '#.change:', '#..file:', '#...meta:', '#...diff:', '#..file:', '#...meta:']
                else:
                    calls = [['write_preamble', sl.S(body), None, {'i': 0}, None, None], ['new_change', None], ['new_file', None],
                             ['write_meta', {'d': {'path': 'a'}}, None, 'omitted']]
                    headers = ['#diffx:', '#.preamble:', '#.change:', '#..file:', '#...meta:']
                obs, data, per = sl.run_writer(sl.S('utf-8'), sl.S('1.0'), calls)
                if data is not None and all(p_[0] for p_ in per):
                    yield dict(kind='writer', text=data.decode('utf-8'), headers=headers, words=True)
        want = 250 if quick else 4000
        got = 0
        tries = 0
        while got < want and tries < want * 20:
            tries += 1
            r = gen_writer_case(rng)
            if r is None:
                continue
            got += 1
            yield dict(kind='writer', text=r[0], headers=r[1])

    def _impl(self, c):
        if '_impl' not in c:
            c['_impl'] = run_impl(c['text'])
        return c['_impl']

    def model_line(self, c):
        obs, toks, log = self._impl(c)
        seen = set()
        entries = []
        for (name, text, sub) in log:
            if (name, text) in seen:
                continue
            seen.add((name, text))
            entries.append('(%s %s %s)' % (name, T(text), _toks_sx(sub)))
        return L('lex', T(c['text']), Lst(entries))

    def impl_obs(self, c):
        return self._impl(c)[0]

    def normalize_model(self, line):
        return line

    def key(self, c):
        return c['text']

    def bucket(self, c):
        return c['kind']

    def nontrivial(self, c):
        toks = self._impl(c)[1]
        return bool(toks) and any(str(t) != 'Token.Text' for (_, t, _) in toks)

    def describe(self, c):
        return {k: v for k, v in c.items() if not k.startswith('_')}

    def oracle(self, c, obs):
        """C20 on the implementation alone."""
        o, toks, log = self._impl(c)
        text = c['text']
        if toks is None:
            return [('C20', 'exception', 'get_tokens_unprocessed raised: %s' % o)]
        out = []
        joined = ''.join(v for (_, _, v) in toks)
        if joined != text:
            k = 0
            while k < min(len(joined), len(text)) and joined[k] == text[k]:
                k += 1
            out.append(('C20', 'not-lossless', 'concatenated token values differ from the input at offset %d: %r vs %r'
                        % (k, joined[k:k + 30], text[k:k + 30])))
        for (name, sub_text, sub) in log:
            if ''.join(v for (_, _, v) in sub) != sub_text:
                out.append(('C20', 'premise-sublexer-lossless', '%s is not lossless on %r' % (name, sub_text[:60])))
                break
        if c['kind'] == 'writer':
            errs = [(i, v) for (i, t, v) in toks if str(t) == 'Token.Error']
            # JsonLexer also uses Name.Tag (for object keys, whose value starts with '"'); the DiffX rules' tags start with '#'
            tags = [v for (_, t, v) in toks if str(t) == 'Token.Name.Tag' and v.startswith('#')]
            if errs:
                out.append(('C20', 'headers', 'Error token %r at offset %d in a writer output' % (errs[0][1], errs[0][0])))
            elif tags != c['headers']:
                out.append(('C20', 'headers', 'Name.Tag tokens %r differ from the section headers %r'
                            % (tags, c['headers'])))
        return out
