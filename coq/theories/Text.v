(* Text.v — model of pydiffx/utils/text.py over the generated tables (GenText) and the codec catalogue. *)
From Coq Require Import List Arith NArith ZArith Bool Strings.Byte.
From Coq Require Strings.String.
From DX Require Import Bytes Res Codec.
From DXGen Require GenText GenCodecs.
Import ListNotations.
Import String.StringSyntax.
Local Open Scope string_scope.
Local Open Scope list_scope.

Definition is_nil {A} (l : list A) : bool := match l with [] => true | _ => false end.

(* lines[-1] = lines[-1][:-n] *)
Fixpoint cut_last (n : nat) (ls : list bytes) : list bytes :=
  match ls with
  | [] => []
  | [x] => [firstn (length x - n) x]
  | x :: t => x :: cut_last n t
  end.

(* split_lines(data, newline, keep_ends) — generic in the element type so that C16 is stated once *)
Section SplitLines.
  Context {A : Type} (eqb : A -> A -> bool).
  Fixpoint cut_last_g (n : nat) (ls : list (list A)) : list (list A) :=
    match ls with
    | [] => []
    | [x] => [firstn (length x - n) x]
    | x :: t => x :: cut_last_g n t
    end.
  Definition split_lines_g (data nl : list A) (keep_ends : bool) : res (list (list A)) :=
    if is_nil data then Err EAssertion
    else if is_nil nl then Err EAssertion
    else
      let lines := split eqb nl data in
      let lines := if keep_ends then map (fun l => l ++ nl) lines else lines in
      if suffixb eqb nl data then Ok (removelast lines)
      else if keep_ends then Ok (cut_last_g (length nl) lines)
      else Ok lines.
End SplitLines.

Definition split_lines (data nl : bytes) (keep_ends : bool) : res (list bytes) :=
  split_lines_g byte_eqb data nl keep_ends.

(* codecs.lookup(encoding).name, with LookupError swallowed (strip_bom) *)
Definition canonical_or_same (enc : bytes) : bytes :=
  match find_row enc GenCodecs.rows with
  | Some r => GenCodecs.cr_canonical r
  | None => enc
  end.

Definition strip_bom (data : bytes) (enc : option bytes) : bytes :=
  match enc with
  | None => data
  | Some e =>
      match assoc_get beq (canonical_or_same e) GenText.boms with
      | Some ((b0 :: _) as bs) => if existsb (fun b => bstarts b data) bs then skipn (length b0) data else data
      | _ => data
      end
  end.

(* s.encode(encoding) for the text s, encoding given by spelling *)
Definition py_encode (t : text) (enc : bytes) : res bytes :=
  match lookup_codec enc with
  | LUnknown => Err ELookup
  | LUnmodelled => Err EUnmodelled
  | LOk _ c => match c_enc c t with Some b => Ok b | None => Err EUnicodeEncode end
  end.
(* CPython short-circuits b''.decode(anything) to '' without looking the codec up *)
Definition py_decode (b : bytes) (enc : bytes) : res text :=
  if is_nil b then Ok [] else
  match lookup_codec enc with
  | LUnknown => Err ELookup
  | LUnmodelled => Err EUnmodelled
  | LOk _ c => match c_dec c b with Some t => Ok t | None => Err EUnicodeDecode end
  end.

Definition enc_or_ascii (enc : option bytes) : bytes := match enc with Some e => e | None => B "ascii" end.

(* get_newline_for_type(line_endings, encoding): KeyError is converted to ValueError *)
Definition get_newline_for_type (le : bytes) (enc : option bytes) : res bytes :=
  let e := enc_or_ascii enc in
  match assoc_get beq le GenText.newline_formats with
  | None => Err EValue
  | Some nl => do b <- py_encode nl e; Ok (strip_bom b (Some e))
  end.

Definition nl_text (le : bytes) : text :=
  match assoc_get beq le GenText.newline_formats with Some t => t | None => [] end.

(* guess_line_endings(bytes, encoding) -> (line_endings, newline bytes) *)
Definition guess_line_endings_bytes (data : bytes) (enc : option bytes) : res (bytes * bytes) :=
  let e := enc_or_ascii enc in
  do u0 <- py_encode (nl_text GenText.le_unix) e;
  let unix := strip_bom u0 (Some e) in
  do d0 <- py_encode (nl_text GenText.le_dos) e;
  let dos := strip_bom d0 (Some e) in
  match bfind unix data with
  | Some i => if bends dos (firstn (i + length unix) data) then Ok (GenText.le_dos, dos) else Ok (GenText.le_unix, unix)
  | None => Ok (GenText.le_unix, unix)
  end.

(* guess_line_endings(str) -> (line_endings, newline str) *)
Definition guess_line_endings_text (t : text) : bytes * text :=
  let unix := nl_text GenText.le_unix in
  let dos := nl_text GenText.le_dos in
  match find N.eqb unix t with
  | Some i => if suffixb N.eqb dos (firstn (i + length unix) t) then (GenText.le_dos, dos) else (GenText.le_unix, unix)
  | None => (GenText.le_unix, unix)
  end.
