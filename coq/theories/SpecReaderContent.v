(* SpecReaderContent.v — _read_content on the content of a section of the spec AST (SpecReader.v).
   Part 1: content given as lines, each ending with the newline bytes and containing them nowhere else, every
           line indented by k spaces: what [read_content] does with it up to the decoding step.
   Part 2: text sections (codec laws: with the codec's BOM, or without any), sections with no encoding in
           force (bytes), and diffs. *)
From Coq Require Import List Arith NArith ZArith Bool Strings.Byte Lia.
From Coq Require Strings.String.
From DX Require Import Bytes Res Codec Text Sections Header Stream Json Reader SectionsSpec SpecReader SpecReaderBase
                       SpecReaderCodec.
From DX Require Import TextFacts RoundTripCodec RoundTripContent.
From DX Require HeaderFacts StreamFacts ReaderSpecFacts.
From DXGen Require GenSections GenText.
Import ListNotations.
Import String.StringSyntax.
Local Open Scope string_scope.
Local Open Scope list_scope.

Module RS := ReaderSpecFacts.

(* ================================================================================================ *)
(** * Line-ending kinds against the generated table *)

Lemma le_in : forall k, In (le_name k, le_text k) GenText.newline_formats.
Proof. destruct k; [right; left|left]; reflexivity. Qed.
Lemma le_values : forall k, In (le_name k) GenText.line_endings_values.
Proof. destruct k; [right; left|left]; reflexivity. Qed.
Lemma le_assoc : forall k, assoc_get beq (le_name k) GenText.newline_formats = Some (le_text k).
Proof. destruct k; reflexivity. Qed.
Lemma nl_text_le : forall k, nl_text (le_name k) = le_text k.
Proof. destruct k; reflexivity. Qed.
Lemma le_kind_eqb_eq : forall a b, le_kind_eqb a b = true -> a = b.
Proof. destruct a, b; intro H; try reflexivity; discriminate H. Qed.

Lemma codec_of_not_int : forall eb c, codec_of eb = Some c -> int_ok eb = false.
Proof.
  intros eb c H. unfold codec_of in H. destruct (lookup_codec eb) as [canon c'| |] eqn:E; try discriminate H.
  unfold lookup_codec in E. destruct (find_row eb GenCodecs.rows) as [r|] eqn:Er; [|discriminate E].
  apply TextFacts.find_row_some in Er. destruct Er as [Hin ->].
  assert (F : forallb (fun r => negb (int_ok (GenCodecs.cr_spelling r))) GenCodecs.rows = true) by (vm_compute; reflexivity).
  rewrite forallb_forall in F. specialize (F r Hin). destruct (int_ok _); [discriminate F | reflexivity].
Qed.

Lemma map_app_nil : forall (ls : list bytes), map (app []) ls = ls.
Proof. intros ls. rewrite <- (map_id ls) at 2. apply map_ext. reflexivity. Qed.

(* ================================================================================================ *)
(** * Part 1: indented, newline-terminated lines *)

Lemma content_bytes_exact : forall st (raw rest : bytes),
  remaining (st_stream st) = raw ++ rest -> (Z.of_nat (length raw) <= sys_maxsize)%Z ->
  RS.content_bytes st (Z.of_nat (length raw)) = raw.
Proof.
  intros st raw rest Hrem Hmax. unfold RS.content_bytes, RS.content_len.
  rewrite Hrem. rewrite (read_size raw rest Hmax). rewrite firstn_app, Nat.sub_diag, firstn_all. cbn. apply app_nil_r.
Qed.

Lemma stream_after_rest : forall st (raw rest : bytes),
  remaining (st_stream st) = raw ++ rest -> (Z.of_nat (length raw) <= sys_maxsize)%Z ->
  remaining (RS.stream_after st (Z.of_nat (length raw))) = rest.
Proof.
  intros st raw rest Hrem Hmax.
  pose proof (RS.content_bytes_split st (Z.of_nat (length raw))) as [Hsp _].
  rewrite (content_bytes_exact st raw rest Hrem Hmax), Hrem in Hsp. apply app_inv_head in Hsp. symmetry. exact Hsp.
Qed.

Section Lines.
  Variable nlb : bytes.
  Hypothesis Hn2 : nlb <> [].
  Hypothesis Hn3 : unbordered nlb.
  Hypothesis Hn4 : ~ In x20 nlb.

  Local Notation addnl := (fun q : bytes => q ++ nlb).
  Definition clean (qs : list bytes) : Prop := Forall (fun q => occurrences byte_eqb nlb (q ++ nlb) = 1) qs.

  Lemma clean_of_b : forall qs, lines_clean nlb (map addnl qs) = true -> clean qs.
  Proof.
    intros qs H. apply Forall_forall. intros q Hin. unfold lines_clean in H. rewrite forallb_forall in H.
    apply Nat.eqb_eq. apply H. apply in_map_iff. exists q. auto.
  Qed.

  Lemma lines_split : forall qs, qs <> [] -> clean qs ->
    split_lines (concat (map addnl qs)) nlb true = Ok (map addnl qs) /\
    concat (map addnl qs) <> [] /\ bends nlb (concat (map addnl qs)) = true.
  Proof.
    intros qs Hq Hf.
    pose proof (split_unique byte_eqb byte_eqb_spec nlb Hn2 qs [] Hf eq_refl) as E. rewrite app_nil_r in E.
    assert (Hs : suffixb byte_eqb nlb (concat (map addnl qs)) = true).
    { destruct (exists_last Hq) as (q0 & p & ->). rewrite map_app, concat_app. cbn [map concat].
      rewrite app_nil_r, app_assoc. apply (suffixb_app byte_eqb byte_eqb_spec). }
    assert (Hd : concat (map addnl qs) <> []).
    { intros Hn. rewrite Hn in Hs. apply (suffixb_spec byte_eqb byte_eqb_spec) in Hs. destruct Hs as [q0 Hq0].
      destruct q0; destruct nlb; cbn in Hq0; congruence. }
    split; [|split; [exact Hd | exact Hs]].
    unfold split_lines. rewrite (split_lines_keep byte_eqb _ nlb qs [] Hd Hn2 E), Hs. reflexivity.
  Qed.

  Lemma lines_indented : forall qs k, qs <> [] -> clean qs ->
    let body := concat (map (app (repeat_b x20 k)) (map addnl qs)) in
    split_lines body nlb true = Ok (map (app (repeat_b x20 k)) (map addnl qs)) /\
    body <> [] /\ bends nlb body = true /\ k <= length body.
  Proof.
    intros qs k Hq Hf body. destruct (lines_split qs Hq Hf) as (Hsp & Hd & Hs).
    assert (Hsx : forall x, In x (repeat_b x20 k) -> ~ In x nlb).
    { intros x Hx Hi. apply in_repeat_b in Hx. subst x. exact (Hn4 Hi). }
    destruct (split_lines_indented byte_eqb byte_eqb_spec nlb _ (repeat_b x20 k) _ Hn2 Hn3 Hd Hs Hsx Hsp)
      as (I1 & _ & _ & I4).
    assert (Hlen : k <= length body).
    { unfold body. destruct qs as [|q0 qs']; [congruence|]. cbn [map concat]. rewrite !app_length, repeat_b_length. lia. }
    split; [exact I1|]. split; [|split; [exact I4 | exact Hlen]].
    intros Hn. fold body in I4. rewrite Hn in I4. apply (suffixb_spec byte_eqb byte_eqb_spec) in I4. destruct I4 as [q0 Hq0].
    destruct q0; destruct nlb; cbn in Hq0; congruence.
  Qed.

  (* the indent option and the indentation rendered *)
  Definition indent_matches (indent_o : option pv) (k : nat) : Prop :=
    (indent_o = None /\ k = 0) \/ (exists z, indent_o = Some (VInt z) /\ (0 <= z)%Z /\ k = Z.to_nat z).

  (* _read_content up to the decoding step: the declared number of bytes is read, split on the newline into the
     lines of the AST, the indentation is removed from each, and what is left to decode is their concatenation *)
  Lemma read_lines_gen : forall st rest qs k enc_o indent_o le_pv keep,
    qs <> [] -> clean qs ->
    let body := concat (map (app (repeat_b x20 k)) (map addnl qs)) in
    RS.enc_valid enc_o -> indent_matches indent_o k ->
    RS.nl_res_of le_pv (RS.enc_name enc_o) body = Ok nlb ->
    remaining (st_stream st) = body ++ rest ->
    (Z.of_nat (length body) <= sys_maxsize)%Z ->
    read_content st (Z.of_nat (length body)) enc_o indent_o le_pv keep =
      RS.decode_check st (RS.stream_after st (Z.of_nat (length body))) (length qs) (RS.enc_name enc_o) keep nlb
                      (concat (map addnl qs)) /\
    remaining (RS.stream_after st (Z.of_nat (length body))) = rest.
  Proof.
    intros st rest qs k enc_o indent_o le_pv keep Hq Hf body Henc Hind Hnl Hrem Hmax.
    destruct (lines_indented qs k Hq Hf) as (Hsp & Hne & Hends & Hlen). fold body in Hsp, Hne, Hends, Hlen.
    split; [|exact (stream_after_rest st body rest Hrem Hmax)].
    rewrite RS.read_content_eq. cbv zeta.
    rewrite (content_bytes_exact st body rest Hrem Hmax), (is_nil_false body Hne).
    assert (Hib : RS.indent_bad indent_o = false).
    { destruct Hind as [[-> _] | (z & -> & Hz & _)]; cbn [RS.indent_bad]; [reflexivity | lia]. }
    assert (Hstrip : RS.strip_indent indent_o body (map (app (repeat_b x20 k)) (map addnl qs)) = concat (map addnl qs)).
    { unfold RS.strip_indent. destruct Hind as [[-> ->] | (z & -> & Hz & ->)].
      - unfold body. cbn [repeat_b]. rewrite map_app_nil. reflexivity.
      - destruct (0 <? z)%Z eqn:E.
        + replace (Z.to_nat (Z.min z (Z.of_nat (length body)))) with (Z.to_nat z) by lia.
          apply concat_strip_indent.
        + unfold body. replace (Z.to_nat z) with 0 by lia. cbn [repeat_b]. rewrite map_app_nil. reflexivity. }
    rewrite Hib, Hnl, Hsp, Hends, Hstrip. cbn [negb]. rewrite !map_length.
    destruct enc_o as [[z|e]|]; [contradiction Henc | reflexivity | reflexivity].
  Qed.

  (* the decoding step *)
  Lemma decode_text : forall st s1 n e d t nlt,
    py_decode d e = Ok t -> py_decode nlb e = Ok nlt -> suffixb N.eqb nlt t = true ->
    RS.decode_check st s1 n (Some e) false nlb d = COk (PText t) (RS.state_after st s1 n).
  Proof. intros st s1 n e d t nlt H1 H2 H3. unfold RS.decode_check, RS.finish. rewrite H1, H2, H3. reflexivity. Qed.

  Lemma decode_bytes : forall st s1 n enc keep d,
    enc = None \/ keep = true -> bends nlb d = true ->
    RS.decode_check st s1 n enc keep nlb d = COk (PBytes d) (RS.state_after st s1 n).
  Proof.
    intros st s1 n enc keep d H Hb. unfold RS.decode_check, RS.finish.
    destruct enc as [e|]; [destruct H as [H | ->]; [discriminate H|]|]; rewrite Hb; reflexivity.
  Qed.
End Lines.

(* ================================================================================================ *)
(** * Part 2: a codec under its laws *)

Section WithLaws.
  Variables (eb : bytes) (c : codec) (bom : bytes) (enc0 : text -> option bytes).
  Hypothesis laws : codec_laws eb c bom enc0.
  Hypothesis nobom : nobom_dec c bom enc0.

  Lemma enc0_nil : enc0 [] = Some [].
  Proof.
    destruct (cl_nl _ _ _ _ laws _ _ (le_in LUnix)) as (nlb & Hn & _).
    pose proof (cl_hom _ _ _ _ laws [] (le_text LUnix)) as H. cbn [app] in H. rewrite Hn in H.
    destruct (enc0 []) as [x|]; cbn in H; [|discriminate H]. injection H as H.
    assert (Hl : length nlb = length (x ++ nlb)) by congruence. rewrite app_length in Hl.
    destruct x; [reflexivity | cbn in Hl; lia].
  Qed.

  Lemma enc_bom_eq : enc_bom c = bom.
  Proof. exact (enc_bom_of_laws eb c bom enc0 laws). Qed.

  Lemma enc_nobom_eq : forall t, enc_nobom c t = enc0 t.
  Proof.
    intros t. unfold enc_nobom. rewrite (cl_enc _ _ _ _ laws), enc_bom_eq.
    destruct (enc0 t) as [b|]; cbn [option_map]; [|reflexivity].
    rewrite skipn_app, skipn_all, Nat.sub_diag. reflexivity.
  Qed.

  Lemma nl_bytes_laws : forall k,
    enc0 (le_text k) = Some (nl_bytes c k) /\ nl_bytes c k <> [] /\ unbordered (nl_bytes c k) /\ ~ In x20 (nl_bytes c k) /\
    c_dec c (nl_bytes c k) = Some (le_text k).
  Proof.
    intros k. destruct (cl_nl _ _ _ _ laws _ _ (le_in k)) as (nlb & Hn & H2 & H3 & H4 & H5 & _).
    unfold nl_bytes. rewrite enc_nobom_eq, Hn. auto.
  Qed.

  Lemma nl_bytes_decode : forall k, py_decode (nl_bytes c k) eb = Ok (le_text k).
  Proof.
    intros k. destruct (nl_bytes_laws k) as (_ & H2 & _ & _ & H5).
    unfold py_decode. rewrite (is_nil_false _ H2). destruct (cl_lookup _ _ _ _ laws) as [canon ->]. rewrite H5. reflexivity.
  Qed.

  Definition ql (l : text) : bytes := match enc0 l with Some b => b | None => [] end.

  Lemma encodable_line : forall k l, encodable c (le_text k) l = true ->
    enc0 (l ++ le_text k) = Some (enc_line c (le_text k) l) /\ enc_line c (le_text k) l = ql l ++ nl_bytes c k.
  Proof.
    intros k l H. unfold encodable in H. unfold enc_line. rewrite enc_nobom_eq in *.
    destruct (nl_bytes_laws k) as [En _]. rewrite (cl_hom _ _ _ _ laws), En in *. unfold ql.
    destruct (enc0 l) as [b|]; cbn in *; [auto | discriminate H].
  Qed.

  Lemma joined_enc : forall k ls, forallb (encodable c (le_text k)) ls = true ->
    enc0 (concat (map (fun l => l ++ le_text k) ls)) = Some (concat (map (enc_line c (le_text k)) ls)).
  Proof.
    intros k. induction ls as [|l ls IH]; intros H; [exact enc0_nil|].
    cbn [forallb] in H. apply andb_true_iff in H. destruct H as [Hl Hls].
    cbn [map concat]. rewrite (cl_hom _ _ _ _ laws), (proj1 (encodable_line k l Hl)), (IH Hls). reflexivity.
  Qed.

  Lemma joined_ends : forall k ls, ls <> [] -> suffixb N.eqb (le_text k) (concat (map (fun l => l ++ le_text k) ls)) = true.
  Proof.
    intros k ls H. destruct (exists_last H) as (ls' & l & ->).
    rewrite map_app, concat_app. cbn [map concat]. rewrite app_nil_r, app_assoc.
    apply (suffixb_app N.eqb N_eqb_spec).
  Qed.

  Lemma pieces_concat : forall nl mark ls, ls <> [] ->
    concat (text_pieces c nl mark ls) = mark ++ concat (map (enc_line c nl) ls).
  Proof. intros nl mark [|l0 t] H; [congruence|]. cbn [text_pieces map concat]. rewrite app_assoc. reflexivity. Qed.

  Lemma pieces_shape : forall k mark ls, forallb (encodable c (le_text k)) ls = true ->
    exists qs, text_pieces c (le_text k) mark ls = map (fun q => q ++ nl_bytes c k) qs /\ length qs = length ls.
  Proof.
    intros k mark [|l0 t] H; [exists []; split; reflexivity|].
    cbn [forallb] in H. apply andb_true_iff in H. destruct H as [H0 Ht].
    exists ((mark ++ ql l0) :: map ql t). split; [|cbn [length]; rewrite map_length; reflexivity].
    cbn [text_pieces map]. f_equal.
    - rewrite (proj2 (encodable_line k l0 H0)). apply app_assoc.
    - rewrite map_map. apply map_ext_in. intros l Hl. rewrite forallb_forall in Ht.
      apply (proj2 (encodable_line k l (Ht l Hl))).
  Qed.

  (* what the content decodes to: with the codec's mark, or with none *)
  Lemma decode_joined : forall k mark ls, ls <> [] -> forallb (encodable c (le_text k)) ls = true ->
    mark = bom \/ (mark = [] /\ (bom = [] \/ starts_with_bom (concat (map (enc_line c (le_text k)) ls)) = false)) ->
    py_decode (mark ++ concat (map (enc_line c (le_text k)) ls)) eb = Ok (concat (map (fun l => l ++ le_text k) ls)).
  Proof.
    intros k mark ls Hne Henc Hmark. pose proof (joined_enc k ls Henc) as Hb'.
    set (b' := concat (map (enc_line c (le_text k)) ls)) in *.
    assert (Hb'ne : b' <> []).
    { destruct ls as [|l0 t]; [congruence|]. cbn [forallb] in Henc. apply andb_true_iff in Henc. destruct Henc as [H0 _].
      unfold b'. cbn [map concat]. rewrite (proj2 (encodable_line k l0 H0)).
      destruct (nl_bytes_laws k) as (_ & H2 & _). destruct (ql l0); destruct (nl_bytes c k); cbn; congruence. }
    destruct Hmark as [-> | [-> Hnb]].
    - apply (py_decode_laws eb c bom enc0 laws _ _ Hb'). destruct bom; destruct b'; cbn; congruence.
    - cbn [app]. unfold py_decode. rewrite (is_nil_false _ Hb'ne). destruct (cl_lookup _ _ _ _ laws) as [canon ->].
      rewrite (nobom _ _ Hb' Hnb). reflexivity.
  Qed.

  (* the newline the reader works with *)
  Lemma nl_res_decl : forall k content, RS.nl_res_of (Some (VStr (le_name k))) (Some eb) content = Ok (nl_bytes c k).
  Proof.
    intros k content. destruct (nl_bytes_laws k) as (En & _).
    exact (reader_newline_declared eb c bom enc0 laws (le_name k) (le_text k) _ content (le_values k) (le_assoc k) En).
  Qed.

  Lemma guess_detect : forall body,
    guess_line_endings_bytes body (Some eb) =
      Ok (le_name (detect_kind (nl_bytes c LUnix) (nl_bytes c LDos) body),
          nl_bytes c (detect_kind (nl_bytes c LUnix) (nl_bytes c LDos) body)).
  Proof.
    intros body.
    destruct (newline_bytes eb c bom enc0 laws _ (le_values LUnix)) as (nu & U1 & _ & _ & U4 & U5 & _).
    destruct (newline_bytes eb c bom enc0 laws _ (le_values LDos)) as (nd & D1 & _ & _ & D4 & D5 & _).
    rewrite nl_text_le in U1, D1.
    destruct (nl_bytes_laws LUnix) as [Eu _]. destruct (nl_bytes_laws LDos) as [Ed _].
    rewrite Eu in U1. rewrite Ed in D1. injection U1 as <-. injection D1 as <-.
    unfold guess_line_endings_bytes. cbn [enc_or_ascii].
    change GenText.le_unix with (le_name LUnix). change GenText.le_dos with (le_name LDos).
    rewrite U4, D4. cbn [bind]. rewrite U5, D5. unfold detect_kind.
    destruct (bfind (nl_bytes c LUnix) body); [destruct (bends _ _)|]; reflexivity.
  Qed.

  Lemma nl_res_detect : forall body k,
    detect_kind (nl_bytes c LUnix) (nl_bytes c LDos) body = k -> RS.nl_res_of None (Some eb) body = Ok (nl_bytes c k).
  Proof. intros body k H. unfold RS.nl_res_of. cbn [pv_given]. rewrite guess_detect, H. reflexivity. Qed.

  Lemma nl_res_cases : forall le_pv body k,
    (le_pv = Some (VStr (le_name k)) \/
     (le_pv = None /\ detect_kind (nl_bytes c LUnix) (nl_bytes c LDos) body = k)) ->
    RS.nl_res_of le_pv (Some eb) body = Ok (nl_bytes c k).
  Proof. intros le_pv body k [-> | [-> Hd]]; [apply nl_res_decl | apply nl_res_detect; exact Hd]. Qed.

  (* ---------------------------------------------------------------------------------------------- *)
  (* text sections *)

  Lemma read_text_spec : forall st rest k mark ls n indent_o le_pv,
    ls <> [] -> forallb (encodable c (le_text k)) ls = true ->
    mark = bom \/ (mark = [] /\ (bom = [] \/ starts_with_bom (concat (map (enc_line c (le_text k)) ls)) = false)) ->
    lines_clean (nl_bytes c k) (text_pieces c (le_text k) mark ls) = true ->
    indent_matches indent_o n ->
    let body := text_body c (le_text k) mark n ls in
    RS.nl_res_of le_pv (Some eb) body = Ok (nl_bytes c k) ->
    remaining (st_stream st) = body ++ rest ->
    (Z.of_nat (length body) <= sys_maxsize)%Z ->
    exists st',
      read_content st (Z.of_nat (length body)) (Some (VStr eb)) indent_o le_pv false
        = COk (PText (concat (map (fun l => l ++ le_text k) ls))) st' /\
      remaining (st_stream st') = rest /\
      st_linenum st' = (st_linenum st + Z.of_nat (length ls))%Z /\
      st_fnl st' = st_fnl st.
  Proof.
    intros st rest k mark ls n indent_o le_pv Hne Henc Hmark Hclean Hind body Hnl Hrem Hmax.
    destruct (nl_bytes_laws k) as (_ & Hn2 & Hn3 & Hn4 & _).
    destruct (pieces_shape k mark ls Henc) as (qs & Hqs & Hlen).
    assert (Hq : qs <> []) by (intros ->; destruct ls; [congruence | discriminate Hlen]).
    unfold body, text_body in *. rewrite Hqs in *.
    pose proof (clean_of_b (nl_bytes c k) qs Hclean) as Hf.
    destruct (read_lines_gen (nl_bytes c k) Hn2 Hn3 Hn4 st rest qs n (Some (VStr eb)) indent_o le_pv false Hq Hf I Hind
                Hnl Hrem Hmax) as [Hrc Hrest].
    assert (Hd : concat (map (fun q => q ++ nl_bytes c k) qs) = mark ++ concat (map (enc_line c (le_text k)) ls))
      by (rewrite <- Hqs; apply pieces_concat; exact Hne).
    rewrite Hrc. cbn [RS.enc_name]. rewrite Hd.
    rewrite (decode_text (nl_bytes c k) _ _ _ eb _ _ _ (decode_joined k mark ls Hne Henc Hmark) (nl_bytes_decode k)
               (joined_ends k ls Hne)).
    eexists. split; [reflexivity|]. cbn [RS.state_after st_stream st_linenum st_fnl]. rewrite Hlen. auto.
  Qed.
End WithLaws.

(* ================================================================================================ *)
(** * Sections read as bytes: no encoding in force (newline in ASCII), and diffs *)

Lemma ascii_codec : codec_of (B "ascii") = Some ascii.
Proof. reflexivity. Qed.

(* a text or metadata section with no encoding in force *)
Lemma read_raw_spec : forall st rest k ls n indent_o le_pv,
  ls <> [] -> lines_clean (nl_bytes ascii k) (raw_pieces k ls) = true ->
  indent_matches indent_o n ->
  RS.nl_res_of le_pv None (raw_body k n ls) = Ok (nl_bytes ascii k) ->
  remaining (st_stream st) = raw_body k n ls ++ rest ->
  (Z.of_nat (length (raw_body k n ls)) <= sys_maxsize)%Z ->
  exists st',
    read_content st (Z.of_nat (length (raw_body k n ls))) None indent_o le_pv false
      = COk (PBytes (concat (raw_pieces k ls))) st' /\
    remaining (st_stream st') = rest /\
    st_linenum st' = (st_linenum st + Z.of_nat (length ls))%Z /\
    st_fnl st' = st_fnl st.
Proof.
  intros st rest k ls n indent_o le_pv Hne Hclean Hind Hnl Hrem Hmax.
  destruct (codec_laws_x _ _ ascii_codec) as (bom & enc0 & laws & _).
  destruct (nl_bytes_laws _ _ _ _ laws k) as (_ & Hn2 & Hn3 & Hn4 & _).
  unfold raw_body, raw_pieces in *.
  pose proof (clean_of_b (nl_bytes ascii k) ls Hclean) as Hf.
  destruct (read_lines_gen (nl_bytes ascii k) Hn2 Hn3 Hn4 st rest ls n None indent_o le_pv false Hne Hf I Hind
              Hnl Hrem Hmax) as [Hrc Hrest].
  rewrite Hrc. cbn [RS.enc_name].
  destruct (lines_split (nl_bytes ascii k) Hn2 Hn3 Hn4 ls Hne Hf) as (_ & _ & Hends).
  rewrite (decode_bytes (nl_bytes ascii k) _ _ _ None false _ (or_introl eq_refl) Hends).
  eexists. split; [reflexivity|]. cbn [RS.state_after st_stream st_linenum st_fnl]. auto.
Qed.

Section DiffLaws.
  Variables (eb : bytes) (c : codec) (bom : bytes) (enc0 : text -> option bytes).
  Hypothesis laws : codec_laws eb c bom enc0.

  Lemma read_diff_spec : forall st rest raw k enc_o le_pv,
    raw <> [] -> bends (nl_bytes c k) raw = true ->
    RS.enc_valid enc_o ->
    RS.nl_res_of le_pv (RS.enc_name enc_o) raw = Ok (nl_bytes c k) ->
    remaining (st_stream st) = raw ++ rest ->
    (Z.of_nat (length raw) <= sys_maxsize)%Z ->
    exists st',
      read_content st (Z.of_nat (length raw)) enc_o None le_pv true = COk (PBytes raw) st' /\
      remaining (st_stream st') = rest /\
      st_linenum st' = (st_linenum st + Z.of_nat (occurrences byte_eqb (nl_bytes c k) raw))%Z /\
      st_fnl st' = st_fnl st.
  Proof.
    intros st rest raw k enc_o le_pv Hne Hends Henc Hnl Hrem Hmax.
    destruct (nl_bytes_laws _ _ _ _ laws k) as (_ & Hn2 & Hn3 & _).
    destruct (C16b_total_ok raw (nl_bytes c k) true Hne Hn2) as [lines Hl].
    pose proof (C16b_count raw (nl_bytes c k) lines Hne Hn2 Hn3 Hl) as Hcount. rewrite Hends, Nat.add_0_r in Hcount.
    rewrite RS.read_content_eq. cbv zeta.
    rewrite (content_bytes_exact st raw rest Hrem Hmax), (is_nil_false raw Hne).
    cbn [RS.indent_bad]. rewrite Hnl, Hl, Hends. cbn [negb RS.strip_indent].
    rewrite (decode_bytes (nl_bytes c k) _ _ _ _ true raw (or_intror eq_refl) Hends).
    eexists. split.
    - destruct enc_o as [[z|e]|]; [contradiction Henc | reflexivity | reflexivity].
    - cbn [RS.state_after st_stream st_linenum st_fnl]. rewrite Hcount.
      split; [exact (stream_after_rest st raw rest Hrem Hmax) | split; reflexivity].
  Qed.
End DiffLaws.

(* without an encoding option the newline is the ASCII one *)
Lemma nl_res_ascii : forall le_pv raw, RS.nl_res_of le_pv None raw = RS.nl_res_of le_pv (Some (B "ascii")) raw.
Proof. reflexivity. Qed.
