(* DomSpecFacts.v — proofs for C05 / C06 at the object-model level (definitions in DomSpec.v). *)
From Coq Require Import List Arith NArith ZArith Bool Strings.Byte Lia.
From Coq Require Strings.String.
From DX Require Import Bytes Res Codec Text Sections Header Json Reader Writer Dom DomSpec.
From DXGen Require GenSections GenText.
Import ListNotations.
Import String.StringSyntax.
Local Open Scope string_scope.
Local Open Scope list_scope.

(* ================================================================================================ *)
(* Part 1: the DOM writer is the streaming writer on [tree_calls] *)

Lemma seq_all_exec : forall l s, seq_all (map exec l) s = run_thunks s l.
Proof.
  induction l as [|th l IH]; intro s; [reflexivity|].
  cbn [map seq_all run_thunks]. unfold seqw. destruct (exec th s) as [s1 [u|e]]; [apply IH | reflexivity].
Qed.

Lemma run_thunks_app : forall a b s,
  run_thunks s (a ++ b) =
  let (s1, x) := run_thunks s a in match x with Ok _ => run_thunks s1 b | Err e => (s1, Err e) end.
Proof.
  induction a as [|th a IH]; intros b s; [reflexivity|].
  cbn [app run_thunks]. destruct (exec th s) as [s1 [u|e]]; [apply IH | reflexivity].
Qed.

Lemma seq_all_app_run : forall l1 l2 th1 th2,
  (forall s, seq_all l1 s = run_thunks s th1) -> (forall s, seq_all l2 s = run_thunks s th2) ->
  forall s, seq_all (l1 ++ l2) s = run_thunks s (th1 ++ th2).
Proof.
  intros l1 l2 th1 th2 H1 H2 s. rewrite run_thunks_app, <- H1. clear H1. revert s.
  induction l1 as [|a l1 IH]; intro s.
  - cbn [app seq_all]. apply H2.
  - cbn [app seq_all]. unfold seqw. destruct (a s) as [s1 [u|e]]; [apply IH | reflexivity].
Qed.

Lemma write_file_thunks : forall f s, write_file f s = run_thunks s (file_thunks f).
Proof. intros f s. unfold write_file. apply (seq_all_exec (file_thunks f)). Qed.

Lemma seq_all_flat {A} : forall (w : A -> wstate -> wstate * res unit) (th : A -> list thunk),
  (forall x s, w x s = run_thunks s (th x)) ->
  forall l s, seq_all (map w l) s = run_thunks s (flat_map th l).
Proof.
  intros w th H. induction l as [|x l IH]; intro s; [reflexivity|].
  cbn [map flat_map]. change (w x :: map w l) with ([w x] ++ map w l).
  apply seq_all_app_run; [|exact IH].
  intro s'. cbn [seq_all]. unfold seqw. rewrite H. destruct (run_thunks s' (th x)) as [s1 [[]|e]]; reflexivity.
Qed.

Lemma write_change_thunks : forall c s, write_change c s = run_thunks s (change_thunks c).
Proof.
  intros c s. unfold write_change, change_thunks.
  apply seq_all_app_run.
  - intro s'. apply (seq_all_exec [_; _; _]).
  - apply seq_all_flat. exact write_file_thunks.
Qed.

Lemma write_tree_thunks : forall t s,
  seq_all ([exec (call_preamble (d_pre t)); exec (call_meta (d_meta t))] ++ map write_change (d_changes t)) s
  = run_thunks s (tree_thunks t).
Proof.
  intros t s. unfold tree_thunks. apply seq_all_app_run.
  - intro s'. apply (seq_all_exec [_; _]).
  - apply seq_all_flat. exact write_change_thunks.
Qed.

(* the exact statement, failures included: build/validate the constructor arguments, then the thunks in order *)
Theorem dom_write_thunks : forall t,
  dom_write t =
  if negb (main_keys_ok t) then Err EType else
  let (s0, r0) := writer_init (tree_encoding t) (tree_version t) in
  match r0 with
  | Err e => Err e
  | Ok _ => let (s1, r1) := run_thunks s0 (tree_thunks t) in
            match r1 with Ok _ => Ok (w_out s1) | Err e => Err e end
  end.
Proof.
  intro t. unfold dom_write, main_keys_ok, tree_encoding, tree_version. rewrite negb_involutive.
  destruct (nonempty _); [reflexivity|].
  destruct (writer_init _ _) as [s0 [u|e]]; [|reflexivity].
  rewrite write_tree_thunks. reflexivity.
Qed.

Lemma run_collect : forall l cs s, collect l = Ok cs -> run_thunks s l = run_all s cs.
Proof.
  induction l as [|th l IH]; intros cs s H.
  - cbn in H. injection H as <-. reflexivity.
  - destruct th as [[c|]|e]; cbn [collect] in H.
    + destruct (collect l) as [cs'|e] eqn:E; cbn [bind] in H; [|discriminate]. injection H as <-.
      cbn [run_thunks run_all exec]. destruct (do_call c s) as [s1 [u|e]]; [apply IH; reflexivity | reflexivity].
    + cbn [run_thunks exec]. apply IH. exact H.
    + discriminate.
Qed.

Lemma run_ok_collect : forall l s s1 u, run_thunks s l = (s1, Ok u) -> exists cs, collect l = Ok cs.
Proof.
  induction l as [|th l IH]; intros s s1 u H.
  - exists []. reflexivity.
  - destruct th as [[c|]|e]; cbn [run_thunks exec] in H.
    + destruct (do_call c s) as [s2 [u2|e]]; [|discriminate].
      destruct (IH _ _ _ H) as [cs E]. exists (c :: cs). cbn [collect]. rewrite E. reflexivity.
    + destruct (IH _ _ _ H) as [cs E]. exists cs. exact E.
    + discriminate.
Qed.

Theorem C05_write_is_calls : forall t b,
  dom_write t = Ok b <->
  main_keys_ok t = true /\
  exists s0 cs s1,
    writer_init (tree_encoding t) (tree_version t) = (s0, Ok tt) /\
    tree_calls t = Ok cs /\
    run_all s0 cs = (s1, Ok tt) /\
    b = w_out s1.
Proof.
  intros t b. rewrite dom_write_thunks. split.
  - destruct (main_keys_ok t); [|discriminate]. cbn [negb].
    destruct (writer_init _ _) as [s0 [[]|e]] eqn:Ei; [|discriminate].
    destruct (run_thunks s0 (tree_thunks t)) as [s1 [[]|e]] eqn:Er; [|discriminate].
    intro H. injection H as <-. split; [reflexivity|].
    destruct (run_ok_collect _ _ _ _ Er) as [cs Ec].
    exists s0, cs, s1. repeat split; try assumption.
    rewrite <- (run_collect _ _ s0 Ec). exact Er.
  - intros [Hk [s0 [cs [s1 [Hi [Hc [Hr ->]]]]]]]. rewrite Hk, Hi. cbn [negb].
    unfold tree_calls in Hc. rewrite (run_collect _ _ s0 Hc), Hr. reflexivity.
Qed.

(* the failure order, when the call list exists: the first rejected call decides *)
Theorem C05_write_error : forall t cs s0,
  main_keys_ok t = true -> writer_init (tree_encoding t) (tree_version t) = (s0, Ok tt) -> tree_calls t = Ok cs ->
  dom_write t = let (s1, r) := run_all s0 cs in match r with Ok _ => Ok (w_out s1) | Err e => Err e end.
Proof.
  intros t cs s0 Hk Hi Hc. rewrite dom_write_thunks, Hk, Hi. cbn [negb].
  unfold tree_calls in Hc. rewrite (run_collect _ _ s0 Hc). reflexivity.
Qed.

(* ================================================================================================ *)
(* Part 2: the DOM reader rebuilds the normalised tree from the expected records *)

Lemma byte_eqb_refl : forall a, byte_eqb a a = true.
Proof. intro a. unfold byte_eqb. apply byte_dec_lb. reflexivity. Qed.
Lemma beq_refl : forall a, beq a a = true.
Proof. induction a as [|x a IH]; [reflexivity|]. cbn. rewrite byte_eqb_refl. exact IH. Qed.
Lemma beq_true_eq : forall a b, beq a b = true -> a = b.
Proof.
  induction a as [|x a IH]; destruct b as [|y b]; cbn; intro H; try discriminate; [reflexivity|].
  apply andb_true_iff in H. destruct H as [H1 H2]. apply byte_dec_bl in H1. subst y. f_equal. apply IH. exact H2.
Qed.

Lemma byte_n_n_byte : forall c, (c < 256)%N -> byte_n (n_byte c) = c.
Proof.
  intros c H. unfold byte_n, n_byte. destruct (Byte.of_N c) as [b|] eqn:E.
  - apply Byte.to_of_N. exact E.
  - apply Byte.of_N_None_iff in E. lia.
Qed.

Lemma ascii_text_bytes : forall t, forallb (fun c => N.ltb c 256) t = true -> ascii_text (text_bytes t) = t.
Proof.
  induction t as [|c t IH]; cbn [forallb]; intro H; [reflexivity|].
  apply andb_true_iff in H. destruct H as [H1 H2]. apply N.ltb_lt in H1.
  unfold ascii_text, text_bytes in *. cbn [map]. rewrite byte_n_n_byte by exact H1. f_equal. apply IH. exact H2.
Qed.

Lemma hval_str : forall t, str_ok t = true -> hval (WStr t) = Some (VStr (text_bytes t)) /\ ascii_text (text_bytes t) = t.
Proof.
  intros t H. unfold str_ok in H. apply andb_true_iff in H. destruct H as [H1 H2].
  split; [|apply ascii_text_bytes; exact H1].
  cbn [hval]. unfold convert_value. apply negb_true_iff in H2. rewrite H2. reflexivity.
Qed.

(* a value that is absent or well typed *)
Definition ov_ok (v : wv) : Prop := v = WNone \/ hv_ok v = true.

Lemma dopts_of_hopts : forall l, Forall (fun p => ov_ok (snd p)) l -> dopts_of_options (hopts l) = present l.
Proof.
  induction l as [|[k v] l IH]; intro H; [reflexivity|].
  inversion H as [|? ? Hv Hl]; subst. cbn [snd] in Hv.
  unfold hopts, present in *. cbn [flat_map filter snd fst]. unfold dopts_of_options in *. rewrite map_app.
  rewrite (IH Hl). destruct Hv as [->|Hv]; [reflexivity|].
  destruct v; try discriminate Hv; cbn [hv_ok] in Hv.
  - reflexivity.
  - destruct (hval_str t Hv) as [E1 E2]. rewrite E1. cbn [map fst snd wv_of_pv app]. rewrite E2. reflexivity.
Qed.

Lemma assoc_del_hopts : forall k l, assoc_del beq k (hopts l) = hopts (assoc_del beq k l).
Proof.
  intros k. induction l as [|[k' v] l IH]; [reflexivity|].
  unfold hopts in *. cbn [flat_map assoc_del fst snd].
  destruct (beq k k') eqn:E.
  - destruct (hval v) as [p|]; cbn [app assoc_del]; rewrite ?E; exact IH.
  - cbn [flat_map fst snd]. destruct (hval v) as [p|]; cbn [app assoc_del]; rewrite ?E, IH; reflexivity.
Qed.

(* ---- typed option dicts ---- *)
Lemma typed_get : forall o k v, typed_opts o = true -> assoc_get beq k o = Some v -> hv_ok v = true.
Proof.
  induction o as [|[k' v'] o IH]; intros k v H G; [discriminate|].
  cbn [typed_opts forallb snd] in H. apply andb_true_iff in H. destruct H as [H1 H2].
  cbn [assoc_get] in G. destruct (beq k k'); [injection G as <-; exact H1 | exact (IH _ _ H2 G)].
Qed.

Lemma kw_ok : forall o k, typed_opts o = true -> ov_ok (kw o k).
Proof.
  intros o k H. unfold kw. destruct (assoc_get beq (B k) o) eqn:G; [right; exact (typed_get _ _ _ H G) | left; reflexivity].
Qed.

Lemma kw_opt_ok : forall o k v, typed_opts o = true -> kw_opt o k = Some v -> hv_ok v = true.
Proof. intros o k v H G. exact (typed_get _ _ _ H G). Qed.

Lemma typed_assoc_set : forall o k v, hv_ok v = true -> typed_opts o = true -> typed_opts (assoc_set beq k v o) = true.
Proof.
  induction o as [|[k' v'] o IH]; intros k v Hv H.
  - cbn. rewrite Hv. reflexivity.
  - cbn [typed_opts forallb snd] in H. apply andb_true_iff in H. destruct H as [H1 H2].
    cbn [assoc_set]. destruct (beq k k'); cbn [typed_opts forallb snd].
    + rewrite Hv. exact H2.
    + rewrite H1. apply IH; assumption.
Qed.

Lemma typed_remap : forall name o, typed_opts o = true -> typed_opts (remap name o) = true.
Proof.
  intros name o. unfold remap.
  assert (G : forall acc, typed_opts acc = true -> typed_opts o = true ->
              typed_opts (fold_left (fun acc p =>
                 let k := if beq (fst p) (B "type") && String.eqb name "diff" then B "diff_type"
                          else if beq (fst p) (B "format") && String.eqb name "meta" then B "meta_format"
                          else fst p in assoc_set beq k (snd p) acc) o acc) = true).
  { induction o as [|[k v] o IH]; intros acc Ha H; [exact Ha|].
    cbn [typed_opts forallb snd] in H. apply andb_true_iff in H. destruct H as [H1 H2].
    cbn [fold_left]. apply IH; [|exact H2]. apply typed_assoc_set; assumption. }
  apply G. reflexivity.
Qed.

(* ---- pydiffx fix D15: the DOM writer does not pass a metadata section's [line_endings] option on to write_meta
   (call_meta deletes it before the renaming).  Deleting it changes no other lookup, so the call is the one built
   from the whole dict, and only the unexpected-keyword test sees the difference. ---- *)
Lemma aget_set : forall (o : dopts) k K v,
  assoc_get beq k (assoc_set beq K v o) = if beq k K then Some v else assoc_get beq k o.
Proof.
  induction o as [|[k0 v0] o IH]; intros k K v; [reflexivity|].
  cbn [assoc_set]. destruct (beq K k0) eqn:E.
  - apply beq_true_eq in E. subst k0. cbn [assoc_get]. destruct (beq k K); reflexivity.
  - cbn [assoc_get]. rewrite IH. destruct (beq k k0) eqn:E0; [|reflexivity].
    destruct (beq k K) eqn:E1; [|reflexivity].
    apply beq_true_eq in E0. apply beq_true_eq in E1. subst. rewrite beq_refl in E. discriminate.
Qed.

Lemma adel_absent : forall (o : dopts) k, existsb (fun p => beq k (fst p)) o = false -> assoc_del beq k o = o.
Proof.
  induction o as [|[k0 v0] o IH]; intros k H; [reflexivity|].
  cbn [existsb fst] in H. apply orb_false_iff in H. destruct H as [H1 H2].
  cbn [assoc_del]. rewrite H1, (IH _ H2). reflexivity.
Qed.

Lemma remap_meta_del_get : forall o k, beq k (B "line_endings") = false ->
  assoc_get beq k (remap "meta" (assoc_del beq (B "line_endings") o)) = assoc_get beq k (remap "meta" o).
Proof.
  intros o k Hk. unfold remap.
  assert (G : forall acc acc' : dopts, assoc_get beq k acc = assoc_get beq k acc' ->
    assoc_get beq k (fold_left (fun acc p =>
                 let k := if beq (fst p) (B "type") && String.eqb "meta" "diff" then B "diff_type"
                          else if beq (fst p) (B "format") && String.eqb "meta" "meta" then B "meta_format"
                          else fst p in assoc_set beq k (snd p) acc) (assoc_del beq (B "line_endings") o) acc) =
    assoc_get beq k (fold_left (fun acc p =>
                 let k := if beq (fst p) (B "type") && String.eqb "meta" "diff" then B "diff_type"
                          else if beq (fst p) (B "format") && String.eqb "meta" "meta" then B "meta_format"
                          else fst p in assoc_set beq k (snd p) acc) o acc')); [|apply G; reflexivity].
  induction o as [|[k0 v0] o IH]; intros acc acc' H; [exact H|].
  cbn [assoc_del]. destruct (beq (B "line_endings") k0) eqn:E.
  - apply beq_true_eq in E. subst k0. cbn [fold_left]. apply IH.
    cbv zeta. cbn [fst snd].
    change (if beq (B "line_endings") (B "type") && String.eqb "meta" "diff" then B "diff_type"
            else if beq (B "line_endings") (B "format") && String.eqb "meta" "meta" then B "meta_format"
            else B "line_endings") with (B "line_endings").
    rewrite aget_set, Hk. exact H.
  - cbn [fold_left]. apply IH. cbv zeta. rewrite !aget_set, H. reflexivity.
Qed.

Lemma kw_remap_meta_del : forall o,
  kw (remap "meta" (assoc_del beq (B "line_endings") o)) "encoding" = kw (remap "meta" o) "encoding" /\
  kw_opt (remap "meta" (assoc_del beq (B "line_endings") o)) "meta_format" = kw_opt (remap "meta" o) "meta_format".
Proof. intro o. unfold kw, kw_opt. rewrite !remap_meta_del_get by reflexivity. split; reflexivity. Qed.

(* [call_meta] with the call built from the whole dict *)
Lemma call_meta_eq : forall s, call_meta s =
  if is_nil (m_content s) then Ok None else
  let o := remap "meta" (m_opts s) in
  if negb (only_keys (remap "meta" (assoc_del beq (B "line_endings") (m_opts s))) ["encoding"; "meta_format"]) then Err EType
  else Ok (Some (WriteMeta (WDict (JObj (m_content s))) (kw o "encoding") (kw_opt o "meta_format"))).
Proof.
  intro s. unfold call_meta. cbv zeta. destruct (kw_remap_meta_del (m_opts s)) as [-> ->]. reflexivity.
Qed.

Lemma hv_ov : forall v, hv_ok v = true -> ov_ok v.
Proof. intros v H. right. exact H. Qed.

Lemma le_names_ok : hv_ok (WStr (ascii_text GenText.le_unix)) = true /\ hv_ok (WStr (ascii_text GenText.le_dos)) = true.
Proof. split; vm_compute; reflexivity. Qed.

Lemma guess_text_fst : forall t, fst (guess_line_endings_text t) = GenText.le_unix \/ fst (guess_line_endings_text t) = GenText.le_dos.
Proof.
  intro t. unfold guess_line_endings_text. destruct (find _ _ _); [destruct (suffixb _ _ _)|]; cbn [fst]; auto.
Qed.

Lemma pre_resolve_ok : forall le t, ov_ok le -> hv_ok (fst (pre_resolve le t)) = true.
Proof.
  intros le t H. unfold pre_resolve. destruct (declared_newline le) eqn:D.
  - cbn [fst]. destruct H as [->|H]; [discriminate D | exact H].
  - pose proof (guess_text_fst t) as G. destruct (guess_line_endings_text t) as [l nl]. cbn [fst] in *.
    destruct G as [->| ->]; apply le_names_ok.
Qed.

Lemma guess_bytes_fst : forall b en p, guess_line_endings_bytes b en = Ok p ->
  fst p = GenText.le_unix \/ fst p = GenText.le_dos.
Proof.
  intros b en p H. unfold guess_line_endings_bytes in H.
  destruct (py_encode _ _); cbn [bind] in H; [|discriminate].
  destruct (py_encode _ _); cbn [bind] in H; [|discriminate].
  destruct (bfind _ _); [destruct (bends _ _)|]; injection H as <-; auto.
Qed.

(* what the preparation of a diff does, spelled out *)
Definition diff_newline_encoding (enc : wv) : wv := if wv_truthy enc then enc else WStr (ascii_text (B "ascii")).
Definition diff_en1 (enc : wv) : option bytes := match enc with WStr e => c_enc ascii e | _ => None end.

Lemma diff_prepare_shape : forall le enc b body lo, diff_prepare le enc b = Ok (body, lo) ->
  exists nlb,
    body = (if bends (strip_bom nlb (diff_en1 enc)) b then b else b ++ strip_bom nlb (diff_en1 enc)) /\
    ((exists nl, declared_newline le = Some nl /\ lo = le /\ encode_dyn nl (diff_newline_encoding enc) = Ok nlb) \/
     (exists en l, declared_newline le = None /\ enc_name (diff_newline_encoding enc) = Ok en /\
                   guess_line_endings_bytes b en = Ok (l, nlb) /\ lo = WStr (ascii_text l))).
Proof.
  intros le enc b body lo H. unfold diff_prepare, prepare_content in H.
  destruct (is_nil b); [discriminate|].
  destruct (match le with WNone => Ok true | _ => _ end) as [[|]|]; cbn [bind negb] in H; try discriminate.
  rewrite andb_false_r in H. cbn [bind] in H.
  fold (declared_newline le) in H. fold (diff_newline_encoding enc) in H. fold (diff_en1 enc) in H.
  destruct (declared_newline le) as [nl|] eqn:D.
  - destruct (encode_dyn nl _) as [nlb|] eqn:E; cbn [bind] in H; [|discriminate].
    cbn [wv_truthy] in H. injection H as <- <-. exists nlb. split; [reflexivity|]. left. exists nl. auto.
  - destruct (enc_name _) as [en|] eqn:E; cbn [bind] in H; [|discriminate].
    destruct (guess_line_endings_bytes b en) as [[l nlb]|] eqn:G; cbn [bind fst snd] in H; [|discriminate].
    cbn [wv_truthy] in H. injection H as <- <-. exists nlb. split; [reflexivity|]. right. exists en, l. auto.
Qed.

Lemma diff_prepared_ok : forall le enc b, ov_ok le -> ov_ok (snd (diff_prepared le enc b)).
Proof.
  intros le enc b H. unfold diff_prepared. destruct (diff_prepare le enc b) as [[body lo]|e] eqn:E; [|exact H].
  cbn [snd]. destruct (diff_prepare_shape _ _ _ _ _ E) as [nlb [_ [[nl [_ [-> _]]]|[en [l [_ [_ [G ->]]]]]]]]; [exact H|].
  right. destruct (guess_bytes_fst _ _ _ G) as [F|F]; cbn [fst] in F; subst l; apply le_names_ok.
Qed.

(* preparing a diff does not look at the writer state *)
Lemma diff_prepare_state : forall s le enc b,
  prepare_content s (CBytes b) WNone le enc false = diff_prepare le enc b.
Proof.
  intros s le enc b. unfold diff_prepare, prepare_content. rewrite !andb_false_r. reflexivity.
Qed.

(* ---- one record at a time ---- *)
Lemma set_last_app {A} : forall (f : A -> res A) l x, set_last f (l ++ [x]) = do y <- f x; Ok (l ++ [y]).
Proof.
  induction l as [|a l IH]; intro x; cbn [app].
  - cbn [set_last]. destruct (f x); reflexivity.
  - destruct (l ++ [x]) as [|b l0] eqn:E; [destruct l; discriminate|].
    cbn [set_last]. change (match l0 with [] => do y <- f b; Ok [y] | _ :: _ => do t' <- set_last f l0; Ok (b :: t') end)
      with (set_last f (b :: l0)).
    rewrite <- E, IH. destruct (f x); reflexivity.
Qed.

Definition T (o : dopts) (p : psec) (m : msec) (cs : list dchange) : dtree :=
  {| d_opts := o; d_pre := p; d_meta := m; d_changes := cs |}.
Definition Ch (o : dopts) (p : psec) (m : msec) (fs : list dfile) : dchange :=
  {| c_opts := o; c_pre := p; c_meta := m; c_files := fs |}.
Definition Fi (o : dopts) (m : msec) (d : dsec) : dfile := {| f_opts := o; f_meta := m; f_diff := d |}.
Definition P (o : dopts) (c : option text) : psec := {| p_opts := o; p_content := c |}.
Definition Me (o : dopts) (c : list (text * json)) : msec := {| m_opts := o; m_content := c |}.
Definition D (o : dopts) (c : option bytes) : dsec := {| x_opts := o; x_content := c |}.

Lemma A_main : forall t cur o p,
  apply_record (t, cur) (view_record (GenSections.sec_main, o, p)) =
  Ok (T (dopts_of_options o) (d_pre t) (d_meta t) (d_changes t), AtMain).
Proof. reflexivity. Qed.

Lemma A_pre_main : forall O p M cs o txt,
  apply_record (T O p M cs, AtMain) (view_record (build_id 1 (B "preamble"), o, PText txt)) =
  Ok (T O (P (content_options o) (Some txt)) M cs, AtMain).
Proof. reflexivity. Qed.

Lemma A_meta_main : forall O p M cs o kv,
  apply_record (T O p M cs, AtMain) (view_record (build_id 1 (B "meta"), o, PMeta (JObj kv))) =
  Ok (T O p (Me (content_options o) kv) cs, AtMain).
Proof. reflexivity. Qed.

Lemma A_pre_change : forall O p M cs co cp cm fs o txt,
  apply_record (T O p M (cs ++ [Ch co cp cm fs]), AtChange) (view_record (build_id 2 (B "preamble"), o, PText txt)) =
  Ok (T O p M (cs ++ [Ch co (P (content_options o) (Some txt)) cm fs]), AtChange).
Proof.
  intros. unfold apply_record, view_record, T. cbn [r_id r_opts r_payload d_changes d_opts d_pre d_meta].
  change (beq (build_id 2 (B "preamble")) GenSections.sec_main) with false.
  change (beq (build_id 2 (B "preamble")) GenSections.sec_change) with false.
  change (beq (build_id 2 (B "preamble")) GenSections.sec_file) with false.
  cbv iota. rewrite set_last_app. reflexivity.
Qed.

Lemma A_meta_change : forall O p M cs co cp cm fs o kv,
  apply_record (T O p M (cs ++ [Ch co cp cm fs]), AtChange) (view_record (build_id 2 (B "meta"), o, PMeta (JObj kv))) =
  Ok (T O p M (cs ++ [Ch co cp (Me (content_options o) kv) fs]), AtChange).
Proof.
  intros. unfold apply_record, view_record, T. cbn [r_id r_opts r_payload d_changes d_opts d_pre d_meta].
  change (beq (build_id 2 (B "meta")) GenSections.sec_main) with false.
  change (beq (build_id 2 (B "meta")) GenSections.sec_change) with false.
  change (beq (build_id 2 (B "meta")) GenSections.sec_file) with false.
  cbv iota. rewrite set_last_app. reflexivity.
Qed.

Lemma A_meta_file : forall O p M cs co cp cm fs fo fm fd o kv,
  apply_record (T O p M (cs ++ [Ch co cp cm (fs ++ [Fi fo fm fd])]), AtFile)
               (view_record (build_id 3 (B "meta"), o, PMeta (JObj kv))) =
  Ok (T O p M (cs ++ [Ch co cp cm (fs ++ [Fi fo (Me (content_options o) kv) fd])]), AtFile).
Proof.
  intros. unfold apply_record, view_record, T. cbn [r_id r_opts r_payload d_changes d_opts d_pre d_meta].
  change (beq (build_id 3 (B "meta")) GenSections.sec_main) with false.
  change (beq (build_id 3 (B "meta")) GenSections.sec_change) with false.
  change (beq (build_id 3 (B "meta")) GenSections.sec_file) with false.
  cbv iota. rewrite set_last_app. unfold Ch. cbn [bind c_files c_opts c_pre c_meta]. rewrite set_last_app. reflexivity.
Qed.

Lemma A_diff_file : forall O p M cs co cp cm fs fo fm fd o b,
  apply_record (T O p M (cs ++ [Ch co cp cm (fs ++ [Fi fo fm fd])]), AtFile)
               (view_record (build_id 3 (B "diff"), o, PBytes b)) =
  Ok (T O p M (cs ++ [Ch co cp cm (fs ++ [Fi fo fm (D (content_options o) (Some b))])]), AtFile).
Proof.
  intros. unfold apply_record, view_record, T. cbn [r_id r_opts r_payload d_changes d_opts d_pre d_meta].
  change (beq (build_id 3 (B "diff")) GenSections.sec_main) with false.
  change (beq (build_id 3 (B "diff")) GenSections.sec_change) with false.
  change (beq (build_id 3 (B "diff")) GenSections.sec_file) with false.
  change (beq (build_id 3 (B "diff")) GenSections.sec_file_diff) with true.
  cbv iota. rewrite set_last_app. unfold Ch. cbn [bind c_files c_opts c_pre c_meta]. rewrite set_last_app. reflexivity.
Qed.

(* a container header: encoding absent or a str *)
Definition cv_ok (e : wv) : Prop := e = WNone \/ sv_ok e = true.

Lemma container_opts : forall e, cv_ok e ->
  dopts_of_options (hopts [(B "encoding", e)]) = present [(B "encoding", e)] /\
  (present [(B "encoding", e)] = [] \/ exists t, present [(B "encoding", e)] = [(B "encoding", WStr t)]).
Proof.
  intros e H. split.
  - apply dopts_of_hopts. constructor; [|constructor]. cbn [snd]. destruct H as [->|H]; [left; reflexivity|].
    right. destruct e; try discriminate H. exact H.
  - destruct H as [->|H]; [left; reflexivity|]. destruct e; try discriminate H. right. exists t. reflexivity.
Qed.

Lemma A_change : forall O p M cs cur e pl, cv_ok e ->
  apply_record (T O p M cs, cur) (view_record (GenSections.sec_change, hopts [(B "encoding", e)], pl)) =
  Ok (T O p M (cs ++ [Ch (present [(B "encoding", e)]) new_psec new_msec []]), AtChange).
Proof.
  intros O p M cs cur e pl H. destruct (container_opts e H) as [E1 E2].
  unfold apply_record, view_record. cbn [r_id r_opts r_payload]. rewrite E1.
  destruct E2 as [-> | [t ->]]; reflexivity.
Qed.

Lemma A_file : forall O p M cs co cp cm fs cur e pl, cv_ok e ->
  apply_record (T O p M (cs ++ [Ch co cp cm fs]), cur) (view_record (GenSections.sec_file, hopts [(B "encoding", e)], pl)) =
  Ok (T O p M (cs ++ [Ch co cp cm (fs ++ [Fi (present [(B "encoding", e)]) new_msec new_dsec])]), AtFile).
Proof.
  intros O p M cs co cp cm fs cur e pl H. destruct (container_opts e H) as [E1 E2].
  unfold apply_record, view_record. cbn [r_id r_opts r_payload]. rewrite E1.
  change (beq GenSections.sec_file GenSections.sec_main) with false.
  change (beq GenSections.sec_file GenSections.sec_change) with false.
  change (beq GenSections.sec_file GenSections.sec_file) with true.
  cbv iota. unfold T. cbn [d_changes d_opts d_pre d_meta].
  destruct E2 as [-> | [t ->]].
  - change (has_slot_key []) with false. cbv iota.
    change (to_parse (apply_attrs set_file_attr new_file [])) with (Ok new_file). cbn [bind].
    rewrite set_last_app. reflexivity.
  - change (has_slot_key [(B "encoding", WStr t)]) with false. cbv iota.
    change (to_parse (apply_attrs set_file_attr new_file [(B "encoding", WStr t)]))
      with (Ok (Fi [(B "encoding", WStr t)] new_msec new_dsec)). cbn [bind].
    rewrite set_last_app. reflexivity.
Qed.

(* ---- what each content section contributes: its call, the expected view, and the normalised section ---- *)
Lemma content_hopts : forall l l', assoc_del beq (B "length") l = l' -> Forall (fun p => ov_ok (snd p)) l' ->
  content_options (hopts l) = present l'.
Proof. intros l l' E H. unfold content_options. rewrite assoc_del_hopts, E. apply dopts_of_hopts. exact H. Qed.

Ltac forall_ok := repeat (first [apply Forall_nil | apply Forall_cons]); cbn [snd].

Definition olist (oc : option call) : list call := match oc with Some c => [c] | None => [] end.

Lemma indent_default_ok : forall o, typed_opts o = true -> ov_ok (indent_or_default (kw_opt o "indent")).
Proof.
  intros o H. destruct (kw_opt o "indent") as [v|] eqn:E; cbn [indent_or_default]; right;
    [exact (kw_opt_ok _ _ _ H E) | reflexivity].
Qed.

Lemma format_default_ok : forall o, typed_opts o = true -> ov_ok (format_or_default (kw_opt o "meta_format")).
Proof.
  intros o H. destruct (kw_opt o "meta_format") as [v|] eqn:E; cbn [format_or_default]; right;
    [exact (kw_opt_ok _ _ _ H E) | vm_compute; reflexivity].
Qed.

Lemma pre_view : forall p oc, typed_opts (p_opts p) = true -> call_preamble p = Ok oc ->
  match oc with
  | None => norm_psec p = new_psec
  | Some c => forall s cur, exists o txt,
      expected_view s cur c = (build_id (cur_dots cur) (B "preamble"), o, PText txt) /\
      norm_psec p = P (content_options o) (Some txt) /\ next_cursor cur c = cur
  end.
Proof.
  intros [o ct] oc Ht H. unfold call_preamble in H. unfold norm_psec. cbn [p_content p_opts] in *.
  destruct ct as [t|]; [|injection H as <-; reflexivity].
  destruct (is_nil t); [injection H as <-; reflexivity|].
  destruct (negb (only_keys o _)); [discriminate|]. injection H as <-.
  intros s cur. cbn [expected_view].
  pose proof (pre_resolve_ok (kw o "line_endings") t (kw_ok o "line_endings" Ht)) as Hle.
  destruct (pre_resolve (kw o "line_endings") t) as [le nl]. cbn [fst] in Hle.
  eexists. eexists. split; [reflexivity|]. split; [|reflexivity]. unfold P. f_equal.
  symmetry. apply content_hopts; [reflexivity|].
  forall_ok; [apply kw_ok | apply indent_default_ok | right | apply kw_ok]; assumption.
Qed.

Lemma meta_view : forall m oc, typed_opts (m_opts m) = true -> call_meta m = Ok oc ->
  match oc with
  | None => norm_msec m = new_msec
  | Some c => forall s cur, exists o,
      expected_view s cur c = (build_id (cur_dots cur) (B "meta"), o, PMeta (JObj (m_content m))) /\
      norm_msec m = Me (content_options o) (m_content m) /\ next_cursor cur c = cur
  end.
Proof.
  intros [o ct] oc Ht H. rewrite call_meta_eq in H. unfold norm_msec. cbn [m_content m_opts] in *.
  destruct (is_nil ct); [injection H as <-; reflexivity|].
  cbv zeta in H. destruct (negb (only_keys _ _)); [discriminate|]. injection H as <-.
  intros s cur. cbn [expected_view].
  eexists. split; [reflexivity|]. split; [|reflexivity]. unfold Me. f_equal.
  symmetry. apply content_hopts; [reflexivity|].
  pose proof (typed_remap "meta" o Ht) as Hr.
  forall_ok; [apply kw_ok | apply format_default_ok]; assumption.
Qed.

Lemma diff_view : forall d oc, typed_opts (x_opts d) = true -> call_diff d = Ok oc ->
  match oc with
  | None => norm_dsec d = new_dsec
  | Some c => forall s cur, exists o body,
      expected_view s cur c = (build_id (cur_dots cur) (B "diff"), o, PBytes body) /\
      norm_dsec d = D (content_options o) (Some body) /\ next_cursor cur c = cur
  end.
Proof.
  intros [o ct] oc Ht H. unfold call_diff in H. unfold norm_dsec. cbn [x_content x_opts] in *.
  destruct ct as [b|]; [|injection H as <-; reflexivity].
  destruct (is_nil b); [injection H as <-; reflexivity|].
  destruct (negb (only_keys _ _)); [discriminate|]. injection H as <-.
  intros s cur. cbn [expected_view].
  pose proof (typed_remap "diff" o Ht) as Hr.
  pose proof (diff_prepared_ok (kw (remap "diff" o) "line_endings") (kw (remap "diff" o) "encoding") b
                (kw_ok _ "line_endings" Hr)) as Hle.
  destruct (diff_prepared _ _ b) as [body le]. cbn [snd] in Hle.
  eexists. eexists. split; [reflexivity|]. split; [|reflexivity]. unfold D. f_equal.
  symmetry. apply content_hopts; [reflexivity|].
  forall_ok; [apply kw_ok | | apply kw_ok]; assumption.
Qed.

(* ---- building the tree: [builds cs cur t t'] = the expected records of [cs], read with the cursor at [cur]
   into [t], give [t'] (whatever the writer state was: it only determines the [length] values) ---- *)
Definition builds (cs : list call) (cur : cursor) (t t' : dtree) : Prop :=
  forall s, apply_views (t, cur) (expected_views s cur cs) = Ok (t', last_cursor cur cs).

Lemma builds_nil : forall cur t, builds [] cur t t.
Proof. intros cur t s. reflexivity. Qed.

Lemma builds_cons : forall c cs cur t t1 t2,
  (forall s, apply_record (t, cur) (view_record (expected_view s cur c)) = Ok (t1, next_cursor cur c)) ->
  builds cs (next_cursor cur c) t1 t2 -> builds (c :: cs) cur t t2.
Proof.
  intros c cs cur t t1 t2 H1 H2 s. unfold apply_views. cbn [expected_views map apply_records last_cursor].
  rewrite H1. cbn [bind]. apply H2.
Qed.

Definition state_after (s : wstate) (cs : list call) : wstate := fold_left (fun s c => fst (do_call c s)) cs s.

Lemma expected_views_app : forall a b s cur,
  expected_views s cur (a ++ b) = expected_views s cur a ++ expected_views (state_after s a) (last_cursor cur a) b.
Proof.
  induction a as [|c a IH]; intros b s cur; [reflexivity|].
  cbn [app expected_views last_cursor]. rewrite IH. reflexivity.
Qed.

Lemma last_cursor_app : forall a b cur, last_cursor cur (a ++ b) = last_cursor (last_cursor cur a) b.
Proof. induction a as [|c a IH]; intros b cur; [reflexivity|]. cbn [app last_cursor]. apply IH. Qed.

Lemma apply_views_app : forall x y tc, apply_views tc (x ++ y) = do tc' <- apply_views tc x; apply_views tc' y.
Proof.
  unfold apply_views. induction x as [|v x IH]; intros y tc; [reflexivity|].
  cbn [app map apply_records]. destruct (apply_record tc (view_record v)) as [tc1|e]; cbn [bind]; [apply IH | reflexivity].
Qed.

Lemma builds_app : forall a b cur t t1 t2,
  builds a cur t t1 -> builds b (last_cursor cur a) t1 t2 -> builds (a ++ b) cur t t2.
Proof.
  intros a b cur t t1 t2 H1 H2 s. rewrite expected_views_app, apply_views_app, (H1 s). cbn [bind].
  rewrite last_cursor_app. apply H2.
Qed.

Lemma builds_one : forall c cur t t',
  (forall s, apply_record (t, cur) (view_record (expected_view s cur c)) = Ok (t', next_cursor cur c)) ->
  builds [c] cur t t'.
Proof. intros c cur t t' H. eapply builds_cons; [exact H | apply builds_nil]. Qed.

(* a content section at a given place: [set] puts the normalised section in place *)
Lemma B_pre_main : forall O M cs p oc, typed_opts (p_opts p) = true -> call_preamble p = Ok oc ->
  builds (olist oc) AtMain (T O new_psec M cs) (T O (norm_psec p) M cs) /\ last_cursor AtMain (olist oc) = AtMain.
Proof.
  intros O M cs p oc Ht H. pose proof (pre_view p oc Ht H) as V. destruct oc as [c|]; cbn [olist].
  - split.
    + apply builds_one. intro s. destruct (V s AtMain) as [o [txt [E1 [E2 E3]]]]. rewrite E1, E2, E3. apply A_pre_main.
    + cbn [last_cursor]. destruct (V no_state AtMain) as [o [txt [_ [_ E3]]]]. exact E3.
  - rewrite V. split; [apply builds_nil | reflexivity].
Qed.

Lemma B_meta_main : forall O P0 cs m oc, typed_opts (m_opts m) = true -> call_meta m = Ok oc ->
  builds (olist oc) AtMain (T O P0 new_msec cs) (T O P0 (norm_msec m) cs) /\ last_cursor AtMain (olist oc) = AtMain.
Proof.
  intros O P0 cs m oc Ht H. pose proof (meta_view m oc Ht H) as V. destruct oc as [c|]; cbn [olist].
  - split.
    + apply builds_one. intro s. destruct (V s AtMain) as [o [E1 [E2 E3]]]. rewrite E1, E2, E3. apply A_meta_main.
    + cbn [last_cursor]. destruct (V no_state AtMain) as [o [_ [_ E3]]]. exact E3.
  - rewrite V. split; [apply builds_nil | reflexivity].
Qed.

Lemma B_pre_change : forall O P0 M cs co cm fs p oc, typed_opts (p_opts p) = true -> call_preamble p = Ok oc ->
  builds (olist oc) AtChange (T O P0 M (cs ++ [Ch co new_psec cm fs])) (T O P0 M (cs ++ [Ch co (norm_psec p) cm fs]))
  /\ last_cursor AtChange (olist oc) = AtChange.
Proof.
  intros O P0 M cs co cm fs p oc Ht H. pose proof (pre_view p oc Ht H) as V. destruct oc as [c|]; cbn [olist].
  - split.
    + apply builds_one. intro s. destruct (V s AtChange) as [o [txt [E1 [E2 E3]]]]. rewrite E1, E2, E3. apply A_pre_change.
    + cbn [last_cursor]. destruct (V no_state AtChange) as [o [txt [_ [_ E3]]]]. exact E3.
  - rewrite V. split; [apply builds_nil | reflexivity].
Qed.

Lemma B_meta_change : forall O P0 M cs co cp fs m oc, typed_opts (m_opts m) = true -> call_meta m = Ok oc ->
  builds (olist oc) AtChange (T O P0 M (cs ++ [Ch co cp new_msec fs])) (T O P0 M (cs ++ [Ch co cp (norm_msec m) fs]))
  /\ last_cursor AtChange (olist oc) = AtChange.
Proof.
  intros O P0 M cs co cp fs m oc Ht H. pose proof (meta_view m oc Ht H) as V. destruct oc as [c|]; cbn [olist].
  - split.
    + apply builds_one. intro s. destruct (V s AtChange) as [o [E1 [E2 E3]]]. rewrite E1, E2, E3. apply A_meta_change.
    + cbn [last_cursor]. destruct (V no_state AtChange) as [o [_ [_ E3]]]. exact E3.
  - rewrite V. split; [apply builds_nil | reflexivity].
Qed.

Lemma B_meta_file : forall O P0 M cs co cp cm fs fo fd m oc, typed_opts (m_opts m) = true -> call_meta m = Ok oc ->
  builds (olist oc) AtFile (T O P0 M (cs ++ [Ch co cp cm (fs ++ [Fi fo new_msec fd])]))
                           (T O P0 M (cs ++ [Ch co cp cm (fs ++ [Fi fo (norm_msec m) fd])]))
  /\ last_cursor AtFile (olist oc) = AtFile.
Proof.
  intros O P0 M cs co cp cm fs fo fd m oc Ht H. pose proof (meta_view m oc Ht H) as V. destruct oc as [c|]; cbn [olist].
  - split.
    + apply builds_one. intro s. destruct (V s AtFile) as [o [E1 [E2 E3]]]. rewrite E1, E2, E3. apply A_meta_file.
    + cbn [last_cursor]. destruct (V no_state AtFile) as [o [_ [_ E3]]]. exact E3.
  - rewrite V. split; [apply builds_nil | reflexivity].
Qed.

Lemma B_diff_file : forall O P0 M cs co cp cm fs fo fm d oc, typed_opts (x_opts d) = true -> call_diff d = Ok oc ->
  builds (olist oc) AtFile (T O P0 M (cs ++ [Ch co cp cm (fs ++ [Fi fo fm new_dsec])]))
                           (T O P0 M (cs ++ [Ch co cp cm (fs ++ [Fi fo fm (norm_dsec d)])]))
  /\ last_cursor AtFile (olist oc) = AtFile.
Proof.
  intros O P0 M cs co cp cm fs fo fm d oc Ht H. pose proof (diff_view d oc Ht H) as V. destruct oc as [c|]; cbn [olist].
  - split.
    + apply builds_one. intro s. destruct (V s AtFile) as [o [body [E1 [E2 E3]]]]. rewrite E1, E2, E3. apply A_diff_file.
    + cbn [last_cursor]. destruct (V no_state AtFile) as [o [body [_ [_ E3]]]]. exact E3.
  - rewrite V. split; [apply builds_nil | reflexivity].
Qed.

(* ---- the call list, piece by piece ---- *)
Lemma collect_app : forall a b, collect (a ++ b) = do x <- collect a; do y <- collect b; Ok (x ++ y).
Proof.
  induction a as [|th a IH]; intro b.
  - cbn [app collect bind]. destruct (collect b); reflexivity.
  - destruct th as [[c|]|e]; cbn [app collect]; [|apply IH|reflexivity].
    rewrite IH. destruct (collect a); cbn [bind]; [|reflexivity]. destruct (collect b); reflexivity.
Qed.

Lemma typed_kw_cv : forall o k, typed_copts o = true -> cv_ok (kw o k).
Proof.
  intros o k H. unfold kw. destruct (assoc_get beq (B k) o) as [v|] eqn:G; [|left; reflexivity]. right.
  revert G. induction o as [|[k' v'] o IH]; [discriminate|].
  cbn [typed_copts forallb snd] in H. apply andb_true_iff in H. destruct H as [H1 H2].
  cbn [assoc_get]. destruct (beq (B k) k'); [intro G; injection G as <-; exact H1 | exact (IH H2)].
Qed.

Lemma collect_file : forall f cs, collect (file_thunks f) = Ok cs ->
  exists om od, call_meta (f_meta f) = Ok om /\ call_diff (f_diff f) = Ok od /\
                cs = [NewFile (kw (f_opts f) "encoding")] ++ olist om ++ olist od.
Proof.
  intros f cs H. unfold file_thunks, call_container in H.
  destruct (negb (only_keys (f_opts f) _)); [discriminate|].
  change (String.eqb "file" "change") with false in H. cbn [some_call collect] in H.
  destruct (call_meta (f_meta f)) as [om|]; [|discriminate]. destruct (call_diff (f_diff f)) as [od|]; [|destruct om; discriminate].
  exists om, od. split; [reflexivity|]. split; [reflexivity|].
  destruct om, od; cbn [bind collect] in H; injection H as <-; reflexivity.
Qed.

Lemma B_file : forall O P0 M cs co cp cm fs f fcs cur, typed_file f = true -> collect (file_thunks f) = Ok fcs ->
  builds fcs cur (T O P0 M (cs ++ [Ch co cp cm fs])) (T O P0 M (cs ++ [Ch co cp cm (fs ++ [norm_file f])])).
Proof.
  intros O P0 M cs co cp cm fs f fcs cur Ht H.
  destruct (collect_file f fcs H) as [om [od [Hm [Hd ->]]]].
  unfold typed_file in Ht. apply andb_true_iff in Ht. destruct Ht as [Ht Ht3]. apply andb_true_iff in Ht. destruct Ht as [Ht1 Ht2].
  destruct (B_meta_file O P0 M cs co cp cm fs (norm_copts (f_opts f)) new_dsec _ _ Ht2 Hm) as [Bm Lm].
  destruct (B_diff_file O P0 M cs co cp cm fs (norm_copts (f_opts f)) (norm_msec (f_meta f)) _ _ Ht3 Hd) as [Bd Ld].
  cbn [app]. eapply builds_cons.
  - intro s. cbn [expected_view next_cursor]. apply A_file. apply typed_kw_cv. exact Ht1.
  - cbn [next_cursor]. eapply builds_app; [exact Bm|]. rewrite Lm. exact Bd.
Qed.

Lemma B_files : forall O P0 M cs co cp cm fl fs fcs cur, forallb typed_file fl = true ->
  collect (flat_map file_thunks fl) = Ok fcs ->
  builds fcs cur (T O P0 M (cs ++ [Ch co cp cm fs])) (T O P0 M (cs ++ [Ch co cp cm (fs ++ map norm_file fl)])).
Proof.
  intros O P0 M cs co cp cm. induction fl as [|f fl IH]; intros fs fcs cur Ht H.
  - cbn in H. injection H as <-. cbn [map]. rewrite app_nil_r. apply builds_nil.
  - cbn [forallb] in Ht. apply andb_true_iff in Ht. destruct Ht as [Ht1 Ht2].
    cbn [flat_map] in H. rewrite collect_app in H.
    destruct (collect (file_thunks f)) as [c1|] eqn:E1; cbn [bind] in H; [|discriminate].
    destruct (collect (flat_map file_thunks fl)) as [c2|] eqn:E2; cbn [bind] in H; [|discriminate].
    injection H as <-. eapply builds_app; [apply B_file; eassumption|].
    cbn [map]. replace (fs ++ norm_file f :: map norm_file fl) with ((fs ++ [norm_file f]) ++ map norm_file fl)
      by (rewrite <- app_assoc; reflexivity).
    apply IH; [exact Ht2 | reflexivity].
Qed.

Lemma collect_change_head : forall c cs, collect (change_thunks c) = Ok cs ->
  exists op om fcs, call_preamble (c_pre c) = Ok op /\ call_meta (c_meta c) = Ok om /\
                    collect (flat_map file_thunks (c_files c)) = Ok fcs /\
                    cs = [NewChange (kw (c_opts c) "encoding")] ++ olist op ++ olist om ++ fcs.
Proof.
  intros c cs H. unfold change_thunks in H. rewrite collect_app in H. unfold call_container in H.
  destruct (negb (only_keys (c_opts c) _)); [discriminate|].
  change (String.eqb "change" "change") with true in H. cbn [some_call collect] in H.
  destruct (call_preamble (c_pre c)) as [op|]; [|discriminate].
  destruct (call_meta (c_meta c)) as [om|]; [|destruct op; discriminate].
  destruct (collect (flat_map file_thunks (c_files c))) as [fcs|]; [|destruct op, om; discriminate].
  exists op, om, fcs. repeat (split; [reflexivity|]).
  destruct op, om; cbn [bind collect] in H; injection H as <-; reflexivity.
Qed.

Lemma B_change : forall O P0 M cs c ccs cur, typed_change c = true -> collect (change_thunks c) = Ok ccs ->
  builds ccs cur (T O P0 M cs) (T O P0 M (cs ++ [norm_change c])).
Proof.
  intros O P0 M cs c ccs cur Ht H.
  destruct (collect_change_head c ccs H) as [op [om [fcs [Hp [Hm [Hf ->]]]]]].
  unfold typed_change in Ht. apply andb_true_iff in Ht. destruct Ht as [Ht Ht4]. apply andb_true_iff in Ht.
  destruct Ht as [Ht Ht3]. apply andb_true_iff in Ht. destruct Ht as [Ht1 Ht2].
  destruct (B_pre_change O P0 M cs (norm_copts (c_opts c)) new_msec [] _ _ Ht2 Hp) as [Bp Lp].
  destruct (B_meta_change O P0 M cs (norm_copts (c_opts c)) (norm_psec (c_pre c)) [] _ _ Ht3 Hm) as [Bm Lm].
  pose proof (B_files O P0 M cs (norm_copts (c_opts c)) (norm_psec (c_pre c)) (norm_msec (c_meta c)) _ [] fcs AtChange Ht4 Hf) as Bf.
  cbn [app]. eapply builds_cons.
  - intro s. cbn [expected_view next_cursor]. apply A_change. apply typed_kw_cv. exact Ht1.
  - cbn [next_cursor]. eapply builds_app; [exact Bp|]. rewrite Lp. eapply builds_app; [exact Bm|]. rewrite Lm. exact Bf.
Qed.

Lemma B_changes : forall O P0 M cl cs ccs cur, forallb typed_change cl = true ->
  collect (flat_map change_thunks cl) = Ok ccs ->
  builds ccs cur (T O P0 M cs) (T O P0 M (cs ++ map norm_change cl)).
Proof.
  intros O P0 M. induction cl as [|c cl IH]; intros cs ccs cur Ht H.
  - cbn in H. injection H as <-. cbn [map]. rewrite app_nil_r. apply builds_nil.
  - cbn [forallb] in Ht. apply andb_true_iff in Ht. destruct Ht as [Ht1 Ht2].
    cbn [flat_map] in H. rewrite collect_app in H.
    destruct (collect (change_thunks c)) as [c1|] eqn:E1; cbn [bind] in H; [|discriminate].
    destruct (collect (flat_map change_thunks cl)) as [c2|] eqn:E2; cbn [bind] in H; [|discriminate].
    injection H as <-. eapply builds_app; [apply B_change; eassumption|].
    cbn [map]. replace (cs ++ norm_change c :: map norm_change cl) with ((cs ++ [norm_change c]) ++ map norm_change cl)
      by (rewrite <- app_assoc; reflexivity).
    apply IH; [exact Ht2 | reflexivity].
Qed.

Lemma collect_tree_head : forall t cs, tree_calls t = Ok cs ->
  exists op om ccs, call_preamble (d_pre t) = Ok op /\ call_meta (d_meta t) = Ok om /\
                    collect (flat_map change_thunks (d_changes t)) = Ok ccs /\
                    cs = olist op ++ olist om ++ ccs.
Proof.
  intros t cs H. unfold tree_calls, tree_thunks in H. rewrite collect_app in H.
  destruct (call_preamble (d_pre t)) as [op|]; [|discriminate].
  destruct (call_meta (d_meta t)) as [om|]; [|destruct op as [?|]; discriminate].
  destruct (collect (flat_map change_thunks (d_changes t))) as [ccs|]; [|destruct op, om; discriminate].
  exists op, om, ccs. repeat (split; [reflexivity|]).
  destruct op, om; cbn [bind collect] in H; injection H as <-; reflexivity.
Qed.

Lemma main_opts_ok : forall t, typed_opts (d_opts t) = true ->
  dopts_of_options (hopts [(B "encoding", tree_encoding t); (B "version", tree_version t)]) = norm_main_opts t.
Proof.
  intros t Ht. apply dopts_of_hopts. forall_ok.
  - unfold tree_encoding. destruct (assoc_get _ _ _) eqn:G; [right; exact (typed_get _ _ _ Ht G) | left; reflexivity].
  - right. unfold tree_version. destruct (assoc_get _ _ _) eqn:G; [exact (typed_get _ _ _ Ht G) | vm_compute; reflexivity].
Qed.

(* the structural theorem: the DOM reader turns the expected records into the normalised tree *)
Theorem C05_records_to_tree : forall t cs s0,
  typed_tree t = true -> tree_calls t = Ok cs ->
  apply_views (new_tree, AtMain) (main_view (tree_encoding t) (tree_version t) :: expected_views s0 AtMain cs)
  = Ok (normalise t, last_cursor AtMain cs).
Proof.
  intros t cs s0 Ht H.
  destruct (collect_tree_head t cs H) as [op [om [ccs [Hp [Hm [Hc ->]]]]]].
  unfold typed_tree in Ht. apply andb_true_iff in Ht. destruct Ht as [Ht Ht4]. apply andb_true_iff in Ht.
  destruct Ht as [Ht Ht3]. apply andb_true_iff in Ht. destruct Ht as [Ht1 Ht2].
  unfold apply_views, main_view. cbn [map apply_records]. rewrite A_main. cbn [bind new_tree d_pre d_meta d_changes].
  rewrite (main_opts_ok t Ht1).
  destruct (B_pre_main (norm_main_opts t) new_msec [] _ _ Ht2 Hp) as [Bp Lp].
  destruct (B_meta_main (norm_main_opts t) (norm_psec (d_pre t)) [] _ _ Ht3 Hm) as [Bm Lm].
  pose proof (B_changes (norm_main_opts t) (norm_psec (d_pre t)) (norm_msec (d_meta t)) _ [] ccs AtMain Ht4 Hc) as Bc.
  assert (Ball : builds (olist op ++ olist om ++ ccs) AtMain (T (norm_main_opts t) new_psec new_msec []) (normalise t)).
  { eapply builds_app; [exact Bp|]. rewrite Lp. eapply builds_app; [exact Bm|]. rewrite Lm. exact Bc. }
  apply (Ball s0).
Qed.

(* ---- C05 assembled ---- *)
Lemma apply_record_view : forall tc r, apply_record tc r = apply_record tc (view_record (rec_view r)).
Proof. intros [t cur] [lv ln o id ty p]. reflexivity. Qed.

Lemma apply_records_views : forall rs tc, apply_records tc rs = apply_views tc (map rec_view rs).
Proof.
  unfold apply_views. induction rs as [|r rs IH]; intro tc; [reflexivity|].
  cbn [map apply_records]. rewrite <- apply_record_view.
  destruct (apply_record tc r); cbn [bind]; [apply IH | reflexivity].
Qed.

Theorem C05_dom_round_trip : forall orc t b,
  typed_tree t = true -> dom_write t = Ok b -> reader_returns_expected orc t b ->
  dom_read orc b = Ok (normalise t).
Proof.
  intros orc t b Ht Hw Hr.
  apply C05_write_is_calls in Hw. destruct Hw as [_ [s0 [cs [s1 [Hi [Hc _]]]]]].
  destruct (Hr s0 cs Hi Hc) as [rs [E1 E2]].
  unfold dom_read. rewrite E1, apply_records_views, E2, (C05_records_to_tree t cs s0 Ht Hc). reflexivity.
Qed.

(* ================================================================================================ *)
(* Part 3 (C06): the normalisation is idempotent; the normalised tree issues the same calls with the derived
   arguments made explicit *)

Section Suffix.
  Context {A : Type} (eqb : A -> A -> bool) (eqb_refl : forall a, eqb a a = true).
  Lemma prefixb_self_app : forall p l : list A, prefixb eqb p (p ++ l) = true.
  Proof. induction p as [|x p IH]; intro l; [reflexivity|]. cbn. rewrite eqb_refl. apply IH. Qed.
  Lemma suffixb_app_self : forall s t : list A, suffixb eqb s (t ++ s) = true.
  Proof.
    intros s t. unfold suffixb, frev. rewrite <- !rev_alt, rev_app_distr. apply prefixb_self_app.
  Qed.
End Suffix.

Lemma final_text_idem : forall nl t, final_text nl (final_text nl t) = final_text nl t.
Proof.
  intros nl t. unfold final_text at 1.
  assert (E : suffixb N.eqb nl (final_text nl t) = true).
  { unfold final_text. destruct (suffixb N.eqb nl t) eqn:S; [exact S | apply suffixb_app_self; apply N.eqb_refl]. }
  rewrite E. reflexivity.
Qed.

Lemma is_nil_app {A} : forall a b : list A, is_nil a = false -> is_nil (a ++ b) = false.
Proof. intros [|x a] b H; [discriminate | reflexivity]. Qed.

Lemma final_text_nonnil : forall nl t, is_nil t = false -> is_nil (final_text nl t) = false.
Proof. intros nl t H. unfold final_text. destruct (suffixb _ _ _); [exact H | apply is_nil_app; exact H]. Qed.

Lemma declared_guess : forall t l nl, guess_line_endings_text t = (l, nl) -> declared_newline (WStr (ascii_text l)) = Some nl.
Proof.
  intros t l nl H. unfold guess_line_endings_text in H.
  destruct (find _ _ _); [destruct (suffixb _ _ _)|]; injection H as <- <-; vm_compute; reflexivity.
Qed.

Lemma pre_resolve_idem : forall le t le' nl t', pre_resolve le t = (le', nl) -> pre_resolve le' t' = (le', nl).
Proof.
  intros le t le' nl t' H. unfold pre_resolve in *. destruct (declared_newline le) as [n|] eqn:D.
  - injection H as <- <-. rewrite D. reflexivity.
  - destruct (guess_line_endings_text t) as [l n] eqn:G. injection H as <- <-.
    rewrite (declared_guess t l n G). reflexivity.
Qed.

(* lookups in a canonical dict *)
Definition is_none (v : wv) : bool := match v with WNone => true | _ => false end.
Lemma present_cons : forall k v rest, present ((k, v) :: rest) = if is_none v then present rest else (k, v) :: present rest.
Proof. intros k v rest. destruct v; reflexivity. Qed.

Lemma not_key_get {V} : forall k (l : list (bytes * V)), existsb (fun p => beq k (fst p)) l = false -> assoc_get beq k l = None.
Proof.
  induction l as [|[k' v] l IH]; [reflexivity|]. cbn [existsb fst assoc_get]. intro H.
  apply orb_false_iff in H. destruct H as [H1 H2]. rewrite H1. apply IH. exact H2.
Qed.

Lemma get_present : forall l k, keys_unique l = true ->
  assoc_get beq k (present l) = match assoc_get beq k l with Some WNone => None | x => x end.
Proof.
  induction l as [|[k' v] l IH]; intros k H; [reflexivity|].
  cbn [keys_unique] in H. apply andb_true_iff in H. destruct H as [H1 H2]. apply negb_true_iff in H1.
  rewrite present_cons. cbn [assoc_get]. destruct (is_none v) eqn:N.
  - destruct v; try discriminate N. rewrite (IH k H2). destruct (beq k k') eqn:E; [|reflexivity].
    apply beq_true_eq in E. subst k'. rewrite (not_key_get _ _ H1). reflexivity.
  - cbn [assoc_get]. destruct (beq k k'); [destruct v; try discriminate N; reflexivity | apply IH; exact H2].
Qed.

Lemma kw_present : forall l k, keys_unique l = true -> kw (present l) k = kw l k.
Proof.
  intros l k H. unfold kw. rewrite (get_present l (B k) H). destruct (assoc_get beq (B k) l) as [[]|]; reflexivity.
Qed.

Lemma kw_opt_present : forall l k v, keys_unique l = true -> kw_opt l k = Some v -> is_none v = false ->
  kw_opt (present l) k = Some v.
Proof.
  intros l k v H G N. unfold kw_opt in *. rewrite (get_present l (B k) H), G. destruct v; try discriminate N; reflexivity.
Qed.

Lemma only_keys_present : forall l al, only_keys l al = true -> only_keys (present l) al = true.
Proof.
  intros l al. unfold only_keys, present. induction l as [|p l IH]; [reflexivity|].
  cbn [forallb filter]. intro H. apply andb_true_iff in H. destruct H as [H1 H2].
  destruct (match snd p with WNone => false | _ => true end); [cbn [forallb]; rewrite H1|]; apply IH; exact H2.
Qed.

Lemma hv_not_none : forall v, hv_ok v = true -> is_none v = false.
Proof. intros [] H; try discriminate H; reflexivity. Qed.

(* ---- preamble ---- *)
Lemma pre_norm_facts : forall a b c d, hv_ok b = true ->
  let o' := present [(B "encoding", a); (B "indent", b); (B "line_endings", c); (B "mimetype", d)] in
  kw o' "encoding" = a /\ kw_opt o' "indent" = Some b /\ kw o' "line_endings" = c /\ kw o' "mimetype" = d /\
  only_keys o' ["encoding"; "indent"; "line_endings"; "mimetype"] = true.
Proof.
  intros a b c d Hb o'. unfold o'.
  repeat split; try (rewrite kw_present by reflexivity; reflexivity).
  - apply kw_opt_present; [reflexivity | reflexivity | apply hv_not_none; exact Hb].
  - apply only_keys_present. reflexivity.
Qed.

Inductive opt_equiv : option call -> option call -> Prop :=
| oe_none : opt_equiv None None
| oe_some : forall c c', calls_equiv c c' -> opt_equiv (Some c) (Some c').

Lemma pre_norm : forall p oc, typed_opts (p_opts p) = true -> call_preamble p = Ok oc ->
  exists oc', call_preamble (norm_psec p) = Ok oc' /\ opt_equiv oc oc'.
Proof.
  intros [o ct] oc Ht H. unfold call_preamble in H. unfold norm_psec. cbn [p_content p_opts] in *.
  destruct ct as [t|]; [|injection H as <-; exists None; split; [reflexivity | constructor]].
  destruct (is_nil t) eqn:Nil; [injection H as <-; exists None; split; [reflexivity | constructor]|].
  destruct (negb (only_keys o _)); [discriminate|]. injection H as <-.
  destruct (pre_resolve (kw o "line_endings") t) as [le nl] eqn:R.
  assert (Hi : hv_ok (indent_or_default (kw_opt o "indent")) = true).
  { destruct (indent_default_ok o Ht) as [E|E]; [|exact E].
    destruct (kw_opt o "indent") eqn:K; [|discriminate E]. cbn in E. subst w.
    pose proof (kw_opt_ok _ _ _ Ht K) as F. discriminate F. }
  destruct (pre_norm_facts (kw o "encoding") _ le (kw o "mimetype") Hi) as [F1 [F2 [F3 [F4 F5]]]].
  unfold call_preamble. cbn [p_content p_opts]. rewrite (final_text_nonnil nl t Nil), F5. cbn [negb].
  rewrite F1, F2, F3, F4. eexists. split; [reflexivity|]. constructor.
  pose proof (ce_pre t (kw o "encoding") (kw_opt o "indent") (kw o "line_endings") (kw o "mimetype")) as C.
  rewrite R in C. exact C.
Qed.

Lemma norm_psec_idem : forall p, typed_opts (p_opts p) = true -> norm_psec (norm_psec p) = norm_psec p.
Proof.
  intros [o ct] Ht. unfold norm_psec at 2 3. cbn [p_content p_opts] in *.
  destruct ct as [t|]; [|reflexivity]. destruct (is_nil t) eqn:Nil; [reflexivity|].
  destruct (pre_resolve (kw o "line_endings") t) as [le nl] eqn:R.
  assert (Hi : hv_ok (indent_or_default (kw_opt o "indent")) = true).
  { destruct (indent_default_ok o Ht) as [E|E]; [|exact E].
    destruct (kw_opt o "indent") eqn:K; [|discriminate E]. cbn in E. subst w.
    pose proof (kw_opt_ok _ _ _ Ht K) as F. discriminate F. }
  destruct (pre_norm_facts (kw o "encoding") _ le (kw o "mimetype") Hi) as [F1 [F2 [F3 [F4 F5]]]].
  unfold norm_psec. cbn [p_content p_opts]. rewrite (final_text_nonnil nl t Nil), F1, F2, F3, F4.
  rewrite (pre_resolve_idem _ _ _ _ (final_text nl t) R). cbn [indent_or_default]. rewrite final_text_idem. reflexivity.
Qed.

(* ---- metadata ---- *)
Lemma remap_meta2 : forall a f,
  remap "meta" (present [(B "encoding", a); (B "format", f)]) = present [(B "encoding", a); (B "meta_format", f)].
Proof. intros a f. rewrite !present_cons. destruct (is_none a), (is_none f); reflexivity. Qed.

Lemma adel_le_meta2 : forall a f,
  assoc_del beq (B "line_endings") (present [(B "encoding", a); (B "format", f)]) = present [(B "encoding", a); (B "format", f)].
Proof. intros a f. rewrite !present_cons. destruct (is_none a), (is_none f); reflexivity. Qed.

Lemma meta_norm_facts : forall a f, hv_ok f = true ->
  let o' := remap "meta" (present [(B "encoding", a); (B "format", f)]) in
  kw o' "encoding" = a /\ kw_opt o' "meta_format" = Some f /\ only_keys o' ["encoding"; "meta_format"] = true.
Proof.
  intros a f Hf o'. unfold o'. rewrite remap_meta2. repeat split.
  - rewrite kw_present by reflexivity. reflexivity.
  - apply kw_opt_present; [reflexivity | reflexivity | apply hv_not_none; exact Hf].
  - apply only_keys_present. reflexivity.
Qed.

Lemma format_hv : forall o, typed_opts o = true -> hv_ok (format_or_default (kw_opt o "meta_format")) = true.
Proof.
  intros o Ht. destruct (kw_opt o "meta_format") eqn:K; cbn [format_or_default];
    [exact (kw_opt_ok _ _ _ Ht K) | vm_compute; reflexivity].
Qed.

Lemma meta_norm : forall m oc, typed_opts (m_opts m) = true -> call_meta m = Ok oc ->
  exists oc', call_meta (norm_msec m) = Ok oc' /\ opt_equiv oc oc'.
Proof.
  intros [o ct] oc Ht H. rewrite call_meta_eq in H. unfold norm_msec. cbn [m_content m_opts] in *.
  destruct (is_nil ct) eqn:Nil; [injection H as <-; exists None; split; [reflexivity | constructor]|].
  cbv zeta in H. destruct (negb (only_keys _ _)); [discriminate|]. injection H as <-.
  pose proof (format_hv _ (typed_remap "meta" o Ht)) as Hf.
  destruct (meta_norm_facts (kw (remap "meta" o) "encoding") _ Hf) as [F1 [F2 F3]].
  unfold call_meta. cbn [m_content m_opts]. rewrite adel_le_meta2, Nil, F3. cbn [negb]. rewrite F1, F2.
  eexists. split; [reflexivity|]. constructor. apply ce_meta.
Qed.

Lemma norm_msec_idem : forall m, typed_opts (m_opts m) = true -> norm_msec (norm_msec m) = norm_msec m.
Proof.
  intros [o ct] Ht. unfold norm_msec at 2 3. cbn [m_content m_opts] in *.
  destruct (is_nil ct) eqn:Nil; [reflexivity|].
  pose proof (format_hv _ (typed_remap "meta" o Ht)) as Hf.
  destruct (meta_norm_facts (kw (remap "meta" o) "encoding") _ Hf) as [F1 [F2 F3]].
  unfold norm_msec. cbn [m_content m_opts]. rewrite Nil, F1, F2. reflexivity.
Qed.

(* ---- diff ---- *)
Lemma remap_diff3 : forall a l ty,
  remap "diff" (present [(B "encoding", a); (B "line_endings", l); (B "type", ty)])
  = present [(B "encoding", a); (B "line_endings", l); (B "diff_type", ty)].
Proof. intros a l ty. rewrite !present_cons. destruct (is_none a), (is_none l), (is_none ty); reflexivity. Qed.

Lemma diff_norm_facts : forall a l ty,
  let o' := remap "diff" (present [(B "encoding", a); (B "line_endings", l); (B "type", ty)]) in
  kw o' "encoding" = a /\ kw o' "line_endings" = l /\ kw o' "diff_type" = ty /\
  only_keys o' ["diff_type"; "encoding"; "line_endings"] = true.
Proof.
  intros a l ty o'. unfold o'. rewrite remap_diff3.
  repeat split; try (rewrite kw_present by reflexivity; reflexivity).
  apply only_keys_present. reflexivity.
Qed.

Lemma diff_prepared_nonnil : forall le enc b, is_nil b = false -> is_nil (fst (diff_prepared le enc b)) = false.
Proof.
  intros le enc b H. unfold diff_prepared. destruct (diff_prepare le enc b) as [[body lo]|e] eqn:E; [|exact H].
  cbn [fst]. destruct (diff_prepare_shape _ _ _ _ _ E) as [nlb [-> _]].
  destruct (bends _ b); [exact H | apply is_nil_app; exact H].
Qed.

Lemma diff_norm : forall d oc, call_diff d = Ok oc ->
  exists oc', call_diff (norm_dsec d) = Ok oc' /\ opt_equiv oc oc'.
Proof.
  intros [o ct] oc H. unfold call_diff in H. unfold norm_dsec. cbn [x_content x_opts] in *.
  destruct ct as [b|]; [|injection H as <-; exists None; split; [reflexivity | constructor]].
  destruct (is_nil b) eqn:Nil; [injection H as <-; exists None; split; [reflexivity | constructor]|].
  destruct (negb (only_keys _ _)); [discriminate|]. injection H as <-.
  set (o1 := remap "diff" o).
  pose proof (diff_prepared_nonnil (kw o1 "line_endings") (kw o1 "encoding") b Nil) as Nb.
  pose proof (ce_diff b (kw o1 "diff_type") (kw o1 "encoding") (kw o1 "line_endings")) as C.
  destruct (diff_prepared (kw o1 "line_endings") (kw o1 "encoding") b) as [body lo]. cbn [fst snd] in *.
  destruct (diff_norm_facts (kw o1 "encoding") lo (kw o1 "diff_type")) as [F1 [F2 [F3 F4]]].
  unfold call_diff. cbn [x_content x_opts]. rewrite Nb, F4. cbn [negb]. rewrite F1, F2, F3.
  eexists. split; [reflexivity|]. constructor. exact C.
Qed.

Lemma norm_dsec_idem : forall d, diff_stable d -> norm_dsec (norm_dsec d) = norm_dsec d.
Proof.
  intros [o ct] Hs. unfold diff_stable in Hs. unfold norm_dsec at 2 3. cbn [x_content x_opts] in *.
  destruct ct as [b|]; [|reflexivity]. destruct (is_nil b) eqn:Nil; [reflexivity|].
  set (o1 := remap "diff" o) in *.
  pose proof (diff_prepared_nonnil (kw o1 "line_endings") (kw o1 "encoding") b Nil) as Nb.
  assert (St : forall body lo, diff_prepared (kw o1 "line_endings") (kw o1 "encoding") b = (body, lo) ->
                               diff_prepared lo (kw o1 "encoding") body = (body, lo)).
  { intros body lo E. unfold diff_prepared in E.
    destruct (diff_prepare (kw o1 "line_endings") (kw o1 "encoding") b) as [[body' lo']|e] eqn:E1.
    - injection E as <- <-. unfold diff_prepared. rewrite (Hs _ _ eq_refl). reflexivity.
    - injection E as <- <-. unfold diff_prepared. rewrite E1. reflexivity. }
  destruct (diff_prepared (kw o1 "line_endings") (kw o1 "encoding") b) as [body lo] eqn:E. cbn [fst snd] in *.
  destruct (diff_norm_facts (kw o1 "encoding") lo (kw o1 "diff_type")) as [F1 [F2 [F3 F4]]].
  unfold norm_dsec. cbn [x_content x_opts]. rewrite Nb, F1, F2, F3, (St body lo eq_refl). reflexivity.
Qed.

(* ---- containers and main options ---- *)
Lemma norm_copts_idem : forall o, norm_copts (norm_copts o) = norm_copts o.
Proof. intro o. unfold norm_copts. rewrite kw_present by reflexivity. reflexivity. Qed.

Lemma norm_copts_call : forall name o c, call_container name o = Ok c -> call_container name (norm_copts o) = Ok c.
Proof.
  intros name o c H. unfold call_container in *. destruct (negb (only_keys o _)); [discriminate|].
  unfold norm_copts. rewrite only_keys_present by reflexivity. cbn [negb].
  rewrite kw_present by reflexivity. exact H.
Qed.

Lemma tree_version_hv : forall t, typed_opts (d_opts t) = true -> hv_ok (tree_version t) = true.
Proof.
  intros t Ht. unfold tree_version. destruct (assoc_get _ _ _) eqn:G; [exact (typed_get _ _ _ Ht G) | vm_compute; reflexivity].
Qed.

Lemma norm_main : forall t, typed_opts (d_opts t) = true ->
  tree_encoding (normalise t) = tree_encoding t /\ tree_version (normalise t) = tree_version t /\
  main_keys_ok (normalise t) = true.
Proof.
  intros t Ht. pose proof (tree_version_hv t Ht) as Hv.
  unfold tree_encoding at 1, tree_version at 1, main_keys_ok. cbn [normalise d_opts]. unfold norm_main_opts.
  repeat split.
  - change (match assoc_get beq (B "encoding") ?o with Some v => v | None => WNone end) with (kw o "encoding").
    rewrite kw_present by reflexivity. reflexivity.
  - pose proof (kw_opt_present [(B "encoding", tree_encoding t); (B "version", tree_version t)] "version" _
                  eq_refl eq_refl (hv_not_none _ Hv)) as E.
    unfold kw_opt in E. rewrite E. reflexivity.
  - rewrite !present_cons. destruct (is_none (tree_encoding t)), (is_none (tree_version t)); reflexivity.
Qed.

(* ---- assembling: idempotence ---- *)
Lemma norm_file_idem : forall f, typed_file f = true -> file_stable f -> norm_file (norm_file f) = norm_file f.
Proof.
  intros f Ht Hs. unfold typed_file in Ht. apply andb_true_iff in Ht. destruct Ht as [Ht Ht3].
  apply andb_true_iff in Ht. destruct Ht as [Ht1 Ht2].
  unfold norm_file at 1. cbn [norm_file f_opts f_meta f_diff].
  rewrite norm_copts_idem, (norm_msec_idem _ Ht2), (norm_dsec_idem _ Hs). reflexivity.
Qed.

Lemma map_idem {A} : forall (f : A -> A) (ok : A -> bool) (st : A -> Prop) l,
  (forall x, ok x = true -> st x -> f (f x) = f x) -> forallb ok l = true -> Forall st l -> map f (map f l) = map f l.
Proof.
  intros f ok st l H. induction l as [|x l IH]; intros Ho Hs; [reflexivity|].
  cbn [forallb] in Ho. apply andb_true_iff in Ho. destruct Ho as [H1 H2]. inversion Hs; subst.
  cbn [map]. rewrite H by assumption. rewrite IH by assumption. reflexivity.
Qed.

Lemma norm_change_idem : forall c, typed_change c = true -> change_stable c -> norm_change (norm_change c) = norm_change c.
Proof.
  intros c Ht Hs. unfold typed_change in Ht. apply andb_true_iff in Ht. destruct Ht as [Ht Ht4].
  apply andb_true_iff in Ht. destruct Ht as [Ht Ht3]. apply andb_true_iff in Ht. destruct Ht as [Ht1 Ht2].
  unfold norm_change at 1. cbn [norm_change c_opts c_pre c_meta c_files].
  rewrite norm_copts_idem, (norm_psec_idem _ Ht2), (norm_msec_idem _ Ht3).
  rewrite (map_idem norm_file typed_file file_stable _ norm_file_idem Ht4 Hs). reflexivity.
Qed.

Theorem C06_normalise_idem : forall t, typed_tree t = true -> tree_stable t -> normalise (normalise t) = normalise t.
Proof.
  intros t Ht Hs. unfold typed_tree in Ht. apply andb_true_iff in Ht. destruct Ht as [Ht Ht4].
  apply andb_true_iff in Ht. destruct Ht as [Ht Ht3]. apply andb_true_iff in Ht. destruct Ht as [Ht1 Ht2].
  destruct (norm_main t Ht1) as [E1 [E2 _]].
  unfold normalise at 1. unfold norm_main_opts. rewrite E1, E2. cbn [normalise d_pre d_meta d_changes].
  rewrite (norm_psec_idem _ Ht2), (norm_msec_idem _ Ht3).
  rewrite (map_idem norm_change typed_change change_stable _ norm_change_idem Ht4 Hs). reflexivity.
Qed.

(* ---- assembling: the calls of the normalised tree ---- *)
Definition thunk_rel (th th' : thunk) : Prop :=
  forall oc, th = Ok oc -> exists oc', th' = Ok oc' /\ opt_equiv oc oc'.

Lemma collect_rel : forall l l', Forall2 thunk_rel l l' ->
  forall cs, collect l = Ok cs -> exists cs', collect l' = Ok cs' /\ Forall2 calls_equiv cs cs'.
Proof.
  induction 1 as [|th th' l l' R _ IH]; intros cs H.
  - cbn in H. injection H as <-. exists []. split; [reflexivity | constructor].
  - destruct th as [[c|]|e]; cbn [collect] in H; [| |discriminate].
    + destruct (collect l) as [cs0|] eqn:E; cbn [bind] in H; [|discriminate]. injection H as <-.
      destruct (R _ eq_refl) as [oc' [-> Q]]. inversion Q; subst.
      destruct (IH _ eq_refl) as [cs' [E' F]]. exists (c' :: cs'). cbn [collect]. rewrite E'.
      split; [reflexivity | constructor; assumption].
    + destruct (R _ eq_refl) as [oc' [-> Q]]. inversion Q; subst. cbn [collect]. apply IH. exact H.
Qed.

Lemma container_rel : forall name o, thunk_rel (some_call (call_container name o)) (some_call (call_container name (norm_copts o))).
Proof.
  intros name o oc H. destruct (call_container name o) as [c|e] eqn:E; cbn [some_call] in H; [|discriminate].
  injection H as <-. rewrite (norm_copts_call _ _ _ E). exists (Some c). split; [reflexivity|]. constructor.
  unfold call_container in E. destruct (negb _); [discriminate|]. injection E as <-.
  destruct (String.eqb name "change"); constructor.
Qed.

Lemma file_rel : forall f, typed_file f = true -> Forall2 thunk_rel (file_thunks f) (file_thunks (norm_file f)).
Proof.
  intros f Ht. unfold typed_file in Ht. apply andb_true_iff in Ht. destruct Ht as [Ht Ht3].
  apply andb_true_iff in Ht. destruct Ht as [Ht1 Ht2].
  unfold file_thunks. cbn [norm_file f_opts f_meta f_diff].
  constructor; [apply container_rel|]. constructor; [intros oc H; exact (meta_norm _ _ Ht2 H)|].
  constructor; [intros oc H; exact (diff_norm _ _ H) | constructor].
Qed.

Lemma flat_rel {A} : forall (th : A -> list thunk) (nf : A -> A) (ok : A -> bool) l,
  (forall x, ok x = true -> Forall2 thunk_rel (th x) (th (nf x))) -> forallb ok l = true ->
  Forall2 thunk_rel (flat_map th l) (flat_map th (map nf l)).
Proof.
  intros th nf ok l H. induction l as [|x l IH]; intro Ho; [constructor|].
  cbn [forallb] in Ho. apply andb_true_iff in Ho. destruct Ho as [H1 H2].
  cbn [map flat_map]. apply Forall2_app; [apply H; exact H1 | apply IH; exact H2].
Qed.

Lemma change_rel : forall c, typed_change c = true -> Forall2 thunk_rel (change_thunks c) (change_thunks (norm_change c)).
Proof.
  intros c Ht. unfold typed_change in Ht. apply andb_true_iff in Ht. destruct Ht as [Ht Ht4].
  apply andb_true_iff in Ht. destruct Ht as [Ht Ht3]. apply andb_true_iff in Ht. destruct Ht as [Ht1 Ht2].
  unfold change_thunks. cbn [norm_change c_opts c_pre c_meta c_files]. apply Forall2_app.
  - constructor; [apply container_rel|]. constructor; [intros oc H; exact (pre_norm _ _ Ht2 H)|].
    constructor; [intros oc H; exact (meta_norm _ _ Ht3 H) | constructor].
  - apply (flat_rel file_thunks norm_file typed_file _ file_rel Ht4).
Qed.

Theorem C06_tree_calls_normalised : forall t cs, typed_tree t = true -> tree_calls t = Ok cs ->
  exists cs', tree_calls (normalise t) = Ok cs' /\ Forall2 calls_equiv cs cs'.
Proof.
  intros t cs Ht H. unfold typed_tree in Ht. apply andb_true_iff in Ht. destruct Ht as [Ht Ht4].
  apply andb_true_iff in Ht. destruct Ht as [Ht Ht3]. apply andb_true_iff in Ht. destruct Ht as [Ht1 Ht2].
  unfold tree_calls in *. apply (collect_rel (tree_thunks t)); [|exact H].
  unfold tree_thunks. cbn [normalise d_pre d_meta d_changes]. apply Forall2_app.
  - constructor; [intros oc H'; exact (pre_norm _ _ Ht2 H')|].
    constructor; [intros oc H'; exact (meta_norm _ _ Ht3 H') | constructor].
  - apply (flat_rel change_thunks norm_change typed_change _ change_rel Ht4).
Qed.
(* ================================================================================================ *)
(* Part 4 (C06): re-preparing prepared content is a fixed point; re-serialisation *)

Definition le_check (le : wv) : res bool :=
  match le with WNone => Ok true | v => in_strset v GenText.line_endings_values end.

Definition diff_newline (nlb : bytes) (enc : wv) : bytes := strip_bom nlb (diff_en1 enc).
Definition with_newline (n b : bytes) : bytes := if bends n b then b else b ++ n.

Lemma diff_prepare_checks : forall le enc b body lo, diff_prepare le enc b = Ok (body, lo) ->
  is_nil b = false /\ le_check le = Ok true.
Proof.
  intros le enc b body lo H. unfold diff_prepare, prepare_content in H. fold (le_check le) in H.
  destruct (is_nil b); [discriminate|]. split; [reflexivity|].
  destruct (le_check le) as [[|]|]; cbn [bind negb] in H; try discriminate. reflexivity.
Qed.

Lemma diff_prepare_declared : forall le enc b nl nlb,
  is_nil b = false -> le_check le = Ok true -> declared_newline le = Some nl ->
  encode_dyn nl (diff_newline_encoding enc) = Ok nlb ->
  diff_prepare le enc b = Ok (with_newline (diff_newline nlb enc) b, le).
Proof.
  intros le enc b nl nlb Nil C Dn E. unfold diff_prepare, prepare_content. fold (le_check le).
  rewrite Nil, C. cbn [bind negb]. rewrite andb_false_r. cbn [bind].
  fold (declared_newline le). fold (diff_newline_encoding enc). fold (diff_en1 enc).
  rewrite Dn, E. reflexivity.
Qed.

Lemma with_newline_idem : forall n b, with_newline n (with_newline n b) = with_newline n b.
Proof.
  intros n b. unfold with_newline at 1.
  assert (E : bends n (with_newline n b) = true).
  { unfold with_newline. destruct (bends n b) eqn:S; [exact S|]. unfold bends. apply suffixb_app_self. exact byte_eqb_refl. }
  rewrite E. reflexivity.
Qed.

Lemma guess_bytes_inv : forall b en l nlb, guess_line_endings_bytes b en = Ok (l, nlb) ->
  exists x, py_encode (nl_text l) (enc_or_ascii en) = Ok x /\ nlb = strip_bom x (Some (enc_or_ascii en)) /\
            (l = GenText.le_unix \/ l = GenText.le_dos).
Proof.
  intros b en l nlb H. unfold guess_line_endings_bytes in H.
  destruct (py_encode (nl_text GenText.le_unix) _) as [u0|] eqn:U; cbn [bind] in H; [|discriminate].
  destruct (py_encode (nl_text GenText.le_dos) _) as [d0|] eqn:Dd; cbn [bind] in H; [|discriminate].
  destruct (bfind _ _); [destruct (bends _ _)|]; injection H as <- <-; eauto.
Qed.

Lemma encode_dyn_name : forall t enc en, enc_name (diff_newline_encoding enc) = Ok en ->
  encode_dyn t (diff_newline_encoding enc) = py_encode t (enc_or_ascii en).
Proof.
  intros t enc en H. unfold diff_newline_encoding in *.
  destruct (wv_truthy enc) eqn:Tr.
  - destruct enc; cbn [enc_name encode_dyn] in *; try discriminate.
    destruct (c_enc ascii t0); [injection H as <-; reflexivity | discriminate].
  - cbn [enc_name encode_dyn] in *. destruct (c_enc ascii _); [injection H as <-; reflexivity | discriminate].
Qed.

(* the one codec-level fact needed: stripping the BOM of an encoded newline twice is stripping it once *)
Definition bom_stable (enc : wv) : Prop :=
  forall en l x, enc_name (diff_newline_encoding enc) = Ok en ->
    (l = GenText.le_unix \/ l = GenText.le_dos) ->
    py_encode (nl_text l) (enc_or_ascii en) = Ok x ->
    strip_bom (strip_bom x (Some (enc_or_ascii en))) (diff_en1 enc) = strip_bom x (diff_en1 enc).

Lemma le_named_facts : forall l, l = GenText.le_unix \/ l = GenText.le_dos ->
  le_check (WStr (ascii_text l)) = Ok true /\ declared_newline (WStr (ascii_text l)) = Some (nl_text l).
Proof. intros l [-> | ->]; split; vm_compute; reflexivity. Qed.

Theorem C06_prepare_idem_bytes : forall le enc b body lo,
  bom_stable enc -> diff_prepare le enc b = Ok (body, lo) -> diff_prepare lo enc body = Ok (body, lo).
Proof.
  intros le enc b body lo Hb H.
  destruct (diff_prepare_checks _ _ _ _ _ H) as [Nil Chk].
  destruct (diff_prepare_shape _ _ _ _ _ H) as [nlb [Eb Hc]].
  fold (diff_newline nlb enc) in Eb. fold (with_newline (diff_newline nlb enc) b) in Eb.
  assert (Nb : is_nil body = false).
  { subst body. unfold with_newline. destruct (bends _ b); [exact Nil | apply is_nil_app; exact Nil]. }
  destruct Hc as [[nl [Dn [-> En]]] | [en [l [Dn [En [G ->]]]]]].
  - rewrite (diff_prepare_declared le enc body nl nlb Nb Chk Dn En). subst body. rewrite with_newline_idem. reflexivity.
  - destruct (guess_bytes_inv _ _ _ _ G) as [x [Px [Ex Hl]]].
    destruct (le_named_facts l Hl) as [C2 D2].
    assert (E2 : encode_dyn (nl_text l) (diff_newline_encoding enc) = Ok x) by (rewrite (encode_dyn_name _ _ _ En); exact Px).
    rewrite (diff_prepare_declared _ enc body _ x Nb C2 D2 E2).
    assert (EN : diff_newline x enc = diff_newline nlb enc).
    { unfold diff_newline. rewrite Ex. symmetry. apply (Hb en l x En Hl Px). }
    rewrite EN. subst body. rewrite with_newline_idem. reflexivity.
Qed.

From DXGen Require GenCodecs.
(* [bom_stable] holds for every encoding value: checked on every spelling of the generated codec table *)
Definition bom_row_ok (r : GenCodecs.codec_row) : bool :=
  let e := GenCodecs.cr_spelling r in
  forallb (fun l => match py_encode (nl_text l) e with
                    | Ok x => beq (strip_bom (strip_bom x (Some e)) (Some e)) (strip_bom x (Some e))
                    | Err _ => true
                    end) [GenText.le_unix; GenText.le_dos].

Lemma bom_table : forallb bom_row_ok GenCodecs.rows = true.
Proof. vm_compute. reflexivity. Qed.

Lemma find_row_In : forall s rows r, find_row s rows = Some r -> In r rows /\ s = GenCodecs.cr_spelling r.
Proof.
  induction rows as [|r0 rows IH]; intros r H; [discriminate|]. cbn [find_row] in H.
  destruct (beq s (GenCodecs.cr_spelling r0)) eqn:E.
  - injection H as <-. split; [left; reflexivity | apply beq_true_eq; exact E].
  - destruct (IH r H) as [H1 H2]. split; [right; exact H1 | exact H2].
Qed.

Lemma bom_twice : forall e l x, (l = GenText.le_unix \/ l = GenText.le_dos) -> py_encode (nl_text l) e = Ok x ->
  strip_bom (strip_bom x (Some e)) (Some e) = strip_bom x (Some e).
Proof.
  intros e l x Hl P.
  assert (R : exists r, find_row e GenCodecs.rows = Some r).
  { unfold py_encode, lookup_codec in P. destruct (find_row e GenCodecs.rows) as [r|]; [eauto | discriminate]. }
  destruct R as [r R]. destruct (find_row_In _ _ _ R) as [Hin ->].
  pose proof bom_table as Tb. rewrite forallb_forall in Tb. specialize (Tb r Hin).
  unfold bom_row_ok in Tb. cbn [forallb] in Tb. apply andb_true_iff in Tb. destruct Tb as [T1 T2].
  apply andb_true_iff in T2. destruct T2 as [T2 _].
  destruct Hl as [-> | ->]; [rewrite P in T1; apply beq_true_eq; exact T1 | rewrite P in T2; apply beq_true_eq; exact T2].
Qed.

Lemma bom_ascii : forall l x, (l = GenText.le_unix \/ l = GenText.le_dos) -> py_encode (nl_text l) (B "ascii") = Ok x ->
  strip_bom x (Some (B "ascii")) = x /\ strip_bom x (Some []) = x.
Proof. intros l x [-> | ->] P; vm_compute in P; injection P as <-; split; vm_compute; reflexivity. Qed.

Theorem bom_stable_all : forall enc, bom_stable enc.
Proof.
  intros enc en l x En Hl P. unfold diff_newline_encoding in En.
  destruct (wv_truthy enc) eqn:Tr.
  - destruct enc; cbn [enc_name] in En; try discriminate.
    cbn [diff_en1]. destruct (c_enc ascii t) as [eb|]; [|discriminate]. injection En as <-. cbn [enc_or_ascii] in *.
    apply (bom_twice eb l x Hl P).
  - assert (En' : en = Some (B "ascii")).
    { change (enc_name (WStr (ascii_text (B "ascii")))) with (Ok (A := option bytes) (Some (B "ascii"))) in En. injection En as <-. reflexivity. }
    subst en. cbn [enc_or_ascii] in *. destruct (bom_ascii l x Hl P) as [A1 A2]. rewrite A1.
    reflexivity.
Qed.

Lemma tree_stable_all : forall t, tree_stable t.
Proof.
  intro t. unfold tree_stable, change_stable, file_stable, diff_stable.
  apply Forall_forall. intros c _. apply Forall_forall. intros f _.
  destruct (x_content (f_diff f)); [|exact I]. intros body lo H.
  exact (C06_prepare_idem_bytes _ _ _ _ _ (bom_stable_all _) H).
Qed.

Theorem C06_normalise_idem_typed : forall t, typed_tree t = true -> normalise (normalise t) = normalise t.
Proof. intros t Ht. apply C06_normalise_idem; [exact Ht | apply tree_stable_all]. Qed.

(* ---- re-serialisation: equivalent calls do the same thing ---- *)
Definition call_same (c c' : call) : Prop := forall s, do_call c s = do_call c' s.

Lemma meta_call_same : forall j enc fmt,
  call_same (WriteMeta (WDict j) enc fmt) (WriteMeta (WDict j) enc (Some (format_or_default fmt))).
Proof. intros j enc fmt s. destruct fmt; reflexivity. Qed.

Lemma diff_call_same : forall b ty enc le,
  call_same (WriteDiff (WBytes b) ty enc le)
            (WriteDiff (WBytes (fst (diff_prepared le enc b))) ty enc (snd (diff_prepared le enc b))).
Proof.
  intros b ty enc le s. unfold diff_prepared.
  destruct (diff_prepare le enc b) as [[body lo]|e] eqn:E; [|reflexivity]. cbn [fst snd].
  pose proof (C06_prepare_idem_bytes _ _ _ _ _ (bom_stable_all enc) E) as E2.
  unfold do_call. destruct (match ty with WNone => Ok true | _ => _ end) as [tok|]; unfold bindM, lift; [|reflexivity].
  destruct (negb tok); [reflexivity|].
  unfold new_content_section, bindM, get_state, lift.
  rewrite !diff_prepare_state, E, E2. reflexivity.
Qed.

(* for a preamble the text analogue of C06_prepare_idem_bytes is needed, in the state the writer is in (the
   encoding may be inherited): re-preparing the text with its final newline and the recorded line_endings gives
   the same bytes.  DomSpecText.C06_prepare_idem_text proves it from the codec laws of C01. *)
Definition text_prep_stable (s : wstate) (t : text) (enc ind le : wv) : Prop :=
  prepare_content s (CText (final_text (snd (pre_resolve le t)) t)) ind (fst (pre_resolve le t)) enc true
  = prepare_content s (CText t) ind le enc true.

Definition pre_ok (s : wstate) (c : call) : Prop :=
  match c with
  | WritePreamble (WStr t) enc ind le _ => text_prep_stable s t enc (indent_or_default ind) le
  | _ => True
  end.
Fixpoint pre_ok_run (s : wstate) (cs : list call) : Prop :=
  match cs with [] => True | c :: r => pre_ok s c /\ pre_ok_run (fst (do_call c s)) r end.

Lemma pre_call_same : forall s t enc ind le mime,
  text_prep_stable s t enc (indent_or_default ind) le ->
  do_call (WritePreamble (WStr t) enc ind le mime) s
  = do_call (WritePreamble (WStr (final_text (snd (pre_resolve le t)) t)) enc
                           (Some (indent_or_default ind)) (fst (pre_resolve le t)) mime) s.
Proof.
  intros s t enc ind le mime H. unfold text_prep_stable in H. unfold do_call.
  unfold bindM, lift. destruct (match mime with WNone => Ok true | _ => _ end) as [mok|]; [|reflexivity].
  destruct (negb mok); [reflexivity|].
  unfold new_content_section, bindM, get_state, lift. fold (indent_or_default ind).
  change (match Some (indent_or_default ind) with Some v => v | None => WInt GenText.default_indent end)
    with (indent_or_default ind).
  rewrite H. reflexivity.
Qed.

Lemma calls_equiv_same : forall s c c', calls_equiv c c' -> pre_ok s c -> do_call c s = do_call c' s.
Proof.
  intros s c c' H Hp. destruct H.
  - reflexivity.
  - reflexivity.
  - apply pre_call_same. exact Hp.
  - apply meta_call_same.
  - apply diff_call_same.
Qed.

Lemma run_all_same : forall cs cs', Forall2 calls_equiv cs cs' ->
  forall s, pre_ok_run s cs -> run_all s cs = run_all s cs'.
Proof.
  induction 1 as [|c c' cs cs' R _ IH]; intros s Hp; [reflexivity|].
  destruct Hp as [H1 H2]. cbn [run_all]. rewrite <- (calls_equiv_same s c c' R H1).
  destruct (do_call c s) as [s1 [u|e]]; [apply IH; exact H2 | reflexivity].
Qed.

(* serialising the normalised tree gives the same bytes (fixed point); hypothesis: the preamble texts re-prepare
   to the same bytes (none needed for metadata and diffs) *)
Theorem C06_reserialise : forall t b cs s0,
  typed_tree t = true -> dom_write t = Ok b -> tree_calls t = Ok cs ->
  writer_init (tree_encoding t) (tree_version t) = (s0, Ok tt) -> pre_ok_run s0 cs ->
  dom_write (normalise t) = Ok b.
Proof.
  intros t b cs s0 Ht Hw Hc Hi Hp.
  apply C05_write_is_calls in Hw. destruct Hw as [Hk [s0' [cs0 [s1 [Hi' [Hc0 [Hr ->]]]]]]].
  rewrite Hc in Hc0. injection Hc0 as <-. rewrite Hi in Hi'. injection Hi' as <-.
  destruct (C06_tree_calls_normalised t cs Ht Hc) as [cs' [Hc' F]].
  assert (Ht1 : typed_opts (d_opts t) = true).
  { unfold typed_tree in Ht. apply andb_true_iff in Ht. destruct Ht as [Ht _]. apply andb_true_iff in Ht.
    destruct Ht as [Ht _]. apply andb_true_iff in Ht. destruct Ht as [Ht _]. exact Ht. }
  destruct (norm_main t Ht1) as [E1 [E2 E3]].
  apply C05_write_is_calls. split; [exact E3|]. exists s0, cs', s1. rewrite E1, E2.
  repeat split; try assumption. rewrite <- (run_all_same cs cs' F s0 Hp). exact Hr.
Qed.

(* a tree without preamble text needs no hypothesis *)
Definition no_preamble_call (c : call) : bool := match c with WritePreamble _ _ _ _ _ => false | _ => true end.

Lemma no_preamble_ok : forall cs s, forallb no_preamble_call cs = true -> pre_ok_run s cs.
Proof.
  induction cs as [|c cs IH]; intros s H; [exact I|].
  cbn [forallb] in H. apply andb_true_iff in H. destruct H as [H1 H2]. split; [|apply IH; exact H2].
  destruct c; try exact I. discriminate H1.
Qed.

Theorem C06_reserialise_no_preamble : forall t b cs,
  typed_tree t = true -> dom_write t = Ok b -> tree_calls t = Ok cs -> forallb no_preamble_call cs = true ->
  dom_write (normalise t) = Ok b.
Proof.
  intros t b cs Ht Hw Hc Hn. pose proof Hw as Hw'.
  apply C05_write_is_calls in Hw'. destruct Hw' as [_ [s0 [_ [_ [Hi _]]]]].
  apply (C06_reserialise t b cs s0 Ht Hw Hc Hi). apply no_preamble_ok. exact Hn.
Qed.

(* parse what the object model wrote, serialise again: identical bytes; and the parsed tree is a fixed point of
   write-then-read *)
Theorem C06_round_trip : forall orc t b cs s0,
  typed_tree t = true -> dom_write t = Ok b -> reader_returns_expected orc t b ->
  tree_calls t = Ok cs -> writer_init (tree_encoding t) (tree_version t) = (s0, Ok tt) -> pre_ok_run s0 cs ->
  exists t', dom_read orc b = Ok t' /\ dom_write t' = Ok b /\ t' = normalise t /\ normalise t' = t'.
Proof.
  intros orc t b cs s0 Ht Hw Hr Hc Hi Hp. exists (normalise t).
  split; [exact (C05_dom_round_trip orc t b Ht Hw Hr)|]. split; [exact (C06_reserialise t b cs s0 Ht Hw Hc Hi Hp)|].
  split; [reflexivity | exact (C06_normalise_idem_typed t Ht)].
Qed.

Theorem C06_prepare_idem_diff : forall le enc b body lo,
  diff_prepare le enc b = Ok (body, lo) -> diff_prepare lo enc body = Ok (body, lo).
Proof. intros le enc b body lo. apply C06_prepare_idem_bytes. apply bom_stable_all. Qed.

(* ================================================================================================ *)
(* Examples: the hypotheses are satisfiable, on concrete trees *)

Definition tx (s : String.string) : text := ascii_text (B s).

(* one change; a preamble without indent / line_endings and without final newline; one file with metadata and
   a diff lacking the final newline *)
Definition ex_tree : dtree :=
  {| d_opts := [(B "encoding", S_ "utf-8"); (B "version", S_ "1.0")];
     d_pre := new_psec; d_meta := new_msec;
     d_changes :=
       [ {| c_opts := [];
            c_pre := {| p_opts := []; p_content := Some (tx "hello") |};
            c_meta := new_msec;
            c_files :=
              [ {| f_opts := [];
                   f_meta := {| m_opts := [(B "format", S_ "json")]; m_content := [(tx "path", JStr (tx "a"))] |};
                   f_diff := {| x_opts := []; x_content := Some (B "--- a" ++ [x0a] ++ B "+++ b") |} |} ] |} ] |}.

(* the answers of json.loads for this case, literally *)
Definition ex_orc : oracle :=
  [(B "s{" ++ [x0a] ++ B "    ""path"": ""a""" ++ [x0a] ++ B "}" ++ [x0a], LoadsOk (JObj [(tx "path", JStr (tx "a"))]))].

Definition ex_bytes : bytes :=
  B "#diffx: encoding=utf-8, version=1.0" ++ [x0a] ++
  B "#.change:" ++ [x0a] ++
  B "#..preamble: indent=4, length=10, line_endings=unix" ++ [x0a] ++
  B "    hello" ++ [x0a] ++
  B "#..file:" ++ [x0a] ++
  B "#...meta: format=json, length=20" ++ [x0a] ++
  B "{" ++ [x0a] ++ B "    ""path"": ""a""" ++ [x0a] ++ B "}" ++ [x0a] ++
  B "#...diff: length=12, line_endings=unix" ++ [x0a] ++
  B "--- a" ++ [x0a] ++ B "+++ b" ++ [x0a].

Definition ex_norm : dtree :=
  {| d_opts := [(B "encoding", S_ "utf-8"); (B "version", S_ "1.0")];
     d_pre := new_psec; d_meta := new_msec;
     d_changes :=
       [ {| c_opts := [];
            c_pre := {| p_opts := [(B "indent", WInt 4); (B "line_endings", S_ "unix")];
                        p_content := Some (tx "hello" ++ [10%N]) |};
            c_meta := new_msec;
            c_files :=
              [ {| f_opts := [];
                   f_meta := {| m_opts := [(B "format", S_ "json")]; m_content := [(tx "path", JStr (tx "a"))] |};
                   f_diff := {| x_opts := [(B "line_endings", S_ "unix")];
                                x_content := Some (B "--- a" ++ [x0a] ++ B "+++ b" ++ [x0a]) |} |} ] |} ] |}.

Example ex_typed : typed_tree ex_tree = true.
Proof. vm_compute. reflexivity. Qed.
Example ex_normalise : normalise ex_tree = ex_norm.
Proof. vm_compute. reflexivity. Qed.
Example ex_write : dom_write ex_tree = Ok ex_bytes.
Proof. vm_compute. reflexivity. Qed.
Example ex_read : dom_read ex_orc ex_bytes = Ok ex_norm.
Proof. vm_compute. reflexivity. Qed.
Example ex_rewrite : dom_write ex_norm = Ok ex_bytes.
Proof. vm_compute. reflexivity. Qed.
(* the C01 hypothesis holds of the model's reader on this instance *)
Example ex_reader_returns_expected : reader_returns_expected ex_orc ex_tree ex_bytes.
Proof.
  intros s0 cs Hi Hc. vm_compute in Hi. injection Hi as <-. vm_compute in Hc. injection Hc as <-.
  eexists. split; vm_compute; reflexivity.
Qed.
Example ex_calls : exists cs s0, tree_calls ex_tree = Ok cs /\ List.length cs = 5 /\
  writer_init (tree_encoding ex_tree) (tree_version ex_tree) = (s0, Ok tt) /\ pre_ok_run s0 cs.
Proof.
  eexists. eexists. split; [vm_compute; reflexivity|]. split; [reflexivity|]. split; [vm_compute; reflexivity|].
  cbn [pre_ok_run pre_ok]. split; [exact I|]. split; [vm_compute; reflexivity|]. repeat split.
Qed.

(* a richer instance: main preamble (CRLF text, indent 2, mimetype) and metadata, a change in utf-16 with a
   non-ASCII preamble and indent 0, files with their own encodings, a typed diff in utf-16, a dos diff *)
Definition ex_tree2 : dtree :=
  {| d_opts := [(B "version", S_ "1.0"); (B "encoding", S_ "utf-8")];
     d_pre := {| p_opts := [(B "mimetype", S_ "text/markdown"); (B "indent", WInt 2)];
                 p_content := Some (tx "a" ++ [13%N; 10%N] ++ tx "b") |};
     d_meta := {| m_opts := [(B "format", S_ "json")]; m_content := [(tx "k", JInt 3)] |};
     d_changes :=
       [ {| c_opts := [(B "encoding", S_ "utf-16")];
            c_pre := {| p_opts := [(B "indent", WInt 0)]; p_content := Some (tx "hello" ++ [233%N]) |};
            c_meta := new_msec;
            c_files :=
              [ {| f_opts := [(B "encoding", S_ "latin-1")];
                   f_meta := {| m_opts := [(B "format", S_ "json"); (B "encoding", S_ "utf-8")];
                                m_content := [(tx "path", JStr (tx "a"))] |};
                   f_diff := {| x_opts := [(B "type", S_ "text"); (B "encoding", S_ "utf-16")];
                                x_content := Some (B "--- a" ++ [x0a] ++ B "+++ b") |} |};
                {| f_opts := []; f_meta := {| m_opts := []; m_content := [(tx "path", JStr (tx "b"))] |};
                   f_diff := new_dsec |} ] |};
         {| c_opts := []; c_pre := new_psec; c_meta := new_msec;
            c_files := [ {| f_opts := [];
                            f_meta := {| m_opts := []; m_content := [(tx "path", JStr (tx "b"))] |};
                            f_diff := {| x_opts := [(B "line_endings", S_ "dos")]; x_content := Some (B "x") |} |} ] |} ] |}.

Definition ex_key (j : json) : bytes := match json_dump j with Ok b => ("s"%byte :: b) ++ [x0a] | Err _ => [] end.
Definition ex_orc2 : oracle :=
  map (fun j => (ex_key j, LoadsOk j))
      [JObj [(tx "k", JInt 3)]; JObj [(tx "path", JStr (tx "a"))]; JObj [(tx "path", JStr (tx "b"))]].
Definition ex_bytes2 : bytes := match dom_write ex_tree2 with Ok b => b | Err _ => [] end.

Example ex2_typed : typed_tree ex_tree2 = true.
Proof. vm_compute. reflexivity. Qed.
Example ex2_write : dom_write ex_tree2 = Ok ex_bytes2 /\ List.length ex_bytes2 = 631.
Proof. split; vm_compute; reflexivity. Qed.
Example ex2_read : dom_read ex_orc2 ex_bytes2 = Ok (normalise ex_tree2).
Proof. vm_compute. reflexivity. Qed.
Example ex2_rewrite : dom_write (normalise ex_tree2) = Ok ex_bytes2.
Proof. vm_compute. reflexivity. Qed.
Example ex2_reader_returns_expected : reader_returns_expected ex_orc2 ex_tree2 ex_bytes2.
Proof.
  intros s0 cs Hi Hc. vm_compute in Hi. injection Hi as <-. vm_compute in Hc. injection Hc as <-.
  eexists. split; vm_compute; reflexivity.
Qed.

(* ---- [remap] on a dict with unique keys and no key that collides with a renamed one is the plain lookup ---- *)
Lemma beq_sym : forall a b, beq a b = beq b a.
Proof.
  intros a b. destruct (beq a b) eqn:E.
  - apply beq_true_eq in E. subst b. symmetry. apply beq_refl.
  - destruct (beq b a) eqn:E2; [|reflexivity]. apply beq_true_eq in E2. subst b. rewrite beq_refl in E. discriminate.
Qed.

Lemma get_set {V} : forall k k' (v : V) l, assoc_get beq k (assoc_set beq k' v l) = if beq k k' then Some v else assoc_get beq k l.
Proof.
  intros k k' v. induction l as [|[k1 v1] l IH].
  - cbn. destruct (beq k k'); reflexivity.
  - cbn [assoc_set]. destruct (beq k' k1) eqn:E.
    + apply beq_true_eq in E. subst k1. cbn [assoc_get]. destruct (beq k k'); reflexivity.
    + cbn [assoc_get]. rewrite IH. destruct (beq k k1) eqn:E1; [|reflexivity].
      apply beq_true_eq in E1. subst k1. rewrite beq_sym, E. reflexivity.
Qed.

Definition ren (name : String.string) (k : bytes) : bytes :=
  if beq k (B "type") && String.eqb name "diff" then B "diff_type"
  else if beq k (B "format") && String.eqb name "meta" then B "meta_format"
  else k.

Lemma remap_get_fold : forall name (o acc : dopts) k',
  assoc_get beq k' (fold_left (fun acc p => assoc_set beq (ren name (fst p)) (snd p) acc) o acc)
  = fold_left (fun (r : option wv) (p : bytes * wv) => if beq k' (ren name (fst p)) then Some (snd p) else r) o (assoc_get beq k' acc).
Proof.
  intros name. induction o as [|p o IH]; intros acc k'; [reflexivity|].
  cbn [fold_left]. rewrite IH, get_set. reflexivity.
Qed.

Lemma fold_unique : forall name (o : dopts) k k' r, keys_unique o = true ->
  (forall p, In p o -> beq k' (ren name (fst p)) = beq k (fst p)) ->
  fold_left (fun (r : option wv) (p : bytes * wv) => if beq k' (ren name (fst p)) then Some (snd p) else r) o r
  = match assoc_get beq k o with Some v => Some v | None => r end.
Proof.
  intros name. induction o as [|[k1 v1] o IH]; intros k k' r Hu Hk; [reflexivity|].
  cbn [keys_unique] in Hu. apply andb_true_iff in Hu. destruct Hu as [H1 H2]. apply negb_true_iff in H1.
  pose proof (Hk (k1, v1) (or_introl eq_refl)) as Hh. cbn [fst] in Hh.
  cbn [fold_left assoc_get fst snd]. rewrite Hh.
  rewrite (IH k k' _ H2 (fun p Hp => Hk p (or_intror Hp))).
  destruct (beq k k1) eqn:E; [|reflexivity].
  apply beq_true_eq in E. subst k1. rewrite (not_key_get _ _ H1). reflexivity.
Qed.

Lemma remap_get : forall name o k k', keys_unique o = true ->
  (forall p, In p o -> beq k' (ren name (fst p)) = beq k (fst p)) ->
  assoc_get beq k' (remap name o) = assoc_get beq k o.
Proof.
  intros name o k k' Hu Hk.
  assert (E : remap name o = fold_left (fun (acc : dopts) (p : bytes * wv) => assoc_set beq (ren name (fst p)) (snd p) acc) o [])
    by reflexivity.
  rewrite E, remap_get_fold, (fold_unique name o k k' _ Hu Hk). cbn [assoc_get]. destruct (assoc_get beq k o); reflexivity.
Qed.

Lemma only_keys_In : forall o al p, only_keys o al = true -> In p o -> exists a, In a al /\ fst p = B a.
Proof.
  intros o al p H Hin. unfold only_keys in H. rewrite forallb_forall in H. specialize (H p Hin).
  apply existsb_exists in H. destruct H as [a [Ha E]]. exists a. split; [exact Ha | apply beq_true_eq; exact E].
Qed.

(* metadata: the options of a well-formed section are looked up under their own names *)
Theorem remap_kw_meta : forall o, keys_unique o = true -> only_keys o ["encoding"; "format"] = true ->
  kw (remap "meta" o) "encoding" = kw o "encoding" /\ kw_opt (remap "meta" o) "meta_format" = kw_opt o "format".
Proof.
  intros o Hu Hk. unfold kw, kw_opt. split.
  - rewrite (remap_get "meta" o (B "encoding") (B "encoding") Hu); [reflexivity|].
    intros p Hp. destruct (only_keys_In _ _ _ Hk Hp) as [a [Ha ->]].
    destruct Ha as [<- | [<- | []]]; reflexivity.
  - apply (remap_get "meta" o (B "format") (B "meta_format") Hu).
    intros p Hp. destruct (only_keys_In _ _ _ Hk Hp) as [a [Ha ->]].
    destruct Ha as [<- | [<- | []]]; reflexivity.
Qed.

Theorem remap_kw_diff : forall o, keys_unique o = true -> only_keys o ["encoding"; "line_endings"; "type"] = true ->
  kw (remap "diff" o) "encoding" = kw o "encoding" /\ kw (remap "diff" o) "line_endings" = kw o "line_endings" /\
  kw (remap "diff" o) "diff_type" = kw o "type".
Proof.
  intros o Hu Hk. unfold kw.
  assert (G : forall k k', (forall a, In a ["encoding"; "line_endings"; "type"] -> beq k' (ren "diff" (B a)) = beq k (B a)) ->
                           assoc_get beq k' (remap "diff" o) = assoc_get beq k o).
  { intros k k' H. apply (remap_get "diff" o k k' Hu). intros p Hp.
    destruct (only_keys_In _ _ _ Hk Hp) as [a [Ha ->]]. apply H. exact Ha. }
  repeat split.
  - rewrite (G (B "encoding") (B "encoding")); [reflexivity|]. intros a [<- | [<- | [<- | []]]]; reflexivity.
  - rewrite (G (B "line_endings") (B "line_endings")); [reflexivity|]. intros a [<- | [<- | [<- | []]]]; reflexivity.
  - rewrite (G (B "type") (B "diff_type")); [reflexivity|]. intros a [<- | [<- | [<- | []]]]; reflexivity.
Qed.

(* so, for well-formed sections, the normalisation reads exactly as documented *)
Theorem norm_msec_plain : forall o c, keys_unique o = true -> only_keys o ["encoding"; "format"] = true ->
  is_nil c = false ->
  norm_msec (Me o c) = Me (present [(B "encoding", kw o "encoding"); (B "format", format_or_default (kw_opt o "format"))]) c.
Proof.
  intros o c Hu Hk Hn. destruct (remap_kw_meta o Hu Hk) as [E1 E2].
  unfold norm_msec, Me. cbn [m_content m_opts]. rewrite Hn, E1, E2. reflexivity.
Qed.

Theorem norm_dsec_plain : forall o b, keys_unique o = true -> only_keys o ["encoding"; "line_endings"; "type"] = true ->
  is_nil b = false ->
  norm_dsec (D o (Some b)) =
  D (present [(B "encoding", kw o "encoding");
              (B "line_endings", snd (diff_prepared (kw o "line_endings") (kw o "encoding") b));
              (B "type", kw o "type")])
    (Some (fst (diff_prepared (kw o "line_endings") (kw o "encoding") b))).
Proof.
  intros o b Hu Hk Hn. destruct (remap_kw_diff o Hu Hk) as [E1 [E2 E3]].
  unfold norm_dsec, D. cbn [x_content x_opts]. rewrite Hn, E1, E2, E3.
  destruct (diff_prepared _ _ b). reflexivity.
Qed.
