(* driver.ml — reads one S-expression per line on stdin, calls the extracted Entry.run, prints one per line.
   Wire format: ( ... ) lists, #<hex> raw bytes, anything else a bare symbol. *)
open Model
type string = Stdlib.String.t

let rec pos_of_int n = if n = 1 then XH else if n land 1 = 1 then XI (pos_of_int (n lsr 1)) else XO (pos_of_int (n lsr 1))
let n_of_int n = if n = 0 then N0 else Npos (pos_of_int n)
let rec int_of_pos = function XH -> 1 | XO p -> 2 * int_of_pos p | XI p -> 2 * int_of_pos p + 1
let int_of_n = function N0 -> 0 | Npos p -> int_of_pos p
let byte_tbl = Array.init 256 (fun i -> n_byte (n_of_int i))
let rev_tbl : (byte, int) Hashtbl.t = Hashtbl.create 512
let () = Array.iteri (fun i b -> Hashtbl.replace rev_tbl b i) byte_tbl
let int_of_byte b = Hashtbl.find rev_tbl b

let bytes_of_string s = List.init (String.length s) (fun i -> byte_tbl.(Char.code s.[i]))
let hexval c = match c with '0'..'9' -> Char.code c - 48 | 'a'..'f' -> Char.code c - 87 | 'A'..'F' -> Char.code c - 55
  | _ -> failwith "bad hex"
let bytes_of_hex s =
  let n = String.length s in
  if n land 1 = 1 then failwith "odd hex";
  List.init (n / 2) (fun i -> byte_tbl.(16 * hexval s.[2*i] + hexval s.[2*i+1]))

let parse (line : string) : sx =
  let n = String.length line in
  let pos = ref 0 in
  let rec skip () = if !pos < n && (line.[!pos] = ' ' || line.[!pos] = '\t' || line.[!pos] = '\r') then (incr pos; skip ()) in
  let rec item () =
    skip ();
    if !pos >= n then failwith "eol"
    else if line.[!pos] = '(' then begin
      incr pos;
      let acc = ref [] in
      let rec loop () =
        skip ();
        if !pos >= n then failwith "unclosed"
        else if line.[!pos] = ')' then incr pos
        else (acc := item () :: !acc; loop ()) in
      loop (); Li (List.rev !acc)
    end else begin
      let st = !pos in
      while !pos < n && line.[!pos] <> ' ' && line.[!pos] <> '(' && line.[!pos] <> ')' do incr pos done;
      let tok = String.sub line st (!pos - st) in
      if String.length tok > 0 && tok.[0] = '#' then Hex (bytes_of_hex (String.sub tok 1 (String.length tok - 1)))
      else Sym (bytes_of_string tok)
    end in
  item ()

let rec print buf (s : sx) =
  match s with
  | Sym b -> List.iter (fun x -> Buffer.add_char buf (Char.chr (int_of_byte x))) b
  | Hex b -> Buffer.add_char buf '#'; List.iter (fun x -> Buffer.add_string buf (Printf.sprintf "%02x" (int_of_byte x))) b
  | Li l -> Buffer.add_char buf '(';
      List.iteri (fun i x -> if i > 0 then Buffer.add_char buf ' '; print buf x) l;
      Buffer.add_char buf ')'

let () =
  let buf = Buffer.create 65536 in
  (try
    while true do
      let line = input_line stdin in
      Buffer.clear buf;
      (try print buf (run (parse line))
       with Failure m -> Buffer.clear buf; Buffer.add_string buf ("(driver-error " ^ m ^ ")")
          | Stack_overflow -> Buffer.clear buf; Buffer.add_string buf "(driver-error stack-overflow)");
      print_string (Buffer.contents buf); print_newline ()
    done
  with End_of_file -> ())
