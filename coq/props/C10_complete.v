(* C10, completeness — "the reader accepts exactly the section orders the hierarchy allows": props/C10.v proves that
   the generated table is the specification's state tree and that the ids the reader yields always form a legal
   path (soundness, for all inputs).  This file adds the converse: EVERY legal path is accepted.
   Spec: theories/SectionsSpec.v (sid, may_follow, spec_path) and theories/SpecReader.v (the AST of well-formed
   files, render_file, wf_file).  Proofs: theories/SpecReaderComplete.v.

   [spec_path w] (SectionsSpec.v): w is empty, or starts with diffx and every next id may_follow its predecessor.
   Paths need not be "finished" (e.g. [diffx; .change] is a path): the streaming reader checks the order of what it
   sees and has no notion of a missing section at the end of the data.

   On premises.  The theorems have NO bound on the length of w.  C03_reads_spec asks that the whole file be at
   most sys.maxsize bytes; the model compares with sys.maxsize only in fp.read(min(length, sys.maxsize)) on the
   content of one section, so theories/SpecReaderComplete.v first re-proves C03_reads_spec under the weaker
   premise "the content of every section is at most sys.maxsize bytes" ([C03_reads_spec_small] below), which the
   canonical sections (at most 3 content bytes) satisfy whatever the number of sections.  The premise [w <> []]
   is not needed either: the empty path is the id sequence of the empty file, on which the model's iteration
   ends normally without a record; the statements with [w <> []] are instances. *)
From Coq Require Import List Arith NArith ZArith Bool Strings.Byte Lia.
From Coq Require Strings.String.
From DX Require Import Bytes Res Codec Text Sections Header Stream Json Reader SectionsSpec
                       SpecReader SpecReaderFacts SpecReaderComplete.
From DX Require SectionsFacts.
Import ListNotations.
Import String.StringSyntax.
Local Open Scope string_scope.
Local Open Scope list_scope.

(* ---- C03_reads_spec with the size premise per section instead of for the whole file ---- *)
Theorem C03_reads_spec_small : forall f orc chunk,
  wf_file f = true -> oracle_ok_file orc f -> 0 < chunk ->
  small_secs ectx0 (ff_sections f) ->
  read_all orc chunk (render_file f) = (spec_records f, TEnd).
Proof. exact SpecReaderComplete.reads_spec_small. Qed.
Print Assumptions C03_reads_spec_small.

(* it is the weaker premise *)
Theorem C03_small_of_total : forall crlf ss x,
  (Z.of_nat (length (render_secs crlf x ss)) <= sys_maxsize)%Z -> small_secs x ss.
Proof. exact SpecReaderComplete.small_secs_of_total. Qed.
Print Assumptions C03_small_of_total.

(* ---- completeness: for every legal id sequence there is a well-formed file with exactly those sections which
        the reader accepts (whatever the chunk size), yielding exactly those ids ---- *)
Theorem C10_complete : forall w : list sid, spec_path w ->
  exists f orc,
    wf_file f = true /\ oracle_ok_file orc f /\ map fs_id (ff_sections f) = w /\
    forall chunk, 0 < chunk ->
      exists rs, read_all orc chunk (render_file f) = (rs, TEnd) /\ map r_id rs = map sid_bytes w.
Proof. exact SpecReaderComplete.paths_complete. Qed.
Print Assumptions C10_complete.

(* the witness: one canonical minimal section per id ([csec]: diffx with version=1.0 and encoding=utf-8; .change
   and ..file without options; preambles with the line "x"; metadata with the line "{}"; a diff "x\n"), LF header
   lines, and the oracle json.loads("{}\n") = {}.  The reader yields the specification's records of that file. *)
Theorem C10_complete_canonical : forall w chunk, spec_path w -> 0 < chunk ->
  read_all corc chunk (render_file (cfile w)) = (spec_records (cfile w), TEnd) /\
  map r_id (spec_records (cfile w)) = map sid_bytes w.
Proof. exact SpecReaderComplete.reads_cfile. Qed.
Print Assumptions C10_complete_canonical.

(* the canonical file of w is well-formed exactly when w is a legal path: of the conditions of wf_file only the
   order condition depends on w (proved for all w by induction over the path; per section a finite case analysis,
   9 ids x 10 predecessors, each by computation; the encoding context is constant after the main header) *)
Theorem C10_canonical_wf : forall w, wf_file (cfile w) = true <-> spec_path w.
Proof. exact SpecReaderComplete.wf_cfile_iff. Qed.
Print Assumptions C10_canonical_wf.

Theorem C10_canonical_wf_section : forall p a, wf_section (Some p) xc (csec a) = may_follow p a.
Proof. exact SpecReaderComplete.wf_csec. Qed.
Print Assumptions C10_canonical_wf_section.

Theorem C10_canonical_ectx : forall a, ectx_next xc (csec a) = xc /\ forall x, ectx_next x (csec Main) = xc.
Proof. intro a. split; [apply SpecReaderComplete.ectx_next_csec | exact SpecReaderComplete.ectx_next_main]. Qed.
Print Assumptions C10_canonical_ectx.

Theorem C10_canonical_size : forall w, spec_path w -> length (render_file (cfile w)) <= 64 * length w.
Proof. exact SpecReaderComplete.render_cfile_len. Qed.
Print Assumptions C10_canonical_size.

(* ---- exactness: soundness (C10_reader_sound) + completeness.  The id sequences of the runs of the reader that
        end normally are exactly the legal paths ... ---- *)
Theorem C10_exact : forall w : list sid,
  spec_path w <->
  exists orc chunk data rs, 0 < chunk /\ read_all orc chunk data = (rs, TEnd) /\ map r_id rs = map sid_bytes w.
Proof. exact SpecReaderComplete.paths_exact. Qed.
Print Assumptions C10_exact.

(* ... and so are the id sequences of the runs that stop for any reason (end of data, parse error, ...) *)
Theorem C10_exact_any_end : forall w : list sid,
  spec_path w <->
  exists orc chunk data rs t, 0 < chunk /\ read_all orc chunk data = (rs, t) /\ map r_id rs = map sid_bytes w.
Proof. exact SpecReaderComplete.paths_exact_any_end. Qed.
Print Assumptions C10_exact_any_end.

(* ---- Examples ---- *)

(* which sequences are legal: a .change needs no ..file when a ..meta precedes the next .change (erratum 1 of
   the state tree, SectionsSpec.v), but ".change" directly after ".change" is not in the tree; neither is a
   ..file without its ...meta before the next ..file *)
Example C10_complete_ex_legal :
  spec_path ex_all /\ spec_path ex_changes /\ spec_path [Main; Change] /\
  ~ spec_path [Main; Change; Change] /\ ~ spec_path [Main; Change; File; File] /\ ~ spec_path [Change] /\
  may_follow ChangeMeta Change = true /\ may_follow Change Change = false.
Proof.
  repeat split; try (intros [H1 H2]; discriminate).
Qed.

(* the canonical file of all nine ids, and of the sequence of C10_reader_ex_long: their bytes, literally *)
Example C10_complete_ex_bytes :
  render_file (cfile ex_all) = ex_all_bytes /\ render_file (cfile ex_changes) = ex_changes_bytes.
Proof. split; vm_compute; reflexivity. Qed.

Example C10_complete_ex_wf :
  wf_file (cfile ex_all) = true /\ wf_file (cfile ex_changes) = true /\
  wf_file (cfile [Main; Change; Change]) = false /\ wf_file (cfile [Change]) = false.
Proof. repeat split; vm_compute; reflexivity. Qed.

(* the reader accepts them: by the theorem, for every chunk size ... *)
Example C10_complete_ex_read : forall chunk, 0 < chunk ->
  (exists rs, read_all corc chunk ex_all_bytes = (rs, TEnd) /\ map r_id rs = map sid_bytes ex_all) /\
  (exists rs, read_all corc chunk ex_changes_bytes = (rs, TEnd) /\ map r_id rs = map sid_bytes ex_changes).
Proof.
  intros chunk Hc. destruct C10_complete_ex_bytes as [<- <-]. destruct C10_complete_ex_legal as (H1 & H2 & _).
  split; eexists; apply C10_complete_canonical; assumption.
Qed.

(* ... and by running the model (chunk sizes 96, 7 and 1) *)
Example C10_complete_ex_run :
  (let (rs, t) := read_all corc 96 ex_all_bytes in (map r_id rs, t)) = (map sid_bytes ex_all, TEnd) /\
  (let (rs, t) := read_all corc 1 ex_all_bytes in (map r_id rs, t)) = (map sid_bytes ex_all, TEnd) /\
  (let (rs, t) := read_all corc 7 ex_changes_bytes in (map r_id rs, t)) = (map sid_bytes ex_changes, TEnd).
Proof. repeat split; vm_compute; reflexivity. Qed.

(* the payloads of the nine records *)
Example C10_complete_ex_payloads :
  map r_payload (spec_records (cfile ex_all)) =
  [PNone; PText (atext "x" ++ [10%N]); PMeta (JObj []); PNone; PText (atext "x" ++ [10%N]); PMeta (JObj []); PNone;
   PMeta (JObj []); PBytes (B "x" ++ lf)].
Proof. vm_compute. reflexivity. Qed.

(* the hypotheses of C10_exact's right-hand side on a run: the ids of an accepted input form a legal path *)
Example C10_exact_ex : spec_path ex_changes.
Proof.
  apply C10_exact. exists corc, 7, ex_changes_bytes.
  eexists. split; [lia|]. split; [vm_compute; reflexivity|]. vm_compute. reflexivity.
Qed.

(* the empty path: the empty file *)
Example C10_complete_ex_empty : render_file (cfile []) = [] /\ read_all corc 96 [] = ([], TEnd).
Proof. split; vm_compute; reflexivity. Qed.
