(* LexEntry.v — harness entry for the lexer model (C20).
     (lex <text> <oracle table>)
   <text> = (u #hex-utf32be); <oracle table> = ((<lexer name symbol> <text> (<token> ...)) ...),
   <token> = (<offset> #<token type bytes> <text>).
   Result: ((offset #type text) ...) | fuel | oracle-miss | bad-state | bad-group. *)
From Coq Require Import List Arith NArith ZArith Bool Strings.Byte.
From Coq Require Strings.String.
From DX Require Import Bytes Sx Lexer.
From DXGen Require GenLexer.
Import ListNotations.
Import String.StringSyntax.
Local Open Scope string_scope.
Local Open Scope list_scope.

Definition sx_token (s : sx) : option token :=
  match s with
  | Li [o; ty; v] =>
      match sx_N o, sx_bytes ty, sx_text v with
      | Some o, Some ty, Some v => Some (o, ty, v)
      | _, _, _ => None
      end
  | _ => None
  end.

Definition oracle_entry := (bytes * text * list token)%type.
Definition sx_oracle_entry (s : sx) : option oracle_entry :=
  match s with
  | Li [n; t; toks] =>
      match sx_sym n, sx_text t, sx_list sx_token toks with
      | Some n, Some t, Some toks => Some (n, t, toks)
      | _, _, _ => None
      end
  | _ => None
  end.

Fixpoint oracle_of (tbl : list oracle_entry) (name : bytes) (t : text) : option (list token) :=
  match tbl with
  | [] => None
  | (n, t', toks) :: more => if beq name n && teq t t' then Some toks else oracle_of more name t
  end.

Definition sx_of_token (t : token) : sx :=
  match t with (o, ty, v) => Li [sx_of_N o; Hex ty; sx_of_text v] end.

Definition sx_of_lexres (r : lexres) : sx :=
  match r with
  | LOk toks => sx_of_list sx_of_token toks
  | LFuel => sym "fuel"
  | LOracleMiss => sym "oracle-miss"
  | LBadState => sym "bad-state"
  | LBadGroup => sym "bad-group"
  end.

Definition run_lex (args : list sx) : sx :=
  match args with
  | [t; orc] =>
      match sx_text t, sx_list sx_oracle_entry orc with
      | Some t, Some orc => sx_of_lexres (lex_default (oracle_of orc) GenLexer.rules t)
      | _, _ => bad_case "lex args"
      end
  | _ => bad_case "lex arity"
  end.
