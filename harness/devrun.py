"""Dev helper: run one family against the model and print disagreements. Usage: devrun.py <family> [tier] [prop]"""
import sys, os, json, faulthandler
if os.environ.get("FAULT"): faulthandler.dump_traceback_later(int(os.environ["FAULT"]), exit=True)
sys.path.insert(0, os.path.dirname(os.path.abspath(__file__)))
import lib
if os.environ.get('DEVRUN_TREE'):   # development only: triage a patched scratch worktree without touching /repo (bin/check never sets this)
    sys.path.insert(0, os.path.join(os.environ['DEVRUN_TREE'], 'python'))
    lib.DEV_TREE = os.environ['DEVRUN_TREE']
import check, registry
fam = registry.FAMILIES[sys.argv[1]]
tier = sys.argv[2] if len(sys.argv) > 2 else 'quick'
prop = sys.argv[3] if len(sys.argv) > 3 else 'ALL'
if os.environ.get('NOBUILD') != '1':
    b = lib.build()
    print('build: translate_ok=%s failed=%s model_ok=%s %s' % (b.translate_ok, b.failed_files, b.model_ok, b.model_msg[-500:]))
    for f in b.failed_files: print(b.first_error.get(f))
stats = {}
d, f, k = check.run_family(fam, prop, tier, lib.load_known_findings(), stats)
s = stats[fam.name]
print({k2: v for k2, v in s.items() if k2 not in ('samples', 'rule')})
for x in d[:int(os.environ.get('SHOW', '5'))]:
    m, im = x['model'], x['impl']
    n = next((i for i in range(min(len(m), len(im))) if m[i] != im[i]), min(len(m), len(im)))
    print('DISAGREE', json.dumps(x['case'])[:int(os.environ.get('CASELEN', '700'))]); print('  first difference at char', n); print('  model:', m[max(0, n - 150):n + 150]); print('  impl :', im[max(0, n - 150):n + 150])
    if x.get('trace'): print(x['trace'])
import collections
print('signatures:', collections.Counter(x['signature'] for x in f), 'known:', collections.Counter(kk['signature'] for kk, e in k))
for x in f[:int(os.environ.get('SHOWF', '3'))]:
    print('ORACLE-FAIL', x['signature'], x['what'], json.dumps(x['case'])[:800])
for (kk, e) in k[:3]:
    print('KNOWN', kk['signature'], json.dumps(e['case'])[:300])
