def gen_lexer(write_if_changed, coq_bytes, coq_str, coq_list, need):
    return False
