(* Reader.v — model of pydiffx/reader.py (DiffXReader.iter_sections, _read_header, _read_content),
   transcribed statement by statement, failure behaviour included. json.loads is a per-case oracle. *)
From Coq Require Import List Arith NArith ZArith Bool Strings.Byte.
From Coq Require Strings.String.
From DX Require Import Bytes Res Codec Text Sections Header Stream Json.
From DXGen Require GenSections GenText.
Import ListNotations.
Import String.StringSyntax.
Local Open Scope string_scope.
Local Open Scope list_scope.

Inductive payload :=
| PNone
| PText (t : text)        (* decoded str *)
| PBytes (b : bytes)      (* bytes (diffs; preambles when no encoding is in force) *)
| PMeta (j : json).

Record record := { r_level : nat; r_line : Z; r_opts : options; r_id : bytes; r_type : bytes; r_payload : payload }.

Inductive term :=
| TEnd
| TParse (line : Z) (col : option Z)      (* DiffXParseError(linenum, column) *)
| TExc (e : exn)                          (* any other exception type escaping the iterator *)
| TFuel.                                  (* model ran out of fuel: excluded by theorem *)

(* answers of json.loads recorded by the harness for this case: key = argument (tag byte 's'/'b' + utf-8 / raw bytes) *)
Inductive loads_answer := LoadsOk (j : json) | LoadsValueError | LoadsRecursion.
Definition oracle := list (bytes * loads_answer).

Record rstate := { st_stream : stream; st_linenum : Z; st_fnl : option bytes }.

Definition sys_maxsize : Z := 9223372036854775807%Z.

(* `if line_endings is not None` (an option that is present, whatever its value) *)
Definition pv_given (v : option pv) : bool :=
  match v with
  | None => false
  | Some _ => true
  end.

(* re.sub(br'^ {1,k}', b'', line): drop up to k leading spaces (at least one if present) *)
Fixpoint strip_spaces (k : nat) (l : bytes) : bytes :=
  match k, l with
  | S k', c :: t => if byte_eqb c x20 then strip_spaces k' t else l
  | _, _ => l
  end.

Inductive content_result :=
| COk (p : payload) (st : rstate)
| CParse (line : Z)
| CExc (e : exn).

(* errors raised inside the try: blocks of _read_content that catch (LookupError, ValueError) *)
Definition caught_as_parse (e : exn) : bool :=
  match e with
  | ELookup | EValue | EUnicodeEncode | EUnicodeDecode | EKey => true
  | _ => false
  end.

Definition read_content (st : rstate) (length_z : Z) (encoding indent line_endings : option pv) (keep_bytes : bool)
  : content_result :=
  (* fp.read(min(length, sys.maxsize)); the further min with the bytes available only keeps the unary nat small *)
  let avail := Z.of_nat (length (remaining (st_stream st))) in
  let n := Z.to_nat (Z.min (Z.min length_z sys_maxsize) avail) in
  let (content, s1) := sread n (st_stream st) in
  let ln := st_linenum st in
  if is_nil content then CParse (ln - 1)%Z else
  match encoding with
  | Some (VInt _) => CParse (ln - 1)%Z
  | _ =>
    let enc : option bytes := match encoding with Some (VStr s) => Some s | _ => None end in
    let indent_bad := match indent with
                      | None => false
                      | Some (VStr _) => true
                      | Some (VInt z) => (z <? 0)%Z
                      end in
    if indent_bad then CParse (ln - 1)%Z else
    let nl_res : res bytes :=
      if pv_given line_endings then
        match line_endings with
        | Some (VStr le) => get_newline_for_type le enc
        | _ => Err EValue          (* NEWLINE_FORMATS[<int>] -> KeyError -> ValueError *)
        end
      else do p <- guess_line_endings_bytes content enc; Ok (snd p) in
    match nl_res with
    | Err e => if caught_as_parse e then CParse ln else CExc e
    | Ok newline =>
      match split_lines content newline true with
      | Err e => CExc e
      | Ok lines =>
        (* the raw content must itself end with the newline (checked before indentation is stripped) *)
        if negb (bends newline content) then CParse ln else
        let content1 :=
          match indent with
          | Some (VInt z) =>
              if (0 <? z)%Z
              then concat (map (strip_spaces (Z.to_nat (Z.min z (Z.of_nat (length content))))) lines)
              else content
          | _ => content
          end in
        let finish (p : payload) (ends : bool) : content_result :=
          if ends
          then COk p {| st_stream := s1; st_linenum := (ln + Z.of_nat (length lines))%Z; st_fnl := st_fnl st |}
          else CParse ln in
        match enc, keep_bytes with
        | Some e, false =>
            match py_decode content1 e with
            | Err ex => if caught_as_parse ex then CParse ln else CExc ex
            | Ok t =>
                match py_decode newline e with
                | Err ex => if caught_as_parse ex then CParse ln else CExc ex
                | Ok nlt => finish (PText t) (suffixb N.eqb nlt t)
                end
            end
        | _, _ => finish (PBytes content1) (bends newline content1)
        end
      end
    end
  end.

Inductive header_result :=
| HdrEof
| HdrOk (level : nat) (name id : bytes) (opts : options) (line : Z) (st : rstate)
| HdrParse (line : Z) (col : option Z)
| HdrExc (e : exn).

Definition crlf : bytes := [x0d; x0a].

(* the blank-line skipping loop of _read_header *)
Fixpoint next_nonblank (fuel : nat) (chunk : nat) (s : stream) : res (option bytes * stream) :=
  match fuel with
  | O => Err EOracleMiss      (* never: fuel = S (remaining length) *)
  | S f =>
      do r <- read_until chunk s;
      let '(line, eof, s1) := r in
      if eof then Ok (None, s1)
      else if nonempty (strip line) then Ok (Some line, s1)
      else next_nonblank f chunk s1
  end.

Definition read_header (chunk : nat) (valid : list bytes) (st : rstate) : header_result :=
  let linenum := st_linenum st in
  match next_nonblank (S (length (remaining (st_stream st)))) chunk (st_stream st) with
  | Err e => HdrExc e
  | Ok (None, _) => HdrEof
  | Ok (Some header, s1) =>
      let fnl := match st_fnl st with
                 | Some f => f
                 | None => if bends crlf header then crlf else [lf]
                 end in
      if negb (bends fnl header) then HdrParse linenum None
      else
        let h := firstn (length header - length fnl) header in
        match parse_header valid h with
        | HErr col => HdrParse linenum (option_map Z.of_nat col)
        | HOk level name id opts =>
            HdrOk level name id opts linenum
                  {| st_stream := s1; st_linenum := (linenum + 1)%Z; st_fnl := Some fnl |}
        end
  end.

Definition oracle_key_text (t : text) : bytes :=
  match c_enc utf8 t with Some b => "s"%byte :: b | None => [] end.
Definition oracle_key_bytes (b : bytes) : bytes := "b"%byte :: b.

Fixpoint pop_n {A} (n : nat) (l : list A) : option (list A) :=   (* list.pop() n times; l is kept reversed: head = top *)
  match n with
  | O => Some l
  | S k => match l with [] => None | _ :: t => pop_n k t end
  end.

Definition top {A} (l : list A) : option A := match l with x :: _ => Some x | [] => None end.

(* One iteration of the while loop of iter_sections.
   encodings is kept top-first. *)
Inductive step_result :=
| SDone
| SYield (r : record) (st : rstate) (valid : list bytes) (encodings : list (option pv)) (prev_level : nat)
| SParse (line : Z) (col : option Z)
| SExc (e : exn).

Definition iter_step (orc : oracle) (chunk : nat) (st : rstate) (valid : list bytes)
           (encodings : list (option pv)) (prev_level : nat) : step_result :=
  match read_header chunk valid st with
  | HdrEof => SDone
  | HdrParse l c => SParse l c
  | HdrExc e => SExc e
  | HdrOk level name id opts linenum st1 =>
      let after (st2 : rstate) (p : payload) (encs : list (option pv)) (prev : nat) : step_result :=
        match table_get id with
        | None => SExc EKey
        | Some nxt =>
            SYield {| r_level := level; r_line := linenum; r_opts := opts; r_id := id; r_type := name; r_payload := p |}
                   st2 nxt encs prev
        end in
      if is_content id then
        match top encodings with
        | None => SExc EIndex
        | Some inherited =>
          let encoding : option pv := match opt_get "encoding" opts with Some v => Some v | None => inherited end in
          match opt_get "length" opts with
          | None => SParse linenum None
          | Some (VStr _) => SParse linenum None
          | Some (VInt len) =>
            if (len <? 0)%Z then SParse linenum None else
            if is_preamble id then
              match read_content st1 len encoding (opt_get "indent" opts) (opt_get "line_endings" opts) false with
              | COk p st2 => after st2 p encodings prev_level
              | CParse l => SParse l None
              | CExc e => SExc e
              end
            else if is_meta id then
              let fmt_ok := match opt_get "format" opts with
                            | None => true
                            | Some (VStr s) => beq s (B "json")
                            | Some (VInt _) => false
                            end in
              if negb fmt_ok then SParse linenum None else
              match read_content st1 len encoding None (opt_get "line_endings" opts) false with
              | COk p st2 =>
                  let key := match p with PText t => oracle_key_text t | PBytes b => oracle_key_bytes b | _ => [] end in
                  match assoc_get beq key orc with
                  | None => SExc EOracleMiss
                  | Some (LoadsOk j) => after st2 (PMeta j) encodings prev_level
                  | Some LoadsValueError => SParse linenum None
                  | Some LoadsRecursion => SParse linenum None
                  end
              | CParse l => SParse l None
              | CExc e => SExc e
              end
            else if beq id GenSections.sec_file_diff then
              match read_content st1 len (opt_get "encoding" opts) None (opt_get "line_endings" opts) true with
              | COk p st2 => after st2 p encodings prev_level
              | CParse l => SParse l None
              | CExc e => SExc e
              end
            else SExc EAssertion
          end
        end
      else
        let push (encs : list (option pv)) : step_result :=
          match top encs with
          | None => SExc EIndex
          | Some cur =>
              let e := match opt_get "encoding" opts with Some v => Some v | None => cur end in
              after st1 PNone (e :: encs) level
          end in
        if beq id GenSections.sec_main then
          let ok := match opt_get "version" opts with
                    | Some (VStr v) => in_ids v GenText.versions
                    | _ => false
                    end in
          if ok then push encodings else SParse linenum None
        else if beq id GenSections.sec_change || beq id GenSections.sec_file then
          match pop_n (prev_level + 1 - level) encodings with
          | None => SExc EIndex
          | Some encs => push encs
          end
        else SExc EAssertion
  end.

Fixpoint iter_loop (fuel : nat) (orc : oracle) (chunk : nat) (st : rstate) (valid : list bytes)
         (encodings : list (option pv)) (prev_level : nat) (acc : list record) : list record * term :=
  match fuel with
  | O => (frev acc, TFuel)
  | S f =>
      match iter_step orc chunk st valid encodings prev_level with
      | SDone => (frev acc, TEnd)
      | SParse l c => (frev acc, TParse l c)
      | SExc e => (frev acc, TExc e)
      | SYield r st' valid' encs' prev' => iter_loop f orc chunk st' valid' encs' prev' (r :: acc)
      end
  end.

Definition default_chunk : nat := 96.

Definition read_all (orc : oracle) (chunk : nat) (data : bytes) : list record * term :=
  iter_loop (S (length data)) orc chunk
            {| st_stream := {| s_data := data; s_pos := 0 |}; st_linenum := 0%Z; st_fnl := None |}
            [GenSections.sec_main] [None] 0 [].
