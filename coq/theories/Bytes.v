(* Bytes.v — generic list operations with Python semantics (bytes / str), used by every model file.
   Model file: definitions only (proofs live in *Facts.v). *)
From Coq Require Import List Arith NArith ZArith Bool Strings.Byte.
From Coq Require Strings.String.
Import ListNotations.
Import String.StringSyntax.
Local Open Scope string_scope.
Local Open Scope list_scope.

Notation bytes := (list byte).
Notation text := (list N).      (* Python str as a list of code points *)

Definition B (s : String.string) : bytes := String.list_byte_of_string s.

Definition byte_eqb (a b : byte) : bool := Byte.eqb a b.

(* linear-time reverse (List.frev is quadratic when extracted); List.rev_alt relates the two *)
Definition frev {A : Type} (l : list A) : list A := rev_append l [].

Section ListOps.
  Context {A : Type} (eqb : A -> A -> bool).

  Fixpoint list_eqb (a b : list A) : bool :=
    match a, b with
    | [], [] => true
    | x :: a', y :: b' => eqb x y && list_eqb a' b'
    | _, _ => false
    end.

  (* l.startswith(p) *)
  Fixpoint prefixb (p l : list A) : bool :=
    match p, l with
    | [], _ => true
    | x :: p', y :: l' => eqb x y && prefixb p' l'
    | _ :: _, [] => false
    end.

  (* l.endswith(s) *)
  Definition suffixb (s l : list A) : bool := prefixb (frev s) (frev l).

  (* l.find(pat): index of the leftmost occurrence *)
  Fixpoint find_at (pat l : list A) (i : nat) : option nat :=
    if prefixb pat l then Some i
    else match l with
         | [] => None
         | _ :: t => find_at pat t (S i)
         end.
  Definition find (pat l : list A) : option nat := find_at pat l 0.

  (* l.split(sep) for non-empty sep: leftmost, non-overlapping.
     [cur] is the current piece reversed; [skip] counts the elements of an already matched
     separator that are still to be dropped. Structural on [l]. *)
  Fixpoint split_aux (sep cur l : list A) (skip : nat) : list (list A) :=
    match l with
    | [] => [frev cur]
    | x :: t =>
        match skip with
        | S k => split_aux sep cur t k
        | O => if prefixb sep l
               then frev cur :: split_aux sep [] t (length sep - 1)
               else split_aux sep (x :: cur) t 0
        end
    end.
  Definition split (sep l : list A) : list (list A) := split_aux sep [] l 0.

  Fixpoint join (sep : list A) (ps : list (list A)) : list A :=
    match ps with
    | [] => []
    | [p] => p
    | p :: ps' => p ++ sep ++ join sep ps'
    end.

  (* number of positions at which pat occurs (overlapping occurrences counted) *)
  Fixpoint occurrences (pat l : list A) : nat :=
    match l with
    | [] => 0
    | _ :: t => (if prefixb pat l then 1 else 0) + occurrences pat t
    end.

  (* l.index(pat) when it exists; used for error columns *)
  Definition index_of (pat l : list A) : option nat := find pat l.

  Fixpoint mem (x : A) (l : list A) : bool :=
    match l with [] => false | y :: t => eqb x y || mem x t end.

  (* association lists with Python dict semantics *)
  Fixpoint assoc_get {V} (k : A) (d : list (A * V)) : option V :=
    match d with
    | [] => None
    | (k', v) :: t => if eqb k k' then Some v else assoc_get k t
    end.
  (* d[k] = v : replaces in place if present, else appends (insertion order kept) *)
  Fixpoint assoc_set {V} (k : A) (v : V) (d : list (A * V)) : list (A * V) :=
    match d with
    | [] => [(k, v)]
    | (k', v') :: t => if eqb k k' then (k', v) :: t else (k', v') :: assoc_set k v t
    end.
  Fixpoint assoc_del {V} (k : A) (d : list (A * V)) : list (A * V) :=
    match d with
    | [] => []
    | (k', v') :: t => if eqb k k' then assoc_del k t else (k', v') :: assoc_del k t
    end.
End ListOps.

Definition beq : bytes -> bytes -> bool := list_eqb byte_eqb.
Definition teq : text -> text -> bool := list_eqb N.eqb.

Definition bstarts (p l : bytes) := prefixb byte_eqb p l.
Definition bends (s l : bytes) := suffixb byte_eqb s l.
Definition bfind (p l : bytes) := find byte_eqb p l.
Definition bsplit (sep l : bytes) := split byte_eqb sep l.

Definition byte_n (b : byte) : N := Byte.to_N b.
Definition n_byte (n : N) : byte := match Byte.of_N n with Some b => b | None => x00 end.

(* ASCII classes on bytes *)
Definition in_range (lo hi : N) (b : byte) : bool := (N.leb lo (byte_n b)) && (N.leb (byte_n b) hi).
Definition is_digit (b : byte) := in_range 48 57 b.
Definition is_upper (b : byte) := in_range 65 90 b.
Definition is_lower (b : byte) := in_range 97 122 b.
Definition is_alpha (b : byte) := is_upper b || is_lower b.
Definition is_alnum (b : byte) := is_alpha b || is_digit b.
(* bytes.strip() / \s on bytes: space \t \n \v \f \r *)
Definition is_space (b : byte) : bool :=
  let n := byte_n b in (N.eqb n 32) || ((N.leb 9 n) && (N.leb n 13)).

Fixpoint lstrip (l : bytes) : bytes :=
  match l with
  | x :: t => if is_space x then lstrip t else l
  | [] => []
  end.
Definition strip (l : bytes) : bytes := frev (lstrip (frev (lstrip l))).

Fixpoint all_b {A} (f : A -> bool) (l : list A) : bool :=
  match l with [] => true | x :: t => f x && all_b f t end.

(* decimal rendering of naturals / integers as ASCII bytes, structural on fuel *)
Fixpoint N_digits_fuel (fuel : nat) (n : N) (acc : bytes) : bytes :=
  match fuel with
  | O => acc
  | S f =>
      let d := n_byte (48 + N.modulo n 10) in
      let q := N.div n 10 in
      if N.eqb q 0 then d :: acc else N_digits_fuel f q (d :: acc)
  end.
Definition N_to_dec (n : N) : bytes := N_digits_fuel (S (N.to_nat (N.log2 n))) n [].
Definition Z_to_dec (z : Z) : bytes :=
  match z with
  | Z0 => B "0"
  | Zpos p => N_to_dec (Npos p)
  | Zneg p => B "-" ++ N_to_dec (Npos p)
  end.
Definition nat_to_dec (n : nat) : bytes := N_to_dec (N.of_nat n).

(* parse a non-empty all-digit byte string *)
Definition dec_to_N (l : bytes) : N :=
  fold_left (fun acc b => (acc * 10 + (byte_n b - 48))%N) l 0%N.

Fixpoint repeat_b (b : byte) (n : nat) : bytes :=
  match n with O => [] | S k => b :: repeat_b b k end.

Definition lower_byte (b : byte) : byte := if is_upper b then n_byte (byte_n b + 32) else b.

(* sorting (insertion sort) with a boolean "less or equal" *)
Section Sort.
  Context {A : Type} (leb : A -> A -> bool).
  Fixpoint insert_sorted (x : A) (l : list A) : list A :=
    match l with
    | [] => [x]
    | y :: t => if leb x y then x :: l else y :: insert_sorted x t
    end.
  Definition isort (l : list A) : list A := fold_right insert_sorted [] l.
End Sort.

(* lexicographic order *)
Fixpoint lex_leb {A} (ltb eqb : A -> A -> bool) (a b : list A) : bool :=
  match a, b with
  | [], _ => true
  | _ :: _, [] => false
  | x :: a', y :: b' => if ltb x y then true else if eqb x y then lex_leb ltb eqb a' b' else false
  end.
Definition bytes_leb (a b : bytes) : bool := lex_leb (fun x y => N.ltb (byte_n x) (byte_n y)) byte_eqb a b.
Definition text_leb (a b : text) : bool := lex_leb N.ltb N.eqb a b.
