"""Generators of writer call sequences (well-ordered, per the C01 quantifier) and of their arguments,
plus the specification-level expectation of what reading the result must give (C01 oracle)."""
from streamlib import S, Bv

CODECS = ['utf-8', 'utf-16', 'utf-16-le', 'utf-16-be', 'utf-32', 'utf-32-le', 'utf-32-be', 'latin-1', 'ascii',
          'utf-8-sig']
SPELLINGS = ['UTF-8', 'utf8', 'U8', 'UTF-16', 'utf_16', 'utf16', 'U16', 'UTF-16LE', 'utf_16_be', 'UTF-32', 'U32',
             'utf_32_le', 'UTF-32BE', 'latin1', 'L1', 'iso-8859-1', 'ASCII', 'us-ascii', 'UTF-8-SIG', 'utf_8_sig']

FRAGS_ASCII = ['#.change:\n', '#diffx: version=1.0\n', '#..meta: length=3\n', '@@ -1 +1 @@\n', '-a\n', '+b\n', ' c\n',
               '\x00', '\r', '\r\n', '\n', '\n\n', ' ', '    ', '      x', 'abc', '\t', '{', '"', '\\', 'hello world',
               '--- a/x\n+++ b/x\n', '\\ No newline at end of file\n', ' {1,-1}', '\x7f', 'line\r\nline2\r\n', '\n\r']
FRAGS_LATIN = ['é', 'ÿ', '\x80', '\xa0']
FRAGS_UNI = ['\ufeff', '\u0a41\u4100', '\u0a0d', '\u0d0a', '\U0001f600', '\u2028', '\u20ac', '\u3042', '\ufffe',
             '\U0010ffff', '\u0100', '\u2000', '\u2020', '\u0020\u2000']


def gen_text(rng, codec, allow_empty=False):
    frags = list(FRAGS_ASCII)
    if codec not in ('ascii',):
        frags += FRAGS_LATIN * 2
    if codec not in ('ascii', 'latin-1'):
        frags += FRAGS_UNI * 2
    n = rng.randint(0 if allow_empty else 1, 6)
    t = ''.join(rng.choice(frags) for _ in range(n))
    if not t and not allow_empty:
        t = 'x'
    return t


def gen_json(rng, depth=0):
    r = rng.random()
    if depth >= 3 or r < 0.45:
        k = rng.random()
        if k < 0.3:
            return rng.choice([0, 1, -1, 42, 2 ** 63, -2 ** 70, 10 ** 30])
        if k < 0.7:
            return rng.choice(['text/x-diff; charset=utf-16', 'text/plain; charset=utf-32-be', 'utf-16', 'dos', 'cp037',
                               '', 'a', 'é', 'x"y', 'back\\slash', 'new\nline', 'tab\t', '\x00\x1f\x7f', '😀', '\ud800',
                               ' ', 'path/to/file', '</script>', '{"a": 1}', '#.change:'])
        if k < 0.8:
            return rng.choice([True, False])
        return None
    if r < 0.7:
        items = [gen_json(rng, depth + 1) for _ in range(rng.randint(0, 3))]
        if rng.random() < 0.2:
            # a tuple (JSON writes it as an array), often holding a dictionary: everything below it is metadata like any other
            return {'__tuple__': items + ([gen_dict(rng, depth + 1)] if depth < 2 and rng.random() < 0.7 else [])}
        return items
    return gen_dict(rng, depth + 1, allow_empty=True)


def gen_dict(rng, depth=0, allow_empty=False):
    keys = ['a', 'b', 'path', 'stats', 'é', 'Z', 'z', 'aa', '', 'x"y', '10', '9', '😀', 'new\nline', 'k k', '\x7f', '\uff21', '\ue000', '\U00010000',
            # metadata that MENTIONS what headers declare: never an instruction to the reader
            'mimetype', 'encoding', 'line_endings', 'length', 'indent', 'charset', 'type', 'format']
    n = rng.randint(0 if allow_empty else 1, 4)
    d = {}
    for _ in range(n):
        d[rng.choice(keys)] = gen_json(rng, depth + 1)
    if not d and not allow_empty:
        d['k'] = 1
    return d


def gen_diff(rng, enc):
    parts = []
    for _ in range(rng.randint(1, 5)):
        parts.append(rng.choice(['--- a/f\n+++ b/f\n', '@@ -1,2 +1,2 @@\n', '-old\n', '+new\n', ' ctx\n', '@@ -1 +1 @@ fn\n',
                                 '\\ No newline at end of file\n', '#.change:\n', '#...diff: length=2\n', 'binary\x00\xff',
                                 '\r\n', '\n', '-a\r\n+b\r\n', 'Binary files differ\n', '\r', 'x']))
    t = ''.join(parts)
    if enc is None:
        return t.encode('latin-1')
    try:
        if enc in ('utf-16', 'utf-32') and rng.random() < 0.4:
            # the generic codec with the byte order mark of the OTHER (big-endian) order: still valid for that codec
            return (b'\xfe\xff' + t.encode('utf-16-be')) if enc == 'utf-16' else (b'\x00\x00\xfe\xff' + t.encode('utf-32-be'))
        return t.encode(enc)
    except UnicodeError:
        return t.encode('utf-8')


def pick_enc(rng, p_none=0.6, spell=0.15):
    r = rng.random()
    if r < p_none:
        return None
    if r < p_none + spell:
        return rng.choice(SPELLINGS)
    return rng.choice(CODECS)


def gen_wellformed_calls(rng, max_changes=3, max_files=3, no_main=False):
    """(main encoding, calls) — a call sequence the writer must accept. With no_main the file declares no encoding:
    text sections then carry their own, or (metadata only) are written with no encoding in force."""
    main = pick_enc(rng, p_none=0.0, spell=0.1) if rng.random() < 0.6 else 'utf-8'
    if no_main:
        main = None
    calls = []
    # effective encodings tracked here only to pick encodable texts
    def eff(*encs):
        for e in encs:
            if e:
                return e
        return main

    def preamble(parent_eff):
        e = pick_enc(rng, 0.65)
        if not eff(e, parent_eff):
            e = pick_enc(rng, 0.0)
        t = gen_text(rng, canon(eff(e, parent_eff)))
        ind = rng.choice(['omitted', 'omitted', {'i': 0}, {'i': 1}, {'i': 4}, {'i': 7}, None, {'i': 2}])
        le = rng.choice([None, None, S('unix'), S('dos')])
        mime = rng.choice([None, None, S('text/plain'), S('text/markdown')])
        return ['write_preamble', S(t), S(e) if e else None, ind, le, mime]

    def meta(parent_eff):
        e = pick_enc(rng, 0.7)
        d = gen_dict(rng)
        fmt = rng.choice(['omitted', 'omitted', S('json')])
        return ['write_meta', {'d': d}, S(e) if e else None, fmt]

    if rng.random() < 0.5:
        calls.append(preamble(main))
    if rng.random() < 0.5:
        calls.append(meta(main))
    for _ in range(rng.randint(1, max_changes)):
        ce = pick_enc(rng, 0.6)
        calls.append(['new_change', S(ce) if ce else None])
        ceff = eff(ce, main)
        if rng.random() < 0.5:
            calls.append(preamble(ceff))
        if rng.random() < 0.5:
            calls.append(meta(ceff))
        for _ in range(rng.randint(1, max_files)):
            fe = pick_enc(rng, 0.7)
            calls.append(['new_file', S(fe) if fe else None])
            calls.append(meta(eff(fe, ceff)))
            if rng.random() < 0.7:
                de = pick_enc(rng, 0.6)
                d = gen_diff(rng, canon(de) if de else None)
                le = rng.choice([None, None, S('unix'), S('dos')])
                ty = rng.choice([None, None, S('text'), S('binary')])
                calls.append(['write_diff', Bv(d), ty, S(de) if de else None, le])
    return main, calls


def canon(name):
    import codecs
    n = codecs.lookup(name).name
    return {'iso8859-1': 'latin-1'}.get(n, n)


# ------------------------------------------------------------------ specification-level expectation (C01)
def bomfree_newline(kind, enc):
    """LF / CRLF encoded without BOM in the codec (computed from first principles, not via pydiffx)."""
    import codecs
    s = '\n' if kind == 'unix' else '\r\n'
    e = codecs.getincrementalencoder(enc or 'ascii')()
    e.encode('a')
    return e.encode(s)


def detect_kind_text(t):
    i = t.find('\n')
    if i > 0 and t[i - 1] == '\r':
        return 'dos'
    return 'unix'


def detect_kind_bytes(b, enc):
    u = bomfree_newline('unix', enc)
    d = bomfree_newline('dos', enc)
    i = b.find(u)
    if i != -1 and b[:i + len(u)].endswith(d):
        return 'dos'
    return 'unix'


def expected_records(main, calls):
    """What reading the written stream must yield, stated from the property text: list of dicts
    (section, level, options, payload kind + value)."""
    from streamlib import pyval
    out = []
    mo = {'version': '1.0'}
    if main is not None:
        mo['encoding'] = main
    out.append(dict(section='diffx', level=0, options=mo))
    level = 0     # level of the current container
    for c in calls:
        name = c[0]
        if name == 'new_change':
            level = 1
            o = {}
            if pyval(c[1]):
                o['encoding'] = pyval(c[1])
            out.append(dict(section='.change', level=1, options=o))
        elif name == 'new_file':
            level = 2
            o = {}
            if pyval(c[1]):
                o['encoding'] = pyval(c[1])
            out.append(dict(section='..file', level=2, options=o))
        elif name == 'write_preamble':
            t = pyval(c[1])
            o = {}
            if pyval(c[2]) is not None:
                o['encoding'] = pyval(c[2])
            ind = 4 if c[3] == 'omitted' else pyval(c[3])
            if ind is not None:
                o['indent'] = ind
            kind = pyval(c[4]) or detect_kind_text(t)
            o['line_endings'] = kind
            if pyval(c[5]) is not None:
                o['mimetype'] = pyval(c[5])
            nl = '\n' if kind == 'unix' else '\r\n'
            if not t.endswith(nl):
                t = t + nl
            out.append(dict(section='.' * (level + 1) + 'preamble', level=level + 1, options=o, text=t))
        elif name == 'write_meta':
            o = {'format': 'json'}
            if pyval(c[2]) is not None:
                o['encoding'] = pyval(c[2])
            out.append(dict(section='.' * (level + 1) + 'meta', level=level + 1, options=o, metadata=as_json_value(pyval(c[1]))))
        elif name == 'write_diff':
            b = pyval(c[1])
            o = {}
            enc = pyval(c[3])
            if enc is not None:
                o['encoding'] = enc
            kind = pyval(c[4]) or detect_kind_bytes(b, enc)
            o['line_endings'] = kind
            if pyval(c[2]) is not None:
                o['type'] = pyval(c[2])
            nl = bomfree_newline(kind, enc)
            if not b.endswith(nl):
                b = b + nl
            out.append(dict(section='...diff', level=3, options=o, diff=b))
    return out


def as_json_value(x):
    """What a JSON reader gives back for a value a JSON writer accepts: tuples come back as lists."""
    if isinstance(x, dict):
        return {k: as_json_value(v) for k, v in x.items()}
    if isinstance(x, (list, tuple)):
        return [as_json_value(v) for v in x]
    return x


def compare_records(expected, records):
    """None if the reader's records are what was written, else a description of the first difference."""
    if len(expected) != len(records):
        return 'expected %d records, got %d' % (len(expected), len(records))
    for i, (e, r) in enumerate(zip(expected, records)):
        if e['section'] != r['section'] or e['level'] != r['level']:
            return 'record %d: section/level %r/%r != %r/%r' % (i, r['section'], r['level'], e['section'], e['level'])
        ro = dict(r['options'])
        ln = ro.pop('length', None)
        if e['section'].endswith(('preamble', 'meta', 'diff')) and (not isinstance(ln, int) or isinstance(ln, bool)):
            return 'record %d: length option missing' % i
        if ro != e['options'] or any(type(ro[k]) is not type(e['options'][k]) for k in ro):
            return 'record %d: options %r != %r' % (i, ro, e['options'])
        for k in ('text', 'metadata', 'diff'):
            if k in e:
                if k not in r or r[k] != e[k] or type(r[k]) is not type(e[k]):
                    return 'record %d: %s differs: got %r expected %r' % (i, k, r.get(k), e[k])
                if k == 'metadata' and not json_equal(r[k], e[k]):
                    return 'record %d: metadata differs as a JSON value' % i
            elif k in r:
                return 'record %d: unexpected %s' % (i, k)
    return None


def json_equal(a, b):
    if type(a) is not type(b):
        return False
    if isinstance(a, dict):
        return a.keys() == b.keys() and all(json_equal(a[k], b[k]) for k in a)
    if isinstance(a, list):
        return len(a) == len(b) and all(json_equal(x, y) for x, y in zip(a, b))
    return a == b


def gen_doc_meta(rng, ints_only=False):
    """Metadata using the keys the specification documents for DiffX / change / file sections."""
    n = (lambda: rng.choice([0, 0, 1, 1, 2, 3, 10])) if ints_only else (lambda: rng.choice([0, 0, 1, 1, 2, 3, 10, -1, '1', None, 1.0, True]))
    d = {}
    if rng.random() < 0.8:
        d['stats'] = {k: n() for k in rng.sample(['changes', 'files', 'insertions', 'deletions', 'lines changed', 'total lines',
                                                  'similarity', 'special'], rng.randint(1, 5))}
        if 'similarity' in d['stats']:
            d['stats']['similarity'] = rng.choice(['100%', '100.0%', '0%', '98.89%', '100', 100, '%'])
    for k, vals in [('path', ['/src/a.c', {'old': 'a', 'new': 'b'}, '']), ('revision', ['abc123', {'old': '1', 'new': '2'}, 7]),
                    ('op', ['create', 'delete', 'modify', 'move', 'copy', 'move-modify', 'copy-modify', 'nonsense']),
                    ('type', ['file', 'directory', 'symlink']), ('id', ['a1b2', 12]), ('author', ['A <a@example.com>']),
                    ('date', ['2021-06-01T13:12:06-07:00']), ('parent ids', [[], ['a', 'b']]), ('unix file mode', ['100644', {'old': '0100644', 'new': '0100755'}]),
                    ('scm', ['git']), ('repository id', ['x'])]:
        if rng.random() < 0.3:
            d[k] = rng.choice(vals)
    return d or {'stats': {'files': 0}}
