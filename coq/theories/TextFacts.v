(* TextFacts.v — facts about Bytes.split / Text.split_lines_g (property C16) and the newline patterns of the
   codec catalogue.  Proof file: no definitions of the model are changed here. *)
From Coq Require Import List Arith Bool Strings.Byte Lia.
From Coq Require Strings.String.
From DX Require Import Bytes Res Codec Text.
From DXGen Require GenCodecs GenText.
Import ListNotations.
Local Open Scope list_scope.

(* ------------------------------------------------------------------------------------------------ *)
(* frev *)

Lemma frev_rev {A} (l : list A) : frev l = rev l.
Proof. unfold frev. symmetry. apply rev_alt. Qed.

Section Generic.
  Context {A : Type} (eqb : A -> A -> bool).
  Hypothesis eqb_spec : forall a b, eqb a b = true <-> a = b.

  Local Notation prefixb := (prefixb eqb).
  Local Notation suffixb := (suffixb eqb).
  Local Notation split_aux := (split_aux eqb).
  Local Notation split := (split eqb).
  Local Notation occurrences := (occurrences eqb).
  Local Notation split_lines_g := (split_lines_g eqb).

  Lemma eqb_refl : forall a, eqb a a = true.
  Proof. intro a. apply eqb_spec. reflexivity. Qed.

  (* ---------------------------------------------------------------------------------------------- *)
  (* prefixb / suffixb *)

  Lemma prefixb_spec : forall p l, prefixb p l = true <-> exists r, l = p ++ r.
  Proof.
    induction p as [|x p IH]; intros l; cbn [Bytes.prefixb].
    - split; [intros _; exists l; reflexivity | reflexivity].
    - destruct l as [|y l].
      + split; [discriminate | intros [r H]; discriminate].
      + rewrite andb_true_iff, eqb_spec, IH. split.
        * intros [-> [r ->]]. exists r. reflexivity.
        * intros [r H]. cbn in H. injection H as -> ->. split; [reflexivity | exists r; reflexivity].
  Qed.

  Lemma prefixb_app : forall p r, prefixb p (p ++ r) = true.
  Proof. intros. apply prefixb_spec. exists r. reflexivity. Qed.

  Lemma prefixb_false : forall p l, prefixb p l = false <-> ~ exists r, l = p ++ r.
  Proof.
    intros p l. rewrite <- prefixb_spec. destruct (prefixb p l); split; intros H; try reflexivity; try discriminate.
    - exfalso. auto.
  Qed.

  Lemma suffixb_spec : forall s l, suffixb s l = true <-> exists q, l = q ++ s.
  Proof.
    intros s l. unfold Bytes.suffixb. rewrite !frev_rev, prefixb_spec. split.
    - intros [r H]. exists (rev r).
      rewrite <- (rev_involutive l), H, rev_app_distr, rev_involutive. reflexivity.
    - intros [q ->]. exists (rev q). apply rev_app_distr.
  Qed.

  Lemma suffixb_app : forall q s, suffixb s (q ++ s) = true.
  Proof. intros. apply suffixb_spec. exists q. reflexivity. Qed.

  Lemma prefixb_length : forall p l, prefixb p l = true -> length p <= length l.
  Proof. intros p l H. apply prefixb_spec in H. destruct H as [r ->]. rewrite app_length. lia. Qed.

  Lemma prefixb_app_mono : forall p l r, prefixb p l = true -> prefixb p (l ++ r) = true.
  Proof.
    intros p l r H. apply prefixb_spec in H. destruct H as [r' ->]. rewrite <- app_assoc. apply prefixb_app.
  Qed.

  (* ---------------------------------------------------------------------------------------------- *)
  (* join / split_aux : losslessness *)

  Lemma split_aux_nonnil : forall (sep l cur : list A) k, split_aux sep cur l k <> [].
  Proof.
    intros sep l. induction l as [|x t IH]; intros cur k; cbn [Bytes.split_aux].
    - discriminate.
    - destruct k; [destruct (prefixb sep (x :: t)); [discriminate | apply IH] | apply IH].
  Qed.

  Lemma join_cons_nonnil : forall (sep p : list A) ps, ps <> [] -> join sep (p :: ps) = p ++ sep ++ join sep ps.
  Proof. intros sep p ps H. destruct ps; [congruence | reflexivity]. Qed.

  Lemma join_split_aux : forall sep : list A, sep <> [] ->
    forall l cur k, k <= length l -> join sep (split_aux sep cur l k) = rev cur ++ skipn k l.
  Proof.
    intros sep Hsep l. induction l as [|x t IH]; intros cur k Hk; cbn [Bytes.split_aux].
    - cbn in Hk. assert (k = 0) by lia. subst k. cbn. rewrite frev_rev, app_nil_r. reflexivity.
    - destruct k as [|k].
      + destruct (prefixb sep (x :: t)) eqn:Hp.
        * rewrite join_cons_nonnil by apply split_aux_nonnil.
          apply prefixb_spec in Hp. destruct Hp as [r Hr].
          destruct sep as [|s sep']; [congruence|]. cbn in Hr. injection Hr as -> ->.
          rewrite IH by (cbn; rewrite app_length; lia).
          cbn [length]. replace (S (length sep') - 1) with (length sep') by lia.
          rewrite skipn_app, skipn_all, Nat.sub_diag. cbn. rewrite frev_rev. reflexivity.
        * rewrite IH by lia. cbn. rewrite <- app_assoc. reflexivity.
      + cbn [skipn]. apply IH. cbn in Hk. lia.
  Qed.

  Theorem join_split : forall sep l, sep <> [] -> join sep (split sep l) = l.
  Proof. intros sep l H. unfold Bytes.split. rewrite join_split_aux by (auto; lia). reflexivity. Qed.

  (* ---------------------------------------------------------------------------------------------- *)
  (* unfolding equations and an induction principle for split_aux at skip 0 *)

  Lemma split_aux_skip : forall (sep cur a r : list A),
    split_aux sep cur (a ++ r) (length a) = split_aux sep cur r 0.
  Proof. intros sep cur a r. induction a as [|x a IH]; [reflexivity | exact IH]. Qed.

  Lemma split_aux_nil : forall (sep cur : list A) k, split_aux sep cur [] k = [frev cur].
  Proof. reflexivity. Qed.

  Lemma split_aux_match : forall (sep cur r : list A), sep <> [] ->
    split_aux sep cur (sep ++ r) 0 = frev cur :: split_aux sep [] r 0.
  Proof.
    intros sep cur r H. destruct sep as [|s sep']; [congruence|].
    change ((s :: sep') ++ r) with (s :: (sep' ++ r)). cbn [Bytes.split_aux].
    change (s :: sep' ++ r) with ((s :: sep') ++ r). rewrite prefixb_app.
    cbn [length]. replace (S (length sep') - 1) with (length sep') by lia.
    rewrite split_aux_skip. reflexivity.
  Qed.

  Lemma split_aux_nomatch : forall (sep cur : list A) x t, prefixb sep (x :: t) = false ->
    split_aux sep cur (x :: t) 0 = split_aux sep (x :: cur) t 0.
  Proof. intros sep cur x t H. cbn [Bytes.split_aux]. rewrite H. reflexivity. Qed.

  Lemma split_aux_ind : forall sep : list A, sep <> [] ->
    forall P : list A -> list A -> list (list A) -> Prop,
    (forall cur, P cur [] [frev cur]) ->
    (forall cur r, P [] r (split_aux sep [] r 0) -> P cur (sep ++ r) (frev cur :: split_aux sep [] r 0)) ->
    (forall cur x t, prefixb sep (x :: t) = false ->
        P (x :: cur) t (split_aux sep (x :: cur) t 0) -> P cur (x :: t) (split_aux sep (x :: cur) t 0)) ->
    forall l cur, P cur l (split_aux sep cur l 0).
  Proof.
    intros sep Hsep P Hnil Hmatch Hno l.
    assert (H : forall n l, length l <= n -> forall cur, P cur l (split_aux sep cur l 0)).
    { induction n as [|n IH]; intros l0 Hl cur.
      - destruct l0; [apply Hnil | cbn in Hl; lia].
      - destruct l0 as [|x t]; [apply Hnil|].
        destruct (prefixb sep (x :: t)) eqn:Hp.
        + apply prefixb_spec in Hp. destruct Hp as [r Hr]. rewrite Hr.
          rewrite split_aux_match by assumption. apply Hmatch. apply IH.
          assert (length (x :: t) = length (sep ++ r)) by (rewrite Hr; reflexivity).
          rewrite app_length in H. cbn in Hl, H. destruct sep; [congruence|]. cbn in H. lia.
        + rewrite split_aux_nomatch by assumption. apply Hno; [assumption|]. apply IH. cbn in Hl. lia. }
    intros cur. apply (H (length l)). lia.
  Qed.

  (* ---------------------------------------------------------------------------------------------- *)
  (* occurrences; occ_in pat a l = number of occurrences of pat in a ++ l that start inside a *)

  Fixpoint occ_in (pat a l : list A) : nat :=
    match a with
    | [] => 0
    | _ :: a' => (if prefixb pat (a ++ l) then 1 else 0) + occ_in pat a' l
    end.

  Lemma occurrences_app : forall pat a l, occurrences pat (a ++ l) = occ_in pat a l + occurrences pat l.
  Proof.
    intros pat a l. induction a as [|x a IH]; [reflexivity|].
    cbn [app Bytes.occurrences occ_in]. rewrite IH. cbn [app]. lia.
  Qed.

  Lemma occ_in_nil_r : forall pat a, occ_in pat a [] = occurrences pat a.
  Proof.
    intros pat a. pose proof (occurrences_app pat a []) as H. rewrite app_nil_r in H. cbn in H. lia.
  Qed.

  Lemma occ_in_app : forall pat a b l, occ_in pat (a ++ b) l = occ_in pat a (b ++ l) + occ_in pat b l.
  Proof.
    intros pat a b l. induction a as [|x a IH]; [reflexivity|].
    cbn [app occ_in]. rewrite IH. cbn [app]. rewrite <- app_assoc. lia.
  Qed.

  Lemma occ_in_mono : forall pat a l r, occ_in pat a l <= occ_in pat a (l ++ r).
  Proof.
    intros pat a l r. induction a as [|x a IH]; [cbn; lia|].
    cbn [occ_in]. destruct (prefixb pat ((x :: a) ++ l)) eqn:H.
    - rewrite app_assoc. rewrite (prefixb_app_mono _ _ r H). lia.
    - destruct (prefixb pat ((x :: a) ++ l ++ r)); lia.
  Qed.

  Lemma occurrences_short : forall pat l, length l < length pat -> occurrences pat l = 0.
  Proof.
    intros pat l. induction l as [|x l IH]; intros H; [reflexivity|].
    cbn [Bytes.occurrences]. destruct (prefixb pat (x :: l)) eqn:Hp.
    - apply prefixb_length in Hp. lia.
    - rewrite IH; [reflexivity | cbn in H; lia].
  Qed.

  Lemma occurrences_self : forall pat, pat <> [] -> occurrences pat pat = 1.
  Proof.
    intros pat H. destruct pat as [|x p]; [congruence|].
    cbn [Bytes.occurrences]. rewrite occurrences_short by (cbn; lia).
    replace (prefixb (x :: p) (x :: p)) with true; [reflexivity|].
    symmetry. apply prefixb_spec. exists []. rewrite app_nil_r. reflexivity.
  Qed.

  Lemma occurrences_suffix_pos : forall pat q, pat <> [] -> 1 <= occurrences pat (q ++ pat).
  Proof. intros pat q H. rewrite occurrences_app, occurrences_self by assumption. lia. Qed.

  Lemma suffixb_occurrences : forall pat l, pat <> [] -> suffixb pat l = true -> 1 <= occurrences pat l.
  Proof. intros pat l H Hs. apply suffixb_spec in Hs. destruct Hs as [q ->]. apply occurrences_suffix_pos, H. Qed.

  Lemma occurrences_zero_not_suffix : forall pat l, pat <> [] -> occurrences pat l = 0 -> suffixb pat l = false.
  Proof.
    intros pat l H H0. destruct (suffixb pat l) eqn:Hs; [|reflexivity].
    apply suffixb_occurrences in Hs; [lia | assumption].
  Qed.

  (* positional reading of occ_in / occurrences *)
  Lemma occ_in_zero_iff : forall pat a l,
    occ_in pat a l = 0 <-> (forall i, i < length a -> prefixb pat (skipn i (a ++ l)) = false).
  Proof.
    intros pat a l. induction a as [|x a IH].
    - split; [intros _ i Hi; cbn in Hi; lia | reflexivity].
    - cbn [occ_in]. split.
      + intros H i Hi. destruct i as [|i].
        * cbn [skipn]. destruct (prefixb pat ((x :: a) ++ l)); [lia | reflexivity].
        * cbn [skipn app]. apply IH; [lia | cbn in Hi; lia].
      + intros H. pose proof (H 0 ltac:(cbn; lia)) as H0. cbn [skipn] in H0. rewrite H0.
        cbn [Nat.add]. apply IH. intros i Hi. apply (H (S i)). cbn. lia.
  Qed.

  Lemma occurrences_zero_iff : forall pat l,
    occurrences pat l = 0 <-> (forall i, i < length l -> prefixb pat (skipn i l) = false).
  Proof.
    intros pat l. rewrite <- occ_in_nil_r, occ_in_zero_iff, app_nil_r. reflexivity.
  Qed.

  (* "ln = body ++ nl contains nl nowhere else": the two readings agree *)
  Lemma occurrences_one_iff : forall nl body, nl <> [] ->
    (occurrences nl (body ++ nl) = 1 <->
     forall i, i < length body -> prefixb nl (skipn i (body ++ nl)) = false).
  Proof.
    intros nl body H. rewrite occurrences_app, occurrences_self by assumption.
    rewrite <- occ_in_zero_iff. lia.
  Qed.

  (* ---------------------------------------------------------------------------------------------- *)
  (* unbordered patterns: no proper non-empty prefix is also a suffix (the pattern cannot overlap itself) *)

  Definition unbordered (nl : list A) : Prop :=
    forall b, b <> [] -> length b < length nl ->
              (exists r, nl = b ++ r) -> (exists q, nl = q ++ b) -> False.

  Fixpoint tails (l : list A) : list (list A) :=
    match l with
    | [] => [[]]
    | _ :: t => l :: tails t
    end.

  (* every proper non-empty suffix of nl fails to be a prefix of nl *)
  Definition unborderedb (nl : list A) : bool :=
    match nl with
    | [] => true
    | _ :: t => forallb (fun s => is_nil s || negb (prefixb s nl)) (tails t)
    end.

  Lemma in_tails : forall s l, In s (tails l) <-> exists q, l = q ++ s.
  Proof.
    intros s l. induction l as [|x l IH]; cbn [tails In].
    - split.
      + intros [<- | []]. exists []. reflexivity.
      + intros [q H]. left. symmetry in H. apply app_eq_nil in H. symmetry. apply H.
    - rewrite IH. split.
      + intros [<- | [q ->]]; [exists []; reflexivity | exists (x :: q); reflexivity].
      + intros [q H]. destruct q as [|y q]; [left; exact H | right]. cbn in H. injection H as _ ->.
        exists q. reflexivity.
  Qed.

  Lemma unborderedb_sound : forall nl, unborderedb nl = true -> unbordered nl.
  Proof.
    intros nl H b Hb Hlen [r Hr] [q Hq]. destruct nl as [|x t]; [cbn in Hlen; lia|].
    cbn [unborderedb] in H. rewrite forallb_forall in H.
    destruct q as [|y q].
    - cbn in Hq. subst b. lia.
    - cbn in Hq. injection Hq as _ Ht.
      specialize (H b). rewrite in_tails in H. specialize (H (ex_intro _ q Ht)).
      destruct b; [congruence|]. cbn [is_nil orb] in H. apply negb_true_iff in H.
      apply prefixb_false in H. apply H. exists r. exact Hr.
  Qed.

  Lemma unborderedb_complete : forall nl, unbordered nl -> unborderedb nl = true.
  Proof.
    intros nl H. destruct nl as [|x t]; [reflexivity|].
    cbn [unborderedb]. apply forallb_forall. intros s Hs. apply in_tails in Hs. destruct Hs as [q Hq].
    destruct s as [|y s]; [reflexivity|]. cbn [is_nil orb]. apply negb_true_iff. apply prefixb_false.
    intros [r Hr]. apply (H (y :: s)); [discriminate | | exists r; exact Hr | exists (x :: q); rewrite Hq; reflexivity].
    rewrite Hq. cbn. rewrite app_length. cbn. lia.
  Qed.

  Lemma unbordered_nil : unbordered [].
  Proof. intros b _ H. cbn in H. lia. Qed.

  (* inside an occurrence of an unbordered pattern no other occurrence starts *)
  Lemma unbordered_no_inner : forall sep, unbordered sep ->
    forall a b r, sep = a ++ b -> a <> [] -> b <> [] -> prefixb sep (b ++ r) = false.
  Proof.
    intros sep Hu a b r Hab Ha Hb. apply prefixb_false. intros [r' H].
    apply app_eq_app in H. destruct H as [l [[H1 H2] | [H1 H2]]].
    - assert (length b = length (sep ++ l)) by (rewrite <- H1; reflexivity).
      assert (length sep = length (a ++ b)) by (rewrite <- Hab; reflexivity).
      rewrite app_length in *. destruct a; [congruence | cbn in *; lia].
    - apply (Hu b Hb).
      + assert (length sep = length (a ++ b)) by (rewrite <- Hab; reflexivity).
        rewrite app_length in *. destruct a; [congruence | cbn in *; lia].
      + exists l. exact H1.
      + exists a. exact Hab.
  Qed.

  Lemma occ_in_self : forall sep r, sep <> [] -> unbordered sep -> occ_in sep sep r = 1.
  Proof.
    intros sep r Hsep Hu.
    assert (H : forall b a, sep = a ++ b -> a <> [] -> occ_in sep b r = 0).
    { induction b as [|x b IH]; intros a Hab Ha; [reflexivity|].
      cbn [occ_in]. rewrite (unbordered_no_inner sep Hu a (x :: b) r Hab Ha) by discriminate.
      cbn [Nat.add]. apply (IH (a ++ [x])).
      - rewrite <- app_assoc. exact Hab.
      - destruct a; discriminate. }
    destruct sep as [|s sep']; [congruence|].
    cbn [occ_in]. rewrite prefixb_app. rewrite (H sep' [s]); [reflexivity | reflexivity | discriminate].
  Qed.

  Lemma occurrences_sep_app : forall sep r, sep <> [] -> unbordered sep ->
    occurrences sep (sep ++ r) = 1 + occurrences sep r.
  Proof. intros sep r H Hu. rewrite occurrences_app, occ_in_self by assumption. reflexivity. Qed.

  (* a suffix occurrence of an unbordered pattern cannot straddle an earlier occurrence *)
  Lemma unbordered_overlap : forall sep, unbordered sep ->
    forall q r, suffixb sep (q ++ sep ++ r) = true -> r = [] \/ suffixb sep r = true.
  Proof.
    intros sep Hu q r H. apply suffixb_spec in H. destruct H as [y H].
    rewrite app_assoc in H. apply app_eq_app in H. destruct H as [l [[H1 H2] | [H1 H2]]].
    - destruct r as [|x r]; [left; reflexivity | right].
      destruct l as [|z l].
      + cbn in H2. rewrite H2. apply suffixb_spec. exists []. reflexivity.
      + exfalso. apply app_eq_app in H1. destruct H1 as [l2 [[H3 H4] | [H3 H4]]].
        * assert (length sep = length ((z :: l) ++ x :: r)) by (rewrite <- H2; reflexivity).
          assert (length (z :: l) = length (l2 ++ sep)) by (rewrite <- H4; reflexivity).
          rewrite !app_length in *. cbn in *. lia.
        * apply (Hu (z :: l)); [discriminate | | exists (x :: r); exact H2 | exists l2; exact H4].
          assert (length sep = length ((z :: l) ++ x :: r)) by (rewrite <- H2; reflexivity).
          rewrite app_length in *. cbn in *. lia.
    - right. rewrite H2. apply suffixb_app.
  Qed.

  (* ---------------------------------------------------------------------------------------------- *)
  (* what split returns *)

  Local Notation addnl sep := (fun l : list A => l ++ sep).

  Lemma split_aux_pieces : forall sep : list A, sep <> [] -> forall l cur,
    occ_in sep (rev cur) l = 0 ->
    exists init lst, split_aux sep cur l 0 = init ++ [lst] /\
                     concat (map (addnl sep) init) ++ lst = rev cur ++ l /\
                     Forall (fun p => occurrences sep (p ++ sep) = 1) init /\
                     occurrences sep lst = 0.
  Proof.
    intros sep Hsep.
    apply (split_aux_ind sep Hsep (fun cur l ps =>
      occ_in sep (rev cur) l = 0 ->
      exists init lst, ps = init ++ [lst] /\
                       concat (map (addnl sep) init) ++ lst = rev cur ++ l /\
                       Forall (fun p => occurrences sep (p ++ sep) = 1) init /\
                       occurrences sep lst = 0)).
    - intros cur H. exists [], (rev cur). rewrite frev_rev. rewrite occ_in_nil_r in H.
      split; [reflexivity|]. split; [cbn; rewrite app_nil_r; reflexivity|]. split; [constructor | exact H].
    - intros cur r IH H. destruct (IH eq_refl) as [init [lst [E [Hc [Hf H0]]]]].
      exists (rev cur :: init), lst. rewrite frev_rev, E. repeat split.
      + cbn [map concat]. rewrite <- !app_assoc. cbn [rev app] in Hc. rewrite Hc. reflexivity.
      + constructor; [|assumption].
        rewrite occurrences_app, occurrences_self by assumption.
        pose proof (occ_in_mono sep (rev cur) sep r). lia.
      + assumption.
    - intros cur x t Hp IH H. cbn [rev] in IH. rewrite <- app_assoc in IH. apply IH.
      rewrite occ_in_app. cbn [app occ_in]. rewrite Hp, H. reflexivity.
  Qed.

  Lemma split_aux_length : forall sep : list A, sep <> [] -> unbordered sep -> forall l cur,
    length (split_aux sep cur l 0) = 1 + occurrences sep l.
  Proof.
    intros sep Hsep Hu.
    apply (split_aux_ind sep Hsep (fun cur l ps => length ps = 1 + occurrences sep l)).
    - reflexivity.
    - intros cur r IH. cbn [length]. rewrite IH, occurrences_sep_app by assumption. reflexivity.
    - intros cur x t Hp IH. rewrite IH. cbn [Bytes.occurrences]. rewrite Hp. reflexivity.
  Qed.

  Lemma last_cons_nonnil : forall (x : list A) ps, ps <> [] -> last (x :: ps) [] = last ps [].
  Proof. intros x ps H. destruct ps; [congruence | reflexivity]. Qed.

  Lemma split_aux_last_nil_of_suffix : forall sep : list A, sep <> [] -> unbordered sep -> forall l cur,
    occ_in sep (rev cur) l = 0 -> suffixb sep (rev cur ++ l) = true -> last (split_aux sep cur l 0) [] = [].
  Proof.
    intros sep Hsep Hu.
    apply (split_aux_ind sep Hsep (fun cur l ps =>
      occ_in sep (rev cur) l = 0 -> suffixb sep (rev cur ++ l) = true -> last ps [] = [])).
    - intros cur H Hs. rewrite occ_in_nil_r in H. rewrite app_nil_r in Hs.
      apply suffixb_occurrences in Hs; [lia | assumption].
    - intros cur r IH H Hs. rewrite last_cons_nonnil by apply split_aux_nonnil.
      apply unbordered_overlap in Hs; [|assumption]. destruct Hs as [-> | Hs].
      + reflexivity.
      + apply IH; [reflexivity | exact Hs].
    - intros cur x t Hp IH H Hs. apply IH.
      + cbn [rev]. rewrite occ_in_app. cbn [app occ_in]. rewrite Hp, H. reflexivity.
      + cbn [rev]. rewrite <- app_assoc. exact Hs.
  Qed.

  Lemma split_aux_suffix_of_last_nil : forall sep : list A, sep <> [] -> forall l cur,
    rev cur ++ l <> [] -> last (split_aux sep cur l 0) [] = [] -> suffixb sep (rev cur ++ l) = true.
  Proof.
    intros sep Hsep.
    apply (split_aux_ind sep Hsep (fun cur l ps =>
      rev cur ++ l <> [] -> last ps [] = [] -> suffixb sep (rev cur ++ l) = true)).
    - intros cur H Hl. cbn [last] in Hl. rewrite frev_rev in Hl. rewrite Hl in H. cbn in H. congruence.
    - intros cur r IH _ Hl. rewrite last_cons_nonnil in Hl by apply split_aux_nonnil.
      destruct r as [|x r].
      + rewrite app_nil_r. apply suffixb_app.
      + specialize (IH ltac:(discriminate) Hl). cbn [rev app] in IH. apply suffixb_spec in IH.
        destruct IH as [q ->]. rewrite !app_assoc. apply suffixb_app.
    - intros cur x t Hp IH H Hl. cbn [rev] in IH. rewrite <- app_assoc in IH. apply IH; assumption.
  Qed.

  (* the decomposition of [split sep d] used by all C16 theorems *)
  Lemma split_spec : forall sep d : list A, sep <> [] ->
    exists init lst, split sep d = init ++ [lst] /\
                     concat (map (addnl sep) init) ++ lst = d /\
                     Forall (fun p => occurrences sep (p ++ sep) = 1) init /\
                     occurrences sep lst = 0 /\
                     (unbordered sep -> length init = occurrences sep d) /\
                     (unbordered sep -> suffixb sep d = true -> lst = []) /\
                     (d <> [] -> lst = [] -> suffixb sep d = true).
  Proof.
    intros sep d Hsep. unfold Bytes.split.
    destruct (split_aux_pieces sep Hsep d [] eq_refl) as [init [lst [E [Hc [Hf H0]]]]].
    exists init, lst. repeat split; try assumption.
    - intros Hu. pose proof (split_aux_length sep Hsep Hu d []) as H. rewrite E, app_length in H. cbn in H. lia.
    - intros Hu Hs. pose proof (split_aux_last_nil_of_suffix sep Hsep Hu d [] eq_refl Hs) as H.
      rewrite E, last_last in H. exact H.
    - intros Hd Hl. apply (split_aux_suffix_of_last_nil sep Hsep d []); [exact Hd|].
      rewrite E, last_last. exact Hl.
  Qed.

  (* ---------------------------------------------------------------------------------------------- *)
  (* split_lines_g in terms of the decomposition *)

  Lemma cut_last_g_app : forall n (a : list (list A)) x,
    cut_last_g n (a ++ [x]) = a ++ [firstn (length x - n) x].
  Proof.
    intros n a x. induction a as [|y a IH]; [reflexivity|].
    cbn [app]. destruct (a ++ [x]) as [|l0 l1] eqn:E; [destruct a; discriminate|].
    change (cut_last_g n (y :: l0 :: l1)) with (y :: cut_last_g n (l0 :: l1)). rewrite IH. reflexivity.
  Qed.

  Lemma firstn_strip : forall p nl : list A, firstn (length (p ++ nl) - length nl) (p ++ nl) = p.
  Proof.
    intros p nl. rewrite app_length. replace (length p + length nl - length nl) with (length p) by lia.
    rewrite firstn_app, Nat.sub_diag, firstn_all. cbn. apply app_nil_r.
  Qed.

  Lemma is_nil_false : forall l : list A, l <> [] -> is_nil l = false.
  Proof. intros l H. destruct l; [congruence | reflexivity]. Qed.

  Lemma split_lines_keep : forall d nl init lst, d <> [] -> nl <> [] -> split nl d = init ++ [lst] ->
    split_lines_g d nl true =
      Ok (if suffixb nl d then map (addnl nl) init else map (addnl nl) init ++ [lst]).
  Proof.
    intros d nl init lst Hd Hnl E. unfold Text.split_lines_g.
    rewrite (is_nil_false d Hd), (is_nil_false nl Hnl), E. destruct (suffixb nl d).
    - rewrite map_app. cbn [map]. rewrite removelast_last. reflexivity.
    - rewrite map_app. cbn [map]. rewrite cut_last_g_app, firstn_strip. reflexivity.
  Qed.

  Lemma split_lines_nokeep : forall d nl init lst, d <> [] -> nl <> [] -> split nl d = init ++ [lst] ->
    split_lines_g d nl false = Ok (if suffixb nl d then init else init ++ [lst]).
  Proof.
    intros d nl init lst Hd Hnl E. unfold Text.split_lines_g.
    rewrite (is_nil_false d Hd), (is_nil_false nl Hnl), E. destruct (suffixb nl d).
    - rewrite removelast_last. reflexivity.
    - reflexivity.
  Qed.

  (* ---------------------------------------------------------------------------------------------- *)
  (* C16 *)

  (* a line that ends with the newline and contains it nowhere else *)
  Definition terminated (nl ln : list A) : Prop :=
    exists body, ln = body ++ nl /\ occurrences nl ln = 1.
  (* a non-empty line that neither ends with the newline nor contains it anywhere *)
  Definition unterminated (nl ln : list A) : Prop :=
    ln <> [] /\ suffixb nl ln = false /\ occurrences nl ln = 0.
  (* remove exactly one trailing newline, if there is one *)
  Definition strip_one (nl ln : list A) : list A :=
    if suffixb nl ln then firstn (length ln - length nl) ln else ln.

  Lemma terminated_positions : forall nl ln, nl <> [] ->
    (terminated nl ln <->
     exists body, ln = body ++ nl /\ forall i, i < length body -> prefixb nl (skipn i ln) = false).
  Proof.
    intros nl ln H. unfold terminated. split; intros [body [-> H1]]; exists body; (split; [reflexivity|]);
      apply (occurrences_one_iff nl body H); exact H1.
  Qed.

  Lemma unterminated_positions : forall nl ln,
    unterminated nl ln -> forall i, i < length ln -> prefixb nl (skipn i ln) = false.
  Proof. intros nl ln [_ [_ H]]. apply occurrences_zero_iff. exact H. Qed.

  Lemma strip_one_terminated : forall nl p, strip_one nl (p ++ nl) = p.
  Proof. intros nl p. unfold strip_one. rewrite suffixb_app. apply firstn_strip. Qed.

  Lemma strip_one_no_occ : forall nl ln, nl <> [] -> occurrences nl ln = 0 -> strip_one nl ln = ln.
  Proof. intros nl ln H H0. unfold strip_one. rewrite occurrences_zero_not_suffix by assumption. reflexivity. Qed.

  Lemma map_strip_one : forall nl init, map (strip_one nl) (map (addnl nl) init) = init.
  Proof.
    intros nl init. rewrite map_map. induction init as [|p init IH]; [reflexivity|].
    cbn [map]. rewrite strip_one_terminated, IH. reflexivity.
  Qed.

  Theorem C16_total_ok : forall d nl k, d <> [] -> nl <> [] -> exists ls, split_lines_g d nl k = Ok ls.
  Proof.
    intros d nl k Hd Hnl. destruct (split_spec nl d Hnl) as [init [lst [E _]]].
    destruct k; [rewrite (split_lines_keep d nl init lst Hd Hnl E)
                | rewrite (split_lines_nokeep d nl init lst Hd Hnl E)]; eexists; reflexivity.
  Qed.

  Theorem C16_total_err : forall d nl k, d = [] \/ nl = [] -> split_lines_g d nl k = Err EAssertion.
  Proof.
    intros d nl k [-> | ->]; unfold Text.split_lines_g; [reflexivity|]. destruct d; reflexivity.
  Qed.

  Theorem C16_concat : forall d nl ls, d <> [] -> nl <> [] -> unbordered nl ->
    split_lines_g d nl true = Ok ls -> concat ls = d.
  Proof.
    intros d nl ls Hd Hnl Hu H.
    destruct (split_spec nl d Hnl) as [init [lst [E [Hc [_ [_ [_ [Hsuf _]]]]]]]].
    rewrite (split_lines_keep d nl init lst Hd Hnl E) in H. injection H as <-.
    destruct (suffixb nl d) eqn:Hs.
    - rewrite (Hsuf Hu eq_refl), app_nil_r in Hc. exact Hc.
    - rewrite concat_app. cbn [concat]. rewrite app_nil_r. exact Hc.
  Qed.

  Theorem C16_count : forall d nl ls, d <> [] -> nl <> [] -> unbordered nl ->
    split_lines_g d nl true = Ok ls ->
    length ls = occurrences nl d + (if suffixb nl d then 0 else 1).
  Proof.
    intros d nl ls Hd Hnl Hu H.
    destruct (split_spec nl d Hnl) as [init [lst [E [_ [_ [_ [Hlen _]]]]]]].
    rewrite (split_lines_keep d nl init lst Hd Hnl E) in H. injection H as <-.
    specialize (Hlen Hu). destruct (suffixb nl d).
    - rewrite map_length. lia.
    - rewrite app_length, map_length. cbn. lia.
  Qed.

  (* same count for the mode without line ends *)
  Theorem C16_count_nokeep : forall d nl ls, d <> [] -> nl <> [] -> unbordered nl ->
    split_lines_g d nl false = Ok ls ->
    length ls = occurrences nl d + (if suffixb nl d then 0 else 1).
  Proof.
    intros d nl ls Hd Hnl Hu H.
    destruct (split_spec nl d Hnl) as [init [lst [E [_ [_ [_ [Hlen _]]]]]]].
    rewrite (split_lines_nokeep d nl init lst Hd Hnl E) in H. injection H as <-.
    specialize (Hlen Hu). destruct (suffixb nl d).
    - lia.
    - rewrite app_length. cbn. lia.
  Qed.

  Theorem C16_modes : forall d nl ls, d <> [] -> nl <> [] ->
    split_lines_g d nl true = Ok ls ->
    split_lines_g d nl false = Ok (map (strip_one nl) ls).
  Proof.
    intros d nl ls Hd Hnl H.
    destruct (split_spec nl d Hnl) as [init [lst [E [_ [_ [H0 _]]]]]].
    rewrite (split_lines_keep d nl init lst Hd Hnl E) in H. injection H as <-.
    rewrite (split_lines_nokeep d nl init lst Hd Hnl E). destruct (suffixb nl d).
    - rewrite map_strip_one. reflexivity.
    - rewrite map_app, map_strip_one. cbn [map]. rewrite strip_one_no_occ by assumption. reflexivity.
  Qed.

  Theorem C16_shape : forall d nl ls, d <> [] -> nl <> [] -> unbordered nl ->
    split_lines_g d nl true = Ok ls ->
    exists init lst, ls = init ++ [lst] /\
                     Forall (terminated nl) init /\
                     (terminated nl lst <-> suffixb nl d = true) /\
                     (unterminated nl lst <-> suffixb nl d = false).
  Proof.
    intros d nl ls Hd Hnl Hu H.
    destruct (split_spec nl d Hnl) as [init [lst [E [Hc [Hf [H0 [_ [Hsuf Hnil]]]]]]]].
    rewrite (split_lines_keep d nl init lst Hd Hnl E) in H. injection H as <-.
    assert (Hterm : forall l, Forall (fun p => occurrences nl (p ++ nl) = 1) l ->
                              Forall (terminated nl) (map (addnl nl) l)).
    { intros l Hl. apply Forall_map. eapply Forall_impl; [|exact Hl].
      intros p Hp. exists p. split; [reflexivity | exact Hp]. }
    destruct (suffixb nl d) eqn:Hs.
    - specialize (Hsuf Hu eq_refl). subst lst.
      destruct init as [|p0 init0] eqn:Ei.
      { cbn in Hc. congruence. }
      rewrite <- Ei in *. assert (Hne : init <> []) by (rewrite Ei; discriminate).
      destruct (exists_last Hne) as [init1 [p Ep]]. rewrite Ep in Hf |- *.
      apply Forall_app in Hf. destruct Hf as [Hf1 Hf2]. inversion Hf2 as [|? ? Hp _]; subst.
      exists (map (addnl nl) init1), (p ++ nl). rewrite map_app. cbn [map].
      split; [reflexivity|]. split; [apply Hterm, Hf1|].
      split; split.
      + intros _. reflexivity.
      + intros _. exists p. split; [reflexivity | exact Hp].
      + intros [_ [_ Hz]]. rewrite Hp in Hz. discriminate.
      + discriminate.
    - exists (map (addnl nl) init), lst. split; [reflexivity|]. split; [apply Hterm, Hf|].
      split; split.
      + intros [body [_ H1]]. rewrite H0 in H1. discriminate.
      + discriminate.
      + intros _. reflexivity.
      + intros _. split; [|split].
        * intros ->. specialize (Hnil Hd eq_refl). congruence.
        * apply occurrences_zero_not_suffix; assumption.
        * exact H0.
  Qed.

End Generic.

(* -------------------------------------------------------------------------------------------------- *)
(* instantiation at bytes *)

Lemma byte_eqb_spec : forall a b : byte, byte_eqb a b = true <-> a = b.
Proof. intros a b. unfold byte_eqb. split; [apply byte_dec_bl | apply byte_dec_lb]. Qed.


(* unbordered is necessary: Python's algorithm (and the model) loses a byte for nl = "aa", d = "aaa" *)
Example bordered_newline_loses_a_byte :
  let a := x61 in
  split_lines_g byte_eqb [a; a; a] [a; a] true = Ok [[a; a]] /\
  concat [[a; a]] <> [a; a; a] /\
  ~ unbordered [a; a].
Proof.
  cbn zeta. split; [vm_compute; reflexivity|]. split; [discriminate|].
  intros H. apply (H [x61]); [discriminate | cbn; lia | exists [x61]; reflexivity | exists [x61]; reflexivity].
Qed.

(* the count and concat claims both fail there, the modes claim does not need the hypothesis *)
Example bordered_newline_miscounts :
  let a := x61 in
  occurrences byte_eqb [a; a] [a; a; a] + (if suffixb byte_eqb [a; a] [a; a; a] then 0 else 1) = 2 /\
  exists ls, split_lines_g byte_eqb [a; a; a] [a; a] true = Ok ls /\ length ls = 1.
Proof. cbn zeta. split; [vm_compute; reflexivity|]. eexists. split; vm_compute; reflexivity. Qed.

(* ------------------------------------------------------------------------------------------------ *)
(* the newline patterns the library uses *)

Definition nl_ok (nl : bytes) : bool := is_nil nl || unborderedb byte_eqb nl.

Lemma nl_ok_sound : forall nl, nl_ok nl = true -> nl <> [] -> unbordered nl.
Proof.
  intros nl H Hnl. unfold nl_ok in H. apply orb_true_iff in H. destruct H as [H | H].
  - destruct nl; [congruence | discriminate].
  - exact (unborderedb_sound byte_eqb byte_eqb_spec nl H).
Qed.

(* every mid-stream LF / CRLF pattern of every stateless codec of the catalogue *)
Definition row_newlines_ok (r : GenCodecs.codec_row) : bool :=
  if GenCodecs.cr_stateless r then nl_ok (GenCodecs.cr_lf_mid r) && nl_ok (GenCodecs.cr_crlf_mid r) else true.

Lemma library_newlines_unborderedb : forallb row_newlines_ok GenCodecs.rows = true.
Proof. vm_compute. reflexivity. Qed.

Theorem library_newlines_unbordered : forall r, In r GenCodecs.rows -> GenCodecs.cr_stateless r = true ->
  (GenCodecs.cr_lf_mid r <> [] -> unbordered (GenCodecs.cr_lf_mid r)) /\
  (GenCodecs.cr_crlf_mid r <> [] -> unbordered (GenCodecs.cr_crlf_mid r)).
Proof.
  intros r Hin Hst. pose proof library_newlines_unborderedb as H. rewrite forallb_forall in H.
  specialize (H r Hin). unfold row_newlines_ok in H. rewrite Hst in H. apply andb_true_iff in H.
  destruct H as [H1 H2]. split; apply nl_ok_sound; assumption.
Qed.

(* the ten patterns named in the property: LF, CRLF and their UTF-16/32 LE/BE encodings *)
Definition ten_newlines : list bytes :=
  [ [x0a]; [x0d; x0a];
    [x0a; x00]; [x0d; x00; x0a; x00];
    [x00; x0a]; [x00; x0d; x00; x0a];
    [x0a; x00; x00; x00]; [x0d; x00; x00; x00; x0a; x00; x00; x00];
    [x00; x00; x00; x0a]; [x00; x00; x00; x0d; x00; x00; x00; x0a] ].

Lemma ten_newlines_unborderedb : forallb (fun nl => negb (is_nil nl) && unborderedb byte_eqb nl) ten_newlines = true.
Proof. vm_compute. reflexivity. Qed.

Theorem ten_newlines_unbordered : forall nl, In nl ten_newlines -> nl <> [] /\ unbordered nl.
Proof.
  intros nl Hin. pose proof ten_newlines_unborderedb as H. rewrite forallb_forall in H.
  specialize (H nl Hin). apply andb_true_iff in H. destruct H as [H1 H2]. split.
  - destruct nl; [discriminate | discriminate].
  - exact (unborderedb_sound byte_eqb byte_eqb_spec nl H2).
Qed.

(* ------------------------------------------------------------------------------------------------ *)
(* the hypotheses of the C16 theorems are satisfiable on a non-trivial instance:
   d = "ab\r\n\r\ncd\r\nx" / "ab\r\n\r\n", nl = "\r\n" *)

Definition ex_nl : bytes := [x0d; x0a].
Definition ex_d1 : bytes := [x61; x62; x0d; x0a; x0d; x0a; x63; x0d; x64; x0d; x0a; x78].
Definition ex_d2 : bytes := [x61; x62; x0d; x0a; x0a; x0d; x0a].

Lemma ex_nl_unbordered : unbordered ex_nl.
Proof. apply ten_newlines_unbordered. vm_compute. tauto. Qed.

Example C16_hyps_ex1 :
  ex_d1 <> [] /\ ex_nl <> [] /\ unbordered ex_nl /\
  split_lines_g byte_eqb ex_d1 ex_nl true = Ok [[x61; x62; x0d; x0a]; [x0d; x0a]; [x63; x0d; x64; x0d; x0a]; [x78]] /\
  split_lines_g byte_eqb ex_d1 ex_nl false = Ok [[x61; x62]; []; [x63; x0d; x64]; [x78]] /\
  suffixb byte_eqb ex_nl ex_d1 = false /\ occurrences byte_eqb ex_nl ex_d1 = 3.
Proof. repeat split; try discriminate; try exact ex_nl_unbordered; vm_compute; reflexivity. Qed.

Example C16_hyps_ex2 :
  ex_d2 <> [] /\ ex_nl <> [] /\ unbordered ex_nl /\
  split_lines_g byte_eqb ex_d2 ex_nl true = Ok [[x61; x62; x0d; x0a]; [x0a; x0d; x0a]] /\
  split_lines_g byte_eqb ex_d2 ex_nl false = Ok [[x61; x62]; [x0a]] /\
  suffixb byte_eqb ex_nl ex_d2 = true /\ occurrences byte_eqb ex_nl ex_d2 = 2.
Proof. repeat split; try discriminate; try exact ex_nl_unbordered; vm_compute; reflexivity. Qed.

(* ------------------------------------------------------------------------------------------------ *)
(* C16 at bytes *)

Definition b_terminated := terminated byte_eqb.
Definition b_unterminated := unterminated byte_eqb.
Definition b_strip_one := strip_one byte_eqb.

Theorem C16b_concat : forall (d nl : bytes) (ls : list bytes),
  d <> [] -> nl <> [] -> unbordered nl ->
  split_lines d nl true = Ok ls -> concat ls = d.
Proof. exact (C16_concat byte_eqb byte_eqb_spec). Qed.

Theorem C16b_shape : forall (d nl : bytes) (ls : list bytes),
  d <> [] -> nl <> [] -> unbordered nl ->
  split_lines d nl true = Ok ls ->
  exists init lst, ls = init ++ [lst] /\
                   Forall (b_terminated nl) init /\
                   (b_terminated nl lst <-> bends nl d = true) /\
                   (b_unterminated nl lst <-> bends nl d = false).
Proof. exact (C16_shape byte_eqb byte_eqb_spec). Qed.

Theorem C16b_count : forall (d nl : bytes) (ls : list bytes),
  d <> [] -> nl <> [] -> unbordered nl ->
  split_lines d nl true = Ok ls ->
  length ls = occurrences byte_eqb nl d + (if bends nl d then 0 else 1).
Proof. exact (C16_count byte_eqb byte_eqb_spec). Qed.

Theorem C16b_count_nokeep : forall (d nl : bytes) (ls : list bytes),
  d <> [] -> nl <> [] -> unbordered nl ->
  split_lines d nl false = Ok ls ->
  length ls = occurrences byte_eqb nl d + (if bends nl d then 0 else 1).
Proof. exact (C16_count_nokeep byte_eqb byte_eqb_spec). Qed.

Theorem C16b_modes : forall (d nl : bytes) (ls : list bytes),
  d <> [] -> nl <> [] ->
  split_lines d nl true = Ok ls ->
  split_lines d nl false = Ok (map (b_strip_one nl) ls).
Proof. exact (C16_modes byte_eqb byte_eqb_spec). Qed.

Theorem C16b_total_ok : forall (d nl : bytes) (k : bool),
  d <> [] -> nl <> [] -> exists ls, split_lines d nl k = Ok ls.
Proof. exact (C16_total_ok byte_eqb byte_eqb_spec). Qed.

Theorem C16b_total_err : forall (d nl : bytes) (k : bool),
  d = [] \/ nl = [] -> split_lines d nl k = Err EAssertion.
Proof. exact (C16_total_err byte_eqb). Qed.

(* what the two line predicates and strip_one mean, position by position *)
Theorem b_terminated_positions : forall nl ln : bytes, nl <> [] ->
  (b_terminated nl ln <->
   exists body, ln = body ++ nl /\ forall i, i < length body -> bstarts nl (skipn i ln) = false).
Proof. exact (terminated_positions byte_eqb byte_eqb_spec). Qed.

Theorem b_unterminated_positions : forall nl ln : bytes,
  b_unterminated nl ln ->
  ln <> [] /\ bends nl ln = false /\ forall i, i < length ln -> bstarts nl (skipn i ln) = false.
Proof.
  intros nl ln H. split; [apply H|]. split; [apply H|]. exact (unterminated_positions byte_eqb nl ln H).
Qed.

Theorem b_strip_one_spec : forall nl body ln : bytes,
  b_strip_one nl (body ++ nl) = body /\ (bends nl ln = false -> b_strip_one nl ln = ln).
Proof.
  intros nl body ln. split.
  - exact (strip_one_terminated byte_eqb byte_eqb_spec nl body).
  - intros H. unfold b_strip_one, strip_one. unfold bends in H. rewrite H. reflexivity.
Qed.

Theorem bstarts_spec : forall p l : bytes, bstarts p l = true <-> exists r, l = p ++ r.
Proof. exact (prefixb_spec byte_eqb byte_eqb_spec). Qed.
Theorem bends_spec : forall s l : bytes, bends s l = true <-> exists q, l = q ++ s.
Proof. exact (suffixb_spec byte_eqb byte_eqb_spec). Qed.
Theorem bjoin_bsplit : forall sep l : bytes, sep <> [] -> join sep (bsplit sep l) = l.
Proof. exact (join_split byte_eqb byte_eqb_spec). Qed.

(* ------------------------------------------------------------------------------------------------ *)
(* stronger catalogue facts: all four newline fields of every row (stateless or not); and every newline
   the model's get_newline_for_type can return, for any line-endings name and any encoding spelling *)

Definition row_all_newlines_ok (r : GenCodecs.codec_row) : bool :=
  nl_ok (GenCodecs.cr_lf r) && nl_ok (GenCodecs.cr_crlf r) &&
  nl_ok (GenCodecs.cr_lf_mid r) && nl_ok (GenCodecs.cr_crlf_mid r) &&
  (if GenCodecs.cr_stateless r
   then negb (is_nil (GenCodecs.cr_lf_mid r)) && negb (is_nil (GenCodecs.cr_crlf_mid r)) else true).

Lemma library_all_newlines_unborderedb : forallb row_all_newlines_ok GenCodecs.rows = true.
Proof. vm_compute. reflexivity. Qed.

Theorem library_all_newlines_unbordered : forall r, In r GenCodecs.rows ->
  (forall nl, In nl [GenCodecs.cr_lf r; GenCodecs.cr_crlf r; GenCodecs.cr_lf_mid r; GenCodecs.cr_crlf_mid r] ->
              nl <> [] -> unbordered nl) /\
  (GenCodecs.cr_stateless r = true -> GenCodecs.cr_lf_mid r <> [] /\ GenCodecs.cr_crlf_mid r <> []).
Proof.
  intros r Hin. pose proof library_all_newlines_unborderedb as H. rewrite forallb_forall in H.
  specialize (H r Hin). unfold row_all_newlines_ok in H. rewrite !andb_true_iff in H.
  destruct H as [[[[H1 H2] H3] H4] H5]. split.
  - intros nl [<- | [<- | [<- | [<- | []]]]]; apply nl_ok_sound; assumption.
  - intros Hst. rewrite Hst in H5. apply andb_true_iff in H5. destruct H5 as [Ha Hb].
    split; intros E; rewrite E in *; discriminate.
Qed.

Lemma list_eqb_eq {A} (eqb : A -> A -> bool) (eqb_spec : forall a b, eqb a b = true <-> a = b) :
  forall a b, list_eqb eqb a b = true <-> a = b.
Proof.
  induction a as [|x a IH]; intros [|y b]; cbn [list_eqb]; try (split; [discriminate | discriminate]).
  - split; reflexivity.
  - rewrite andb_true_iff, eqb_spec, IH. split; [intros [-> ->]; reflexivity | intros H; injection H; auto].
Qed.

Lemma beq_eq : forall a b, beq a b = true <-> a = b.
Proof. exact (list_eqb_eq byte_eqb byte_eqb_spec). Qed.

Lemma find_row_some : forall s rows r, Codec.find_row s rows = Some r -> In r rows /\ s = GenCodecs.cr_spelling r.
Proof.
  intros s rows r. induction rows as [|r0 rows IH]; cbn [Codec.find_row]; [discriminate|].
  destruct (beq s (GenCodecs.cr_spelling r0)) eqn:E.
  - intros H. injection H as <-. split; [left; reflexivity | apply beq_eq; exact E].
  - intros H. destruct (IH H) as [H1 H2]. split; [right; exact H1 | exact H2].
Qed.

Lemma assoc_get_beq_in {V} : forall k (d : list (bytes * V)) v, assoc_get beq k d = Some v -> In k (map fst d).
Proof.
  intros k d v. induction d as [|[k' v'] d IH]; cbn [assoc_get map fst In]; [discriminate|].
  destruct (beq k k') eqn:E.
  - intros _. left. symmetry. apply beq_eq. exact E.
  - intros H. right. exact (IH H).
Qed.

Definition gn_ok (le : bytes) (enc : option bytes) : bool :=
  match get_newline_for_type le enc with
  | Ok nl => negb (is_nil nl) && unborderedb byte_eqb nl
  | Err _ => true
  end.

Lemma model_newlines_unborderedb :
  forallb (fun le => gn_ok le None && forallb (fun r => gn_ok le (Some (GenCodecs.cr_spelling r))) GenCodecs.rows)
          (map fst GenText.newline_formats) = true.
Proof. vm_compute. reflexivity. Qed.

(* every newline sequence that the model of get_newline_for_type returns is non-empty and unbordered *)
Theorem model_newlines_unbordered : forall le enc nl,
  get_newline_for_type le enc = Ok nl -> nl <> [] /\ unbordered nl.
Proof.
  intros le enc nl H.
  assert (Hok : gn_ok le enc = true).
  { pose proof model_newlines_unborderedb as Hall. rewrite forallb_forall in Hall.
    destruct (assoc_get beq le GenText.newline_formats) as [t|] eqn:Ele.
    2:{ unfold get_newline_for_type in H. rewrite Ele in H. discriminate H. }
    specialize (Hall le (assoc_get_beq_in le _ t Ele)). apply andb_true_iff in Hall. destruct Hall as [Hnone Hrows].
    destruct enc as [e|]; [|exact Hnone].
    destruct (Codec.find_row e GenCodecs.rows) as [r|] eqn:F.
    - apply find_row_some in F. destruct F as [Hin ->]. rewrite forallb_forall in Hrows. exact (Hrows r Hin).
    - unfold get_newline_for_type, enc_or_ascii, py_encode, Codec.lookup_codec in H.
      rewrite Ele, F in H. discriminate H. }
  unfold gn_ok in Hok. rewrite H in Hok. apply andb_true_iff in Hok. destruct Hok as [H1 H2]. split.
  - intros ->. discriminate.
  - exact (unborderedb_sound byte_eqb byte_eqb_spec nl H2).
Qed.

Import String.StringSyntax.
Local Open Scope string_scope.
Example model_newlines_ex :
  get_newline_for_type GenText.le_dos (Some (B "utf-16")) = Ok [x0d; x00; x0a; x00] /\
  get_newline_for_type GenText.le_unix None = Ok [x0a].
Proof. split; vm_compute; reflexivity. Qed.

(* ------------------------------------------------------------------------------------------------ *)
(* the whole of C16 for one (data, newline) pair, and its instances for the newlines the library uses *)

Definition C16_statement (d nl : bytes) : Prop :=
  exists ls,
    split_lines d nl true = Ok ls /\
    concat ls = d /\
    (exists init lst, ls = init ++ [lst] /\
                      Forall (b_terminated nl) init /\
                      (b_terminated nl lst <-> bends nl d = true) /\
                      (b_unterminated nl lst <-> bends nl d = false)) /\
    List.length ls = occurrences byte_eqb nl d + (if bends nl d then 0 else 1) /\
    split_lines d nl false = Ok (map (b_strip_one nl) ls).

Theorem C16b_all : forall d nl : bytes, d <> [] -> nl <> [] -> unbordered nl -> C16_statement d nl.
Proof.
  intros d nl Hd Hnl Hu. destruct (C16b_total_ok d nl true Hd Hnl) as [ls H]. exists ls.
  split; [exact H|]. split; [exact (C16b_concat d nl ls Hd Hnl Hu H)|].
  split; [exact (C16b_shape d nl ls Hd Hnl Hu H)|].
  split; [exact (C16b_count d nl ls Hd Hnl Hu H) | exact (C16b_modes d nl ls Hd Hnl H)].
Qed.

Theorem C16b_ten : forall d nl : bytes, In nl ten_newlines -> d <> [] -> C16_statement d nl.
Proof. intros d nl Hin Hd. destruct (ten_newlines_unbordered nl Hin). apply C16b_all; assumption. Qed.

Theorem C16b_model_newlines : forall le enc nl d,
  get_newline_for_type le enc = Ok nl -> d <> [] -> C16_statement d nl.
Proof. intros le enc nl d H Hd. destruct (model_newlines_unbordered le enc nl H). apply C16b_all; assumption. Qed.

Theorem C16b_catalogue : forall r nl d, In r GenCodecs.rows ->
  In nl [GenCodecs.cr_lf r; GenCodecs.cr_crlf r; GenCodecs.cr_lf_mid r; GenCodecs.cr_crlf_mid r] ->
  nl <> [] -> d <> [] -> C16_statement d nl.
Proof.
  intros r nl d Hr Hin Hnl Hd. destruct (library_all_newlines_unbordered r Hr) as [H _].
  apply C16b_all; auto.
Qed.

Example C16_statement_ex : C16_statement ex_d1 ex_nl /\ C16_statement ex_d2 ex_nl.
Proof. split; apply C16b_ten; try discriminate; vm_compute; tauto. Qed.
