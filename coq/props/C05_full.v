(* C05 — object model written then parsed, COMPOSED with C01 (the whole-sequence streaming round trip).
   props/C05.v proves  dom_read (dom_write t) = normalise t  under the hypothesis [reader_returns_expected]
   ("the streaming reader returns the expected records for the calls of t"); props/C01_sequence.v proves exactly
   that for every accepted call list in its argument domain.  Here the two are composed: no hypothesis about the
   reader remains.  Statements only; proofs in theories/DomCompose.v.

   Hypotheses of C05_full, all on the tree:
     typed_tree t        option values are str / int as the typed attributes produce them (props/C05.v)
     tree_encs_ok t      (bool) the encoding of the main header, of every change, file and content section is absent
                         or an ASCII str that is a catalogue spelling of one of the ten modelled codecs ([enc_okb],
                         = C01's [enc_ok], C05_enc_okb)
     tree_indents_ok t   (bool) every preamble indent is absent or an int >= 0 ([typed_tree] alone also allows negative
                         ints and strings, which the property's domain excludes)
     dom_write t = Ok b  the tree serialises
     tree_oracle_ok      the json.loads oracle returns j for (dumps j ++ "\n"), j the dict of each metadata section
                         that is written (C05_tree_oracle_of_metas: a sufficient condition section by section)
     tree_guesses_ok     C01's [guesses_ok] for the calls of the tree: metadata sections written in a UTF-16/32
                         family encoding are such that the reader's newline guess is right; not needed when all
                         encodings are ascii / latin-1 / utf-8 / utf-8-sig spellings (C05_full_aligned)
     tree_metas_oracle_ok  C01's [metas_oracle_ok] for the calls of the tree.  ADDED with the fix of
                         DiffXWriter.write_meta (`if not (encoding or self._cur_encoding): content =
                         content.encode('ascii')`): a tree without any encoding (the DOM default is encoding None)
                         used to fail to serialise as soon as it has metadata (TypeError, so [dom_write t = Ok b]
                         excluded it) and now writes the JSON as ASCII bytes; the reader hands bytes to json.loads.
                         The hypothesis: at every metadata section an encoding is in force (its own, or an enclosing
                         file's / change's / the main section's), OR the oracle answers for the bytes,
                         loads (dumps j ++ b"\n") = j.  Without it the theorems are false for such trees
                         (props/C01_sequence.v, C01_round_trip_unencoded_refuted); with it they cover them
                         (C05_full_ex3).  Nothing is required when the main section has an encoding
                         (C05_tree_metas_oracle_main).
     size                the output is at most sys.maxsize bytes.
   line_endings / mimetype / type / format / non-empty content need no hypothesis: they follow from the tree having
   serialised (C05_call_good_of_accepted). *)
From Coq Require Import List Arith NArith ZArith Bool Strings.Byte.
From Coq Require Strings.String.
From DX Require Import Bytes Res Codec Text Sections Header Stream Json Reader Writer Dom.
From DX Require Import RoundTripBase RoundTripSim RoundTripStep RoundTrip RoundTripCor.
From DX Require Import DomSpec DomSpecFacts DomCompose.
From DXGen Require GenSections GenText GenCodecs.
Import ListNotations.
Import String.StringSyntax.
Local Open Scope string_scope.
Local Open Scope list_scope.

(* ---- bridges between the two developments ---- *)

(* DomSpec.run_all succeeded  <->  every call accepted (RoundTrip.accepted), same final state *)
Theorem C05_run_all_iff_accepted : forall cs s0 s1,
  run_all s0 cs = (s1, Ok tt) <-> accepted s0 cs /\ snd (run_calls s0 cs) = s1.
Proof. exact DomCompose.run_all_iff_accepted. Qed.
Print Assumptions C05_run_all_iff_accepted.

(* one record of C01 projects to the view of C05: same id (the writer's level is the DOM reader's cursor),
   same options, same payload *)
Theorem C05_view_of_record : forall s s' cur c line,
  WriterFacts.reachable s -> cur_level s = cur_dots cur -> call_good c -> do_call c s = (s', Ok tt) ->
  rec_view (expected_record_of s line c) = expected_view s cur c.
Proof. intros s s' cur c line Hr Hl. apply DomCompose.view_of_record. split; assumption. Qed.
Print Assumptions C05_view_of_record.

Theorem C05_views_of_records : forall enc0 ver s0 cs,
  writer_init enc0 ver = (s0, Ok tt) -> enc_ok enc0 -> Forall call_good cs -> accepted s0 cs ->
  map rec_view (main_record enc0 ver :: expected_records s0 1 cs) = main_view enc0 ver :: expected_views s0 AtMain cs.
Proof. exact DomCompose.views_of_records_main. Qed.
Print Assumptions C05_views_of_records.

(* ---- the calls of a tree are in C01's argument domain ---- *)

Theorem C05_enc_okb : forall v, enc_okb v = true <-> enc_ok v.
Proof. intro v. split; [apply DomCompose.enc_okb_ok | apply DomCompose.enc_ok_okb]. Qed.
Print Assumptions C05_enc_okb.

(* an accepted call whose encoding / indent arguments are in the domain is in the domain *)
Theorem C05_call_good_of_accepted : forall c s s',
  enc_ok (call_enc c) ->
  match c with
  | WritePreamble _ _ ind _ _ => indent_ok ind
  | WriteMeta md _ _ => exists kv, md = WDict (JObj kv)
  | _ => True
  end ->
  do_call c s = (s', Ok tt) -> call_good c.
Proof. intros c s s' H1 H2. apply DomCompose.call_good_of_accepted. split; assumption. Qed.
Print Assumptions C05_call_good_of_accepted.

Theorem C05_tree_calls_good : forall t cs s, tree_encs_ok t = true -> tree_indents_ok t = true ->
  tree_calls t = Ok cs -> accepted s cs -> Forall call_good cs.
Proof. exact DomCompose.tree_calls_good. Qed.
Print Assumptions C05_tree_calls_good.

(* without running the writer, when the declared line_endings are legal as well ([tree_les_ok], decidable) *)
Theorem C05_tree_calls_good_static : forall t cs, tree_encs_ok t = true -> tree_indents_ok t = true ->
  tree_les_ok t = true -> tree_calls t = Ok cs -> Forall call_good cs.
Proof. exact DomCompose.tree_calls_good_static. Qed.
Print Assumptions C05_tree_calls_good_static.

(* what [tree_encs_ok] / [tree_indents_ok] are *)
Theorem C05_tree_encs_ok_def : forall t,
  tree_encs_ok t =
  enc_okb (tree_encoding t) && enc_okb (kw (p_opts (d_pre t)) "encoding")
  && enc_okb (kw (remap "meta" (m_opts (d_meta t))) "encoding")
  && forallb (fun c =>
       enc_okb (kw (c_opts c) "encoding") && enc_okb (kw (p_opts (c_pre c)) "encoding")
       && enc_okb (kw (remap "meta" (m_opts (c_meta c))) "encoding")
       && forallb (fun f =>
            enc_okb (kw (f_opts f) "encoding") && enc_okb (kw (remap "meta" (m_opts (f_meta f))) "encoding")
            && enc_okb (kw (remap "diff" (x_opts (f_diff f))) "encoding")) (c_files c)) (d_changes t).
Proof. reflexivity. Qed.

Theorem C05_tree_indents_ok_def : forall t,
  tree_indents_ok t =
  indent_okb (kw_opt (p_opts (d_pre t)) "indent")
  && forallb (fun c => indent_okb (kw_opt (p_opts (c_pre c)) "indent")) (d_changes t).
Proof. reflexivity. Qed.

(* ---- C01 as the hypothesis of C05 ---- *)
Theorem C05_reader_returns_expected : forall orc t b,
  tree_encs_ok t = true -> tree_indents_ok t = true -> dom_write t = Ok b ->
  tree_oracle_ok orc t -> tree_metas_oracle_ok orc t -> tree_guesses_ok t -> (Z.of_nat (length b) <= sys_maxsize)%Z ->
  reader_returns_expected orc t b.
Proof. exact DomCompose.reader_returns_expected_tree. Qed.
Print Assumptions C05_reader_returns_expected.

(* ---- the composed theorem ---- *)
Theorem C05_full : forall orc t b,
  typed_tree t = true -> tree_encs_ok t = true -> tree_indents_ok t = true ->
  dom_write t = Ok b ->
  tree_oracle_ok orc t -> tree_metas_oracle_ok orc t -> tree_guesses_ok t ->
  (Z.of_nat (length b) <= sys_maxsize)%Z ->
  dom_read orc b = Ok (normalise t).
Proof. exact DomCompose.C05_full. Qed.
Print Assumptions C05_full.

Theorem C05_full_aligned : forall orc t b,
  typed_tree t = true -> tree_encs_aligned t = true -> tree_indents_ok t = true ->
  dom_write t = Ok b ->
  tree_oracle_ok orc t -> tree_metas_oracle_ok orc t ->
  (Z.of_nat (length b) <= sys_maxsize)%Z ->
  dom_read orc b = Ok (normalise t).
Proof. exact DomCompose.C05_full_aligned. Qed.
Print Assumptions C05_full_aligned.

(* the oracle and guess hypotheses, spelled out *)
Theorem C05_tree_oracle_ok_def : forall orc t,
  tree_oracle_ok orc t <-> (forall cs, tree_calls t = Ok cs -> oracle_ok orc cs).
Proof. intros; reflexivity. Qed.
Theorem C05_tree_guesses_ok_def : forall t,
  tree_guesses_ok t <->
  (forall s0 cs, writer_init (tree_encoding t) (tree_version t) = (s0, Ok tt) -> tree_calls t = Ok cs -> guesses_ok s0 cs).
Proof. intros; reflexivity. Qed.

Theorem C05_tree_metas_oracle_ok_def : forall orc t,
  tree_metas_oracle_ok orc t <->
  (forall s0 cs, writer_init (tree_encoding t) (tree_version t) = (s0, Ok tt) -> tree_calls t = Ok cs ->
                 metas_oracle_ok orc s0 cs).
Proof. intros; reflexivity. Qed.
(* ... nothing is required when the main section declares an encoding *)
Theorem C05_tree_metas_oracle_main : forall orc t, wv_truthy (tree_encoding t) = true -> tree_metas_oracle_ok orc t.
Proof. exact DomCompose.tree_metas_oracle_main. Qed.
Print Assumptions C05_tree_metas_oracle_main.

(* section by section: json.loads (json.dumps d ++ "\n") = d for the dict d of every metadata section *)
Theorem C05_tree_oracle_of_metas : forall orc t,
  Forall (fun m => forall d, json_dump (JObj (m_content m)) = Ok d ->
                     assoc_get beq (oracle_key_text (ascii_text d ++ [10%N])) orc = Some (LoadsOk (JObj (m_content m))))
         (d_meta t :: flat_map (fun ch => c_meta ch :: map f_meta (c_files ch)) (d_changes t)) ->
  tree_oracle_ok orc t.
Proof. exact DomCompose.tree_oracle_of_metas. Qed.
Print Assumptions C05_tree_oracle_of_metas.

Theorem C05_tree_guesses_aligned : forall t, tree_encs_aligned t = true -> tree_guesses_ok t.
Proof. exact DomCompose.tree_guesses_aligned. Qed.
Print Assumptions C05_tree_guesses_aligned.

(* ---- instances: every hypothesis holds (each discharged by computation in DomCompose.v) ---- *)
Example C05_full_ex_hypotheses :
  typed_tree ex_tree = true /\ tree_encs_aligned ex_tree = true /\ tree_indents_ok ex_tree = true /\
  dom_write ex_tree = Ok ex_bytes /\ tree_oracle_ok ex_orc ex_tree /\ tree_metas_oracle_ok ex_orc ex_tree /\
  (Z.of_nat (length ex_bytes) <= sys_maxsize)%Z.
Proof.
  exact (conj ex_typed (conj ex_encs_aligned (conj ex_indents (conj ex_write (conj ex_oracle (conj ex_metas ex_size)))))).
Qed.
Example C05_full_ex : dom_read ex_orc ex_bytes = Ok (normalise ex_tree).
Proof. exact DomCompose.ex_C05_full. Qed.

(* utf-8 main, a utf-16 change with a non-ASCII preamble, latin-1 / utf-8 / utf-16 sections: not the aligned case *)
Example C05_full_ex2_hypotheses :
  typed_tree ex_tree2 = true /\ tree_encs_ok ex_tree2 = true /\ tree_encs_aligned ex_tree2 = false /\
  tree_indents_ok ex_tree2 = true /\ dom_write ex_tree2 = Ok ex_bytes2 /\ tree_oracle_ok ex_orc2 ex_tree2 /\
  tree_metas_oracle_ok ex_orc2 ex_tree2 /\ tree_guesses_ok ex_tree2 /\ (Z.of_nat (length ex_bytes2) <= sys_maxsize)%Z.
Proof.
  exact (conj ex2_typed (conj ex2_encs (conj ex2_not_aligned (conj ex2_indents (conj (proj1 ex2_write)
        (conj ex2_oracle (conj ex2_metas (conj ex2_guesses ex2_size)))))))).
Qed.
Example C05_full_ex2 : dom_read ex_orc2 ex_bytes2 = Ok (normalise ex_tree2).
Proof. exact DomCompose.ex2_C05_full. Qed.

(* a tree without any encoding that has metadata (the path the fix of write_meta opened): it serialises to these
   bytes, [tree_metas_encoded] fails, and with an oracle answering for the bytes all hypotheses hold *)
Example C05_full_ex3_hypotheses :
  typed_tree ex_tree3 = true /\ tree_encs_ok ex_tree3 = true /\ tree_indents_ok ex_tree3 = true /\
  dom_write ex_tree3 = Ok ex_bytes3 /\ tree_oracle_ok ex_orc3 ex_tree3 /\ ~ tree_metas_encoded ex_tree3 /\
  tree_metas_oracle_ok ex_orc3 ex_tree3 /\ tree_guesses_ok ex_tree3 /\ (Z.of_nat (length ex_bytes3) <= sys_maxsize)%Z.
Proof. exact DomCompose.ex3_hypotheses. Qed.
Example C05_full_ex3 :
  ex_bytes3 = B "#diffx: version=1.0" ++ [x0a] ++ B "#.meta: format=json, length=15" ++ [x0a] ++
              B "{" ++ [x0a] ++ B "    ""k"": 1" ++ [x0a] ++ B "}" ++ [x0a] /\
  dom_read ex_orc3 ex_bytes3 = Ok (normalise ex_tree3).
Proof.
  split; [reflexivity|]. destruct DomCompose.ex3_C06_full as (t' & H1 & -> & _). exact H1.
Qed.
