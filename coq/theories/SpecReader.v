(* SpecReader.v — SPEC layer for the file-level half of property C03 ("the reader yields exactly what the spec
   says"): an AST of structurally well-formed DiffX files as ANY producer may write them, its rendering to bytes,
   the well-formedness predicate, and the records the specification assigns to such a file.

   Written from the format documentation (docs/spec/*.rst) and the property text, not from Reader.v: of the model
   only the TYPES of Reader.v are used (record / payload / oracle: the vocabulary in which a reader's output is
   expressed), the codec catalogue (Codec.lookup_codec: what a spelling such as "latin-1" means) and the spec
   parts of HeaderFacts.v (header grammar, render_header, spec_dec) and SectionsSpec.v (the nine ids, may_follow).

   What the AST covers
     * headers: options in any order, optional ones absent, unknown ones present, duplicate keys (the later one
       wins, as in a Python dict), each header preceded by any number of whitespace-only lines, all header lines
       ending in LF or all in CRLF; whitespace-only lines after the last section;
     * container sections (diffx / .change / ..file) with or without an encoding;
     * text sections (preambles): content given by its LINES; every line is rendered as
           <indent spaces> <encoded line> <encoded newline>
       in the section's effective encoding (own option, else the nearest enclosing container that declares one),
       the first line carrying the BOM the codec writes (utf-8-sig, utf-16, utf-32) when [tc_bom] is set;
       line endings unix or dos, declared in the header or left to be detected;
     * metadata sections: the same without indentation; any text (pretty-printed or compact JSON); the JSON
       value is the one json.loads returns for that text (the oracle);
     * text and metadata sections with NO encoding in force (the documentation: "DiffX files have no default
       encoding"): content given by its lines as BYTES, newline in ASCII; the reading is bytes;
     * diffs: arbitrary bytes ending with the newline of their kind in their OWN encoding (ASCII if none).
   What it does not cover (see wf_section): content lines indented by fewer spaces than the indent option says
   (every line carries exactly the declared indentation); encodings outside the ten executable codecs. *)
From Coq Require Import List Arith NArith ZArith Bool Strings.Byte.
From Coq Require Strings.String.
From DX Require Import Bytes Res Codec Text Sections Header Json Reader SectionsSpec.
From DX Require HeaderFacts.
From DXGen Require GenText.
Import ListNotations.
Import String.StringSyntax.
Local Open Scope string_scope.
Local Open Scope list_scope.

(* ================================================================================================ *)
(** * Section ids *)

(* number of dots of the id, the section type, and the depth of the innermost container it belongs to *)
Definition sid_dots (a : sid) : nat :=
  match a with
  | Main => 0
  | MainPreamble | MainMeta | Change => 1
  | ChangePreamble | ChangeMeta | File => 2
  | FileMeta | FileDiff => 3
  end.
Definition sid_name (a : sid) : bytes :=
  match a with
  | Main => B "diffx"
  | MainPreamble | ChangePreamble => B "preamble"
  | MainMeta | ChangeMeta | FileMeta => B "meta"
  | Change => B "change"
  | File => B "file"
  | FileDiff => B "diff"
  end.
Definition sid_depth (a : sid) : nat :=
  match a with
  | Main | MainPreamble | MainMeta => 0
  | Change | ChangePreamble | ChangeMeta => 1
  | File | FileMeta | FileDiff => 2
  end.
Inductive skind := SContainer | SPreamble | SMeta | SDiff.
Definition sid_kind (a : sid) : skind :=
  match a with
  | Main | Change | File => SContainer
  | MainPreamble | ChangePreamble => SPreamble
  | MainMeta | ChangeMeta | FileMeta => SMeta
  | FileDiff => SDiff
  end.

(* ================================================================================================ *)
(** * The AST *)

Inductive le_kind := LUnix | LDos.
Definition le_name (k : le_kind) : bytes := match k with LUnix => B "unix" | LDos => B "dos" end.
Definition le_text (k : le_kind) : text := match k with LUnix => [10%N] | LDos => [13%N; 10%N] end.
Definition le_kind_eqb (a b : le_kind) : bool :=
  match a, b with LUnix, LUnix | LDos, LDos => true | _, _ => false end.

(* a text content: its lines (each WITHOUT its newline), the newline every line ends with, and whether the bytes
   start with the byte order mark of the section's codec *)
Record tcontent := { tc_lines : list text; tc_kind : le_kind; tc_bom : bool }.

Inductive fcontent :=
| FText (t : tcontent)                              (* preamble *)
| FMeta (t : tcontent) (j : json)                   (* metadata: the text, and the value it denotes *)
| FRawText (ls : list bytes) (k : le_kind)          (* preamble with no encoding in force: lines as bytes *)
| FRawMeta (ls : list bytes) (k : le_kind) (j : json)
| FDiff (raw : bytes) (k : le_kind).                (* diff: bytes, ending with the newline of kind k *)

Record fsection := {
  fs_id : sid;
  fs_opts : list (bytes * bytes);       (* as written: key, value; any order *)
  fs_blank : list bytes;                (* whitespace-only lines before the header (without their LF) *)
  fs_content : option fcontent }.

Record ffile := {
  ff_crlf : bool;                       (* header lines end in CRLF (true) or LF (false) *)
  ff_sections : list fsection;
  ff_trailing : list bytes }.           (* whitespace-only lines after the last section *)

Definition fs_dots (s : fsection) : nat := sid_dots (fs_id s).
Definition fs_name (s : fsection) : bytes := sid_name (fs_id s).

(* ================================================================================================ *)
(** * Options: lookup and integer conversion *)

(* the value of an option as written; the last one if the key is repeated *)
Definition opt (k : String.string) (ps : list (bytes * bytes)) : option bytes := HeaderFacts.last_val (B k) ps.

(* -?[0-9]+ of at most 4300 digits is reported as an integer, everything else as the string itself *)
Definition spec_digitsb (ds : bytes) : bool :=
  nonempty ds && forallb (fun b => mem byte_eqb b HeaderFacts.digit_alphabet) ds.
Definition spec_conv (v : bytes) : pv :=
  match v with
  | c :: ds =>
      if byte_eqb c "-"%byte
      then (if spec_digitsb ds && Nat.leb (length ds) HeaderFacts.max_digits
            then VInt (- Z.of_N (HeaderFacts.spec_dec ds)) else VStr v)
      else (if spec_digitsb v && Nat.leb (length v) HeaderFacts.max_digits
            then VInt (Z.of_N (HeaderFacts.spec_dec v)) else VStr v)
  | [] => VStr v
  end.
Definition int_opt (k : String.string) (ps : list (bytes * bytes)) : option Z :=
  match opt k ps with
  | Some v => match spec_conv v with VInt z => Some z | VStr _ => None end
  | None => None
  end.

(* ================================================================================================ *)
(** * Encodings: the nearest declaring ancestor *)

(* the encoding option of the main header, of the current .change and of the current ..file *)
Record ectx := { ex_main : option bytes; ex_change : option bytes; ex_file : option bytes }.
Definition ectx0 : ectx := {| ex_main := None; ex_change := None; ex_file := None |}.

Definition orelse {A} (a b : option A) : option A := match a with Some _ => a | None => b end.

(* the encoding in force inside the container of depth d *)
Definition inherited (x : ectx) (d : nat) : option bytes :=
  match d with
  | 0 => ex_main x
  | 1 => orelse (ex_change x) (ex_main x)
  | _ => orelse (ex_file x) (orelse (ex_change x) (ex_main x))
  end.

Definition ectx_next (x : ectx) (s : fsection) : ectx :=
  match fs_id s with
  | Main => {| ex_main := opt "encoding" (fs_opts s); ex_change := None; ex_file := None |}
  | Change => {| ex_main := ex_main x; ex_change := opt "encoding" (fs_opts s); ex_file := None |}
  | File => {| ex_main := ex_main x; ex_change := ex_change x; ex_file := opt "encoding" (fs_opts s) |}
  | _ => x
  end.

(* the encoding a content section is read with: its own, else the inherited one; diffs: their own only *)
Definition eff_enc (x : ectx) (s : fsection) : option bytes :=
  match fs_id s with
  | FileDiff => opt "encoding" (fs_opts s)
  | a => orelse (opt "encoding" (fs_opts s)) (inherited x (sid_depth a))
  end.

Definition codec_of (eb : bytes) : option codec :=
  match lookup_codec eb with LOk _ c => Some c | _ => None end.

(* str.encode writes a byte order mark for some codecs: the encoding of the empty string *)
Definition enc_bom (c : codec) : bytes := match c_enc c [] with Some b => b | None => [] end.
(* the encoding of a text without that mark *)
Definition enc_nobom (c : codec) (t : text) : option bytes :=
  match c_enc c t with Some b => Some (skipn (length (enc_bom c)) b) | None => None end.

(* ================================================================================================ *)
(** * Rendering *)

Definition enc_line (c : codec) (nl : text) (l : text) : bytes :=
  match enc_nobom c (l ++ nl) with Some b => b | None => [] end.
Definition encodable (c : codec) (nl : text) (l : text) : bool :=
  match enc_nobom c (l ++ nl) with Some _ => true | None => false end.
Definition nl_bytes (c : codec) (k : le_kind) : bytes :=
  match enc_nobom c (le_text k) with Some b => b | None => [] end.

(* the encoded lines, each with its newline, the first one after the byte order mark *)
Definition text_pieces (c : codec) (nl : text) (bom : bytes) (ls : list text) : list bytes :=
  match ls with
  | [] => []
  | l0 :: t => (bom ++ enc_line c nl l0) :: map (enc_line c nl) t
  end.
(* every line indented by k spaces *)
Definition text_body (c : codec) (nl : text) (bom : bytes) (k : nat) (ls : list text) : bytes :=
  concat (map (app (repeat_b x20 k)) (text_pieces c nl bom ls)).

Definition tc_mark (c : codec) (t : tcontent) : bytes := if tc_bom t then enc_bom c else [].

(* the indentation of a preamble: the integer value of its indent option, 0 if absent *)
Definition indent_of (s : fsection) : nat :=
  match sid_kind (fs_id s), int_opt "indent" (fs_opts s) with
  | SPreamble, Some z => Z.to_nat z
  | _, _ => 0
  end.

Definition text_codec (x : ectx) (s : fsection) : option codec :=
  match eff_enc x s with Some eb => codec_of eb | None => None end.

(* diffs: the newline is encoded with the section's own encoding, ASCII if it has none *)
Definition diff_spelling (s : fsection) : bytes :=
  match opt "encoding" (fs_opts s) with Some e => e | None => B "ascii" end.
Definition diff_codec (s : fsection) : option codec := codec_of (diff_spelling s).

(* no encoding in force: the lines are bytes, the newline is the ASCII one *)
Definition raw_pieces (k : le_kind) (ls : list bytes) : list bytes := map (fun l => l ++ nl_bytes ascii k) ls.
Definition raw_body (k : le_kind) (n : nat) (ls : list bytes) : bytes :=
  concat (map (app (repeat_b x20 n)) (raw_pieces k ls)).

Definition content_body (x : ectx) (s : fsection) : bytes :=
  match fs_content s with
  | None => []
  | Some (FDiff raw _) => raw
  | Some (FText t) | Some (FMeta t _) =>
      match text_codec x s with
      | Some c => text_body c (le_text (tc_kind t)) (tc_mark c t) (indent_of s) (tc_lines t)
      | None => []
      end
  | Some (FRawText ls k) | Some (FRawMeta ls k _) => raw_body k (indent_of s) ls
  end.

Definition eol (crlf : bool) : bytes := if crlf then [x0d; x0a] else [x0a].
Definition render_blank (w : bytes) : bytes := w ++ [x0a].
Definition render_blanks (ws : list bytes) : bytes := concat (map render_blank ws).

Definition sec_header (crlf : bool) (s : fsection) : bytes :=
  render_blanks (fs_blank s) ++ HeaderFacts.render_header (fs_dots s) (fs_name s) (fs_opts s) ++ eol crlf.

Definition sec_render (crlf : bool) (x : ectx) (s : fsection) : bytes :=
  sec_header crlf s ++ content_body x s.

Fixpoint render_secs (crlf : bool) (x : ectx) (ss : list fsection) : bytes :=
  match ss with
  | [] => []
  | s :: t => sec_render crlf x s ++ render_secs crlf (ectx_next x s) t
  end.

Definition render_file (f : ffile) : bytes :=
  render_secs (ff_crlf f) ectx0 (ff_sections f) ++ render_blanks (ff_trailing f).

(* ================================================================================================ *)
(** * The specification's reading *)

(* the text of a text section: its lines, each terminated by the newline *)
Definition joined (t : tcontent) : text := concat (map (fun l => l ++ le_text (tc_kind t)) (tc_lines t)).

Definition sec_payload (s : fsection) : payload :=
  match fs_content s with
  | None => PNone
  | Some (FText t) => PText (joined t)
  | Some (FMeta _ j) => PMeta j
  | Some (FRawText ls k) => PBytes (concat (raw_pieces k ls))
  | Some (FRawMeta _ _ j) => PMeta j
  | Some (FDiff raw _) => PBytes raw
  end.

(* number of content lines: the lines of a text; for a diff the number of newlines of its kind *)
Definition content_nlines (s : fsection) : nat :=
  match fs_content s with
  | None => 0
  | Some (FText t) | Some (FMeta t _) => length (tc_lines t)
  | Some (FRawText ls _) | Some (FRawMeta ls _ _) => length ls
  | Some (FDiff raw k) =>
      match diff_codec s with Some c => occurrences byte_eqb (nl_bytes c k) raw | None => 0 end
  end.

(* the options dict: all options of the header, integer-valued ones converted *)
Definition sec_record (line : Z) (s : fsection) : record :=
  {| r_level := fs_dots s; r_line := line; r_opts := HeaderFacts.opts_of spec_conv (fs_opts s);
     r_id := sid_bytes (fs_id s); r_type := fs_name s; r_payload := sec_payload s |}.

(* the logical line of a section: header lines and content lines before it (blank lines are not counted) *)
Fixpoint records_secs (line : Z) (ss : list fsection) : list record :=
  match ss with
  | [] => []
  | s :: t => sec_record line s :: records_secs (line + 1 + Z.of_nat (content_nlines s)) t
  end.

Definition spec_records (f : ffile) : list record := records_secs 0 (ff_sections f).

(* ================================================================================================ *)
(** * Well-formedness (decidable: [wf_file f = true] is checked by computation) *)

Definition spec_keyb (k : bytes) : bool :=
  match k with
  | c :: t => mem byte_eqb c HeaderFacts.alpha_alphabet &&
              forallb (fun b => mem byte_eqb b (HeaderFacts.alpha_alphabet ++ HeaderFacts.digit_alphabet ++ B "_-")) t
  | [] => false
  end.
Definition spec_valb (v : bytes) : bool :=
  nonempty v &&
  forallb (fun b => mem byte_eqb b (HeaderFacts.alpha_alphabet ++ HeaderFacts.digit_alphabet ++ B "/._-")) v.
Definition pair_ok (p : bytes * bytes) : bool := spec_keyb (fst p) && spec_valb (snd p).

(* whitespace other than LF *)
Definition is_ws_line (w : bytes) : bool := forallb (fun b => is_space b && negb (byte_eqb b x0a)) w.

Definition order_ok (prev : option sid) (a : sid) : bool :=
  match prev with None => sid_eqb a Main | Some p => may_follow p a end.

Definition enc_opt_ok (ps : list (bytes * bytes)) : bool :=
  match opt "encoding" ps with
  | None => true
  | Some e => match codec_of e with Some _ => true | None => false end
  end.

(* line-ending detection on the first line: the first encoded LF, dos if an encoded CR LF ends there *)
Definition detect_kind (u d data : bytes) : le_kind :=
  match bfind u data with
  | Some i => if bends d (firstn (i + length u) data) then LDos else LUnix
  | None => LUnix
  end.

(* line_endings is declared and names the kind, or is absent and detection finds the kind *)
Definition le_ok (ps : list (bytes * bytes)) (c : codec) (k : le_kind) (body : bytes) : bool :=
  match opt "line_endings" ps with
  | Some v => beq v (le_name k)
  | None => le_kind_eqb (detect_kind (nl_bytes c LUnix) (nl_bytes c LDos) body) k
  end.

Definition length_ok (ps : list (bytes * bytes)) (body : bytes) : bool :=
  match int_opt "length" ps with Some z => Z.eqb z (Z.of_nat (length body)) | None => false end.

Definition indent_ok (ps : list (bytes * bytes)) : bool :=
  match opt "indent" ps with
  | None => true
  | Some v => match spec_conv v with VInt z => Z.leb 0 z | VStr _ => false end
  end.

Definition format_ok (ps : list (bytes * bytes)) : bool :=
  match opt "format" ps with None => true | Some v => beq v (B "json") end.

Definition version_ok (ps : list (bytes * bytes)) : bool :=
  match opt "version" ps with Some v => beq v (B "1.0") | None => false end.

(* [lines_clean]: in the encoded content the newline bytes occur at the end of each line and nowhere else (for the
   codecs whose LF is one byte this says that no line contains the newline; for UTF-16/32 it also excludes
   misaligned occurrences such as U+0A41 U+4100) *)
Definition lines_clean (nlb : bytes) (pieces : list bytes) : bool :=
  forallb (fun p => Nat.eqb (occurrences byte_eqb nlb p) 1) pieces.

(* the byte order marks of the UTF family, in either byte order *)
Definition all_boms : list bytes := concat (map snd GenText.boms).
Definition starts_with_bom (b : bytes) : bool := existsb (fun m => bstarts m b) all_boms.

Definition text_ok (x : ectx) (s : fsection) (t : tcontent) : bool :=
  match text_codec x s with
  | None => false                                     (* an encoding is in force, and is a modelled codec *)
  | Some c =>
      let nl := le_text (tc_kind t) in
      nonempty (tc_lines t) &&
      forallb (encodable c nl) (tc_lines t) &&
      (* the content starts with the codec's byte order mark, or the codec writes none, or (a producer that
         omits it) the encoded text does not itself begin with something that reads as a byte order mark *)
      (tc_bom t || is_nil (enc_bom c) || negb (starts_with_bom (concat (map (enc_line c nl) (tc_lines t))))) &&
      lines_clean (nl_bytes c (tc_kind t)) (text_pieces c nl (tc_mark c t) (tc_lines t)) &&
      le_ok (fs_opts s) c (tc_kind t) (content_body x s) &&
      length_ok (fs_opts s) (content_body x s)
  end.

(* no encoding in force *)
Definition raw_ok (x : ectx) (s : fsection) (ls : list bytes) (k : le_kind) : bool :=
  match eff_enc x s with
  | Some _ => false
  | None =>
      nonempty ls &&
      lines_clean (nl_bytes ascii k) (raw_pieces k ls) &&
      le_ok (fs_opts s) ascii k (content_body x s) &&
      length_ok (fs_opts s) (content_body x s)
  end.

Definition diff_ok (s : fsection) (raw : bytes) (k : le_kind) : bool :=
  match diff_codec s with
  | None => false
  | Some c =>
      nonempty raw && bends (nl_bytes c k) raw && le_ok (fs_opts s) c k raw && length_ok (fs_opts s) raw
  end.

Definition wf_section (prev : option sid) (x : ectx) (s : fsection) : bool :=
  order_ok prev (fs_id s) &&
  forallb is_ws_line (fs_blank s) &&
  forallb pair_ok (fs_opts s) &&
  enc_opt_ok (fs_opts s) &&
  match sid_kind (fs_id s), fs_content s with
  | SContainer, None => match fs_id s with Main => version_ok (fs_opts s) | _ => true end
  | SPreamble, Some (FText t) => text_ok x s t && indent_ok (fs_opts s)
  | SMeta, Some (FMeta t _) => text_ok x s t && format_ok (fs_opts s)
  | SPreamble, Some (FRawText ls k) => raw_ok x s ls k && indent_ok (fs_opts s)
  | SMeta, Some (FRawMeta ls k _) => raw_ok x s ls k && format_ok (fs_opts s)
  | SDiff, Some (FDiff raw k) => diff_ok s raw k
  | _, _ => false
  end.

Fixpoint wf_secs (prev : option sid) (x : ectx) (ss : list fsection) : bool :=
  match ss with
  | [] => true
  | s :: t => wf_section prev x s && wf_secs (Some (fs_id s)) (ectx_next x s) t
  end.

Definition wf_file (f : ffile) : bool :=
  wf_secs None ectx0 (ff_sections f) && forallb is_ws_line (ff_trailing f).

(* ================================================================================================ *)
(** * The json.loads oracle: for every metadata section, loads(text) = the value of the AST *)

Definition oracle_ok_section (orc : oracle) (s : fsection) : Prop :=
  match fs_content s with
  | Some (FMeta t j) => assoc_get beq (oracle_key_text (joined t)) orc = Some (LoadsOk j)
  | Some (FRawMeta ls k j) => assoc_get beq (oracle_key_bytes (concat (raw_pieces k ls))) orc = Some (LoadsOk j)
  | _ => True
  end.
Definition oracle_ok_file (orc : oracle) (f : ffile) : Prop := Forall (oracle_ok_section orc) (ff_sections f).
