(* Extraction of the executable model. Only ExtrOcamlBasic's directives are in force:
   Extract Inductive bool/option/unit/list/prod/sumbool/sumor and Extract Inlined Constant andb/orb.
   nat, N, Z, positive, byte stay the extracted inductives. *)
Require Extraction.
Require Import ExtrOcamlBasic.
From DX Require Import Bytes Sx Entry.
Set Extraction Output Directory ".".
Extraction "model.ml" Entry.run Bytes.n_byte Bytes.byte_n.
