(* DomCompose.v — composition of the whole-sequence streaming round trip (C01: RoundTrip*.v) with the object-model
   results (C05 / C06: DomSpec*.v).  The hypothesis [reader_returns_expected] of DomSpecFacts.C05_dom_round_trip /
   C06_round_trip is discharged by RoundTrip.C01_round_trip:
     1. bridge lemmas ([run_all] vs [accepted]; the records of C01 project to the views of C05),
     2. the calls a typed tree issues are in the C01 argument domain ([tree_calls_good]),
     3. C05_full : write then parse = normalise, no hypothesis about the reader left,
     4. C06_full : parse, re-serialise: identical bytes and a fixed point ([pre_ok_run] derived from the codec laws).
   (5. C06 for the streaming writer's own files, C06_canonical, is in DomComposeCanon.v.) *)
From Coq Require Import List Arith NArith ZArith Bool Strings.Byte Lia.
From Coq Require Strings.String.
From DX Require Import Bytes Res Codec Text Sections Header Stream Json Reader Writer Dom.
From DX Require HeaderFacts TextFacts StreamFacts SectionsFacts ReaderSpecFacts WriterFacts WriterCanonFacts Encodings.
From DX Require Import RoundTripCodec RoundTripContent RoundTripBase RoundTripSim RoundTripStep RoundTrip RoundTripCor
                       RoundTripAll.
From DX Require Import DomSpec DomSpecFacts DomSpecText.
From DXGen Require GenSections GenText GenCodecs.
Import ListNotations.
Import String.StringSyntax.
Local Open Scope string_scope.
Local Open Scope list_scope.

Module WC := WriterCanonFacts.
Module WF := WriterFacts.

(* ================================================================================================ *)
(* 1. bridges                                                                                          *)

(* ---- 1a. DomSpec.run_all (stop at the first rejected call) vs RoundTrip.accepted (all accepted) ---- *)
Lemma run_all_accepted : forall cs s0 s1, run_all s0 cs = (s1, Ok tt) ->
  accepted s0 cs /\ snd (run_calls s0 cs) = s1.
Proof.
  induction cs as [|c t IH]; intros s0 s1 H.
  - cbn in H. injection H as <-. split; [constructor|reflexivity].
  - cbn [run_all] in H. destruct (do_call c s0) as [s' r] eqn:E. destruct r as [[]|e]; [|discriminate H].
    destruct (IH _ _ H) as [Ha Hs]. unfold accepted. rewrite WF.run_calls_cons, E. cbn [fst snd].
    split; [constructor; [reflexivity|exact Ha] | exact Hs].
Qed.

Lemma accepted_run_all : forall cs s0, accepted s0 cs -> run_all s0 cs = (snd (run_calls s0 cs), Ok tt).
Proof.
  induction cs as [|c t IH]; intros s0 H; [reflexivity|].
  destruct (accepted_cons _ _ _ H) as (s' & Hc & Ha). cbn [run_all]. rewrite WF.run_calls_cons, Hc. cbn [fst snd].
  apply IH. exact Ha.
Qed.

Theorem run_all_iff_accepted : forall cs s0 s1,
  run_all s0 cs = (s1, Ok tt) <-> accepted s0 cs /\ snd (run_calls s0 cs) = s1.
Proof.
  intros cs s0 s1. split; [apply run_all_accepted|]. intros [Ha <-]. apply accepted_run_all. exact Ha.
Qed.

(* ---- 1b. header options: C01's [expected_opts] is C05's [hopts] on plain values in key order ---- *)

(* None / int / a str that the header parser does not turn into an int *)
Definition plain (v : wv) : Prop :=
  match v with WNone | WInt _ => True | WStr t => int_ok (map n_byte t) = false | _ => False end.

Lemma hopts_cons : forall k v l, hopts ((k, v) :: l) = match hval v with Some x => [(k, x)] | None => [] end ++ hopts l.
Proof. reflexivity. Qed.

Lemma hopts_rd : forall l, Forall (fun kv => plain (snd kv)) l ->
  map (fun kv => (fst kv, rd_val (snd kv))) (WC.present l) = hopts l.
Proof.
  induction l as [|[k v] l IH]; intros H; [reflexivity|]. inversion H as [|? ? Hv Hl]; subst. cbn [snd] in Hv.
  rewrite hopts_cons, <- (IH Hl). unfold WC.present. cbn [filter]. unfold WC.is_present at 1. cbn [snd].
  destruct v; cbn [plain] in Hv; try contradiction; cbn [hval map fst snd rd_val app]; try reflexivity.
  unfold text_bytes. rewrite WC.convert_value_not_int by exact Hv. reflexivity.
Qed.

Lemma expected_hopts : forall opts l, sort_opts opts = l -> Forall (fun kv => plain (snd kv)) l ->
  expected_opts opts = hopts l.
Proof. intros opts l <- H. unfold expected_opts. apply hopts_rd. exact H. Qed.

Lemma enc_ok_plain : forall v, enc_ok v -> plain v.
Proof. intros v H. pose proof (enc_ok_exact v H) as E. destruct H as [->|(eb & ? & ? & -> & _)]; [exact I|exact E]. Qed.

Lemma choice_plain : forall v set, (forall x, In x set -> In x WC.choice_values) ->
  match v with WNone => Ok true | v' => in_strset v' set end = Ok true -> plain v.
Proof.
  intros v set Hsub H. destruct (choice_good_exact v set Hsub H) as (_ & Hx & [->|(x & _ & ->)]); [exact I|exact Hx].
Qed.

Lemma sort_container : forall e, sort_opts (dict_set "encoding" e []) = [(B "encoding", e)].
Proof. reflexivity. Qed.
Lemma sort_main : forall e v, sort_opts (main_opts e v) = [(B "encoding", e); (B "version", v)].
Proof. reflexivity. Qed.
Lemma sort_pre : forall b lo e i m,
  sort_opts (WC.content_opts b lo e i true [(B "mimetype", m)])
  = [(B "encoding", e); (B "indent", i); (B "length", content_length b); (B "line_endings", lo); (B "mimetype", m)].
Proof. reflexivity. Qed.
Lemma sort_meta : forall b lo e f,
  sort_opts (WC.content_opts b lo e WNone false [(B "format", f)])
  = [(B "encoding", e); (B "format", f); (B "indent", WNone); (B "length", content_length b)].
Proof. reflexivity. Qed.
Lemma sort_diff : forall b lo e ty,
  sort_opts (WC.content_opts b lo e WNone true [(B "type", ty)])
  = [(B "encoding", e); (B "indent", WNone); (B "length", content_length b); (B "line_endings", lo); (B "type", ty)].
Proof. reflexivity. Qed.

(* ---- 1c. what _prepare_content reports for text: the line_endings of DomSpec.pre_resolve ---- *)
Lemma prepare_le_arg : forall s content ind le enc inh p,
  prepare_content s content ind le enc inh = Ok p -> le_arg le.
Proof.
  intros s content ind le enc inh p H. unfold prepare_content in H.
  destruct (match content with CText t => is_nil t | CBytes b => is_nil b end); [discriminate H|].
  destruct (match le with WNone => Ok true | _ => in_strset le GenText.line_endings_values end) as [ok|e] eqn:E;
    cbn [bind] in H; [|discriminate H].
  destruct ok; cbn [negb] in H; [|discriminate H].
  destruct le; try (apply WC.in_strset_true in E; destruct E as (x & Hx & E); try discriminate E).
  - constructor.
  - rewrite E. constructor. exact Hx.
Qed.

Lemma prepare_text_le : forall s t ind le enc inh body lo,
  prepare_content s (CText t) ind le enc inh = Ok (body, lo) -> lo = fst (pre_resolve le t).
Proof.
  intros s t ind le enc inh body lo H. unfold prepare_content in H.
  destruct (is_nil t); [discriminate H|].
  destruct (match le with WNone => Ok true | _ => in_strset le GenText.line_endings_values end) as [ok|e];
    cbn [bind] in H; [|discriminate H].
  destruct (negb ok); [discriminate H|].
  destruct (if negb (wv_truthy enc) && inh then cur_encoding s else Ok enc) as [e1|e]; cbn [bind] in H; [|discriminate H].
  unfold pre_resolve. fold (declared_newline le) in H.
  destruct (declared_newline le) as [nl|].
  - cbn [bind] in H. destruct (encode_dyn nl e1); cbn [bind] in H; [|discriminate H].
    destruct (encode_dyn t e1); cbn [bind] in H; [|discriminate H].
    destruct (wv_truthy ind).
    + destruct (match ind with WInt z => Ok (repeat_b x20 (Z.to_nat z)) | WBool true => Ok [x20] | _ => Err EType end);
        cbn [bind] in H; [|discriminate H].
      destruct (split_lines _ _ _); cbn [bind] in H; [|discriminate H]. injection H as _ <-. reflexivity.
    + injection H as _ <-. reflexivity.
  - destruct (guess_line_endings_text t) as [l nl]. cbn [bind fst] in H |- *.
    destruct (encode_dyn nl e1); cbn [bind] in H; [|discriminate H].
    destruct (encode_dyn t e1); cbn [bind] in H; [|discriminate H].
    destruct (wv_truthy ind).
    + destruct (match ind with WInt z => Ok (repeat_b x20 (Z.to_nat z)) | WBool true => Ok [x20] | _ => Err EType end);
        cbn [bind] in H; [|discriminate H].
      destruct (split_lines _ _ _); cbn [bind] in H; [|discriminate H]. injection H as _ <-. reflexivity.
    + injection H as _ <-. reflexivity.
Qed.

(* ---- 1d. one record of C01 projects to the view of C05 ---- *)
(* the writer's container level is the DOM reader's cursor *)
Definition lvl_ok (s : wstate) (cur : cursor) : Prop := WF.reachable s /\ cur_level s = cur_dots cur.

Lemma final_text_rc : forall nl t, RoundTripContent.final_text nl t = final_text nl t.
Proof. reflexivity. Qed.

Lemma triple_eq {A B C} : forall (a a' : A) (b b' : B) (c c' : C), a = a' -> b = b' -> c = c' -> (a, b, c) = (a', b', c').
Proof. intros; subst; reflexivity. Qed.

Lemma view_of_record : forall s s' cur c line,
  lvl_ok s cur -> call_good c -> do_call c s = (s', Ok tt) ->
  rec_view (expected_record_of s line c) = expected_view s cur c.
Proof.
  intros s s' cur c line [Hreach Hlvl] Hg Hcall.
  unfold rec_view, expected_record_of, expected_record. cbn [r_id r_opts r_payload].
  destruct c as [e|e|text enc ind le mt|md enc fmt|content dt enc le]; cbn [call_good] in Hg.
  - cbn [expected_view call_opts call_payload WF.target]. apply triple_eq; [reflexivity| |reflexivity].
    apply expected_hopts; [apply sort_container|]. constructor; [apply enc_ok_plain; exact Hg|constructor].
  - cbn [expected_view call_opts call_payload WF.target]. apply triple_eq; [reflexivity| |reflexivity].
    apply expected_hopts; [apply sort_container|]. constructor; [apply enc_ok_plain; exact Hg|constructor].
  - destruct Hg as (Henc & Hind & Hle).
    destruct (preamble_call_inv _ _ _ _ _ _ _ Hcall) as (t & -> & Hmt & Hncs).
    destruct (WC.C02_length_exact _ _ _ _ _ _ _ _ _ _ Hncs) as (body & lo & h & Hprep & _).
    cbn [expected_view call_prepared call_opts call_payload WF.target]. rewrite Hprep. cbn [fst snd].
    pose proof (prepare_text_le _ _ _ _ _ _ _ _ Hprep) as Hlo.
    destruct (resolve_le le t) as [x nl] eqn:Hres.
    rewrite (pre_resolve_resolve le t x nl Hle Hres) in Hlo |- *. cbn [fst snd] in Hlo |- *.
    assert (Hbl : body_length s (WritePreamble (WStr t) enc ind le mt) = content_length body).
    { unfold body_length, call_body. change (indent_or_default ind) with (preamble_indent ind). rewrite Hprep. reflexivity. }
    rewrite Hbl, Nat.add_sub, Hlvl. apply triple_eq; [reflexivity| |reflexivity].
    apply expected_hopts; [rewrite sort_pre, Hlo; reflexivity|].
    repeat (apply Forall_cons; cbn [snd]); try apply Forall_nil.
    + apply enc_ok_plain; exact Henc.
    + unfold indent_or_default. destruct ind as [v|]; [destruct Hind; exact I | exact I].
    + exact I.
    + destruct (prepared_le_out _ _ _ _ _ _ _ _ Hprep) as (y & _ & Ey & _ & Hx & _). rewrite Hlo in Ey, Hx. exact Hx.
    + eapply choice_plain; [exact WC.choice_sub_mimetypes | exact Hmt].
  - destruct Hg as (Henc & kv & ->).
    (* the JSON goes on as text when an encoding is in force, as bytes otherwise: C01's [call_prepared] and C05's
       [call_body] follow the writer *)
    pose proof (WF.Inv_stack _ (WF.reachable_inv _ Hreach)) as Hne.
    destruct (meta_call_inv_gen _ _ _ _ _ Hcall) as (j & d & he & Ej & _ & Hfmt & Hdump & Hhe & Hncs). injection Ej as <-.
    pose proof (has_enc_meta_enc s (WDict (JObj kv)) enc fmt he Hne Hhe) as Hme. cbn [meta_enc_b] in Hme.
    destruct (WC.C02_length_exact _ _ _ _ _ _ _ _ _ _ Hncs) as (body & lo & h & Hprep & _).
    assert (Hmc : meta_content s enc d = (if he then CText (ascii_text d) else CBytes d)).
    { unfold meta_content. rewrite Hme. reflexivity. }
    assert (Hmb : (if wv_truthy enc then true else wv_truthy (hd WNone (w_stack s))) = he).
    { rewrite <- Hme. unfold Encodings.w_content_encoding. destruct (wv_truthy enc) eqn:E; cbn [negb andb]; [exact (eq_sym E)|reflexivity]. }
    cbn [expected_view call_prepared call_opts call_payload WF.target]. rewrite Hdump, Hmc, Hprep. cbn [fst snd].
    assert (Hbl : body_length s (WriteMeta (WDict (JObj kv)) enc fmt) = content_length body).
    { unfold body_length, call_body. rewrite Hdump. cbn [bind]. cbv zeta. rewrite Hmb, Hprep. reflexivity. }
    rewrite Hbl, Nat.add_sub, Hlvl. apply triple_eq; [reflexivity| |reflexivity].
    assert (Hfp : plain (meta_fmt fmt)).
    { apply WC.in_strset_true in Hfmt. destruct Hfmt as (x & Hx & ->).
      assert (Hin : In x WC.choice_values) by (apply WC.choice_sub_meta_formats; exact Hx).
      destruct (choice_exact x Hin) as [He _]. exact He. }
    rewrite (expected_hopts _ _ (sort_meta body lo enc (meta_fmt fmt))).
    + change (format_or_default fmt) with (meta_fmt fmt). rewrite !hopts_cons. reflexivity.
    + repeat (apply Forall_cons; cbn [snd]); try apply Forall_nil; try exact I; [apply enc_ok_plain; exact Henc | exact Hfp].
  - destruct Hg as (Henc & Hle).
    destruct (diff_call_inv _ _ _ _ _ _ Hcall) as (b & -> & Hdt & Hncs).
    destruct (WC.C02_length_exact _ _ _ _ _ _ _ _ _ _ Hncs) as (body & lo & h & Hprep & _).
    cbn [expected_view call_prepared call_opts call_payload WF.target]. rewrite Hprep. cbn [fst snd].
    unfold diff_prepared. rewrite <- (diff_prepare_state s), Hprep.
    rewrite Nat.add_sub, Hlvl. apply triple_eq; [reflexivity| |reflexivity].
    rewrite (expected_hopts _ _ (sort_diff body lo enc dt)).
    + rewrite !hopts_cons. reflexivity.
    + repeat (apply Forall_cons; cbn [snd]); try apply Forall_nil; try exact I.
      * apply enc_ok_plain; exact Henc.
      * destruct (prepared_le_out _ _ _ _ _ _ _ _ Hprep) as (y & _ & Ey & _ & Hx & _). rewrite Ey in Hx |- *. exact Hx.
      * eapply choice_plain; [exact WC.choice_sub_diff_types | exact Hdt].
Qed.

Lemma lvl_ok_step : forall s s' cur c, lvl_ok s cur -> do_call c s = (s', Ok tt) -> lvl_ok s' (next_cursor cur c).
Proof.
  intros s s' cur c [Hr Hl] Hc. pose proof (WF.reachable_step _ _ _ _ Hr Hc) as Hr'. split; [exact Hr'|].
  destruct (Encodings.is_container_call c) eqn:Ec.
  - destruct (WF.C09_state_shape s' Hr') as (p & Hp & _ & _ & Hcl).
    rewrite (WF.C09_accept_prev s c s' Hr Hc) in Hp. injection Hp as <-. rewrite Hcl.
    destruct c; try discriminate Ec; reflexivity.
  - unfold cur_level. rewrite (Encodings.content_call_stack _ _ _ _ Ec Hc). fold (cur_level s). rewrite Hl.
    destruct c; try discriminate Ec; reflexivity.
Qed.

Lemma init_stack : forall enc0 ver s0, writer_init enc0 ver = (s0, Ok tt) ->
  exists x, w_stack s0 = [x; enc0] /\ (x = enc0).
Proof.
  intros enc0 ver s0 Hinit. unfold writer_init in Hinit.
  destruct (in_strset ver GenText.versions) as [[|]|]; try (inversion Hinit; fail).
  rewrite WF.ncs_eq in Hinit by (first [discriminate | unfold GenText.writer_level_main; lia]).
  destruct (validate_section _ _) as [[]|err]; [|inversion Hinit].
  destruct (render_header _ _) as [h|err]; [|inversion Hinit]. cbv zeta in Hinit.
  inversion Hinit. cbn [w_stack length Nat.sub skipn hd]. eexists. split; [reflexivity|].
  destruct (wv_truthy enc0); reflexivity.
Qed.

Lemma lvl_ok_init : forall enc0 ver s0, writer_init enc0 ver = (s0, Ok tt) -> lvl_ok s0 AtMain.
Proof.
  intros enc0 ver s0 H. split; [eapply WF.reachable_init; exact H|].
  destruct (init_stack _ _ _ H) as (x & E & _). unfold cur_level. rewrite E. reflexivity.
Qed.

Lemma views_of_records : forall cs s cur line, lvl_ok s cur -> Forall call_good cs -> accepted s cs ->
  map rec_view (expected_records s line cs) = expected_views s cur cs.
Proof.
  induction cs as [|c t IH]; intros s cur line Hl Hg Ha; [reflexivity|].
  destruct (accepted_cons _ _ _ Ha) as (s' & Hc & Ha'). inversion Hg as [|? ? Hgc Hgt]; subst.
  cbn [expected_records expected_views map]. rewrite Hc. cbn [fst].
  rewrite (view_of_record s s' cur c line Hl Hgc Hc). f_equal.
  apply IH; [eapply lvl_ok_step; eauto | exact Hgt | exact Ha'].
Qed.

Lemma main_view_of_record : forall enc0 ver s0, writer_init enc0 ver = (s0, Ok tt) -> enc_ok enc0 ->
  rec_view (main_record enc0 ver) = main_view enc0 ver.
Proof.
  intros enc0 ver s0 H He. unfold rec_view, main_record, main_view. cbn [r_id r_opts r_payload].
  apply triple_eq; [reflexivity| |reflexivity].
  apply expected_hopts; [apply sort_main|].
  constructor; [apply enc_ok_plain; exact He|]. constructor; [|constructor]. cbn [snd].
  unfold writer_init in H. destruct (in_strset ver GenText.versions) as [[|]|] eqn:Ev; try (inversion H; fail).
  apply WC.in_strset_true in Ev. destruct Ev as (x & Hx & ->).
  assert (Hxc : In x WC.choice_values) by (unfold WC.choice_values; do 4 (apply in_or_app; right); exact Hx).
  destruct (choice_exact x Hxc) as [Hxe _]. exact Hxe.
Qed.

Lemma views_of_records_main : forall enc0 ver s0 cs,
  writer_init enc0 ver = (s0, Ok tt) -> enc_ok enc0 -> Forall call_good cs -> accepted s0 cs ->
  map rec_view (main_record enc0 ver :: expected_records s0 1 cs) = main_view enc0 ver :: expected_views s0 AtMain cs.
Proof.
  intros enc0 ver s0 cs Hi He Hg Ha. cbn [map]. rewrite (main_view_of_record _ _ _ Hi He). f_equal.
  apply views_of_records; [eapply lvl_ok_init; exact Hi | exact Hg | exact Ha].
Qed.

(* the hypothesis of DomSpecFacts.C05_dom_round_trip, from C01 *)
Theorem reader_returns_expected_of_C01 : forall orc t b cs s0,
  writer_init (tree_encoding t) (tree_version t) = (s0, Ok tt) -> tree_calls t = Ok cs ->
  enc_ok (tree_encoding t) -> Forall call_good cs -> accepted s0 cs -> b = w_out (snd (run_calls s0 cs)) ->
  metas_oracle_ok orc s0 cs -> guesses_ok s0 cs -> oracle_ok orc cs -> (Z.of_nat (length b) <= sys_maxsize)%Z ->
  reader_returns_expected orc t b.
Proof.
  intros orc t b cs s0 Hi Hc He Hg Ha -> Hme Hgs Ho Hsz s0' cs' Hi' Hc'.
  rewrite Hi in Hi'. injection Hi' as <-. rewrite Hc in Hc'. injection Hc' as <-.
  exists (main_record (tree_encoding t) (tree_version t) :: expected_records s0 1 cs). split.
  - apply C01_round_trip; try assumption. unfold default_chunk. lia.
  - cbn [map]. rewrite (main_view_of_record _ _ _ Hi He). f_equal.
    apply views_of_records; [eapply lvl_ok_init; exact Hi | exact Hg | exact Ha].
Qed.

(* ================================================================================================ *)
(* 2. the calls of a tree are in the C01 argument domain                                               *)

(* [enc_ok], decidably: None, or an ASCII str that is a catalogue spelling of a modelled codec *)
Definition enc_okb (v : wv) : bool :=
  match v with
  | WNone => true
  | WStr t => match c_enc ascii t with
              | Some eb => match lookup_codec eb with LOk _ _ => true | _ => false end
              | None => false
              end
  | _ => false
  end.

Lemma enc_okb_ok : forall v, enc_okb v = true -> enc_ok v.
Proof.
  intros v H. destruct v; try discriminate H; [left; reflexivity|]. right. cbn [enc_okb] in H.
  destruct (c_enc ascii t) as [eb|] eqn:E; [|discriminate H].
  destruct (lookup_codec eb) as [canon c| |] eqn:L; try discriminate H.
  destruct (WC.enc_ascii_spec t eb E) as [-> _]. exists eb, canon, c. split; [reflexivity|exact L].
Qed.

Lemma enc_ok_okb : forall v, enc_ok v -> enc_okb v = true.
Proof.
  intros v [->|(eb & canon & c & -> & L)]; [reflexivity|]. cbn [enc_okb].
  destruct (spelling_facts _ _ _ L) as (_ & E & _). rewrite E, L. reflexivity.
Qed.

(* [enc_aligned], decidably *)
Definition enc_alignedb (v : wv) : bool :=
  match v with
  | WNone => true
  | WStr t => match c_enc ascii t with Some eb => aligned_b eb | None => false end
  | _ => false
  end.

Lemma enc_alignedb_ok : forall v, enc_alignedb v = true -> enc_aligned v.
Proof.
  intros v H. destruct v; try discriminate H; [left; reflexivity|]. right. cbn [enc_alignedb] in H.
  destruct (c_enc ascii t) as [eb|] eqn:E; [|discriminate H]. unfold aligned_b in H.
  destruct (lookup_codec eb) as [canon c| |] eqn:L; try discriminate H.
  destruct (WC.enc_ascii_spec t eb E) as [-> _]. exists eb, canon, c. split; [reflexivity|]. split; [exact L|].
  apply (HeaderFacts.mem_In byte_eqb HeaderFacts.byte_eqb_spec). exact H.
Qed.

Lemma enc_aligned_ok : forall v, enc_aligned v -> enc_ok v.
Proof. intros v [->|(eb & canon & c & -> & L & _)]; [left; reflexivity|right; eauto]. Qed.

(* [indent_ok], decidably: omitted, None or an int >= 0 *)
Definition indent_okb (i : option wv) : bool :=
  match i with None | Some WNone => true | Some (WInt z) => (0 <=? z)%Z | _ => false end.

Lemma indent_okb_ok : forall i, indent_okb i = true -> indent_ok i.
Proof.
  intros [v|] H; [|exact I]. destruct v; try discriminate H; cbn [indent_ok].
  - constructor.
  - constructor. apply Z.leb_le. exact H.
Qed.

(* what is asked of a call before it runs; line_endings / mimetype / type / format / content conditions follow
   from its being accepted *)
Definition call_pre (c : call) : Prop :=
  enc_ok (call_enc c) /\
  match c with
  | WritePreamble _ _ ind _ _ => indent_ok ind
  | WriteMeta md _ _ => exists kv, md = WDict (JObj kv)
  | _ => True
  end.

Definition call_preb (c : call) : bool :=
  enc_okb (call_enc c) &&
  match c with
  | WritePreamble _ _ ind _ _ => indent_okb ind
  | WriteMeta (WDict (JObj _)) _ _ => true
  | WriteMeta _ _ _ => false
  | _ => true
  end.

Lemma call_preb_ok : forall c, call_preb c = true -> call_pre c.
Proof.
  intros c H. unfold call_preb in H. apply andb_true_iff in H. destruct H as [H1 H2].
  split; [apply enc_okb_ok; exact H1|]. destruct c; try exact I.
  - apply indent_okb_ok. exact H2.
  - destruct metadata; try discriminate H2. destruct j; try discriminate H2. eexists. reflexivity.
Qed.

Lemma call_good_of_accepted : forall c s s', call_pre c -> do_call c s = (s', Ok tt) -> call_good c.
Proof.
  intros c s s' [He Hp] Hc. destruct c as [e|e|text enc ind le mt|md enc fmt|content dt enc le];
    cbn [call_good call_enc] in *; try exact He.
  - destruct (preamble_call_inv _ _ _ _ _ _ _ Hc) as (t & -> & _ & Hncs).
    destruct (WC.C02_length_exact _ _ _ _ _ _ _ _ _ _ Hncs) as (body & lo & h & Hprep & _).
    split; [exact He|]. split; [exact Hp|]. eapply prepare_le_arg. exact Hprep.
  - split; assumption.
  - destruct (diff_call_inv _ _ _ _ _ _ Hc) as (b & -> & _ & Hncs).
    destruct (WC.C02_length_exact _ _ _ _ _ _ _ _ _ _ Hncs) as (body & lo & h & Hprep & _).
    split; [exact He|]. eapply prepare_le_arg. exact Hprep.
Qed.

Lemma calls_good_of_accepted : forall cs s, Forall call_pre cs -> accepted s cs -> Forall call_good cs.
Proof.
  induction cs as [|c t IH]; intros s Hp Ha; [constructor|].
  inversion Hp; subst. destruct (accepted_cons _ _ _ Ha) as (s' & Hc & Ha').
  constructor; [eapply call_good_of_accepted; eauto | eapply IH; eauto].
Qed.

(* ---- which calls a tree issues ---- *)
Definition psec_enc (p : psec) : wv := kw (p_opts p) "encoding".
Definition msec_enc (m : msec) : wv := kw (remap "meta" (m_opts m)) "encoding".
Definition dsec_enc (d : dsec) : wv := kw (remap "diff" (x_opts d)) "encoding".
Definition copts_enc (o : dopts) : wv := kw o "encoding".

Inductive file_call (f : dfile) : call -> Prop :=
| fc_new : file_call f (NewFile (copts_enc (f_opts f)))
| fc_meta : forall c, call_meta (f_meta f) = Ok (Some c) -> file_call f c
| fc_diff : forall c, call_diff (f_diff f) = Ok (Some c) -> file_call f c.
Inductive change_call (ch : dchange) : call -> Prop :=
| cc_new : change_call ch (NewChange (copts_enc (c_opts ch)))
| cc_pre : forall c, call_preamble (c_pre ch) = Ok (Some c) -> change_call ch c
| cc_meta : forall c, call_meta (c_meta ch) = Ok (Some c) -> change_call ch c
| cc_file : forall f c, In f (c_files ch) -> file_call f c -> change_call ch c.
Inductive tree_call (t : dtree) : call -> Prop :=
| tc_pre : forall c, call_preamble (d_pre t) = Ok (Some c) -> tree_call t c
| tc_meta : forall c, call_meta (d_meta t) = Ok (Some c) -> tree_call t c
| tc_change : forall ch c, In ch (d_changes t) -> change_call ch c -> tree_call t c.

Lemma in_olist : forall (oc : option call) c, In c (olist oc) -> oc = Some c.
Proof. intros [x|] c H; cbn in H; [destruct H as [->|[]]; reflexivity | contradiction]. Qed.

Lemma file_calls_in : forall f cs, collect (file_thunks f) = Ok cs -> forall c, In c cs -> file_call f c.
Proof.
  intros f cs H c Hin. destruct (collect_file f cs H) as (om & od & Hm & Hd & ->).
  apply in_app_or in Hin. destruct Hin as [[<-|[]]|Hin]; [constructor|].
  apply in_app_or in Hin. destruct Hin as [Hin|Hin]; apply in_olist in Hin; subst.
  - apply fc_meta. exact Hm.
  - apply fc_diff. exact Hd.
Qed.

Lemma files_calls_in : forall fl cs, collect (flat_map file_thunks fl) = Ok cs ->
  forall c, In c cs -> exists f, In f fl /\ file_call f c.
Proof.
  induction fl as [|f fl IH]; intros cs H c Hin.
  - cbn in H. injection H as <-. contradiction.
  - cbn [flat_map] in H. rewrite collect_app in H.
    destruct (collect (file_thunks f)) as [c1|] eqn:C1; cbn [bind] in H; [|discriminate H].
    destruct (collect (flat_map file_thunks fl)) as [c2|] eqn:C2; cbn [bind] in H; [|discriminate H].
    injection H as <-. apply in_app_or in Hin. destruct Hin as [Hin|Hin].
    + exists f. split; [left; reflexivity | eapply file_calls_in; eauto].
    + destruct (IH c2 eq_refl c Hin) as (f' & Hf' & Hc'). exists f'. split; [right; exact Hf'|exact Hc'].
Qed.

Lemma change_calls_in : forall ch cs, collect (change_thunks ch) = Ok cs -> forall c, In c cs -> change_call ch c.
Proof.
  intros ch cs H c Hin. destruct (collect_change_head ch cs H) as (op & om & fcs & Hp & Hm & Hf & ->).
  apply in_app_or in Hin. destruct Hin as [[<-|[]]|Hin]; [constructor|].
  apply in_app_or in Hin. destruct Hin as [Hin|Hin]; [apply in_olist in Hin; subst; apply cc_pre; exact Hp|].
  apply in_app_or in Hin. destruct Hin as [Hin|Hin]; [apply in_olist in Hin; subst; apply cc_meta; exact Hm|].
  destruct (files_calls_in _ _ Hf c Hin) as (f & Hfi & Hfc). eapply cc_file; eauto.
Qed.

Lemma changes_calls_in : forall cl cs, collect (flat_map change_thunks cl) = Ok cs ->
  forall c, In c cs -> exists ch, In ch cl /\ change_call ch c.
Proof.
  induction cl as [|ch cl IH]; intros cs H c Hin.
  - cbn in H. injection H as <-. contradiction.
  - cbn [flat_map] in H. rewrite collect_app in H.
    destruct (collect (change_thunks ch)) as [c1|] eqn:C1; cbn [bind] in H; [|discriminate H].
    destruct (collect (flat_map change_thunks cl)) as [c2|] eqn:C2; cbn [bind] in H; [|discriminate H].
    injection H as <-. apply in_app_or in Hin. destruct Hin as [Hin|Hin].
    + exists ch. split; [left; reflexivity | eapply change_calls_in; eauto].
    + destruct (IH c2 eq_refl c Hin) as (ch' & Hch' & Hc'). exists ch'. split; [right; exact Hch'|exact Hc'].
Qed.

Theorem tree_calls_in : forall t cs, tree_calls t = Ok cs -> forall c, In c cs -> tree_call t c.
Proof.
  intros t cs H c Hin. destruct (collect_tree_head t cs H) as (op & om & ccs & Hp & Hm & Hc & ->).
  apply in_app_or in Hin. destruct Hin as [Hin|Hin]; [apply in_olist in Hin; subst; apply tc_pre; exact Hp|].
  apply in_app_or in Hin. destruct Hin as [Hin|Hin]; [apply in_olist in Hin; subst; apply tc_meta; exact Hm|].
  destruct (changes_calls_in _ _ Hc c Hin) as (ch & Hch & Hcc). eapply tc_change; eauto.
Qed.

(* the shape of the calls of the content sections *)
Lemma pre_call_shape : forall p c, call_preamble p = Ok (Some c) ->
  exists t, p_content p = Some t /\
    c = WritePreamble (WStr t) (psec_enc p) (kw_opt (p_opts p) "indent") (kw (p_opts p) "line_endings") (kw (p_opts p) "mimetype").
Proof.
  intros [o ct] c H. unfold call_preamble in H. unfold psec_enc. cbn [p_content p_opts] in *.
  destruct ct as [t|]; [|discriminate H]. destruct (is_nil t); [discriminate H|].
  destruct (negb (only_keys o _)); [discriminate H|]. injection H as <-. exists t. split; reflexivity.
Qed.

Lemma meta_call_shape : forall m c, call_meta m = Ok (Some c) ->
  c = WriteMeta (WDict (JObj (m_content m))) (msec_enc m) (kw_opt (remap "meta" (m_opts m)) "meta_format").
Proof.
  intros [o ct] c H. rewrite call_meta_eq in H. unfold msec_enc. cbn [m_content m_opts] in *.
  destruct (is_nil ct); [discriminate H|]. cbv zeta in H.
  destruct (negb (only_keys _ _)); [discriminate H|]. injection H as <-. reflexivity.
Qed.

Lemma diff_call_shape : forall d c, call_diff d = Ok (Some c) ->
  exists b, x_content d = Some b /\
    c = WriteDiff (WBytes b) (kw (remap "diff" (x_opts d)) "diff_type") (dsec_enc d) (kw (remap "diff" (x_opts d)) "line_endings").
Proof.
  intros [o ct] c H. unfold call_diff in H. unfold dsec_enc. cbn [x_content x_opts] in *.
  destruct ct as [b|]; [|discriminate H]. destruct (is_nil b); [discriminate H|].
  destruct (negb (only_keys _ _)); [discriminate H|]. injection H as <-. exists b. split; reflexivity.
Qed.

(* ---- the structural conditions on the tree ---- *)
(* encodings: the value the DOM writer passes as [encoding] for the main header, each change, each file and each
   content section satisfies P.  For metadata and diff sections the options go through the DOM writer's renaming
   [remap]; for a dict with unique keys that is the plain lookup of "encoding" (DomSpecFacts.remap_kw_meta /
   remap_kw_diff). *)
Section Encs.
  Variable P : wv -> bool.
  Definition file_encs (f : dfile) : bool :=
    P (copts_enc (f_opts f)) && P (msec_enc (f_meta f)) && P (dsec_enc (f_diff f)).
  Definition change_encs (c : dchange) : bool :=
    P (copts_enc (c_opts c)) && P (psec_enc (c_pre c)) && P (msec_enc (c_meta c)) && forallb file_encs (c_files c).
  Definition tree_encs (t : dtree) : bool :=
    P (tree_encoding t) && P (psec_enc (d_pre t)) && P (msec_enc (d_meta t)) && forallb change_encs (d_changes t).

  Lemma pre_call_enc : forall p c, call_preamble p = Ok (Some c) -> call_enc c = psec_enc p.
  Proof. intros p c H. destruct (pre_call_shape p c H) as (t & _ & ->). reflexivity. Qed.
  Lemma meta_call_enc : forall m c, call_meta m = Ok (Some c) -> call_enc c = msec_enc m.
  Proof. intros m c H. rewrite (meta_call_shape m c H). reflexivity. Qed.
  Lemma diff_call_enc : forall d c, call_diff d = Ok (Some c) -> call_enc c = dsec_enc d.
  Proof. intros d c H. destruct (diff_call_shape d c H) as (b & _ & ->). reflexivity. Qed.

  Lemma file_call_enc : forall f c, file_encs f = true -> file_call f c -> P (call_enc c) = true.
  Proof.
    intros f c He Hc. unfold file_encs in He. apply andb_true_iff in He. destruct He as [He E3].
    apply andb_true_iff in He. destruct He as [E1 E2].
    destruct Hc as [|c Hm|c Hd]; [exact E1 | rewrite (meta_call_enc _ _ Hm); exact E2 | rewrite (diff_call_enc _ _ Hd); exact E3].
  Qed.

  Lemma change_call_enc : forall ch c, change_encs ch = true -> change_call ch c -> P (call_enc c) = true.
  Proof.
    intros ch c He Hc. unfold change_encs in He. apply andb_true_iff in He. destruct He as [He E4].
    apply andb_true_iff in He. destruct He as [He E3]. apply andb_true_iff in He. destruct He as [E1 E2].
    destruct Hc as [|c Hp|c Hm|f c Hf Hfc]; [exact E1 | rewrite (pre_call_enc _ _ Hp); exact E2
                                            | rewrite (meta_call_enc _ _ Hm); exact E3 |].
    rewrite forallb_forall in E4. eapply file_call_enc; eauto.
  Qed.

  Lemma tree_call_enc : forall t c, tree_encs t = true -> tree_call t c -> P (call_enc c) = true.
  Proof.
    intros t c He Hc. unfold tree_encs in He. apply andb_true_iff in He. destruct He as [He E4].
    apply andb_true_iff in He. destruct He as [He E3]. apply andb_true_iff in He. destruct He as [E1 E2].
    destruct Hc as [c Hp|c Hm|ch c Hch Hcc]; [rewrite (pre_call_enc _ _ Hp); exact E2
                                             | rewrite (meta_call_enc _ _ Hm); exact E3 |].
    rewrite forallb_forall in E4. eapply change_call_enc; eauto.
  Qed.

  Theorem tree_encs_calls : forall t cs, tree_encs t = true -> tree_calls t = Ok cs ->
    Forall (fun c => P (call_enc c) = true) cs.
  Proof. intros t cs He H. apply Forall_forall. intros c Hin. eapply tree_call_enc; [exact He | eapply tree_calls_in; eauto]. Qed.

  Lemma tree_encs_main : forall t, tree_encs t = true -> P (tree_encoding t) = true.
  Proof.
    intros t He. unfold tree_encs in He. apply andb_true_iff in He. destruct He as [He _]. apply andb_true_iff in He.
    destruct He as [He _]. apply andb_true_iff in He. destruct He as [E1 _]. exact E1.
  Qed.
End Encs.

Lemma forallb_mono {A} : forall (f g : A -> bool) l, (forall x, f x = true -> g x = true) -> forallb f l = true -> forallb g l = true.
Proof. intros f g l H. rewrite !forallb_forall. intros Hf x Hx. apply H. apply Hf. exact Hx. Qed.

Lemma tree_encs_mono : forall (P Q : wv -> bool) t, (forall v, P v = true -> Q v = true) ->
  tree_encs P t = true -> tree_encs Q t = true.
Proof.
  intros P Q t H. unfold tree_encs. rewrite !andb_true_iff. intros [[[H1 H2] H3] H4].
  repeat split; try (apply H; assumption). revert H4. apply forallb_mono. intros ch. unfold change_encs.
  rewrite !andb_true_iff. intros [[[C1 C2] C3] C4]. repeat split; try (apply H; assumption).
  revert C4. apply forallb_mono. intros f. unfold file_encs. rewrite !andb_true_iff. intros [[F1 F2] F3].
  repeat split; apply H; assumption.
Qed.

(* all encodings are None or catalogue spellings of the ten modelled codecs *)
Definition tree_encs_ok (t : dtree) : bool := tree_encs enc_okb t.
(* ... of ascii / latin-1 / utf-8 / utf-8-sig *)
Definition tree_encs_aligned (t : dtree) : bool := tree_encs enc_alignedb t.

Lemma enc_alignedb_okb : forall v, enc_alignedb v = true -> enc_okb v = true.
Proof. intros v H. apply enc_ok_okb, enc_aligned_ok, enc_alignedb_ok. exact H. Qed.

Lemma tree_aligned_ok : forall t, tree_encs_aligned t = true -> tree_encs_ok t = true.
Proof. intros t. apply tree_encs_mono. exact enc_alignedb_okb. Qed.

(* preamble indents: absent, or an int >= 0 ([typed_tree] alone allows negative ints and strings) *)
Definition psec_indent_ok (p : psec) : bool := indent_okb (kw_opt (p_opts p) "indent").
Definition tree_indents_ok (t : dtree) : bool :=
  psec_indent_ok (d_pre t) && forallb (fun c => psec_indent_ok (c_pre c)) (d_changes t).

Lemma pre_call_rest : forall p c, call_preamble p = Ok (Some c) -> psec_indent_ok p = true ->
  match c with
  | WritePreamble _ _ ind _ _ => indent_ok ind
  | WriteMeta md _ _ => exists kv, md = WDict (JObj kv)
  | _ => True
  end.
Proof. intros p c H Hi. destruct (pre_call_shape p c H) as (t & _ & ->). apply indent_okb_ok. exact Hi. Qed.

Lemma meta_call_rest : forall m c, call_meta m = Ok (Some c) ->
  match c with
  | WritePreamble _ _ ind _ _ => indent_ok ind
  | WriteMeta md _ _ => exists kv, md = WDict (JObj kv)
  | _ => True
  end.
Proof. intros m c H. rewrite (meta_call_shape m c H). eexists. reflexivity. Qed.

Lemma diff_call_rest : forall d c, call_diff d = Ok (Some c) ->
  match c with
  | WritePreamble _ _ ind _ _ => indent_ok ind
  | WriteMeta md _ _ => exists kv, md = WDict (JObj kv)
  | _ => True
  end.
Proof. intros d c H. destruct (diff_call_shape d c H) as (b & _ & ->). exact I. Qed.

Theorem tree_calls_pre : forall t cs, tree_encs_ok t = true -> tree_indents_ok t = true -> tree_calls t = Ok cs ->
  Forall call_pre cs.
Proof.
  intros t cs He Hi H. apply Forall_forall. intros c Hin. pose proof (tree_calls_in t cs H c Hin) as Hc.
  split; [apply enc_okb_ok; eapply tree_call_enc; eauto|].
  unfold tree_indents_ok in Hi. apply andb_true_iff in Hi. destruct Hi as [I1 I2]. rewrite forallb_forall in I2.
  destruct Hc as [c Hp|c Hm|ch c Hch Hcc]; [eapply pre_call_rest; eauto | eapply meta_call_rest; eauto|].
  destruct Hcc as [|c Hp|c Hm|f c Hf Hfc]; [exact I | eapply pre_call_rest; eauto | eapply meta_call_rest; eauto|].
  destruct Hfc as [|c Hm|c Hd]; [exact I | eapply meta_call_rest; eauto | eapply diff_call_rest; eauto].
Qed.

Lemma tree_enc_ok : forall t, tree_encs_ok t = true -> enc_ok (tree_encoding t).
Proof. intros t He. apply enc_okb_ok. eapply tree_encs_main. exact He. Qed.

(* every call of the tree that the streaming writer accepted is in the argument domain of C01 *)
Theorem tree_calls_good : forall t cs s, tree_encs_ok t = true -> tree_indents_ok t = true ->
  tree_calls t = Ok cs -> accepted s cs -> Forall call_good cs.
Proof.
  intros t cs s He Hi H Ha. eapply calls_good_of_accepted; [|exact Ha]. eapply tree_calls_pre; eauto.
Qed.

(* the same without running the writer, when the declared line_endings are legal too (decidable on the tree; with
   [accepted] this follows, see [tree_calls_good]) *)
Definition le_okb (v : wv) : bool :=
  match v with
  | WNone => true
  | WStr t => existsb (fun x => teq t (ascii_text x)) GenText.line_endings_values
  | _ => false
  end.

Lemma le_okb_ok : forall v, le_okb v = true -> le_arg v.
Proof.
  intros v H. destruct v; try discriminate H; [constructor|]. cbn [le_okb] in H.
  apply existsb_exists in H. destruct H as (x & Hx & E). apply teq_eq in E. subst t. constructor. exact Hx.
Qed.

Definition psec_le (p : psec) : wv := kw (p_opts p) "line_endings".
Definition dsec_le (d : dsec) : wv := kw (remap "diff" (x_opts d)) "line_endings".
Definition tree_les_ok (t : dtree) : bool :=
  le_okb (psec_le (d_pre t)) &&
  forallb (fun ch => le_okb (psec_le (c_pre ch)) && forallb (fun f => le_okb (dsec_le (f_diff f))) (c_files ch)) (d_changes t).

Definition call_le_ok (c : call) : Prop :=
  match c with WritePreamble _ _ _ le _ | WriteDiff _ _ _ le => le_arg le | _ => True end.

Lemma pre_call_le : forall p c, call_preamble p = Ok (Some c) -> le_okb (psec_le p) = true -> call_le_ok c.
Proof. intros p c H Hl. destruct (pre_call_shape p c H) as (t & _ & ->). apply le_okb_ok. exact Hl. Qed.
Lemma meta_call_le : forall m c, call_meta m = Ok (Some c) -> call_le_ok c.
Proof. intros m c H. rewrite (meta_call_shape m c H). exact I. Qed.
Lemma diff_call_le : forall d c, call_diff d = Ok (Some c) -> le_okb (dsec_le d) = true -> call_le_ok c.
Proof. intros d c H Hl. destruct (diff_call_shape d c H) as (b & _ & ->). apply le_okb_ok. exact Hl. Qed.

Lemma tree_calls_le : forall t cs, tree_les_ok t = true -> tree_calls t = Ok cs -> Forall call_le_ok cs.
Proof.
  intros t cs Hl H. apply Forall_forall. intros c Hin. pose proof (tree_calls_in t cs H c Hin) as Hc.
  unfold tree_les_ok in Hl. apply andb_true_iff in Hl. destruct Hl as [L1 L2]. rewrite forallb_forall in L2.
  destruct Hc as [c Hp|c Hm|ch c Hch Hcc]; [eapply pre_call_le; eauto | eapply meta_call_le; eauto|].
  specialize (L2 ch Hch). apply andb_true_iff in L2. destruct L2 as [L2 L3]. rewrite forallb_forall in L3.
  destruct Hcc as [|c Hp|c Hm|f c Hf Hfc]; [exact I | eapply pre_call_le; eauto | eapply meta_call_le; eauto|].
  destruct Hfc as [|c Hm|c Hd]; [exact I | eapply meta_call_le; eauto | eapply diff_call_le; eauto].
Qed.

Theorem tree_calls_good_static : forall t cs, tree_encs_ok t = true -> tree_indents_ok t = true ->
  tree_les_ok t = true -> tree_calls t = Ok cs -> Forall call_good cs.
Proof.
  intros t cs He Hi Hl H. pose proof (tree_calls_pre t cs He Hi H) as Hp. pose proof (tree_calls_le t cs Hl H) as Hle.
  rewrite Forall_forall in *. intros c Hin. destruct (Hp c Hin) as [Henc Hr]. specialize (Hle c Hin).
  destruct c; cbn [call_good call_enc call_le_ok] in *; tauto.
Qed.

Theorem tree_calls_aligned : forall t cs, tree_encs_aligned t = true -> tree_calls t = Ok cs ->
  Forall (fun c => enc_aligned (call_enc c)) cs.
Proof.
  intros t cs He H. pose proof (tree_encs_calls enc_alignedb t cs He H) as F.
  eapply Forall_impl; [|exact F]. intros c Hc. apply enc_alignedb_ok. exact Hc.
Qed.

(* ================================================================================================ *)
(* 3. C05 without any hypothesis about the streaming reader                                            *)

(* the json.loads oracle answers  loads (dumps j ++ "\n") = j  for every metadata dict the tree writes *)
Definition tree_oracle_ok (orc : oracle) (t : dtree) : Prop :=
  forall cs, tree_calls t = Ok cs -> oracle_ok orc cs.
(* the newline guess of the metadata sections written in a UTF-16/32 family encoding (see C01) *)
Definition tree_guesses_ok (t : dtree) : Prop :=
  forall s0 cs, writer_init (tree_encoding t) (tree_version t) = (s0, Ok tt) -> tree_calls t = Ok cs -> guesses_ok s0 cs.

(* C01's [metas_oracle_ok] for the calls of the tree: with the fixed write_meta a tree without any encoding (the DOM
   default: encoding None) now serialises its metadata as ASCII bytes, which the reader hands to json.loads as
   bytes; at those sections the oracle must answer for the bytes.  Nothing is required where an encoding is in force;
   in particular nothing at all when the tree's main section has an encoding ([tree_metas_oracle_main]). *)
Definition tree_metas_oracle_ok (orc : oracle) (t : dtree) : Prop :=
  forall s0 cs, writer_init (tree_encoding t) (tree_version t) = (s0, Ok tt) -> tree_calls t = Ok cs -> metas_oracle_ok orc s0 cs.
Definition tree_metas_encoded (t : dtree) : Prop :=
  forall s0 cs, writer_init (tree_encoding t) (tree_version t) = (s0, Ok tt) -> tree_calls t = Ok cs -> metas_encoded s0 cs.

Lemma tree_metas_encoded_main : forall t, wv_truthy (tree_encoding t) = true -> tree_metas_encoded t.
Proof. intros t H s0 cs Hi _. eapply metas_encoded_init; eauto. Qed.
Lemma tree_metas_oracle_of_encoded : forall orc t, tree_metas_encoded t -> tree_metas_oracle_ok orc t.
Proof. intros orc t H s0 cs Hi Hc. apply metas_oracle_of_encoded. eapply H; eauto. Qed.
Lemma tree_metas_oracle_main : forall orc t, wv_truthy (tree_encoding t) = true -> tree_metas_oracle_ok orc t.
Proof. intros orc t H. apply tree_metas_oracle_of_encoded, tree_metas_encoded_main, H. Qed.

(* dom_write, unpacked for the C01 side *)
Lemma dom_write_accepted : forall t b, dom_write t = Ok b ->
  exists s0 cs, writer_init (tree_encoding t) (tree_version t) = (s0, Ok tt) /\ tree_calls t = Ok cs /\
                accepted s0 cs /\ b = w_out (snd (run_calls s0 cs)).
Proof.
  intros t b Hw. apply C05_write_is_calls in Hw. destruct Hw as (_ & s0 & cs & s1 & Hi & Hc & Hr & ->).
  destruct (run_all_accepted _ _ _ Hr) as [Ha <-]. exists s0, cs. auto.
Qed.

Theorem reader_returns_expected_tree : forall orc t b,
  tree_encs_ok t = true -> tree_indents_ok t = true -> dom_write t = Ok b ->
  tree_oracle_ok orc t -> tree_metas_oracle_ok orc t -> tree_guesses_ok t -> (Z.of_nat (length b) <= sys_maxsize)%Z ->
  reader_returns_expected orc t b.
Proof.
  intros orc t b He Hi Hw Ho Hme Hg Hsz.
  destruct (dom_write_accepted t b Hw) as (s0 & cs & Hinit & Hc & Ha & Hb).
  eapply reader_returns_expected_of_C01; eauto.
  - apply tree_enc_ok. exact He.
  - eapply tree_calls_good; eauto.
Qed.

Theorem C05_full : forall orc t b,
  typed_tree t = true -> tree_encs_ok t = true -> tree_indents_ok t = true ->
  dom_write t = Ok b ->
  tree_oracle_ok orc t -> tree_metas_oracle_ok orc t -> tree_guesses_ok t ->
  (Z.of_nat (length b) <= sys_maxsize)%Z ->
  dom_read orc b = Ok (normalise t).
Proof.
  intros orc t b Ht He Hi Hw Ho Hme Hg Hsz. apply C05_dom_round_trip; [exact Ht | exact Hw|].
  apply reader_returns_expected_tree; assumption.
Qed.

(* a sufficient condition on the tree itself: the oracle answers for the dict of every metadata section *)
Definition meta_oracle_ok (orc : oracle) (m : msec) : Prop :=
  forall d, json_dump (JObj (m_content m)) = Ok d ->
    assoc_get beq (oracle_key_text (ascii_text d ++ [10%N])) orc = Some (LoadsOk (JObj (m_content m))).
Definition tree_metas (t : dtree) : list msec :=
  d_meta t :: flat_map (fun ch => c_meta ch :: map f_meta (c_files ch)) (d_changes t).

Lemma meta_call_oracle : forall orc m c, call_meta m = Ok (Some c) -> meta_oracle_ok orc m -> oracle_ok_call orc c.
Proof. intros orc m c H Ho. rewrite (meta_call_shape m c H). exact Ho. Qed.
Lemma pre_call_oracle : forall orc p c, call_preamble p = Ok (Some c) -> oracle_ok_call orc c.
Proof. intros orc p c H. destruct (pre_call_shape p c H) as (t & _ & ->). exact I. Qed.
Lemma diff_call_oracle : forall orc d c, call_diff d = Ok (Some c) -> oracle_ok_call orc c.
Proof. intros orc d c H. destruct (diff_call_shape d c H) as (b & _ & ->). exact I. Qed.

Theorem tree_oracle_of_metas : forall orc t, Forall (meta_oracle_ok orc) (tree_metas t) -> tree_oracle_ok orc t.
Proof.
  intros orc t H cs Hc. apply Forall_forall. intros c Hin. pose proof (tree_calls_in t cs Hc c Hin) as Htc.
  rewrite Forall_forall in H. unfold tree_metas in H.
  destruct Htc as [c Hp|c Hm|ch c Hch Hcc].
  - eapply pre_call_oracle; eauto.
  - eapply meta_call_oracle; [exact Hm|]. apply H. left. reflexivity.
  - assert (Hsub : forall m, In m (c_meta ch :: map f_meta (c_files ch)) -> meta_oracle_ok orc m).
    { intros m Hm. apply H. right. apply in_flat_map. exists ch. split; assumption. }
    destruct Hcc as [|c Hp|c Hm|f c Hf Hfc]; [exact I | eapply pre_call_oracle; eauto | |].
    + eapply meta_call_oracle; [exact Hm|]. apply Hsub. left. reflexivity.
    + destruct Hfc as [|c Hm|c Hd]; [exact I | | eapply diff_call_oracle; eauto].
      eapply meta_call_oracle; [exact Hm|]. apply Hsub. right. apply in_map. exact Hf.
Qed.

(* no guess hypothesis when every encoding is None or a spelling of ascii / latin-1 / utf-8 / utf-8-sig *)
Lemma tree_guesses_aligned : forall t, tree_encs_aligned t = true -> tree_guesses_ok t.
Proof.
  intros t He s0 cs Hi Hc.
  destruct (init_stack _ _ _ Hi) as (x & Hst & ->).
  pose proof (enc_alignedb_ok _ (tree_encs_main enc_alignedb t He)) as H0.
  apply guesses_ok_aligned.
  - rewrite Hst. discriminate.
  - rewrite Hst. constructor; [exact H0|]. constructor; [exact H0|constructor].
  - eapply tree_calls_aligned; eauto.
Qed.

Theorem C05_full_aligned : forall orc t b,
  typed_tree t = true -> tree_encs_aligned t = true -> tree_indents_ok t = true ->
  dom_write t = Ok b ->
  tree_oracle_ok orc t -> tree_metas_oracle_ok orc t ->
  (Z.of_nat (length b) <= sys_maxsize)%Z ->
  dom_read orc b = Ok (normalise t).
Proof.
  intros orc t b Ht He Hi Hw Ho Hme Hsz.
  apply C05_full; try assumption; [apply tree_aligned_ok; exact He | apply tree_guesses_aligned; exact He].
Qed.

(* ================================================================================================ *)
(* 4. C06: parse what the object model wrote, serialise again                                         *)

(* the writer-state invariant needed: every entry of the encoding stack is an [enc_ok] value *)
Definition stk_ok (s : wstate) : Prop := w_stack s <> [] /\ Forall enc_ok (w_stack s).

Lemma stk_ok_step : forall c s, stk_ok s -> enc_ok (call_enc c) -> stk_ok (fst (do_call c s)).
Proof.
  intros c s [Hne Hst] Hc. unfold stk_ok.
  assert (Hcont : forall name lvl e, 1 <= lvl -> enc_ok e ->
            w_stack (fst (new_container_section name lvl e [] s)) <> [] /\
            Forall enc_ok (w_stack (fst (new_container_section name lvl e [] s)))).
  { intros name lvl e Hl Hea. rewrite WF.ncs_eq by assumption.
    destruct (validate_section s _) as [[]|err]; [|cbn [fst]; auto].
    destruct (render_header _ _) as [h|err]; [|cbn [fst]; auto]. cbv zeta. cbn [fst w_stack].
    split; [discriminate|]. pose proof (Forall_skipn enc_ok (length (w_stack s) - lvl) _ Hst) as Hsk.
    constructor; [|exact Hsk]. destruct (wv_truthy e); [exact Hea|].
    destruct (skipn _ (w_stack s)) as [|x l]; [left; reflexivity|]. inversion Hsk; assumption. }
  destruct c as [e|e|text enc ind le mt|md enc fmt|content dt enc le]; cbn [call_enc] in Hc.
  - apply Hcont; [vm_compute; lia|exact Hc].
  - apply Hcont; [vm_compute; lia|exact Hc].
  - destruct (do_call _ s) as [s' r] eqn:E. cbn [fst].
    pose proof (fun H => Encodings.content_call_stack _ _ _ _ H E) as Hs. rewrite Hs by reflexivity. auto.
  - destruct (do_call _ s) as [s' r] eqn:E. cbn [fst].
    pose proof (fun H => Encodings.content_call_stack _ _ _ _ H E) as Hs. rewrite Hs by reflexivity. auto.
  - destruct (do_call _ s) as [s' r] eqn:E. cbn [fst].
    pose proof (fun H => Encodings.content_call_stack _ _ _ _ H E) as Hs. rewrite Hs by reflexivity. auto.
Qed.

Lemma stk_ok_init : forall enc0 ver s0, writer_init enc0 ver = (s0, Ok tt) -> enc_ok enc0 -> stk_ok s0.
Proof.
  intros enc0 ver s0 H He. destruct (init_stack _ _ _ H) as (x & Hst & ->). unfold stk_ok. rewrite Hst.
  split; [discriminate|]. constructor; [exact He|]. constructor; [exact He|constructor].
Qed.

Lemma call_good_enc : forall c, call_good c -> enc_ok (call_enc c).
Proof. intros c H. destruct c; cbn [call_good call_enc] in *; tauto. Qed.

(* an accepted preamble text re-prepares to the same bytes: the encoding in force is a modelled codec and the
   text is encodable in it, so DomSpecText.C06_prepare_idem_text(_inherited) applies *)
Lemma text_stable_accepted : forall s t enc ind le body lo,
  stk_ok s -> enc_ok enc -> le_arg le -> indent_arg ind ->
  prepare_content s (CText t) ind le enc true = Ok (body, lo) -> text_prep_stable s t enc ind le.
Proof.
  intros s t enc ind le body lo [Hne Hst] Henc Hle Hind Hprep.
  destruct (w_stack s) as [|tw rest] eqn:Estk; [congruence|]. inversion Hst as [|? ? Htw _]; subst.
  assert (Hcur : cur_encoding s = Ok tw) by (unfold cur_encoding; rewrite Estk; reflexivity).
  destruct (WC.prepare_content_unfold _ _ _ _ _ _ _ _ Hprep) as (e1 & nl0 & nb & cb & H1 & _ & _ & H4 & Hnil & _).
  cbn [WC.encode_content] in H4. apply WC.encode_dyn_ok in H4. destruct H4 as (e & eb & -> & Hce & Hpy).
  assert (Ht : t <> []) by (destruct t; [discriminate Hnil|discriminate]).
  unfold WC.eff_enc in H1. rewrite (enc_ok_truthy enc Henc) in H1.
  destruct Henc as [->|(eb' & canon & cd & -> & Hlk)]; cbn [negb andb] in H1.
  - rewrite Hcur in H1. injection H1 as ->.
    destruct Htw as [E|(eb' & canon & cd & E & Hlk)]; [discriminate E|]. injection E as ->.
    destruct (spelling_facts _ _ _ Hlk) as (_ & Hce' & _). rewrite Hce' in Hce. injection Hce as <-.
    eapply C06_prepare_idem_text_inherited_ok; eauto. eapply codec_ok_modelled; eauto.
  - injection H1 as <-.
    destruct (spelling_facts _ _ _ Hlk) as (_ & Hce' & _). rewrite Hce' in Hce. injection Hce as <-.
    eapply C06_prepare_idem_text_ok; eauto. eapply codec_ok_modelled; eauto.
Qed.

Lemma pre_ok_accepted : forall s s' c, stk_ok s -> call_good c -> do_call c s = (s', Ok tt) -> pre_ok s c.
Proof.
  intros s s' c Hs Hg Hc. destruct c as [e|e|text enc ind le mt|md enc fmt|content dt enc le]; try exact I.
  destruct Hg as (Henc & Hind & Hle).
  destruct (preamble_call_inv _ _ _ _ _ _ _ Hc) as (t & -> & _ & Hncs).
  destruct (WC.C02_length_exact _ _ _ _ _ _ _ _ _ _ Hncs) as (body & lo & h & Hprep & _).
  cbn [pre_ok]. change (indent_or_default ind) with (preamble_indent ind).
  eapply text_stable_accepted; eauto.
  unfold preamble_indent. destruct ind as [v|]; [exact Hind|]. apply ia_int. vm_compute. discriminate.
Qed.

Theorem pre_ok_run_accepted : forall cs s, stk_ok s -> Forall call_good cs -> accepted s cs -> pre_ok_run s cs.
Proof.
  induction cs as [|c t IH]; intros s Hs Hg Ha; [exact I|].
  inversion Hg as [|? ? Hgc Hgt]; subst. destruct (accepted_cons _ _ _ Ha) as (s' & Hc & Ha').
  cbn [pre_ok_run]. split; [eapply pre_ok_accepted; eauto|].
  pose proof (stk_ok_step c s Hs (call_good_enc c Hgc)) as Hs'. rewrite Hc in *. cbn [fst] in *.
  apply IH; assumption.
Qed.

(* serialising the normalised tree gives the identical bytes: the hypothesis [pre_ok_run] of
   DomSpecFacts.C06_reserialise follows from the encodings being modelled codecs *)
Theorem C06_reserialise_full : forall t b,
  typed_tree t = true -> tree_encs_ok t = true -> tree_indents_ok t = true ->
  dom_write t = Ok b -> dom_write (normalise t) = Ok b.
Proof.
  intros t b Ht He Hi Hw. destruct (dom_write_accepted t b Hw) as (s0 & cs & Hinit & Hc & Ha & Hb).
  apply (C06_reserialise t b cs s0 Ht Hw Hc Hinit).
  apply pre_ok_run_accepted; [eapply stk_ok_init; [exact Hinit | apply tree_enc_ok; exact He] | | exact Ha].
  eapply tree_calls_good; eauto.
Qed.

(* parse what the object model wrote, serialise again: the identical bytes; the parsed tree is the normalised
   tree, a fixed point of normalisation, of write-then-read and of read-then-write *)
Theorem C06_full : forall orc t b,
  typed_tree t = true -> tree_encs_ok t = true -> tree_indents_ok t = true ->
  dom_write t = Ok b ->
  tree_oracle_ok orc t -> tree_metas_oracle_ok orc t -> tree_guesses_ok t ->
  (Z.of_nat (length b) <= sys_maxsize)%Z ->
  exists t', dom_read orc b = Ok t' /\ t' = normalise t /\
             dom_write t' = Ok b /\ normalise t' = t' /\
             (forall b', dom_write t' = Ok b' -> dom_read orc b' = Ok t').
Proof.
  intros orc t b Ht He Hi Hw Ho Hme Hg Hsz. exists (normalise t).
  pose proof (C05_full orc t b Ht He Hi Hw Ho Hme Hg Hsz) as Hr.
  pose proof (C06_reserialise_full t b Ht He Hi Hw) as Hw'.
  split; [exact Hr|]. split; [reflexivity|]. split; [exact Hw'|]. split; [apply C06_normalise_idem_typed; exact Ht|].
  intros b' Hb'. rewrite Hw' in Hb'. injection Hb' as <-. exact Hr.
Qed.

Theorem C06_full_aligned : forall orc t b,
  typed_tree t = true -> tree_encs_aligned t = true -> tree_indents_ok t = true ->
  dom_write t = Ok b ->
  tree_oracle_ok orc t -> tree_metas_oracle_ok orc t ->
  (Z.of_nat (length b) <= sys_maxsize)%Z ->
  exists t', dom_read orc b = Ok t' /\ t' = normalise t /\
             dom_write t' = Ok b /\ normalise t' = t' /\
             (forall b', dom_write t' = Ok b' -> dom_read orc b' = Ok t').
Proof.
  intros orc t b Ht He Hi Hw Ho Hme Hsz.
  apply C06_full; try assumption; [apply tree_aligned_ok; exact He | apply tree_guesses_aligned; exact He].
Qed.

(* ================================================================================================ *)
(* Examples: every hypothesis of C05_full / C06_full holds on DomSpecFacts.ex_tree (utf-8 only: the aligned form)
   and on ex_tree2 (utf-8, utf-16, latin-1; own and inherited encodings, indents 2 and 0, a dos diff) *)

Ltac oracle_tac :=
  let cs := fresh "cs" in let Hc := fresh "Hc" in
  intros cs Hc; vm_compute in Hc; injection Hc as <-; unfold oracle_ok;
  repeat (constructor; [first [exact I | let d := fresh "d" in let Hd := fresh "Hd" in
                                         intros d Hd; vm_compute in Hd; injection Hd as <-; vm_compute; reflexivity]|]);
  constructor.

Example ex_encs_aligned : tree_encs_aligned ex_tree = true.
Proof. vm_compute. reflexivity. Qed.
Example ex_indents : tree_indents_ok ex_tree = true.
Proof. vm_compute. reflexivity. Qed.
Example ex_oracle : tree_oracle_ok ex_orc ex_tree.
Proof. oracle_tac. Qed.
Example ex_metas : tree_metas_oracle_ok ex_orc ex_tree.
Proof. apply tree_metas_oracle_main. vm_compute. reflexivity. Qed.
Example ex_size : (Z.of_nat (length ex_bytes) <= sys_maxsize)%Z.
Proof. vm_compute. discriminate. Qed.

Example ex_C05_full : dom_read ex_orc ex_bytes = Ok (normalise ex_tree).
Proof. exact (C05_full_aligned ex_orc ex_tree ex_bytes ex_typed ex_encs_aligned ex_indents ex_write ex_oracle ex_metas ex_size). Qed.

Example ex2_encs : tree_encs_ok ex_tree2 = true.
Proof. vm_compute. reflexivity. Qed.
Example ex2_not_aligned : tree_encs_aligned ex_tree2 = false.
Proof. vm_compute. reflexivity. Qed.
Example ex2_indents : tree_indents_ok ex_tree2 = true.
Proof. vm_compute. reflexivity. Qed.
Example ex2_oracle : tree_oracle_ok ex_orc2 ex_tree2.
Proof. oracle_tac. Qed.
Example ex2_metas : tree_metas_oracle_ok ex_orc2 ex_tree2.
Proof. apply tree_metas_oracle_main. vm_compute. reflexivity. Qed.
Example ex2_guesses : tree_guesses_ok ex_tree2.
Proof.
  intros s0 cs Hi Hc. vm_compute in Hi. injection Hi as <-. vm_compute in Hc. injection Hc as <-.
  vm_compute. repeat split.
Qed.
Example ex2_size : (Z.of_nat (length ex_bytes2) <= sys_maxsize)%Z.
Proof. vm_compute. discriminate. Qed.

Example ex2_C05_full : dom_read ex_orc2 ex_bytes2 = Ok (normalise ex_tree2).
Proof.
  exact (C05_full ex_orc2 ex_tree2 ex_bytes2 ex2_typed ex2_encs ex2_indents (proj1 ex2_write) ex2_oracle ex2_metas ex2_guesses ex2_size).
Qed.

Example ex2_C06_full : exists t', dom_read ex_orc2 ex_bytes2 = Ok t' /\ t' = normalise ex_tree2 /\
  dom_write t' = Ok ex_bytes2 /\ normalise t' = t' /\ (forall b', dom_write t' = Ok b' -> dom_read ex_orc2 b' = Ok t').
Proof.
  exact (C06_full ex_orc2 ex_tree2 ex_bytes2 ex2_typed ex2_encs ex2_indents (proj1 ex2_write) ex2_oracle ex2_metas ex2_guesses ex2_size).
Qed.


(* a tree WITHOUT any encoding (the object model's default) that has metadata: before the fix of write_meta it did
   not serialise (TypeError); now the metadata goes out as ASCII bytes under a header without encoding, the reader
   asks json.loads about bytes, and with an oracle that answers for the bytes every hypothesis of C05_full / C06_full
   holds *)
Definition ex_tree3 : dtree :=
  {| d_opts := [(B "version", WStr (ascii_text (B "1.0")))];
     d_pre := new_psec;
     d_meta := {| m_opts := [(B "format", WStr (ascii_text (B "json")))]; m_content := [(ascii_text (B "k"), JInt 1)] |};
     d_changes := [] |}.
Definition ex_bytes3 : bytes :=
  B "#diffx: version=1.0" ++ [x0a] ++ B "#.meta: format=json, length=15" ++ [x0a] ++
  B "{" ++ [x0a] ++ B "    ""k"": 1" ++ [x0a] ++ B "}" ++ [x0a].
Definition ex_orc3 : oracle :=
  [(B "s{" ++ [x0a] ++ B "    ""k"": 1" ++ [x0a] ++ B "}" ++ [x0a], LoadsOk (JObj [(ascii_text (B "k"), JInt 1)]));
   (B "b{" ++ [x0a] ++ B "    ""k"": 1" ++ [x0a] ++ B "}" ++ [x0a], LoadsOk (JObj [(ascii_text (B "k"), JInt 1)]))].

Example ex3_hypotheses :
  typed_tree ex_tree3 = true /\ tree_encs_ok ex_tree3 = true /\ tree_indents_ok ex_tree3 = true /\
  dom_write ex_tree3 = Ok ex_bytes3 /\ tree_oracle_ok ex_orc3 ex_tree3 /\ ~ tree_metas_encoded ex_tree3 /\
  tree_metas_oracle_ok ex_orc3 ex_tree3 /\ tree_guesses_ok ex_tree3 /\ (Z.of_nat (length ex_bytes3) <= sys_maxsize)%Z.
Proof.
  split; [vm_compute; reflexivity|]. split; [vm_compute; reflexivity|]. split; [vm_compute; reflexivity|].
  split; [vm_compute; reflexivity|]. split; [oracle_tac|]. split; [|split; [|split]].
  - intros H. specialize (H _ _ eq_refl eq_refl). destruct H as [H _]. vm_compute in H. discriminate H.
  - intros s0 cs Hi Hc. vm_compute in Hi. injection Hi as <-. vm_compute in Hc. injection Hc as <-.
    split; [|exact I]. right. intros d Hd. vm_compute in Hd. injection Hd as <-. vm_compute. reflexivity.
  - intros s0 cs Hi Hc. vm_compute in Hi. injection Hi as <-. vm_compute in Hc. injection Hc as <-.
    vm_compute. repeat split.
  - vm_compute. discriminate.
Qed.

Example ex3_C06_full : exists t', dom_read ex_orc3 ex_bytes3 = Ok t' /\ t' = normalise ex_tree3 /\
  dom_write t' = Ok ex_bytes3 /\ normalise t' = t' /\ (forall b', dom_write t' = Ok b' -> dom_read ex_orc3 b' = Ok t').
Proof.
  destruct ex3_hypotheses as (H1 & H2 & H3 & H4 & H5 & _ & H6 & H7 & H8).
  exact (C06_full ex_orc3 ex_tree3 ex_bytes3 H1 H2 H3 H4 H5 H6 H7 H8).
Qed.
