"""Shared helpers for the streaming writer / reader families: dynamic-value encodings, running the
implementation with observation functions, the json.loads oracle recorder."""
import io
import json as _json

import lib
from lib import H, T, L, Lst, Opt

# ------------------------------------------------------------------ dynamic values (writer arguments)
# JSON form:  None | {"s": str} | {"b": hex} | {"i": int} | {"bool": bool} | {"d": json-with-bad} | "other"
BAD = {'__bad__': 1}


class Unserialisable(object):
    def __repr__(self):
        return '<unserialisable>'


KEY_INT = '__key_int__:'


def py_key(k):
    """case-JSON object key -> python dict key (a marker prefix stands for an int key, which JSON itself cannot carry)."""
    if isinstance(k, str) and k.startswith(KEY_INT):
        return int(k[len(KEY_INT):])
    if isinstance(k, str) and k.startswith('__key_tuple__:'):
        return tuple(k[len('__key_tuple__:'):].split(','))
    if isinstance(k, str) and k.startswith('__key_bytes__:'):
        return bytes.fromhex(k[len('__key_bytes__:'):])
    return k


def case_key(k):
    """python dict key -> case-JSON object key (inverse of py_key; keeps int and str keys apart in snapshots)."""
    if isinstance(k, bool) or not isinstance(k, (int, str)):
        return '__key_other__:%r' % (k,)
    if isinstance(k, int):
        return '%s%d' % (KEY_INT, k)
    return k


LIVE_KINDS = ['iter', 'map', 'reversed', 'zip', 'filter', 'enumerate', 'set', 'frozenset', 'range', 'keys', 'values', 'deque', 'bytes']
DICT_KINDS = ['defaultdict', 'defaultdict-dict', 'ordereddict', 'counter']     # dict subclasses: valid metadata containers


def live_value(kind, items):
    """A live Python value that JSON has no notation for (one-shot iterators, sets, views, ...)."""
    import collections
    if kind == 'iter':
        return iter(items)
    if kind == 'map':
        return map(str, items)
    if kind == 'reversed':
        return reversed(items)
    if kind == 'zip':
        return zip(items, items)
    if kind == 'filter':
        return filter(None, items)
    if kind == 'enumerate':
        return enumerate(items)
    if kind == 'set':
        return set(items)
    if kind == 'frozenset':
        return frozenset(items)
    if kind == 'range':
        return range(len(items))
    if kind == 'keys':
        return dict.fromkeys(items).keys()
    if kind == 'values':
        return {i: v for i, v in enumerate(items)}.values()
    if kind == 'deque':
        return collections.deque(items)
    if kind == 'bytes':
        return ''.join(map(str, items)).encode()
    if kind == 'defaultdict':
        return collections.defaultdict(list, [(k, v) for k, v in items])      # reading a missing key INSERTS it
    if kind == 'defaultdict-dict':
        return collections.defaultdict(dict, [(k, v) for k, v in items])
    if kind == 'ordereddict':
        return collections.OrderedDict([(k, v) for k, v in items])
    if kind == 'counter':
        return collections.Counter({k: 1 for k, v in items})
    raise ValueError(kind)


def live_dump(x):
    """A comparable dump of a value that may hold live objects: what a one-shot iterator STILL has to give is part of
    the value (read from a deep copy, so looking does not consume it)."""
    import copy
    if isinstance(x, dict):
        return {case_key(k): live_dump(v) for k, v in x.items()}
    if isinstance(x, (list, tuple)):
        return [live_dump(v) for v in x]
    if isinstance(x, (str, int, float, bool)) or x is None:
        return x
    if isinstance(x, (set, frozenset)):
        return {'__set__': sorted(repr(v) for v in x)}
    if isinstance(x, (bytes, bytearray, range)):
        return {'__%s__' % type(x).__name__: repr(x)}
    if hasattr(x, '__next__'):
        try:
            return {'__iterator__': type(x).__name__, 'remaining': [live_dump(v) for v in copy.deepcopy(x)]}
        except Exception:
            return {'__iterator__': type(x).__name__}
    try:
        return {'__%s__' % type(x).__name__: [live_dump(v) for v in list(x)]}
    except Exception:
        return {'__object__': type(x).__name__}


def py_json(j):
    """case-JSON -> python object for json.dumps (with BAD leaves turned into an unserialisable object)."""
    if isinstance(j, dict):
        if j == BAD:
            return Unserialisable()
        if '__live__' in j:
            return live_value(j['__live__'], [py_json(v) for v in j['items']])
        if '__tuple__' in j:
            return tuple(py_json(v) for v in j['__tuple__'])      # JSON writes a tuple as an array
        return {py_key(k): py_json(v) for k, v in j.items()}
    if isinstance(j, list):
        return [py_json(v) for v in j]
    return j


def pyval(w):
    if w is None:
        return None
    if w == 'other':
        return 1.5
    if 's' in w:
        return w['s']
    if 'b' in w:
        return bytes.fromhex(w['b'])
    if 'i' in w:
        return w['i']
    if 'f' in w:
        return float(w['f'])
    if 'bool' in w:
        return w['bool']
    if 'd' in w:
        return py_json(w['d'])
    raise ValueError(w)


def json_sx(j):
    """python JSON value -> wire form (object keys sorted by code point)."""
    if isinstance(j, Unserialisable):
        return 'bad'
    if j is None:
        return 'null'
    if j is True:
        return 'true'
    if j is False:
        return 'false'
    if isinstance(j, int):
        return '(i %d)' % j
    if isinstance(j, float):
        return '(f %s)' % H(repr(j).encode('ascii'))
    if isinstance(j, str):
        return '(s %s)' % T(j)
    if isinstance(j, (list, tuple)):
        return '(l' + ''.join(' ' + json_sx(x) for x in j) + ')'
    if isinstance(j, dict):
        if not all(isinstance(k, str) for k in j):
            # json.dumps(sort_keys=True) sorts the ORIGINAL keys: an int next to a str cannot be ordered (TypeError), and
            # several ints sort numerically, not as the strings they are written as; only a single int key is modelled
            if len(j) == 1 and isinstance(next(iter(j)), int) and not isinstance(next(iter(j)), bool):
                (k, v), = j.items()
                return '(o (%s %s))' % (T(str(k)), json_sx(v))
            return 'bad'
        items = sorted(j.items(), key=lambda kv: [ord(c) for c in kv[0]])
        return '(o' + ''.join(' (%s %s)' % (T(k), json_sx(v)) for k, v in items) + ')'
    raise ValueError('json_sx: %r' % (j,))


def wv_sx(w):
    if w is None:
        return 'none'
    if w == 'other':
        return 'other'
    if w == 'omitted':
        return 'omitted'
    if 's' in w:
        return T(w['s'])
    if 'b' in w:
        return '#' + w['b']
    if 'i' in w:
        return '(i %d)' % w['i']
    if 'f' in w:
        return 'other'          # a float (even an integral one) is not an int: the model's "some other object"
    if 'bool' in w:
        return 'true' if w['bool'] else 'false'
    if 'd' in w:
        return '(d %s)' % json_sx(py_json(w['d']))
    raise ValueError(w)


def call_sx(c):
    return '(' + c[0] + ''.join(' ' + wv_sx(a) for a in c[1:]) + ')'


def S(s):
    return {'s': s}


def Bv(b):
    return {'b': bytes(b).hex()}


# ------------------------------------------------------------------ running the writer
def apply_call(w, c):
    name = c[0]
    if name == 'new_change':
        return w.new_change(encoding=pyval(c[1]))
    if name == 'new_file':
        return w.new_file(encoding=pyval(c[1]))
    if name == 'write_preamble':
        kw = dict(encoding=pyval(c[2]), line_endings=pyval(c[4]), mimetype=pyval(c[5]))
        if c[3] != 'omitted':
            kw['indent'] = pyval(c[3])
        return w.write_preamble(pyval(c[1]), **kw)
    if name == 'write_meta':
        kw = dict(encoding=pyval(c[2]))
        if c[3] != 'omitted':
            kw['meta_format'] = pyval(c[3])
        return w.write_meta(pyval(c[1]), **kw)
    if name == 'write_diff':
        return w.write_diff(pyval(c[1]), diff_type=pyval(c[2]), encoding=pyval(c[3]), line_endings=pyval(c[4]))
    raise ValueError(name)


def run_writer(enc, version, calls):
    """Returns (observation string in the model's format with exception names collapsed, final bytes or None,
    per-call list of (ok, len_after, exception class or None))."""
    from pydiffx.writer import DiffXWriter
    stream = io.BytesIO()
    try:
        w = DiffXWriter(stream, encoding=pyval(enc), version=pyval(version))
    except Exception as e:
        return '(init (exc))', None, [(False, 0, type(e))]
    init_len = len(stream.getvalue())
    st = []
    per = []
    for c in calls:
        try:
            apply_call(w, c)
            n = len(stream.getvalue())
            st.append('(ok %d)' % n)
            per.append((True, n, None))
        except Exception as e:
            n = len(stream.getvalue())
            st.append('((exc) %d)' % n)
            per.append((False, n, type(e)))
    data = stream.getvalue()
    return '(ok %d (%s) %s)' % (init_len, ' '.join(st), H(data)), data, per


def write_model_line(enc, version, calls):
    return L('write', wv_sx(enc), wv_sx(version), Lst([call_sx(c) for c in calls]))


# ------------------------------------------------------------------ running the reader
class LoadsRecorder(object):
    """Stands in for the json module inside pydiffx.reader: records every json.loads call."""
    def __init__(self):
        self.table = {}

    def loads(self, arg, *a, **kw):
        if isinstance(arg, str):
            key = b's' + arg.encode('utf-8', 'surrogatepass')
        else:
            key = b'b' + bytes(arg)
        try:
            r = _json.loads(arg, *a, **kw)
        except RecursionError:
            self.table[key] = 'recursion'
            raise
        except ValueError:
            self.table[key] = 'valueerror'
            raise
        try:
            self.table[key] = '(ok %s)' % json_sx(r)
        except (ValueError, RecursionError):
            self.table[key] = 'UNENCODABLE'
        return r

    def __getattr__(self, name):
        return getattr(_json, name)


def record_sx(r):
    opts = sorted(r['options'].items(), key=lambda kv: kv[0].encode('ascii', 'replace'))
    o = []
    for k, v in opts:
        if isinstance(v, bool) or not isinstance(v, (int, str)):
            vv = '(weird)'
        elif isinstance(v, int):
            vv = '(i %d)' % v
        else:
            vv = '(s %s)' % H(v.encode('ascii', 'replace'))
        o.append('(%s %s)' % (H(k.encode('ascii', 'replace')), vv))
    if 'text' in r:
        t = r['text']
        p = '(text %s)' % T(t) if isinstance(t, str) else '(bytes %s)' % H(t)
    elif 'metadata' in r:
        p = '(meta %s)' % json_sx(r['metadata'])
    elif 'diff' in r:
        d = r['diff']
        p = '(bytes %s)' % H(d) if isinstance(d, bytes) else '(text %s)' % T(d)
    else:
        p = 'none'
    return '(%d %d %s %s (%s) %s)' % (r['level'], r['line'], H(r['section'].encode('ascii')),
                                      H(r['type'].encode('ascii')), ' '.join(o), p)


def _open_stream(data, wrap):
    """The byte stream handed to the reader: an in-memory stream, the same wrapped in a BufferedReader, or a real file."""
    if wrap == 'buffered':
        return io.BufferedReader(io.BytesIO(data)), None
    if wrap in ('offset', 'offset-junk'):
        # the document is not at the start of the stream: it follows a copy of itself (two documents in one stream) or
        # bytes that are not DiffX at all, and the stream is positioned at its first byte
        prefix = data if wrap == 'offset' else b'From: someone\n\n' + data[:7][::-1] * 3
        fp = io.BytesIO(prefix + data)
        fp.seek(len(prefix))
        return fp, None
    if wrap == 'file':
        import os
        import tempfile
        import lib
        fd, path = tempfile.mkstemp(prefix='stream-', dir=lib.WORK)
        with os.fdopen(fd, 'wb') as f:
            f.write(data)
        return open(path, 'rb'), path
    return io.BytesIO(data), None


def run_reader(data, chunk=None, wrap=None):
    """Iterates DiffXReader over data. Returns (observation, records, termination tuple, oracle sx)."""
    import pydiffx.reader as rmod
    from pydiffx.errors import DiffXParseError
    rec = LoadsRecorder()
    saved = rmod.json
    rmod.json = rec
    records = []
    try:
        cls = rmod.DiffXReader
        if chunk is not None:
            base = cls

            class Chunked(base):
                def _read_until(self, c, chunk_size=chunk):
                    return base._read_until(self, c, chunk_size=chunk)
            cls = Chunked
        fp, path = _open_stream(data, wrap)
        try:
            for r in cls(fp):
                records.append(r)
            term = ('end',)
        except DiffXParseError as e:
            term = ('parse', e.linenum, e.column, str(e))
        except Exception as e:
            term = ('exc', type(e).__name__, str(e)[:200])
        finally:
            try:
                fp.close()
            except Exception:
                pass
            if path:
                import os
                try:
                    os.remove(path)
                except OSError:
                    pass
    finally:
        rmod.json = saved
    if term[0] == 'end':
        t = 'end'
    elif term[0] == 'parse':
        t = '(parse %s %s)' % (term[1], 'none' if term[2] is None else '(some %d)' % term[2])
    else:
        t = '(exc)'
    try:
        obs = '((%s) %s)' % (' '.join(record_sx(r) for r in records), t)
    except RecursionError:
        obs = '(unprintable)'
    orc = '(' + ' '.join('(%s %s)' % (H(k), v) for k, v in rec.table.items()) + ')'
    return obs, records, term, orc


def read_model_line(data, orc, chunk=96):
    return L('read', str(chunk), H(data), orc)


import re
_EXC_RE = re.compile(r'\(exc \w[\w-]*\)')


def collapse_exc(line):
    return _EXC_RE.sub('(exc)', line)


def run_reader_twice(data):
    """The SAME reader object iterated a second time after rewinding the stream: returns the second pass's (records, term).
    Nothing of the first pass may survive in the reader except what __init__ set up (line numbers are not compared)."""
    import pydiffx.reader as rmod
    from pydiffx.errors import DiffXParseError
    fp = io.BytesIO(data)
    reader = rmod.DiffXReader(fp)
    try:
        for _ in reader:
            pass
    except Exception:
        pass
    fp.seek(0)
    records = []
    try:
        for r in reader:
            records.append(r)
        term = ('end',)
    except DiffXParseError as e:
        term = ('parse', e.linenum, e.column, str(e))
    except Exception as e:
        term = ('exc', type(e).__name__, str(e)[:200])
    return records, term
