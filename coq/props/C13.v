(* C13 — generated statistics.  Statements only; proofs are in theories/DomFacts.v.
   Vocabulary (DomFacts.v): [fs_newline o diff] is the newline generate_stats splits the diff with (declared line
   endings or guessed, in the declared encoding); [fs_recode enc diff nl] the UTF-8 version of (diff, newline) when
   both decode; [fs_analyse d] = FSkip | FStats dels ins | FErr e is what the file-level method computes from the
   diff section alone (file_stats_eq: file_stats is fs_analyse followed by the update of meta['stats']);
   [old_stats m] is the dict under m['stats'] ({} if absent); [jupdate src dst] is dst.update(src);
   [stat_of k m] is the figure m['stats'].get(k, 0); [strip_stats t] erases every 'stats' entry of t.
   The counts [dels]/[ins] of a text diff are those of the hunk parser (C14 relates them to the "-"/"+" lines inside
   hunks); whatever the declared line endings and encoding, they enter only through fs_newline / fs_recode. *)
From Coq Require Import List Arith NArith ZArith Bool Strings.Byte.
From Coq Require Strings.String.
From DX Require Import Bytes Res Codec Text Json Writer Hunks Dom HunksFacts DomFacts DomStatsFacts.
Import ListNotations.
Import String.StringSyntax.
Local Open Scope string_scope.
Local Open Scope list_scope.

(* generate_stats on a file = analysis of the diff section, then meta['stats'].update(...) *)
Theorem C13_file_decomposition : forall f,
  file_stats f = match fs_analyse (f_diff f) with
                 | FSkip => Ok f
                 | FErr e => Err e
                 | FStats dels ins => do m <- merge_stats (m_content (f_meta f)) (file_stat_list dels ins); Ok (with_file_meta f m)
                 end.
Proof. exact file_stats_eq. Qed.
Print Assumptions C13_file_decomposition.

(* absent, empty, binary, unsplittable and unparsable diffs: the file is returned as it was *)
Theorem C13_skip : forall f,
  (x_content (f_diff f) = None -> file_stats f = Ok f) /\
  (x_content (f_diff f) = Some [] -> file_stats f = Ok f) /\
  (wv_eq (kw (x_opts (f_diff f)) "type") binary_type = true -> file_stats f = Ok f) /\
  (forall diff nl diff' nl',
     x_content (f_diff f) = Some diff ->
     fs_newline (x_opts (f_diff f)) diff = Ok nl ->
     fs_recode (text_of (kw (x_opts (f_diff f)) "encoding")) diff nl = Ok (diff', nl') ->
     (forall lines, split_lines diff' nl' false = Ok lines ->
                    exists l n e, get_unified_diff_hunks lines true = Malformed l n e) ->
     file_stats f = Ok f).
Proof. exact DomFacts.C13_skip. Qed.
Print Assumptions C13_skip.
Example C13_skip_ex : fs_analyse (f_diff ex_file2) = FSkip /\ file_stats ex_file2 = Ok ex_file2.
Proof. split; vm_compute; reflexivity. Qed.

(* a text diff that splits and parses: the stats object is the old one updated with the three figures *)
Theorem C13_file : forall f f' diff nl diff' nl' lines hs n dels ins,
  x_content (f_diff f) = Some diff -> diff <> [] -> wv_eq (kw (x_opts (f_diff f)) "type") binary_type = false ->
  fs_newline (x_opts (f_diff f)) diff = Ok nl ->
  fs_recode (text_of (kw (x_opts (f_diff f)) "encoding")) diff nl = Ok (diff', nl') ->
  split_lines diff' nl' false = Ok lines ->
  get_unified_diff_hunks lines true = HunksOk hs n dels ins ->
  file_stats f = Ok f' ->
  let old := old_stats (m_content (f_meta f)) in
  let st' := jupdate (file_stat_list dels ins) old in
  f_opts f' = f_opts f /\ f_diff f' = f_diff f /\ m_opts (f_meta f') = m_opts (f_meta f) /\
  m_content (f_meta f') = jset "stats" (JObj st') (m_content (f_meta f)) /\
  jget "stats" (m_content (f_meta f')) = Some (JObj st') /\
  jget "deletions" st' = Some (JInt dels) /\ jget "insertions" st' = Some (JInt ins) /\
  jget "lines changed" st' = Some (JInt (dels + ins)) /\
  (forall k, k <> skey "deletions" -> k <> skey "insertions" -> k <> skey "lines changed" ->
             assoc_get teq k st' = assoc_get teq k old) /\
  (forall k, In k (map fst old) -> In k (map fst st')) /\
  (forall k, k <> stats_key -> assoc_get teq k (m_content (f_meta f')) = assoc_get teq k (m_content (f_meta f))).
Proof. exact DomFacts.C13_file. Qed.
Print Assumptions C13_file.
(* ... and it does succeed unless an existing meta['stats'] is not a dict *)
Theorem C13_file_total : forall f dels ins,
  fs_analyse (f_diff f) = FStats dels ins ->
  (jget "stats" (m_content (f_meta f)) = None \/ exists o, jget "stats" (m_content (f_meta f)) = Some (JObj o)) ->
  file_stats f = Ok (with_file_meta f (jset "stats" (JObj (jupdate (file_stat_list dels ins) (old_stats (m_content (f_meta f))))) (m_content (f_meta f)))).
Proof. exact DomFacts.C13_file_total. Qed.
Print Assumptions C13_file_total.
Example C13_file_ex : exists nl lines hs n,
  x_content (f_diff ex_file1) = Some ex_diff /\ ex_diff <> [] /\
  wv_eq (kw (x_opts (f_diff ex_file1)) "type") binary_type = false /\
  fs_newline (x_opts (f_diff ex_file1)) ex_diff = Ok nl /\
  fs_recode (text_of (kw (x_opts (f_diff ex_file1)) "encoding")) ex_diff nl = Ok (ex_diff, nl) /\
  split_lines ex_diff nl false = Ok lines /\
  get_unified_diff_hunks lines true = HunksOk hs n 1 2 /\
  exists f', file_stats ex_file1 = Ok f' /\ jget "stats" (m_content (f_meta f')) = Some (JObj ex_file1_stats).
Proof.
  eexists. eexists. eexists. eexists.
  split; [reflexivity|]. split; [discriminate|]. split; [vm_compute; reflexivity|].
  split; [vm_compute; reflexivity|]. split; [vm_compute; reflexivity|]. split; [vm_compute; reflexivity|].
  split; [vm_compute; reflexivity|]. eexists. split; vm_compute; reflexivity.
Qed.

(* a change reports its file count and the sums of what its files report *)
Theorem C13_change_sums : forall c c', change_stats c = Ok c' ->
  Forall2 (fun f f' => file_stats f = Ok f') (c_files c) (c_files c') /\
  exists st, jget "stats" (m_content (c_meta c')) = Some (JObj st) /\
    jget "files" st = Some (JInt (Z.of_nat (length (c_files c')))) /\
    length (c_files c') = length (c_files c) /\
    jget "insertions" st = Some (JInt (zsum (map (file_fig "insertions") (c_files c')))) /\
    jget "deletions" st = Some (JInt (zsum (map (file_fig "deletions") (c_files c')))) /\
    jget "lines changed" st = Some (JInt (zsum (map (file_fig "lines changed") (c_files c')))).
Proof. exact DomFacts.C13_change_sums. Qed.
Print Assumptions C13_change_sums.

(* the file as a whole reports the change count and the sums over changes *)
Theorem C13_tree_sums : forall t t', tree_stats t = Ok t' ->
  Forall2 (fun c c' => change_stats c = Ok c') (d_changes t) (d_changes t') /\
  exists st, jget "stats" (m_content (d_meta t')) = Some (JObj st) /\
    jget "changes" st = Some (JInt (Z.of_nat (length (d_changes t')))) /\
    length (d_changes t') = length (d_changes t) /\
    jget "files" st = Some (JInt (zsum (map (change_fig "files") (d_changes t')))) /\
    jget "insertions" st = Some (JInt (zsum (map (change_fig "insertions") (d_changes t')))) /\
    jget "deletions" st = Some (JInt (zsum (map (change_fig "deletions") (d_changes t')))) /\
    jget "lines changed" st = Some (JInt (zsum (map (change_fig "lines changed") (d_changes t')))).
Proof. exact DomFacts.C13_tree_sums. Qed.
Print Assumptions C13_tree_sums.
(* ... which are the sums over all files of all changes *)
Theorem C13_tree_totals : forall t t', tree_stats t = Ok t' ->
  exists st, jget "stats" (m_content (d_meta t')) = Some (JObj st) /\
    jget "changes" st = Some (JInt (Z.of_nat (length (d_changes t')))) /\
    jget "files" st = Some (JInt (zsum (map (fun c => Z.of_nat (length (c_files c))) (d_changes t')))) /\
    jget "insertions" st = Some (JInt (zsum (map (fun c => zsum (map (file_fig "insertions") (c_files c))) (d_changes t')))) /\
    jget "deletions" st = Some (JInt (zsum (map (fun c => zsum (map (file_fig "deletions") (c_files c))) (d_changes t')))) /\
    jget "lines changed" st = Some (JInt (zsum (map (fun c => zsum (map (file_fig "lines changed") (c_files c))) (d_changes t')))).
Proof. exact DomFacts.C13_tree_totals. Qed.
Print Assumptions C13_tree_totals.
(* one change, two files (a text diff with 2 insertions / 1 deletion and pre-existing custom stats; a binary diff) *)
Example C13_tree_ex : tree_stats ex_tree = Ok ex_tree_out.
Proof. vm_compute. reflexivity. Qed.

(* shape, options, contents and every metadata key other than 'stats' are unchanged everywhere *)
Theorem C13_preserve : forall t t', tree_stats t = Ok t' ->
  strip_stats t' = strip_stats t /\
  length (d_changes t') = length (d_changes t) /\
  Forall2 (fun c c' => length (c_files c') = length (c_files c)) (d_changes t) (d_changes t').
Proof. exact DomFacts.C13_preserve. Qed.
Print Assumptions C13_preserve.
(* what equality of the erasures means *)
Theorem C13_preserve_meaning : forall t t', strip_stats t' = strip_stats t ->
  d_opts t' = d_opts t /\ d_pre t' = d_pre t /\
  (m_opts (d_meta t') = m_opts (d_meta t) /\
   forall k, k <> stats_key -> assoc_get teq k (m_content (d_meta t')) = assoc_get teq k (m_content (d_meta t))) /\
  Forall2 (fun c c' =>
     c_opts c' = c_opts c /\ c_pre c' = c_pre c /\
     (m_opts (c_meta c') = m_opts (c_meta c) /\
      forall k, k <> stats_key -> assoc_get teq k (m_content (c_meta c')) = assoc_get teq k (m_content (c_meta c))) /\
     Forall2 (fun f f' =>
        f_opts f' = f_opts f /\ f_diff f' = f_diff f /\
        (m_opts (f_meta f') = m_opts (f_meta f) /\
         forall k, k <> stats_key -> assoc_get teq k (m_content (f_meta f')) = assoc_get teq k (m_content (f_meta f))))
       (c_files c) (c_files c'))
    (d_changes t) (d_changes t').
Proof. exact DomFacts.C13_preserve_meaning. Qed.
Print Assumptions C13_preserve_meaning.
(* inside each stats object every key other than the computed ones is kept, at each of the three levels *)
Theorem C13_preserve_custom :
  (forall f f' k, file_stats f = Ok f' -> ~ In k file_keys ->
     assoc_get teq k (old_stats (m_content (f_meta f'))) = assoc_get teq k (old_stats (m_content (f_meta f)))) /\
  (forall c c' k, change_stats c = Ok c' -> ~ In k change_keys ->
     assoc_get teq k (old_stats (m_content (c_meta c'))) = assoc_get teq k (old_stats (m_content (c_meta c)))) /\
  (forall t t' k, tree_stats t = Ok t' -> ~ In k tree_keys ->
     assoc_get teq k (old_stats (m_content (d_meta t'))) = assoc_get teq k (old_stats (m_content (d_meta t)))).
Proof. exact DomFacts.C13_preserve_custom. Qed.
Print Assumptions C13_preserve_custom.

(* generating twice equals generating once — plain equality, and the second run cannot fail *)
Theorem C13_idem : forall t t1 t2, tree_stats t = Ok t1 -> tree_stats t1 = Ok t2 -> t2 = t1.
Proof. exact DomFacts.C13_idem. Qed.
Print Assumptions C13_idem.
Theorem C13_idem_total : forall t t1, tree_stats t = Ok t1 -> tree_stats t1 = Ok t1.
Proof. exact DomFacts.C13_idem_total. Qed.
Print Assumptions C13_idem_total.
Example C13_idem_ex : tree_stats ex_tree_out = Ok ex_tree_out.
Proof. vm_compute. reflexivity. Qed.

(* ---- end to end: the figures are the numbers of "-" and "+" lines inside the hunks (C16 + C14 + the above) ----
   [join_lf lines] is the text made of [lines], each terminated by LF; hunk ASTs, [render_hunk], [wf_hunk],
   [interleave], [non_header], [total_del]/[total_ins] are those of C14 (HunksFacts.v).  The declared encoding and line
   endings enter only through fs_newline / fs_recode: the hypothesis is that the diff, once brought to UTF-8 with
   newline LF by them, is that text (identity for ASCII-transparent encodings, transcoding for UTF-16/32). *)
Theorem C13_file_counts : forall d diff nl diff' hs seps,
  x_content d = Some diff -> diff <> [] -> wv_eq (kw (x_opts d) "type") binary_type = false ->
  fs_newline (x_opts d) diff = Ok nl ->
  fs_recode (text_of (kw (x_opts d) "encoding")) diff nl = Ok (diff', lf) ->
  Forall wf_hunk hs -> List.length seps = S (List.length hs) -> Forall (Forall non_header) seps ->
  let lines := interleave seps (map render_hunk hs) in
  lines <> [] -> Forall (fun l => ~ In x0a l) lines -> diff' = join_lf lines ->
  fs_analyse d = FStats (Z.of_nat (total_del hs)) (Z.of_nat (total_ins hs)).
Proof. exact DomStatsFacts.C13_file_counts. Qed.
Print Assumptions C13_file_counts.
Theorem C13_totals_def : forall hs,
  total_del hs = fold_right (fun a n => (countb is_del (a_body a) + n)%nat) 0%nat hs /\
  total_ins hs = fold_right (fun a n => (countb is_ins (a_body a) + n)%nat) 0%nat hs.
Proof. exact DomStatsFacts.C13_totals_def. Qed.
Print Assumptions C13_totals_def.
(* instance without guessing or transcoding: no declared encoding, line endings declared "unix" *)
Theorem C13_file_counts_plain : forall f hs seps le,
  x_opts (f_diff f) = le ->
  kw le "type" = WNone -> kw le "encoding" = WNone -> kw le "line_endings" = S_ "unix" ->
  Forall wf_hunk hs -> List.length seps = S (List.length hs) -> Forall (Forall non_header) seps ->
  let lines := interleave seps (map render_hunk hs) in
  lines <> [] -> Forall (fun l => ~ In x0a l) lines ->
  x_content (f_diff f) = Some (join_lf lines) ->
  (jget "stats" (m_content (f_meta f)) = None \/ exists o, jget "stats" (m_content (f_meta f)) = Some (JObj o)) ->
  exists f', file_stats f = Ok f' /\
    file_fig "deletions" f' = Z.of_nat (total_del hs) /\ file_fig "insertions" f' = Z.of_nat (total_ins hs) /\
    file_fig "lines changed" f' = (Z.of_nat (total_del hs) + Z.of_nat (total_ins hs))%Z.
Proof. exact DomStatsFacts.C13_file_counts_plain. Qed.
Print Assumptions C13_file_counts_plain.
(* the hypotheses are satisfiable: three hunks between garbage lines (C14's example), as plain bytes with declared unix
   line endings, and the same text as UTF-16 with a BOM and guessed line endings *)
Example C13_file_counts_ex :
  fs_analyse {| x_opts := [(B "line_endings", S_ "unix")]; x_content := Some (join_lf ex_lines) |} = FStats 2 3 /\
  fs_analyse {| x_opts := [(B "encoding", S_ "utf-16")]; x_content := Some ex_utf16 |} = FStats 2 3 /\
  ex_utf16 <> join_lf ex_lines.
Proof.
  assert (NLF : Forall (fun l => ~ In x0a l) ex_lines).
  { rewrite ex_lines_text. repeat constructor; vm_compute; intuition discriminate. }
  split; [|split].
  - apply (C13_file_counts _ (join_lf ex_lines) lf (join_lf ex_lines) ex_hs ex_seps); auto;
      try (vm_compute; reflexivity); try discriminate.
    + exact ex_wf.
    + exact ex_seps_non_header.
  - apply (C13_file_counts _ ex_utf16 [x0a; x00] (join_lf ex_lines) ex_hs ex_seps); auto;
      try (vm_compute; reflexivity); try discriminate.
    + exact ex_wf.
    + exact ex_seps_non_header.
  - vm_compute. discriminate.
Qed.
