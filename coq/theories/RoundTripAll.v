(* RoundTripAll.v — every spelling of the catalogue that resolves to one of the ten executable codecs satisfies
   the codec laws, hence the content round trip (property C01, per-section core) holds for all of them. *)
From Coq Require Import List Arith NArith ZArith Bool Lia Strings.Byte.
From Coq Require Strings.String.
From DX Require Import Bytes Res Codec Text Sections Header Stream Json Reader Writer TextFacts
                       RoundTripCodec RoundTripCodecInst RoundTripCodecUtf RoundTripContent RoundTripGuess.
From DXGen Require GenText GenCodecs.
Import ListNotations.
Import String.StringSyntax.
Local Open Scope string_scope.
Local Open Scope list_scope.

Theorem codec_ok_modelled : forall enc canon c, lookup_codec enc = LOk canon c -> codec_ok enc.
Proof.
  intros enc canon c H. pose proof (lookup_modelled enc canon c H) as Hm.
  unfold modelled in Hm. cbn [assoc_get] in Hm.
  repeat match type of Hm with
         | (if beq canon ?k then _ else _) = _ =>
             let E := fresh "E" in destruct (beq canon k) eqn:E; [apply beq_eq in E; subst canon; clear Hm | clear E]
         end; [.. | discriminate].
  - exact (codec_ok_ascii enc c H).
  - exact (codec_ok_latin1 enc c H).
  - exact (codec_ok_utf8 enc c H).
  - exact (codec_ok_utf8sig enc c H).
  - exact (codec_ok_utf16 enc c H).
  - exact (codec_ok_utf16le enc c H).
  - exact (codec_ok_utf16be enc c H).
  - exact (codec_ok_utf32 enc c H).
  - exact (codec_ok_utf32le enc c H).
  - exact (codec_ok_utf32be enc c H).
Qed.

(* the catalogue spellings named in the task *)
Lemma codec_ok_spelled :
  codec_ok (B "ascii") /\ codec_ok (B "latin-1") /\ codec_ok (B "utf-8") /\ codec_ok (B "utf-8-sig") /\
  codec_ok (B "utf-16") /\ codec_ok (B "utf-16-le") /\ codec_ok (B "utf-16-be") /\
  codec_ok (B "utf-32") /\ codec_ok (B "utf-32-le") /\ codec_ok (B "utf-32-be").
Proof.
  repeat split.
  - apply (codec_ok_ascii _ ascii). reflexivity.
  - apply (codec_ok_latin1 _ latin1). reflexivity.
  - apply (codec_ok_utf8 _ utf8). reflexivity.
  - apply (codec_ok_utf8sig _ utf8sig). reflexivity.
  - apply (codec_ok_utf16 _ utf16). reflexivity.
  - apply (codec_ok_utf16le _ utf16le). reflexivity.
  - apply (codec_ok_utf16be _ utf16be). reflexivity.
  - apply (codec_ok_utf32 _ utf32). reflexivity.
  - apply (codec_ok_utf32le _ utf32le). reflexivity.
  - apply (codec_ok_utf32be _ utf32be). reflexivity.
Qed.

(* how many spellings of the catalogue that covers *)
Definition is_modelled (r : GenCodecs.codec_row) : bool :=
  match lookup_codec (GenCodecs.cr_spelling r) with LOk _ _ => true | _ => false end.

Lemma modelled_spellings_ok : forall r, In r GenCodecs.rows -> is_modelled r = true -> codec_ok (GenCodecs.cr_spelling r).
Proof.
  intros r _ H. unfold is_modelled in H. destruct (lookup_codec (GenCodecs.cr_spelling r)) eqn:E; try discriminate.
  exact (codec_ok_modelled _ _ _ E).
Qed.

(* one lemma per spelling named in the task *)
Lemma codec_ok_sp_ascii : codec_ok (B "ascii").
Proof. apply (codec_ok_ascii _ ascii). reflexivity. Qed.
Lemma codec_ok_sp_latin1 : codec_ok (B "latin-1").
Proof. apply (codec_ok_latin1 _ latin1). reflexivity. Qed.
Lemma codec_ok_sp_utf8 : codec_ok (B "utf-8").
Proof. apply (codec_ok_utf8 _ utf8). reflexivity. Qed.
Lemma codec_ok_sp_utf8sig : codec_ok (B "utf-8-sig").
Proof. apply (codec_ok_utf8sig _ utf8sig). reflexivity. Qed.
Lemma codec_ok_sp_utf16 : codec_ok (B "utf-16").
Proof. apply (codec_ok_utf16 _ utf16). reflexivity. Qed.
Lemma codec_ok_sp_utf16le : codec_ok (B "utf-16-le").
Proof. apply (codec_ok_utf16le _ utf16le). reflexivity. Qed.
Lemma codec_ok_sp_utf16be : codec_ok (B "utf-16-be").
Proof. apply (codec_ok_utf16be _ utf16be). reflexivity. Qed.
Lemma codec_ok_sp_utf32 : codec_ok (B "utf-32").
Proof. apply (codec_ok_utf32 _ utf32). reflexivity. Qed.
Lemma codec_ok_sp_utf32le : codec_ok (B "utf-32-le").
Proof. apply (codec_ok_utf32le _ utf32le). reflexivity. Qed.
Lemma codec_ok_sp_utf32be : codec_ok (B "utf-32-be").
Proof. apply (codec_ok_utf32be _ utf32be). reflexivity. Qed.

Lemma codec_ok_aligned_sp :
  codec_ok_aligned (B "ascii") /\ codec_ok_aligned (B "latin-1") /\ codec_ok_aligned (B "utf-8") /\ codec_ok_aligned (B "utf-8-sig").
Proof.
  repeat split.
  - apply (codec_ok_aligned_ascii _ ascii). reflexivity.
  - apply (codec_ok_aligned_latin1 _ latin1). reflexivity.
  - apply (codec_ok_aligned_utf8 _ utf8). reflexivity.
  - apply (codec_ok_aligned_utf8sig _ utf8sig). reflexivity.
Qed.

(* every spelling resolving to a single-byte-newline codec is aligned *)
Theorem codec_ok_aligned_modelled : forall enc canon c, lookup_codec enc = LOk canon c ->
  In canon [B "ascii"; B "iso8859-1"; B "utf-8"; B "utf-8-sig"] -> codec_ok_aligned enc.
Proof.
  intros enc canon c H Hin. cbn [In] in Hin. destruct Hin as [<-|[<-|[<-|[<-|[]]]]].
  - exact (codec_ok_aligned_ascii enc c H).
  - exact (codec_ok_aligned_latin1 enc c H).
  - exact (codec_ok_aligned_utf8 enc c H).
  - exact (codec_ok_aligned_utf8sig enc c H).
Qed.

(* the alignment law genuinely fails for UTF-16: U+0A41 U+4100 contains a misaligned encoded LF, the reader's
   guess on the bytes finds a newline where the text has none *)
Example utf16_misaligned :
  let t := [0x0A41; 0x4100]%N in
  find N.eqb (nl_text GenText.le_unix) t = None /\
  exists b, py_encode t (B "utf-16-le") = Ok b /\ bfind [x0a; x00] b = Some 1.
Proof. split; [reflexivity|]. eexists. split; reflexivity. Qed.

(* Observation (not a round-trip failure): with UTF-16 the byte-level splitting of writer and reader also cuts at
   the misaligned LF, so for the one-line text U+0A41 U+4100 with indent 2 the indentation is inserted in the
   middle of a character and the reader counts two lines.  The pydiffx reader undoes exactly what the writer did
   and returns the text; a reader that decoded first and stripped afterwards would see another text. *)
Example utf16_misaligned_indent :
  let t := [0x0A41; 0x4100]%N in
  let body := [x20; x20; x41; x0a; x00; x20; x20; x41; x0a; x00] in
  prepare_content {| w_out := []; w_stack := [WNone]; w_prev := None |} (CText t) (WInt 2)
                  (WStr (ascii_text (B "unix"))) (WStr (ascii_text (B "utf-16-le"))) true
    = Ok (body, WStr (ascii_text (B "unix"))) /\
  read_content {| st_stream := {| s_data := body; s_pos := 0 |}; st_linenum := 0; st_fnl := None |}
               10 (Some (VStr (B "utf-16-le"))) (Some (VInt 2)) (Some (VStr (B "unix"))) false
    = COk (PText (t ++ [10]%N)) {| st_stream := {| s_data := body; s_pos := 10 |}; st_linenum := 2; st_fnl := None |} /\
  py_decode body (B "utf-16-le") = Ok [0x2020; 0x0A41; 0x2000; 0x4120; 10]%N.
Proof. cbv zeta. split; [|split]; vm_compute; reflexivity. Qed.
