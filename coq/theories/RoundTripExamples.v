(* RoundTripExamples.v — non-vacuity of the content round trip theorems (property C01): concrete writer outputs and
   reader results by computation, and the hypotheses of the theorems discharged on those instances. *)
From Coq Require Import List Arith NArith ZArith Bool Lia Strings.Byte.
From Coq Require Strings.String.
From DX Require Import Bytes Res Codec Text Sections Header Stream Json Reader Writer TextFacts
                       RoundTripCodec RoundTripCodecInst RoundTripCodecUtf RoundTripContent RoundTripGuess.
From DXGen Require GenText GenCodecs.
Import ListNotations.
Import String.StringSyntax.
Local Open Scope string_scope.
Local Open Scope list_scope.

Definition s0 : wstate := {| w_out := []; w_stack := [WNone]; w_prev := None |}.

(* ------------------------------------------------------------------------------------------------ *)
(* 1. UTF-16 (with BOM), non-ASCII text, indent 4, dos.  The second line starts with two spaces and U+2020,
      whose UTF-16-LE bytes are 20 20; U+20AC contains the byte 20 as well; no final newline. *)

Definition ex1_t : text := [97; 233; 13; 10; 32; 32; 0x2020; 98; 0x20AC]%N.      (* "a" e-acute CR LF sp sp dagger "b" euro *)
Definition ex1_e : text := ascii_text (B "utf-16").
Definition ex1_le : wv := WStr (ascii_text (B "dos")).
Definition ex1_body : bytes :=
  [x20; x20; x20; x20;  xff; xfe;  x61; x00;  xe9; x00;  x0d; x00; x0a; x00;
   x20; x20; x20; x20;  x20; x00;  x20; x00;  x20; x20;  x62; x00;  xac; x20;  x0d; x00; x0a; x00].

Example ex1_writer :
  prepare_content s0 (CText ex1_t) (WInt 4) ex1_le (WStr ex1_e) true = Ok (ex1_body, ex1_le).
Proof. vm_compute. reflexivity. Qed.

Definition ex1_st : rstate :=
  {| st_stream := {| s_data := B "#.preamble: x" ++ [x0a] ++ ex1_body ++ B "#.meta: y"; s_pos := 14 |};
     st_linenum := 3; st_fnl := Some [x0a] |}.

Example ex1_reader :
  read_content ex1_st (Z.of_nat (length ex1_body)) (Some (VStr (B "utf-16"))) (Some (VInt 4)) (Some (VStr (B "dos"))) false
  = COk (PText (ex1_t ++ [13; 10]%N))
        {| st_stream := {| s_data := s_data (st_stream ex1_st); s_pos := 14 + length ex1_body |};
           st_linenum := 5; st_fnl := Some [x0a] |}.
Proof. vm_compute. reflexivity. Qed.

Example ex1_hypotheses :
  codec_ok (B "utf-16") /\ c_enc ascii ex1_e = Some (B "utf-16") /\ ex1_t <> [] /\
  (exists x, py_encode ex1_t (B "utf-16") = Ok x) /\ le_arg ex1_le /\ indent_arg (WInt 4).
Proof.
  split; [apply (codec_ok_utf16 _ utf16); reflexivity|].
  split; [vm_compute; reflexivity|]. split; [discriminate|].
  split; [exists (match py_encode ex1_t (B "utf-16") with Ok x => x | Err _ => [] end); vm_compute; reflexivity|].
  split; [apply la_decl; cbv; auto | apply ia_int; lia].
Qed.

(* the theorem applied to the instance gives the computed facts back *)
Example ex1_by_theorem :
  exists (body : bytes) (lines : list bytes),
    prepare_content s0 (CText ex1_t) (WInt 4) ex1_le (WStr ex1_e) true = Ok (body, ex1_le) /\
    forall st rest, remaining (st_stream st) = body ++ rest -> (Z.of_nat (length body) <= sys_maxsize)%Z ->
      exists st',
        read_content st (Z.of_nat (length body)) (Some (VStr (B "utf-16"))) (Some (VInt 4)) (Some (VStr (B "dos"))) false
          = COk (PText (ex1_t ++ [13; 10]%N)) st' /\
        remaining (st_stream st') = rest /\ st_linenum st' = (st_linenum st + Z.of_nat (length lines))%Z.
Proof.
  destruct ex1_hypotheses as [H1 [H2 [H3 [[x H4] [H5 H6]]]]].
  destruct (content_round_trip_ok (B "utf-16") H1 s0 ex1_e ex1_t x ex1_le (WInt 4) H2 H3 H4 H5 H6)
    as [body [le [nl [nlb [y [lines [R1 [_ [_ [_ [_ [_ [R7 R8]]]]]]]]]]]]].
  assert (E : resolve_le ex1_le ex1_t = (B "dos", [13; 10]%N)) by (vm_compute; reflexivity).
  rewrite E in R1. injection R1 as <- <-.
  exists body, lines. split; [exact R7|].
  intros st rest Hr Hm. destruct (R8 st rest Hr Hm) as [st' [Q1 [Q2 [Q3 _]]]].
  exists st'. change (final_text [13; 10]%N ex1_t) with (ex1_t ++ [13; 10]%N) in Q1. auto.
Qed.

(* ------------------------------------------------------------------------------------------------ *)
(* 2. a text that looks like headers, UTF-8, line endings guessed (unix), with and without indentation *)

Definition ex2_t : text := ascii_text (B "#.change:" ++ [x0a] ++ B "#..meta: length=3" ++ [x0a] ++ B " x").
Definition ex2_e : text := ascii_text (B "utf-8").
Definition ex2_body0 : bytes := B "#.change:" ++ [x0a] ++ B "#..meta: length=3" ++ [x0a] ++ B " x" ++ [x0a].
Definition ex2_body2 : bytes := B "  #.change:" ++ [x0a] ++ B "  #..meta: length=3" ++ [x0a] ++ B "   x" ++ [x0a].

Example ex2_writer :
  prepare_content s0 (CText ex2_t) WNone WNone (WStr ex2_e) true = Ok (ex2_body0, WStr (ascii_text (B "unix"))) /\
  prepare_content s0 (CText ex2_t) (WInt 2) WNone (WStr ex2_e) true = Ok (ex2_body2, WStr (ascii_text (B "unix"))).
Proof. split; vm_compute; reflexivity. Qed.

Definition ex2_st (body : bytes) : rstate :=
  {| st_stream := {| s_data := body ++ B "#.change:" ++ [x0a]; s_pos := 0 |}; st_linenum := 1; st_fnl := Some [x0a] |}.

Example ex2_reader :
  read_content (ex2_st ex2_body0) (Z.of_nat (length ex2_body0)) (Some (VStr (B "utf-8"))) None (Some (VStr (B "unix"))) false
  = COk (PText (ex2_t ++ [10]%N))
        {| st_stream := {| s_data := s_data (st_stream (ex2_st ex2_body0)); s_pos := length ex2_body0 |};
           st_linenum := 4; st_fnl := Some [x0a] |} /\
  read_content (ex2_st ex2_body2) (Z.of_nat (length ex2_body2)) (Some (VStr (B "utf-8"))) (Some (VInt 2)) (Some (VStr (B "unix"))) false
  = COk (PText (ex2_t ++ [10]%N))
        {| st_stream := {| s_data := s_data (st_stream (ex2_st ex2_body2)); s_pos := length ex2_body2 |};
           st_linenum := 4; st_fnl := Some [x0a] |}.
Proof. split; vm_compute; reflexivity. Qed.

Example ex2_hypotheses :
  codec_ok (B "utf-8") /\ c_enc ascii ex2_e = Some (B "utf-8") /\ ex2_t <> [] /\
  (exists x, py_encode ex2_t (B "utf-8") = Ok x) /\ le_arg WNone /\ indent_arg WNone /\ indent_arg (WInt 2).
Proof.
  split; [apply (codec_ok_utf8 _ utf8); reflexivity|].
  split; [vm_compute; reflexivity|]. split; [discriminate|].
  split; [exists (match py_encode ex2_t (B "utf-8") with Ok x => x | Err _ => [] end); vm_compute; reflexivity|].
  split; [apply la_none|]. split; [apply ia_none | apply ia_int; lia].
Qed.

(* ------------------------------------------------------------------------------------------------ *)
(* 3. diffs: bytes in, bytes out.  CRLF diff without final newline, no encoding (newline guessed: dos);
      and a UTF-16-LE diff with declared unix line endings *)

Definition ex3_b : bytes := B "--- a" ++ [x0d; x0a] ++ B "+++ b" ++ [x0d; x0a] ++ B "@@ -1 +1 @@" ++ [x0d; x0a] ++ B "-x" ++ [x0d; x0a] ++ B "+y".
Definition ex3_body : bytes := ex3_b ++ [x0d; x0a].

Example ex3_writer :
  prepare_content s0 (CBytes ex3_b) WNone WNone WNone false = Ok (ex3_body, WStr (ascii_text (B "dos"))).
Proof. vm_compute. reflexivity. Qed.

Example ex3_reader :
  read_content {| st_stream := {| s_data := ex3_body ++ B "#.change:"; s_pos := 0 |}; st_linenum := 10; st_fnl := None |}
               (Z.of_nat (length ex3_body)) None None (Some (VStr (B "dos"))) true
  = COk (PBytes ex3_body)
        {| st_stream := {| s_data := ex3_body ++ B "#.change:"; s_pos := length ex3_body |}; st_linenum := 15; st_fnl := None |}.
Proof. vm_compute. reflexivity. Qed.

Example ex3_hypotheses :
  codec_ok (B "ascii") /\ ex3_b <> [] /\ le_arg WNone /\ diff_enc_ok (B "ascii") WNone.
Proof.
  split; [apply (codec_ok_ascii _ ascii); reflexivity|].
  split; [discriminate|]. split; [apply la_none | apply dk_none; reflexivity].
Qed.

Definition ex4_b : bytes := [x2d; x00; x61; x00; x0a; x00; x2b; x00; xe9; x00].        (* "-a" LF "+" e-acute, UTF-16-LE *)
Example ex4_diff_utf16le :
  prepare_content s0 (CBytes ex4_b) WNone (WStr (ascii_text (B "unix"))) (WStr (ascii_text (B "utf-16-le"))) false
    = Ok (ex4_b ++ [x0a; x00], WStr (ascii_text (B "unix"))) /\
  read_content {| st_stream := {| s_data := ex4_b ++ [x0a; x00]; s_pos := 0 |}; st_linenum := 0; st_fnl := None |}
               12 (Some (VStr (B "utf-16-le"))) None (Some (VStr (B "unix"))) true
    = COk (PBytes (ex4_b ++ [x0a; x00]))
          {| st_stream := {| s_data := ex4_b ++ [x0a; x00]; s_pos := 12 |}; st_linenum := 2; st_fnl := None |} /\
  codec_ok (B "utf-16-le") /\ diff_enc_ok (B "utf-16-le") (WStr (ascii_text (B "utf-16-le"))).
Proof.
  split; [vm_compute; reflexivity|]. split; [vm_compute; reflexivity|].
  split; [apply (codec_ok_utf16le _ utf16le); reflexivity | apply dk_str; vm_compute; reflexivity].
Qed.

(* ------------------------------------------------------------------------------------------------ *)
(* 4. metadata-like section: JSON text, no line_endings / indent in the header, the reader guesses *)

Definition ex5_t : text := ascii_text (B "{" ++ [x0a] ++ B "    ""k"": ""v""" ++ [x0a] ++ B "}").
Definition ex5_body : bytes := B "{" ++ [x0a] ++ B "    ""k"": ""v""" ++ [x0a] ++ B "}" ++ [x0a].

Example ex5_meta :
  prepare_content s0 (CText ex5_t) WNone WNone (WStr (ascii_text (B "latin-1"))) true
    = Ok (ex5_body, WStr (ascii_text (B "unix"))) /\
  read_content {| st_stream := {| s_data := ex5_body; s_pos := 0 |}; st_linenum := 2; st_fnl := None |}
               (Z.of_nat (length ex5_body)) (Some (VStr (B "latin-1"))) None None false
    = COk (PText (ex5_t ++ [10]%N))
          {| st_stream := {| s_data := ex5_body; s_pos := length ex5_body |}; st_linenum := 5; st_fnl := None |} /\
  codec_ok_aligned (B "latin-1") /\ find N.eqb (nl_text GenText.le_unix) ex5_t <> None.
Proof.
  split; [vm_compute; reflexivity|]. split; [vm_compute; reflexivity|].
  split; [apply (codec_ok_aligned_latin1 _ latin1); reflexivity | vm_compute; discriminate].
Qed.
