(* SpecWire.v — S-expression decoding of the SpecReader AST (ffile) and the [spec_file] entry point: the harness sends
   the AST of a file it generated, the model answers with [wf_file], [render_file] and [spec_records]. Glue only.

     file    := (<crlf:bool> (section ...) (#trailing ...))
     section := (#id ((#key #value) ...) (#blank ...) content)
     content := none | (text (line ...) kind bom) | (meta (line ...) kind bom json)
              | (rawtext (#line ...) kind) | (rawmeta (#line ...) kind json) | (diff #raw kind)
     kind    := unix | dos          line := (u #utf32be)                                                          *)
From Coq Require Import List Arith NArith ZArith Bool Strings.Byte.
From Coq Require Strings.String.
From DX Require Import Bytes Sx Res Json Header Reader Wire SectionsSpec SpecReader.
Import ListNotations.
Import String.StringSyntax.
Local Open Scope string_scope.
Local Open Scope list_scope.

Definition sx_kind (s : sx) : option le_kind :=
  if sym_is s "unix" then Some LUnix else if sym_is s "dos" then Some LDos else None.

Definition sx_tcontent (ls k b : sx) : option tcontent :=
  match sx_list sx_text ls, sx_kind k, sx_bool b with
  | Some ls, Some k, Some b => Some {| tc_lines := ls; tc_kind := k; tc_bom := b |}
  | _, _, _ => None
  end.

Definition sx_fcontent (s : sx) : option (option fcontent) :=
  match s with
  | Sym _ => if sym_is s "none" then Some None else None
  | Li (t :: args) =>
      if sym_is t "text" then
        match args with [ls; k; b] => option_map (fun t => Some (FText t)) (sx_tcontent ls k b) | _ => None end
      else if sym_is t "meta" then
        match args with
        | [ls; k; b; j] => match sx_tcontent ls k b, sx_json j with
                           | Some t, Some j => Some (Some (FMeta t j))
                           | _, _ => None
                           end
        | _ => None
        end
      else if sym_is t "rawtext" then
        match args with
        | [ls; k] => match sx_list sx_bytes ls, sx_kind k with
                     | Some ls, Some k => Some (Some (FRawText ls k))
                     | _, _ => None
                     end
        | _ => None
        end
      else if sym_is t "rawmeta" then
        match args with
        | [ls; k; j] => match sx_list sx_bytes ls, sx_kind k, sx_json j with
                        | Some ls, Some k, Some j => Some (Some (FRawMeta ls k j))
                        | _, _, _ => None
                        end
        | _ => None
        end
      else if sym_is t "diff" then
        match args with
        | [r; k] => match sx_bytes r, sx_kind k with
                    | Some r, Some k => Some (Some (FDiff r k))
                    | _, _ => None
                    end
        | _ => None
        end
      else None
  | _ => None
  end.

Definition sx_pair (s : sx) : option (bytes * bytes) :=
  match s with
  | Li [Hex k; Hex v] => Some (k, v)
  | _ => None
  end.

Definition sx_fsection (s : sx) : option fsection :=
  match s with
  | Li [Hex i; os; bl; c] =>
      match sid_of_bytes i, sx_list sx_pair os, sx_list sx_bytes bl, sx_fcontent c with
      | Some i, Some os, Some bl, Some c => Some {| fs_id := i; fs_opts := os; fs_blank := bl; fs_content := c |}
      | _, _, _, _ => None
      end
  | _ => None
  end.

Definition sx_ffile (s : sx) : option ffile :=
  match s with
  | Li [c; ss; tr] =>
      match sx_bool c, sx_list sx_fsection ss, sx_list sx_bytes tr with
      | Some c, Some ss, Some tr => Some {| ff_crlf := c; ff_sections := ss; ff_trailing := tr |}
      | _, _, _ => None
      end
  | _ => None
  end.

(* (spec_file file) -> ((wf b) #rendered (records end))   [records only when wf] *)
Definition run_spec_file (args : list sx) : sx :=
  match args with
  | [f] =>
      match sx_ffile f with
      | Some f =>
          if wf_file f
          then Li [tagged "wf" [sx_of_bool true]; Hex (render_file f);
                   Li [sx_of_list sx_of_record (spec_records f); sym "end"]]
          else Li [tagged "wf" [sx_of_bool false]; Hex (render_file f)]
      | None => bad_case "spec_file args"
      end
  | _ => bad_case "spec_file arity"
  end.
