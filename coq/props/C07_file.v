(* C07, file level — "a file cut off at any byte position never makes the reader yield a section whose content or
   options differ from the intact file: the records produced before stopping are a prefix of the intact file's
   records", stated against the SPECIFICATION's reading of the intact file (SpecReader.spec_records) for every
   structurally well-formed file AST (any producer; see props/C03_spec.v for what wf_file says) and every cut point.
   Proofs: theories/SpecTruncation.v = TruncationFacts.truncation_partial composed with C03_reads_spec.
   As in props/C07.v the full statement is refuted by the recorded finding (short-read-accepted); what holds for
   every file and every cut is the _partial form (prefix of the specified records ++ at most one short-read record
   carrying the specified record's level/type/id/options/line, then normal end), and the full form under the negation
   of the finding's signature. *)
From Coq Require Import List Arith NArith ZArith Bool Strings.Byte Lia.
From Coq Require Strings.String.
From DX Require Import Bytes Res Codec Text Sections Header Stream Json Reader SectionsSpec
                       SpecReader SpecReaderBase SpecReaderFacts SpecReaderExamples StreamFacts TruncationFacts SpecTruncation.
From DX Require Import Writer RoundTripCodec RoundTripContent RoundTripBase RoundTripSim RoundTripStep RoundTrip RoundTripCor GuessFacts
  WriterTruncation.
Import ListNotations.
Import String.StringSyntax.
Local Open Scope string_scope.
Local Open Scope list_scope.

Theorem C07_file_truncation_partial : forall f orc chunk k,
  wf_file f = true -> oracle_ok_file orc f -> 0 < chunk ->
  (Z.of_nat (length (render_file f)) <= sys_maxsize)%Z ->
  k <= length (render_file f) ->
  let resT := read_all orc chunk (firstn k (render_file f)) in
  exists rs1 extra,
    fst resT = rs1 ++ extra /\ prefix rs1 (spec_records f) /\ List.length extra <= 1 /\
    (forall r, extra = [r] ->
       is_content (r_id r) = true /\
       (exists n, opt_get "length" (r_opts r) = Some (VInt n) /\ (0 < n)%Z) /\
       (exists st valid encs prev,
           reachable orc chunk (firstn k (render_file f)) st valid encs prev /\
           short_read orc chunk st valid encs prev r) /\
       (forall r', nth_error (spec_records f) (List.length rs1) = Some r' -> hdr_eq r r') /\
       snd resT = TEnd) /\
    snd resT <> TFuel.
Proof. exact file_truncation_partial. Qed.
Print Assumptions C07_file_truncation_partial.

Theorem C07_file_truncation_without_short_read : forall f orc chunk k,
  wf_file f = true -> oracle_ok_file orc f -> 0 < chunk ->
  (Z.of_nat (length (render_file f)) <= sys_maxsize)%Z ->
  k <= length (render_file f) ->
  (forall st valid encs prev r,
      reachable orc chunk (firstn k (render_file f)) st valid encs prev -> ~ short_read orc chunk st valid encs prev r) ->
  prefix (fst (read_all orc chunk (firstn k (render_file f)))) (spec_records f).
Proof. exact file_truncation_without_short_read. Qed.
Print Assumptions C07_file_truncation_without_short_read.

(* non-vacuity: a foreign-producer file (options out of order, unknown options, blank lines, BOM) cut in the middle of
   a header line and in the middle of a content line: in both cases the records are a strict prefix of the specified
   ones and the run ends with a parse error *)
Example C07_file_ex :
  wf_file sx_foreign = true /\
  length (spec_records sx_foreign) = 7 /\
  (let r := read_all sx_foreign_orc 96 (firstn 120 (render_file sx_foreign)) in
   fst r = firstn 1 (spec_records sx_foreign) /\ exists l c, snd r = TParse l c) /\
  (let r := read_all sx_foreign_orc 96 (firstn 200 (render_file sx_foreign)) in
   fst r = firstn 4 (spec_records sx_foreign) /\ snd r = TEnd).
Proof. split; [vm_compute; reflexivity|]. split; [vm_compute; reflexivity|]. cbv zeta. split; [split; [vm_compute; reflexivity|vm_compute; eauto]|].
  split; vm_compute; reflexivity. Qed.

(* ---- the library's own output: for EVERY accepted call list (all five calls, any length, any of the ten codecs'
   spellings) and every cut point, against the records the calls denote ---- *)
Theorem C07_writer_truncation_partial :
  forall (enc0 ver : wv) (s0 : wstate) (cs : list call) (orc : oracle) (chunk k : nat),
  writer_init enc0 ver = (s0, Ok tt) -> enc_ok enc0 -> Forall call_good cs -> accepted s0 cs ->
  metas_oracle_ok orc s0 cs -> oracle_ok orc cs -> 0 < chunk ->
  (Z.of_nat (length (w_out (snd (run_calls s0 cs)))) <= sys_maxsize)%Z ->
  k <= length (w_out (snd (run_calls s0 cs))) ->
  let out := w_out (snd (run_calls s0 cs)) in
  let want := main_record enc0 ver :: expected_records s0 1 cs in
  let resT := read_all orc chunk (firstn k out) in
  exists rs1 extra,
    fst resT = rs1 ++ extra /\ prefix rs1 want /\ List.length extra <= 1 /\
    (forall r, extra = [r] ->
       is_content (r_id r) = true /\
       (exists n, opt_get "length" (r_opts r) = Some (VInt n) /\ (0 < n)%Z) /\
       (exists st valid encs prev,
           reachable orc chunk (firstn k out) st valid encs prev /\ short_read orc chunk st valid encs prev r) /\
       (forall r', nth_error want (List.length rs1) = Some r' -> hdr_eq r r') /\
       snd resT = TEnd) /\
    snd resT <> TFuel.
Proof. exact writer_truncation_partial. Qed.
Print Assumptions C07_writer_truncation_partial.

Theorem C07_writer_truncation_without_short_read :
  forall (enc0 ver : wv) (s0 : wstate) (cs : list call) (orc : oracle) (chunk k : nat),
  writer_init enc0 ver = (s0, Ok tt) -> enc_ok enc0 -> Forall call_good cs -> accepted s0 cs ->
  metas_oracle_ok orc s0 cs -> oracle_ok orc cs -> 0 < chunk ->
  (Z.of_nat (length (w_out (snd (run_calls s0 cs)))) <= sys_maxsize)%Z ->
  k <= length (w_out (snd (run_calls s0 cs))) ->
  (forall st valid encs prev r,
      reachable orc chunk (firstn k (w_out (snd (run_calls s0 cs)))) st valid encs prev ->
      ~ short_read orc chunk st valid encs prev r) ->
  prefix (fst (read_all orc chunk (firstn k (w_out (snd (run_calls s0 cs))))))
         (main_record enc0 ver :: expected_records s0 1 cs).
Proof. exact writer_truncation_without_short_read. Qed.
Print Assumptions C07_writer_truncation_without_short_read.
