From DX Require Import Bytes.
Theorem placeholder : True. Proof. exact I. Qed.
Print Assumptions placeholder.
