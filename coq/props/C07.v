(* C07 — Length frames content: truncated/damaged files never yield altered sections.

   Verdict structure.  The FULL property ("a file cut off at any byte position never makes the reader yield a section
   whose content or options differ from the intact file: the records produced before stopping are a prefix of the
   intact file's records") is FALSE of the code and of the model: C07_truncation_refuted.  This is the recorded known
   finding with signature "short-read-accepted": fp.read(length) returns fewer bytes at end of stream without
   complaint, so a file cut inside a content section right after one of that section's newlines yields a SHORTENED
   last record.

       full property  =  C07_truncation_partial  +  the negation of the known finding's signature
                                                     (no iteration of the truncated run is a [short_read])

   and exactly that implication is C07_truncation_without_short_read.  What holds unconditionally:
     C07_framing*             the reader takes exactly the declared number of bytes (min with the bytes present) as the
                              content, whatever these bytes are; section boundaries never shift (full strength);
     C07_prefix_determinism   an iteration that completes inside a prefix of the data is identical on the prefix alone;
     C07_truncation_partial   records of the truncated file = prefix of the intact records ++ AT MOST ONE extra record,
                              which exists only as a short read, carries the intact record's level/type/id/options/
                              line, and is followed by normal end;
     C07_bad_length_*         length not an integer / negative: parse error at the header's line, nothing yielded
                              (full strength); length beyond the data present: same as reading to the end of the
                              stream, i.e. the short read of the finding again.
   Termination "normal end or parse error" is C08's statement; here only C07_truncation_termination (conditional on
   no other exception escaping) and "the model's fuel never runs out". *)
From Coq Require Import List Arith NArith ZArith Bool Strings.Byte.
From Coq Require Strings.String.
From DX Require Import Bytes Res Codec Text Sections Header Stream Json Reader SectionsSpec StreamFacts SectionsFacts
  TruncationFacts.
From DXGen Require GenSections GenText.
Import ListNotations.
Import String.StringSyntax.
Local Open Scope string_scope.
Local Open Scope list_scope.

(* ---- framing ---- *)

(* _read_content is "take the first min(length, sys.maxsize, available) bytes c of the stream, then content_decode c":
   the outcome depends on the stream only through c, and the stream afterwards is advanced by exactly |c|. *)
Theorem C07_framing_factored : forall st len enc ind le keep,
  read_content st len enc ind le keep =
  let c := firstn (take_len len) (remaining (st_stream st)) in
  content_result_of (content_decode c enc ind le keep) (advance (st_stream st) (List.length c))
                    (st_linenum st) (st_fnl st).
Proof. exact read_content_factored. Qed.
Print Assumptions C07_framing_factored.

(* Whenever _read_content succeeds it has consumed exactly c, what remains is exactly what followed c, the payload is
   content_payload of c and the options; data and newline convention of the stream are untouched. *)
Theorem C07_framing : forall st len enc ind le keep p st',
  read_content st len enc ind le keep = COk p st' ->
  let c := firstn (take_len len) (remaining (st_stream st)) in
  remaining (st_stream st) = c ++ remaining (st_stream st') /\
  List.length c = Nat.min (take_len len) (List.length (remaining (st_stream st))) /\
  st_stream st' = advance (st_stream st) (List.length c) /\
  content_payload c enc ind le keep = Some p /\
  (exists k, content_decode c enc ind le keep = DOk p k /\ st_linenum st' = (st_linenum st + Z.of_nat k)%Z) /\
  st_fnl st' = st_fnl st.
Proof. exact framing. Qed.
Print Assumptions C07_framing.

(* For EVERY byte string c that is present in the stream, declaring its length makes the reader take exactly c and
   continue exactly at the byte after it: content may contain anything (header look-alikes, NULs, any newlines). *)
Theorem C07_framing_any_content : forall st c rest enc ind le keep,
  remaining (st_stream st) = c ++ rest ->
  (Z.of_nat (List.length c) <= sys_maxsize)%Z ->
  read_content st (Z.of_nat (List.length c)) enc ind le keep =
    content_result_of (content_decode c enc ind le keep) (advance (st_stream st) (List.length c))
                      (st_linenum st) (st_fnl st) /\
  remaining (advance (st_stream st) (List.length c)) = rest.
Proof. exact framing_any_content. Qed.
Print Assumptions C07_framing_any_content.

(* One iteration of iter_sections on a content header with length=n: the content is the first min(n, available) bytes
   after the header line, the next header is read from the byte right after them, the record carries the header's
   fields, and its payload is determined by those bytes, the options and (for meta) the json.loads oracle. *)
Theorem C07_framing_step : forall orc chunk st valid encs prev level name id opts line st1 n r st' valid' encs' prev',
  read_header chunk valid st = HdrOk level name id opts line st1 ->
  is_content id = true ->
  opt_get "length" opts = Some (VInt n) ->
  iter_step orc chunk st valid encs prev = SYield r st' valid' encs' prev' ->
  let c := firstn (take_len n) (remaining (st_stream st1)) in
  st_stream st' = advance (st_stream st1) (List.length c) /\
  remaining (st_stream st1) = c ++ remaining (st_stream st') /\
  List.length c = Nat.min (take_len n) (List.length (remaining (st_stream st1))) /\
  same_header r level name id opts line /\
  (exists enc ind keep p0,
     content_payload c enc ind (opt_get "line_endings" opts) keep = Some p0 /\
     (r_payload r = p0 \/
      exists j, r_payload r = PMeta j /\ assoc_get beq (oracle_key p0) orc = Some (LoadsOk j))).
Proof. exact iter_step_framing. Qed.
Print Assumptions C07_framing_step.

(* ... so with the n declared bytes present, the position after the step is (position after the header line) + n. *)
Theorem C07_framing_position : forall orc chunk st valid encs prev level name id opts line st1 n r st' valid' encs' prev',
  read_header chunk valid st = HdrOk level name id opts line st1 ->
  is_content id = true ->
  opt_get "length" opts = Some (VInt n) ->
  (0 <= n <= Z.of_nat (List.length (remaining (st_stream st1))))%Z -> (n <= sys_maxsize)%Z ->
  iter_step orc chunk st valid encs prev = SYield r st' valid' encs' prev' ->
  s_data (st_stream st') = s_data (st_stream st1) /\
  s_pos (st_stream st') = s_pos (st_stream st1) + Z.to_nat n /\
  remaining (st_stream st') = skipn (Z.to_nat n) (remaining (st_stream st1)).
Proof. exact iter_step_position. Qed.
Print Assumptions C07_framing_position.

(* ---- truncation ---- *)

(* An iteration over d1 ++ d2 that yields and leaves the stream inside d1 is the same iteration over d1 alone: same
   record, same [valid]/encoding stack/level, same successor state up to s_data. *)
Theorem C07_prefix_determinism : forall d2 orc chunk st valid encs prev r stF' valid' encs' prev',
  0 < chunk -> wf_rstate st ->
  iter_step orc chunk (lift d2 st) valid encs prev = SYield r stF' valid' encs' prev' ->
  s_pos (st_stream stF') <= List.length (s_data (st_stream st)) ->
  exists st',
    iter_step orc chunk st valid encs prev = SYield r st' valid' encs' prev' /\
    stF' = lift d2 st' /\ wf_rstate st'.
Proof. exact prefix_determinism. Qed.
Print Assumptions C07_prefix_determinism.

(* PARTIAL (what is missing for the full statement: "extra = []", which is false — see C07_truncation_refuted).
   For every data, oracle, block size > 0 and cut point k: the records of the truncated file are rs1 ++ extra with rs1 a
   prefix of the intact file's records (the very same records) and |extra| <= 1; an extra record exists only as a
   short read (content header declaring more bytes than are left, reached by the truncated run), has the same
   level/type/id/options/line as the intact run's record at that index, and is followed by normal end. *)
Theorem C07_truncation_partial : forall orc chunk data k,
  0 < chunk -> k <= List.length data ->
  let resT := read_all orc chunk (firstn k data) in
  let resF := read_all orc chunk data in
  exists rs1 extra,
    fst resT = rs1 ++ extra /\ prefix rs1 (fst resF) /\ List.length extra <= 1 /\
    (forall r, extra = [r] ->
       is_content (r_id r) = true /\
       (exists n, opt_get "length" (r_opts r) = Some (VInt n) /\ (0 < n)%Z) /\
       (exists st valid encs prev,
           reachable orc chunk (firstn k data) st valid encs prev /\ short_read orc chunk st valid encs prev r) /\
       (forall r', nth_error (fst resF) (List.length rs1) = Some r' -> hdr_eq r r') /\
       snd resT = TEnd) /\
    snd resT <> TFuel.
Proof. exact truncation_partial. Qed.
Print Assumptions C07_truncation_partial.

(* the payload of the extra record is computed from ALL the bytes the truncated file had left after the header *)
Theorem C07_short_read_payload : forall orc chunk st valid encs prev r,
  short_read orc chunk st valid encs prev r ->
  exists level name id opts line st1 n,
    read_header chunk valid st = HdrOk level name id opts line st1 /\
    opt_get "length" opts = Some (VInt n) /\
    let c := remaining (st_stream st1) in
    List.length c < take_len n /\
    exists enc ind keep p0,
      content_payload c enc ind (opt_get "line_endings" opts) keep = Some p0 /\
      (r_payload r = p0 \/
       exists j, r_payload r = PMeta j /\ assoc_get beq (oracle_key p0) orc = Some (LoadsOk j)).
Proof. exact short_read_payload. Qed.
Print Assumptions C07_short_read_payload.

(* full statement = partial theorem + negation of the finding's signature *)
Theorem C07_truncation_without_short_read : forall orc chunk data k,
  0 < chunk -> k <= List.length data ->
  (forall st valid encs prev r,
      reachable orc chunk (firstn k data) st valid encs prev -> ~ short_read orc chunk st valid encs prev r) ->
  prefix (fst (read_all orc chunk (firstn k data))) (fst (read_all orc chunk data)).
Proof. exact truncation_without_short_read. Qed.
Print Assumptions C07_truncation_without_short_read.

(* termination, conditional on C08 (no exception other than DiffXParseError escapes) *)
Theorem C07_truncation_termination : forall orc chunk data k,
  0 < chunk ->
  (forall e, snd (read_all orc chunk (firstn k data)) <> TExc e) ->
  snd (read_all orc chunk (firstn k data)) = TEnd \/
  exists l c, snd (read_all orc chunk (firstn k data)) = TParse l c.
Proof. exact truncation_termination. Qed.
Print Assumptions C07_truncation_termination.

(* REFUTED: the full statement is false. Witness: the 63-byte file
     "#diffx: encoding=utf-8, version=1.0\n#.preamble: length=6\nab\ncd\n"
   cut after byte 60 (inside the preamble content, right after its first newline) yields a .preamble record with the
   intact options but text "ab\n" instead of "ab\ncd\n", then ends normally; so the truncated file's records are not a
   prefix of the intact file's records. *)
Theorem C07_truncation_refuted :
  exists (data : bytes) (k : nat) (r_cut r_intact : record),
    k <= List.length data /\
    nth_error (fst (read_all [] default_chunk (firstn k data))) 1 = Some r_cut /\
    nth_error (fst (read_all [] default_chunk data)) 1 = Some r_intact /\
    snd (read_all [] default_chunk (firstn k data)) = TEnd /\
    snd (read_all [] default_chunk data) = TEnd /\
    r_id r_cut = r_id r_intact /\ r_id r_cut = B ".preamble" /\
    r_opts r_cut = r_opts r_intact /\
    r_payload r_intact = PText [97; 98; 10; 99; 100; 10]%N /\
    r_payload r_cut = PText [97; 98; 10]%N /\
    r_payload r_cut <> r_payload r_intact /\
    ~ (exists t, fst (read_all [] default_chunk data) = fst (read_all [] default_chunk (firstn k data)) ++ t).
Proof. exact truncation_refuted. Qed.
Print Assumptions C07_truncation_refuted.

(* ---- wrong values of length ---- *)

(* (a) not an integer: DiffXParseError at the header's line; nothing yielded, whatever follows the header *)
Theorem C07_bad_length_str : forall orc chunk st valid encs prev level name id opts line st1 s,
  step_inv valid encs prev ->
  read_header chunk valid st = HdrOk level name id opts line st1 ->
  is_content id = true ->
  opt_get "length" opts = Some (VStr s) ->
  iter_step orc chunk st valid encs prev = SParse line None.
Proof. exact bad_length_str. Qed.
Print Assumptions C07_bad_length_str.

(* (b) negative: the same *)
Theorem C07_bad_length_neg : forall orc chunk st valid encs prev level name id opts line st1 z,
  step_inv valid encs prev ->
  read_header chunk valid st = HdrOk level name id opts line st1 ->
  is_content id = true ->
  opt_get "length" opts = Some (VInt z) -> (z < 0)%Z ->
  iter_step orc chunk st valid encs prev = SParse line None.
Proof. exact bad_length_neg. Qed.
Print Assumptions C07_bad_length_neg.

(* (a), (b) for the whole iteration: the records so far are kept, the iterator raises DiffXParseError(line) *)
Theorem C07_bad_length_loop : forall fuel orc chunk st valid encs prev acc level name id opts line st1 v,
  step_inv valid encs prev ->
  read_header chunk valid st = HdrOk level name id opts line st1 ->
  is_content id = true ->
  opt_get "length" opts = Some v ->
  (match v with VStr _ => True | VInt z => (z < 0)%Z end) ->
  iter_loop (S fuel) orc chunk st valid encs prev acc = (rev acc, TParse line None).
Proof. exact bad_length_loop. Qed.
Print Assumptions C07_bad_length_loop.

(* (c) larger than the bytes available: indistinguishable from declaring exactly the bytes available (a read to the end
   of the stream — the short read of the finding); on success the stream is exhausted *)
Theorem C07_bad_length_beyond : forall st z enc ind le keep,
  (Z.of_nat (List.length (remaining (st_stream st))) <= z)%Z ->
  read_content st z enc ind le keep =
  read_content st (Z.of_nat (List.length (remaining (st_stream st)))) enc ind le keep.
Proof. exact bad_length_beyond. Qed.
Print Assumptions C07_bad_length_beyond.

Theorem C07_bad_length_beyond_exhausts : forall st z enc ind le keep p st',
  (Z.of_nat (List.length (remaining (st_stream st))) <= z)%Z ->
  (Z.of_nat (List.length (remaining (st_stream st))) <= sys_maxsize)%Z ->
  read_content st z enc ind le keep = COk p st' ->
  remaining (st_stream st') = [] /\
  content_payload (remaining (st_stream st)) enc ind le keep = Some p.
Proof. exact bad_length_beyond_exhausts. Qed.
Print Assumptions C07_bad_length_beyond_exhausts.

(* ---- non-vacuity ---- *)

(* framing: content that looks like a header with a huge length plus a NUL line is taken as text; the next real
   header is found right after it *)
Example C07_framing_example :
  map r_id (fst (read_all [] default_chunk c07_lookalike)) = [B "diffx"; B ".preamble"; B ".change"] /\
  snd (read_all [] default_chunk c07_lookalike) = TEnd /\
  (exists r, nth_error (fst (read_all [] default_chunk c07_lookalike)) 1 = Some r /\
             Some (r_payload r) = content_payload (B "#.meta: length=999" ++ c07_nl ++ [x00] ++ c07_nl)
                                                  (Some (VStr (B "utf-8"))) None None false).
Proof. exact framing_ex. Qed.

(* the hypotheses of C07_framing_step / C07_framing_position on the preamble of c07_file *)
Example C07_framing_step_example :
  exists level name id opts line st1 r st' v e p,
    read_header default_chunk (table Main) (c07_st c07_file 36) = HdrOk level name id opts line st1 /\
    is_content id = true /\ opt_get "length" opts = Some (VInt 6) /\
    iter_step [] default_chunk (c07_st c07_file 36) (table Main) [Some (VStr (B "utf-8")); None] 0 = SYield r st' v e p /\
    s_pos (st_stream st1) = 57 /\ s_pos (st_stream st') = 57 + 6 /\ r_payload r = PText [97; 98; 10; 99; 100; 10]%N.
Proof. exact iter_step_framing_ex. Qed.

Example C07_prefix_determinism_example :
  exists r stF' v e p st',
    wf_rstate (c07_st0 (firstn 40 c07_file)) /\
    iter_step [] default_chunk (lift (skipn 40 c07_file) (c07_st0 (firstn 40 c07_file))) [GenSections.sec_main] [None] 0
      = SYield r stF' v e p /\
    s_pos (st_stream stF') = 36 /\ 36 <= List.length (s_data (st_stream (c07_st0 (firstn 40 c07_file)))) /\
    iter_step [] default_chunk (c07_st0 (firstn 40 c07_file)) [GenSections.sec_main] [None] 0 = SYield r st' v e p /\
    stF' = lift (skipn 40 c07_file) st'.
Proof. exact prefix_determinism_ex. Qed.

(* truncation: cut 60 gives prefix ++ one extra (short-read) record; every other proper cut gives a plain prefix *)
Example C07_truncation_example :
  exists rs1 r r',
    fst (read_all [] default_chunk (firstn 60 c07_file)) = rs1 ++ [r] /\
    prefix rs1 (fst (read_all [] default_chunk c07_file)) /\ List.length rs1 = 1 /\
    nth_error (fst (read_all [] default_chunk c07_file)) 1 = Some r' /\ hdr_eq r r' /\
    r_payload r <> r_payload r' /\
    forallb (fun k => Nat.eqb k 60 ||
               Nat.leb (List.length (fst (read_all [] default_chunk (firstn k c07_file)))) 1) (seq 0 63) = true.
Proof. exact truncation_partial_ex. Qed.

Example C07_bad_length_example :
  step_inv (table Main) [Some (VStr (B "utf-8")); None] 0 /\
  (exists level name id opts line st1,
     read_header default_chunk (table Main) (c07_st (c07_bad "-1") 36) = HdrOk level name id opts line st1 /\
     is_content id = true /\ opt_get "length" opts = Some (VInt (-1))) /\
  (exists level name id opts line st1,
     read_header default_chunk (table Main) (c07_st (c07_bad "abc") 36) = HdrOk level name id opts line st1 /\
     is_content id = true /\ opt_get "length" opts = Some (VStr (B "abc"))) /\
  map r_id (fst (read_all [] default_chunk (c07_bad "-1"))) = [B "diffx"] /\
  snd (read_all [] default_chunk (c07_bad "-1")) = TParse 1 None /\
  read_all [] default_chunk (c07_bad "abc") = read_all [] default_chunk (c07_bad "-1") /\
  read_all [] default_chunk (c07_bad "1_0") = read_all [] default_chunk (c07_bad "-1") /\
  map r_payload (fst (read_all [] default_chunk (c07_bad "7"))) =
  map r_payload (fst (read_all [] default_chunk (c07_bad "6"))) /\
  snd (read_all [] default_chunk (c07_bad "7")) = TEnd.
Proof. exact bad_length_ex. Qed.
