(* DomSpecFacts.v — proofs for C05 / C06 at the object-model level (definitions in DomSpec.v). *)
From Coq Require Import List Arith NArith ZArith Bool Strings.Byte Lia.
From Coq Require Strings.String.
From DX Require Import Bytes Res Codec Text Sections Header Json Reader Writer Dom DomSpec.
From DXGen Require GenSections GenText.
Import ListNotations.
Import String.StringSyntax.
Local Open Scope string_scope.
Local Open Scope list_scope.

(* ================================================================================================ *)
(* Part 1: the DOM writer is the streaming writer on [tree_calls] *)

Lemma seq_all_exec : forall l s, seq_all (map exec l) s = run_thunks s l.
Proof.
  induction l as [|th l IH]; intro s; [reflexivity|].
  cbn [map seq_all run_thunks]. unfold seqw. destruct (exec th s) as [s1 [u|e]]; [apply IH | reflexivity].
Qed.

Lemma run_thunks_app : forall a b s,
  run_thunks s (a ++ b) =
  let (s1, x) := run_thunks s a in match x with Ok _ => run_thunks s1 b | Err e => (s1, Err e) end.
Proof.
  induction a as [|th a IH]; intros b s; [reflexivity|].
  cbn [app run_thunks]. destruct (exec th s) as [s1 [u|e]]; [apply IH | reflexivity].
Qed.

Lemma seq_all_app_run : forall l1 l2 th1 th2,
  (forall s, seq_all l1 s = run_thunks s th1) -> (forall s, seq_all l2 s = run_thunks s th2) ->
  forall s, seq_all (l1 ++ l2) s = run_thunks s (th1 ++ th2).
Proof.
  intros l1 l2 th1 th2 H1 H2 s. rewrite run_thunks_app, <- H1. clear H1. revert s.
  induction l1 as [|a l1 IH]; intro s.
  - cbn [app seq_all]. apply H2.
  - cbn [app seq_all]. unfold seqw. destruct (a s) as [s1 [u|e]]; [apply IH | reflexivity].
Qed.

Lemma write_file_thunks : forall f s, write_file f s = run_thunks s (file_thunks f).
Proof. intros f s. unfold write_file. apply (seq_all_exec (file_thunks f)). Qed.

Lemma seq_all_flat {A} : forall (w : A -> wstate -> wstate * res unit) (th : A -> list thunk),
  (forall x s, w x s = run_thunks s (th x)) ->
  forall l s, seq_all (map w l) s = run_thunks s (flat_map th l).
Proof.
  intros w th H. induction l as [|x l IH]; intro s; [reflexivity|].
  cbn [map flat_map]. change (w x :: map w l) with ([w x] ++ map w l).
  apply seq_all_app_run; [|exact IH].
  intro s'. cbn [seq_all]. unfold seqw. rewrite H. destruct (run_thunks s' (th x)) as [s1 [[]|e]]; reflexivity.
Qed.

Lemma write_change_thunks : forall c s, write_change c s = run_thunks s (change_thunks c).
Proof.
  intros c s. unfold write_change, change_thunks.
  apply seq_all_app_run.
  - intro s'. apply (seq_all_exec [_; _; _]).
  - apply seq_all_flat. exact write_file_thunks.
Qed.

Lemma write_tree_thunks : forall t s,
  seq_all ([exec (call_preamble (d_pre t)); exec (call_meta (d_meta t))] ++ map write_change (d_changes t)) s
  = run_thunks s (tree_thunks t).
Proof.
  intros t s. unfold tree_thunks. apply seq_all_app_run.
  - intro s'. apply (seq_all_exec [_; _]).
  - apply seq_all_flat. exact write_change_thunks.
Qed.

(* the exact statement, failures included: build/validate the constructor arguments, then the thunks in order *)
Theorem dom_write_thunks : forall t,
  dom_write t =
  if negb (main_keys_ok t) then Err EType else
  let (s0, r0) := writer_init (tree_encoding t) (tree_version t) in
  match r0 with
  | Err e => Err e
  | Ok _ => let (s1, r1) := run_thunks s0 (tree_thunks t) in
            match r1 with Ok _ => Ok (w_out s1) | Err e => Err e end
  end.
Proof.
  intro t. unfold dom_write, main_keys_ok, tree_encoding, tree_version. rewrite negb_involutive.
  destruct (nonempty _); [reflexivity|].
  destruct (writer_init _ _) as [s0 [u|e]]; [|reflexivity].
  rewrite write_tree_thunks. reflexivity.
Qed.

Lemma run_collect : forall l cs s, collect l = Ok cs -> run_thunks s l = run_all s cs.
Proof.
  induction l as [|th l IH]; intros cs s H.
  - cbn in H. injection H as <-. reflexivity.
  - destruct th as [[c|]|e]; cbn [collect] in H.
    + destruct (collect l) as [cs'|e] eqn:E; cbn [bind] in H; [|discriminate]. injection H as <-.
      cbn [run_thunks run_all exec]. destruct (do_call c s) as [s1 [u|e]]; [apply IH; reflexivity | reflexivity].
    + cbn [run_thunks exec]. apply IH. exact H.
    + discriminate.
Qed.

Lemma run_ok_collect : forall l s s1 u, run_thunks s l = (s1, Ok u) -> exists cs, collect l = Ok cs.
Proof.
  induction l as [|th l IH]; intros s s1 u H.
  - exists []. reflexivity.
  - destruct th as [[c|]|e]; cbn [run_thunks exec] in H.
    + destruct (do_call c s) as [s2 [u2|e]]; [|discriminate].
      destruct (IH _ _ _ H) as [cs E]. exists (c :: cs). cbn [collect]. rewrite E. reflexivity.
    + destruct (IH _ _ _ H) as [cs E]. exists cs. exact E.
    + discriminate.
Qed.

Theorem C05_write_is_calls : forall t b,
  dom_write t = Ok b <->
  main_keys_ok t = true /\
  exists s0 cs s1,
    writer_init (tree_encoding t) (tree_version t) = (s0, Ok tt) /\
    tree_calls t = Ok cs /\
    run_all s0 cs = (s1, Ok tt) /\
    b = w_out s1.
Proof.
  intros t b. rewrite dom_write_thunks. split.
  - destruct (main_keys_ok t); [|discriminate]. cbn [negb].
    destruct (writer_init _ _) as [s0 [[]|e]] eqn:Ei; [|discriminate].
    destruct (run_thunks s0 (tree_thunks t)) as [s1 [[]|e]] eqn:Er; [|discriminate].
    intro H. injection H as <-. split; [reflexivity|].
    destruct (run_ok_collect _ _ _ _ Er) as [cs Ec].
    exists s0, cs, s1. repeat split; try assumption.
    rewrite <- (run_collect _ _ s0 Ec). exact Er.
  - intros [Hk [s0 [cs [s1 [Hi [Hc [Hr ->]]]]]]]. rewrite Hk, Hi. cbn [negb].
    unfold tree_calls in Hc. rewrite (run_collect _ _ s0 Hc), Hr. reflexivity.
Qed.

(* the failure order, when the call list exists: the first rejected call decides *)
Theorem C05_write_error : forall t cs s0,
  main_keys_ok t = true -> writer_init (tree_encoding t) (tree_version t) = (s0, Ok tt) -> tree_calls t = Ok cs ->
  dom_write t = let (s1, r) := run_all s0 cs in match r with Ok _ => Ok (w_out s1) | Err e => Err e end.
Proof.
  intros t cs s0 Hk Hi Hc. rewrite dom_write_thunks, Hk, Hi. cbn [negb].
  unfold tree_calls in Hc. rewrite (run_collect _ _ s0 Hc). reflexivity.
Qed.
