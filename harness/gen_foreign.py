"""Independent, specification-derived generator of well-formed DiffX files "from other producers", with the
specification's reading of each file (expected records), single-defect mutations and unknown-option insertions."""
import json

import gen_calls as gc
import spec

CODECS = gc.CODECS
LEVEL = {'diffx': 0, '.preamble': 1, '.meta': 1, '.change': 1, '..preamble': 2, '..meta': 2, '..file': 2,
         '...meta': 3, '...diff': 3}
BLANKS = [b'\n', b'  \n', b'\t\n', b' \t \n', b'\x0b\n', b'\x0c\n']

UNKNOWN_KEYS = ['x', 'my-option', 'X_1', 'zzz', 'Another-Key', 'q9', 'a_b-c',
                # names that mean something INSIDE the library (parameter and attribute names): still just unknown options
                'self', 'keep_bytes', 'preserve_trailing_newline', 'fp', 'options', 'section', 'content', 'newline', 'cls',
                'kwargs', 'args', 'data', 'text', 'stream', 'linenum', 'level', 'type_', 'section_id', 'diff', 'metadata',
                'chunk_size', 'valid_sections', 'encodings',
                # names that CONTAIN the name of an interpreted option (word-boundary and prefix/suffix confusions)
                'spec-version', 'min-version', 'x-version', 'xversion', 'version2', 'x-encoding', 'encoding-x', 'pre-length',
                'length2', 'no-indent', 'indent-by', 'my-line_endings', 'line_endings2', 'x-format', 'format-x', 'a-type',
                'type-b', 'x-mimetype']
UNKNOWN_VALS = ['value', '1', '-5', '007', 'a/b', '/x', '1.0', 'text/x-diff', '_', '-', '.', 'A.b_c-d/e', '12abc', '1_0',
                # words and number spellings that other notations (JSON, Python, YAML) give a meaning to: here just strings,
                # except -?[0-9]+ which is an integer
                'true', 'false', 'null', 'True', 'None', 'NaN', 'Infinity', '-Infinity', '-007', '-0', '1e5', '0x10', '0o7',
                '1.', '.5', 'yes', 'no', 'on', 'off', '00', '-', '--1', '1-1']
# digit strings around CPython's int/str conversion limit (rare: the model's decimal printing is quadratic)
UNKNOWN_LONG_VALS = ['7' * 4300, '7' * 4301, '-' + '3' * 4400]


def sl_py_json(j):
    import streamlib
    return streamlib.py_json(j)


def conv(v):
    """spec: integer-valued option values (-?[0-9]+) are integers"""
    import re
    if re.fullmatch(r'-?[0-9]+', v) and len(v.lstrip('-')) <= 4300:    # CPython's int/str digit limit: longer stays a string
        return int(v)
    return v


def render_header(sid, opts, crlf):
    s = '#%s:' % sid
    if opts:
        s += ' ' + ', '.join('%s=%s' % (k, v) for k, v in opts)
    return s.encode('ascii') + (b'\r\n' if crlf else b'\n')


def make_content(rng, kind, eff_enc, own_diff_enc=None):
    """Returns (bytes content, options list (without length), expected payload dict, number of content lines)."""
    opts = []
    if kind == 'preamble':
        enc = eff_enc
        declared = rng.choice([None, 'unix', 'dos'])
        nlkind = declared or rng.choice(['unix', 'dos'])
        nl = '\n' if nlkind == 'unix' else '\r\n'
        nlines = rng.randint(1, 4)
        lines = []
        for i in range(nlines):
            l = gc.gen_text(rng, gc.canon(enc), allow_empty=True).replace('\n', '').replace('\r', '')
            if i == 0 and declared is None:
                # the first line decides detection: it must not contain a stray newline of the other kind
                pass
            lines.append(l)
        text = nl.join(lines) + nl
        if declared is None and nlkind == 'dos' and '\r\n' not in text:
            text = 'x\r\n'
        try:
            raw_nl = spec.bomfree(nl, enc)
            # in multi-byte encodings a code unit pair may contain the newline bytes misaligned: a foreign producer
            # splitting on the encoded newline sees those as line breaks too; keep such texts out of this generator
            body_lines = [spec.bomfree(l + nl, enc) for l in lines]
        except UnicodeError:
            text = 'plain' + nl
            lines = ['plain']
            raw_nl = spec.bomfree(nl, enc)
            body_lines = [spec.bomfree('plain' + nl, enc)]
        raw_lf = spec.bomfree('\n', enc)
        if any(bl.count(raw_nl) != 1 or bl.count(raw_lf) != 1 or not bl.endswith(raw_nl) for bl in body_lines):
            lines = ['plain']
            text = 'plain' + nl
            body_lines = [spec.bomfree('plain' + nl, enc)]
        indent = rng.choice([None, None, 0, 1, 2, 4, 8])
        with_bom = rng.random() < 0.3
        bom = ''.encode(enc) if with_bom else b''
        try:
            decodes_back = (bom + b''.join(body_lines)).decode(enc) == text
        except UnicodeError:
            decodes_back = False
        if not decodes_back:
            # e.g. a text starting with U+FEFF / U+FFFE in a BOM-sensitive codec: the codec itself reads it differently
            lines = ['plain']
            text = 'plain' + nl
            body_lines = [spec.bomfree('plain' + nl, enc)]
        if indent:
            body = b''.join((b' ' * indent) + (bom if i == 0 else b'') + bl for i, bl in enumerate(body_lines))
        else:
            body = bom + b''.join(body_lines)
        if indent is not None:
            opts.append(('indent', str(indent)))
        if declared:
            opts.append(('line_endings', declared))
        if rng.random() < 0.3:
            opts.append(('mimetype', rng.choice(['text/plain', 'text/markdown'])))
        # lone \r inside a unix text or \n in the first line would change detection: lines have neither
        # a BOM character decodes away only for the BOM codecs; for others it stays in the text
        # the specification's reading decodes the (unindented) bytes in the section's encoding: for the BOM-aware
        # codecs a leading U+FEFF is the byte-order mark and is not part of the text
        exp_text = (bom + b''.join(body_lines)).decode(enc)
        ast = dict(form='text', lines=lines, kind=nlkind, bom=with_bom)
        return body, opts, dict(text=exp_text, _ast=ast), len(body_lines)
    if kind == 'meta':
        enc = eff_enc
        d = gc.as_json_value(sl_py_json(gc.gen_dict(rng)))
        style = rng.choice(['pretty', 'compact', 'spaced'])
        if style == 'pretty':
            t = json.dumps(d, indent=4, sort_keys=True, separators=(',', ': '))
        elif style == 'compact':
            t = json.dumps(d, separators=(',', ':'))
        else:
            t = json.dumps(d, indent=2)
        declared = rng.choice([None, None, 'unix', 'dos'])
        nlkind = declared or 'unix'
        if nlkind == 'dos':
            t = t.replace('\n', '\r\n')
        nl = '\n' if nlkind == 'unix' else '\r\n'
        t += nl
        if declared is None and '\n' in t[:-1] and style != 'compact' and rng.random() < 0.2:
            pass
        with_bom = rng.random() < 0.3
        body = t.encode(enc) if with_bom else spec.bomfree(t, enc)
        raw_nl = spec.bomfree(nl, enc)
        if rng.random() < 0.5:
            opts.append(('format', 'json'))
        if declared:
            opts.append(('line_endings', declared))
        # content lines: split on the newline the reader must use (declared, or detected from the first line)
        nbytes_nl = body.count(raw_nl)
        ast = dict(form='meta', lines=t.split(nl)[:-1], kind=nlkind, bom=with_bom, json=d)
        return body, opts, dict(metadata=d, _ast=ast), None
    if kind in ('rawpreamble', 'rawmeta'):
        # no encoding in force ("DiffX files have no default encoding"): the content is bytes; its newline is the ASCII one
        declared = rng.choice([None, 'unix', 'dos'])
        nlkind = declared or rng.choice(['unix', 'dos'])
        nl = b'\n' if nlkind == 'unix' else b'\r\n'
        if kind == 'rawpreamble':
            alphabet = [bytes([b]) for b in range(256) if b not in (10, 13)]
            lines = [b''.join(rng.choice(alphabet) for _ in range(rng.randint(0, 12))) for _ in range(rng.randint(1, 4))]
            indent = rng.choice([None, None, 0, 1, 2, 4])
            if indent is not None:
                opts.append(('indent', str(indent)))
            exp = dict(text_hex=(b''.join(l + nl for l in lines)).hex())
            form = 'rawtext'
        else:
            d = gc.as_json_value(sl_py_json(gc.gen_dict(rng)))
            t = json.dumps(d, indent=rng.choice([None, 2, 4]), sort_keys=True)
            lines = [l.encode('ascii') for l in t.split('\n')]
            indent = None
            if rng.random() < 0.5:
                opts.append(('format', 'json'))
            exp = dict(metadata=d)
            form = 'rawmeta'
        body = b''.join(b' ' * (indent or 0) + l + nl for l in lines)
        if declared:
            opts.append(('line_endings', declared))
        exp['_ast'] = dict(form=form, lines=[l.hex() for l in lines], kind=nlkind, json=exp.get('metadata'))
        return body, opts, exp, len(lines)
    # diff
    enc = own_diff_enc
    declared = rng.choice([None, 'unix', 'dos'])
    d = gc.gen_diff(rng, enc)
    nlkind = declared or gc.detect_kind_bytes(d, enc)
    raw_nl = spec.newline_bytes(nlkind, enc)
    if not d.endswith(raw_nl):
        d += raw_nl
    if declared is None:
        nlkind = gc.detect_kind_bytes(d, enc)
        raw_nl = spec.newline_bytes(nlkind, enc)
        if not d.endswith(raw_nl):
            d = b'x' + raw_nl if enc is None else spec.bomfree('x', enc) + raw_nl
    if declared:
        opts.append(('line_endings', declared))
    if rng.random() < 0.4:
        opts.append(('type', rng.choice(['text', 'binary'])))
    return d, opts, dict(diff_hex=d.hex(), _ast=dict(form='diff', kind=nlkind)), None


def count_lines(body, opts_dict, enc):
    """Number of logical content lines: split on the declared or first-line-detected newline."""
    le = opts_dict.get('line_endings')
    if le:
        nl = spec.newline_bytes(le, enc)
    else:
        nl = spec.newline_bytes(gc.detect_kind_bytes(body, enc), enc)
    n = body.count(nl)
    # occurrences are counted left to right without overlap (bytes.count does exactly that)
    return n + (0 if body.endswith(nl) else 1), nl


def gen_file(rng, extra_unknown=False):
    """Returns dict(sections=[...], crlf=bool): each section dict has id, opts (list of [k, v]), blank (list of hex),
    content (hex or None), plus expect (dict) and nlines."""
    crlf = rng.random() < 0.25
    secs = []
    main_enc = rng.choice(CODECS + ['utf-8'] * 6)
    eff = {0: main_enc}

    def add(sid, opts, content=None, expect=None, enc=None):
        opts = list(opts)
        if content is not None:
            opts.append(('length', str(len(content))))
        rng.shuffle(opts)
        blank = [rng.choice(BLANKS) for _ in range(rng.choice([0, 0, 0, 1, 2]))] if secs else []
        if crlf:
            blank = [b.replace(b'\n', b'\r\n') if rng.random() < 0.5 else b for b in blank]
        expect = dict(expect or {})
        ast = expect.pop('_ast', None)
        secs.append(dict(id=sid, opts=[[k, v] for k, v in opts], blank=[b.hex() for b in blank],
                         content=None if content is None else content.hex(), expect=expect, enc=enc, ast=ast))

    def content_sec(sid, kind, level_eff):
        own = rng.choice([None, None, None] + CODECS)
        if kind == 'diff':
            body, opts, exp, _ = make_content(rng, kind, None, own_diff_enc=own)
            enc_used = own
        else:
            enc_used = own or level_eff
            body, opts, exp, _ = make_content(rng, kind, enc_used)
        if own:
            opts.append(('encoding', own))
        add(sid, opts, body, exp, enc_used)

    mo = [('version', '1.0')]
    if rng.random() < 0.85:
        mo.append(('encoding', main_enc))
    else:
        eff[0] = None
    add('diffx', mo)
    if eff[0] is None:
        # no file-wide encoding: text sections must declare their own (the spec requires an encoding to read text)
        pass
    def text_ok(level_eff):
        return level_eff is not None
    def raw_sec(sid, kind):
        body, opts, exp, _ = make_content(rng, kind, None)
        add(sid, opts, body, exp, None)
    if rng.random() < 0.5:
        if text_ok(eff[0]):
            content_sec('.preamble', 'preamble', eff[0])
        else:
            raw_sec('.preamble', 'rawpreamble')
    if rng.random() < 0.5:
        if text_ok(eff[0]):
            content_sec('.meta', 'meta', eff[0])
        else:
            raw_sec('.meta', 'rawmeta')
    for _ in range(rng.randint(1, 3)):
        ce = rng.choice([None, None] + CODECS)
        add('.change', [('encoding', ce)] if ce else [])
        eff[1] = ce or eff[0]
        if rng.random() < 0.5:
            if text_ok(eff[1]):
                content_sec('..preamble', 'preamble', eff[1])
            else:
                raw_sec('..preamble', 'rawpreamble')
        if rng.random() < 0.5:
            if text_ok(eff[1]):
                content_sec('..meta', 'meta', eff[1])
            else:
                raw_sec('..meta', 'rawmeta')
        for _ in range(rng.randint(1, 3)):
            fe = rng.choice([None, None, None] + CODECS)
            add('..file', [('encoding', fe)] if fe else [])
            eff[2] = fe or eff[1]
            if text_ok(eff[2]):
                content_sec('...meta', 'meta', eff[2])
            elif rng.random() < 0.5:
                raw_sec('...meta', 'rawmeta')
            else:
                own = rng.choice(CODECS)
                body, opts, exp, _ = make_content(rng, 'meta', own)
                add('...meta', opts + [('encoding', own)], body, exp, own)
            if rng.random() < 0.7:
                content_sec('...diff', 'diff', None)
    trailing = [rng.choice(BLANKS).hex() for _ in range(rng.choice([0, 0, 1, 2]))]
    return dict(sections=secs, crlf=crlf, trailing=trailing)


def render(f):
    out = []
    for s in f['sections']:
        for b in s['blank']:
            out.append(bytes.fromhex(b))
        out.append(render_header(s['id'], s['opts'], f['crlf']))
        if s['content'] is not None:
            out.append(bytes.fromhex(s['content']))
    for b in f.get('trailing', []):
        out.append(bytes.fromhex(b))
    return b''.join(out)


def expected(f):
    """The specification's reading: list of (id, level, line, options dict, payload dict), and per section the
    line range [start, start + content lines]."""
    recs = []
    line = 0
    for s in f['sections']:
        od = {}
        for k, v in s['opts']:
            od[k] = conv(v)
        start = line
        line += 1
        n = 0
        if s['content'] is not None:
            body = bytes.fromhex(s['content'])
            sd = {k: v for k, v in s['opts']}
            if s['id'].endswith('diff'):
                enc = sd.get('encoding')
            else:
                enc = s.get('enc')
            n, _ = count_lines(body, sd, enc)
            line += n
        ex = dict(s['expect'])
        if 'diff_hex' in ex:
            ex['diff'] = bytes.fromhex(ex.pop('diff_hex'))
        if 'text_hex' in ex:
            ex['text'] = bytes.fromhex(ex.pop('text_hex'))
        recs.append(dict(section=s['id'], level=LEVEL[s['id']], line=start, options=od, nlines=n, **ex))
    return recs


# ------------------------------------------------------------------ single-defect mutations (the C03 catalogue)
DEFECTS = ['bad-version', 'missing-version', 'missing-length', 'no-final-newline', 'format-not-json', 'invalid-json',
           'unknown-line-endings']


def applicable(f, k, d):
    s = f['sections'][k]
    sid = s['id']
    if d in ('bad-version', 'missing-version'):
        return sid == 'diffx'
    if s['content'] is None:
        return False
    if d in ('missing-length', 'no-final-newline', 'unknown-line-endings'):
        return True
    if d in ('format-not-json', 'invalid-json'):
        return sid.endswith('meta')
    return False


def inject(f, k, d, rng):
    """A copy of f with defect d at section k."""
    g = json.loads(json.dumps(f))
    s = g['sections'][k]
    opts = s['opts']

    def setopt(key, val):
        for o in opts:
            if o[0] == key:
                o[1] = val
                return
        opts.append([key, val])

    def delopt(key):
        s['opts'] = [o for o in opts if o[0] != key]
    if d == 'bad-version':
        setopt('version', rng.choice(['2.0', '1', '1.1', 'x', '10', '0', '1.00']))
    elif d == 'missing-version':
        delopt('version')
    elif d == 'missing-length':
        delopt('length')
    elif d == 'unknown-line-endings':
        setopt('line_endings', rng.choice(['mac', 'DOS', 'Unix', 'crlf', '5', '0', '00', '-0', 'none']))
    elif d == 'format-not-json':
        setopt('format', rng.choice(['yaml', 'JSON', 'xml', '1', '0']))
    elif d == 'no-final-newline':
        body = bytes.fromhex(s['content'])
        sd = {k2: v for k2, v in opts}
        enc = sd.get('encoding') if s['id'].endswith('diff') else s.get('enc')
        _, nl = count_lines(body, sd, enc)
        # drop the final newline and end on an ordinary character
        while body.endswith(nl):
            body = body[:-len(nl)]
        body += spec.bomfree('x', enc) if enc else b'x'
        s['content'] = body.hex()
        setopt('length', str(len(body)))
    elif d == 'invalid-json':
        enc = s.get('enc')
        sd = {k2: v for k2, v in opts}
        nlk = sd.get('line_endings') or 'unix'
        t = rng.choice(['{', '{"a": }', 'nope', '{"a": 1,}', "{'a': 1}", '{"a": 1} x', '[1, 2'])
        body = spec.bomfree(t + ('\n' if nlk == 'unix' else '\r\n'), enc)
        if (rng.random() < 0.4 or enc is None) and (enc is None or enc.lower().replace('_', '-') in ('utf-8', 'utf8', 'ascii', 'us-ascii')):
            # well-formed JSON text whose BYTES are not text in the encoding in force (or, with none in force, in any
            # encoding JSON allows): a Latin-1 letter, a lone continuation byte, an overlong form, a truncated sequence
            raw = rng.choice([b'{"author": "Andr\xe9"}', b'{"a": "\x80"}', b'{"a": "\xc0\xaf"}', b'{"a": "\xe2\x82"}', b'{"\xff": 1}',
                              b'\xff{"a": 1}', b'{"a": 1}\xfe'])
            body = raw + (b'\n' if nlk == 'unix' else b'\r\n')
        s['content'] = body.hex()
        setopt('length', str(len(body)))
    return g


def add_unknown_options(f, rng):
    """A copy of f with 1-3 syntactically valid unknown options inserted at random positions of random headers;
    returns (g, {section index: {key: converted value}})."""
    g = json.loads(json.dumps(f))
    added = {}
    for _ in range(rng.randint(1, 4)):
        k = rng.randrange(len(g['sections']))
        s = g['sections'][k]
        have = {o[0] for o in s['opts']}
        key = rng.choice(UNKNOWN_KEYS)
        if key in have:
            continue
        val = rng.choice(UNKNOWN_LONG_VALS) if rng.random() < 0.02 else rng.choice(UNKNOWN_VALS)
        s['opts'].insert(rng.randint(0, len(s['opts'])), [key, val])
        added.setdefault(k, {})[key] = conv(val)
    return g, added


def misaligned_file(rng):
    """A well-formed file whose UTF-16/32 text contains the newline BYTES at a position that is not a character
    boundary (e.g. U+0A41 U+2000 in UTF-16-LE is 41 0a 00 20): a producer that indents/splits by characters writes this;
    a byte-level search for the newline sees a line break inside a character pair."""
    enc = rng.choice(['utf-16-le', 'utf-16-be', 'utf-32-le'])
    pair = {'utf-16-le': '\u0a41\u2000', 'utf-16-be': '\u2000\u0a20', 'utf-32-le': '\U00000a41\u2000'}[enc]
    if enc == 'utf-32-le':
        pair = '\u0a41\u2000'
    lines = ['first', 'x' + pair + 'y', 'last']
    nl = '\n'
    indent = rng.choice([2, 4])
    declared = rng.choice([None, 'unix'])
    body = b''.join(b' ' * indent + spec.bomfree(l + nl, enc) for l in lines)
    opts = [('indent', str(indent)), ('length', str(len(body)))]
    if declared:
        opts.append(('line_endings', declared))
    secs = [dict(id='diffx', opts=[['version', '1.0'], ['encoding', enc]], blank=[], content=None, expect={}, enc=None),
            dict(id='.preamble', opts=[[k, v] for k, v in opts], blank=[], content=body.hex(),
                 expect=dict(text=nl.join(lines) + nl), enc=enc,
                 ast=dict(form='text', lines=lines, kind='unix', bom=False))]
    return dict(sections=secs, crlf=False, trailing=[])


def to_ast(f):
    """The file in the vocabulary of coq/theories/SpecReader.v (ffile), as wire text, from what the generator recorded
    when it built the file: ids, options as written, blank lines, and per content section its lines / kind / BOM flag."""
    from lib import H, T, L, Lst, Bool
    import streamlib as sl
    secs = []
    for s in f['sections']:
        a = s.get('ast')
        if s['content'] is None:
            c = 'none'
        elif a is None:
            return None
        elif a['form'] == 'text':
            c = L('text', Lst([T(l) for l in a['lines']]), a['kind'], Bool(a['bom']))
        elif a['form'] == 'meta':
            c = L('meta', Lst([T(l) for l in a['lines']]), a['kind'], Bool(a['bom']), sl.json_sx(a['json']))
        elif a['form'] == 'rawtext':
            c = L('rawtext', Lst([H(bytes.fromhex(l)) for l in a['lines']]), a['kind'])
        elif a['form'] == 'rawmeta':
            c = L('rawmeta', Lst([H(bytes.fromhex(l)) for l in a['lines']]), a['kind'], sl.json_sx(a['json']))
        else:
            c = L('diff', H(bytes.fromhex(s['content'])), a['kind'])
        blanks = []
        for b in s['blank']:
            b = bytes.fromhex(b)
            assert b.endswith(b'\n')
            blanks.append(H(b[:-1]))
        secs.append(L(H(s['id'].encode('ascii')), Lst([L(H(k.encode('ascii')), H(v.encode('ascii'))) for k, v in s['opts']]),
                      Lst(blanks), c))
    trailing = [H(bytes.fromhex(b)[:-1]) for b in f.get('trailing', [])]
    return L(Bool(f['crlf']), Lst(secs), Lst(trailing))


def longline_file(rng):
    """A well-formed file whose preamble has a FIRST LINE longer than the usual buffer sizes (8192 bytes) ending in CRLF,
    undeclared line endings, and a later CRLF line that contains a bare LF: detection has to look at the whole first line."""
    n = rng.choice([8189, 8190, 8191, 8192, 8193, 16385, 70000])
    indent = rng.choice([None, 2])
    lines = ['y' * n, ' a\nb', 'last']
    nl = '\r\n'
    body = b''.join(b' ' * (indent or 0) + (l + nl).encode('utf-8') for l in lines)
    opts = [('length', str(len(body)))]
    if indent is not None:
        opts.append(('indent', str(indent)))
    rng.shuffle(opts)
    text = nl.join(lines) + nl
    secs = [dict(id='diffx', opts=[['version', '1.0'], ['encoding', 'utf-8']], blank=[], content=None, expect={}, enc=None, ast=None),
            dict(id='.preamble', opts=[[k, v] for k, v in opts], blank=[], content=body.hex(), expect=dict(text=text),
                 enc='utf-8', ast=None),
            dict(id='.change', opts=[], blank=[], content=None, expect={}, enc=None, ast=None),
            dict(id='..file', opts=[], blank=[], content=None, expect={}, enc=None, ast=None),
            dict(id='...meta', opts=[['length', '3']], blank=[], content=b'{}\n'.hex(), expect=dict(metadata={}), enc='utf-8', ast=None)]
    return dict(sections=secs, crlf=False, trailing=[])
