(* C04 — Encoding inheritance follows nesting: nearest ancestor wins, siblings never leak.
   "The encoding used to encode (writer) or decode (reader) a preamble or metadata section is its own
    encoding option if present, otherwise that of the nearest enclosing file, change or main section that
    declares one; an encoding declared on one change or file never affects a later sibling change or file;
    diff sections never inherit an encoding. Reader and writer agree on this for every nesting history."
   Definitions and proofs: theories/Encodings.v. *)
From Coq Require Import List Arith NArith ZArith Bool Strings.Byte.
From Coq Require Strings.String.
From DX Require Import Bytes Res Codec Text Sections Header Stream Json Reader Writer Encodings.
From DXGen Require GenSections GenText.
Import ListNotations.
Import String.StringSyntax.
Local Open Scope string_scope.
Local Open Scope list_scope.

(* ---- the two stack machines against the specification by tree position (any history length) ---- *)

(* [Some _]: the writer's stack never underflows, and its top is the effective encoding *)
Theorem C04_writer : forall {E} (e0 : option E) (h : history E),
  ordered h -> wtop (wrun e0 h) = Some (spec_effective e0 h).
Proof. intros; apply C04_writer_thm; assumption. Qed.
Print Assumptions C04_writer.

Theorem C04_reader : forall {E} (e0 : option E) (h : history E),
  ordered h -> rtop (rrun e0 h) = Some (spec_effective e0 h).
Proof. intros; apply C04_reader_thm; assumption. Qed.
Print Assumptions C04_reader.

Theorem C04_agree : forall {E} (e0 : option E) (h : history E),
  ordered h -> wtop (wrun e0 h) = rtop (rrun e0 h).
Proof. intros; apply C04_agree_thm; assumption. Qed.
Print Assumptions C04_agree.

(* the whole stacks agree above their bottom entries *)
Theorem C04_agree_stacks : forall {E} (e0 : option E) (h : history E), ordered h ->
  exists p, wrun e0 h = Some (p ++ [e0]) /\ rrun e0 h = Some (p ++ [None], length p - 1) /\
            hd_error p = Some (spec_effective e0 h).
Proof. intros; apply C04_stacks_agree; assumption. Qed.
Print Assumptions C04_agree_stacks.

(* re-declaring any container that is not the current one or its enclosing change changes nothing *)
Theorem C04_no_leak : forall {E} (e0 : option E) (h1 : history E) t h2 e',
  ~ In (length h1) (cur_path (h1 ++ t :: h2)) ->
  spec_effective e0 (h1 ++ set_decl t e' :: h2) = spec_effective e0 (h1 ++ t :: h2).
Proof. intros; apply C04_no_leak_thm; assumption. Qed.
Print Assumptions C04_no_leak.

(* which positions those are *)
Theorem C04_path : forall {E} (h1 : history E) t h2,
  In (length h1) (cur_path (h1 ++ t :: h2)) <-> h2 = [] \/ (is_change t = true /\ forallb is_file h2 = true).
Proof. intros; apply cur_path_char. Qed.
Print Assumptions C04_path.

(* completed siblings: a file that anything follows, a change that a later change follows *)
Theorem C04_no_leak_sibling : forall {E} (e0 : option E) (h1 : history E) t h2 e',
  h2 <> [] -> (is_file t = true \/ existsb is_change h2 = true) ->
  spec_effective e0 (h1 ++ set_decl t e' :: h2) = spec_effective e0 (h1 ++ t :: h2).
Proof. intros; apply Encodings.C04_no_leak_sibling; assumption. Qed.
Print Assumptions C04_no_leak_sibling.

Theorem C04_content : forall {E} (e0 : option E) (h : history E) (own : option E), ordered h ->
  (forall eff, wtop (wrun e0 h) = Some eff ->
     content_encoding own eff = match own with Some v => Some v | None => spec_effective e0 h end) /\
  (forall eff, rtop (rrun e0 h) = Some eff ->
     content_encoding own eff = match own with Some v => Some v | None => spec_effective e0 h end) /\
  diff_encoding own = own.
Proof. intros; apply C04_content_thm; assumption. Qed.
Print Assumptions C04_content.

(* hypotheses satisfiable: 8 transitions, 3 changes, nested declarations *)
Example C04_example :
  ordered ex_history /\ spec_effective (Some 0) ex_history = Some 3 /\
  wrun (Some 0) ex_history = Some [Some 3; Some 3; Some 0; Some 0] /\
  rrun (Some 0) ex_history = Some ([Some 3; Some 3; Some 0; None], 2) /\
  cur_path ex_history = [7; 5] /\
  spec_effective (Some 0) (firstn 5 ex_history) = Some 0.
Proof. repeat split; reflexivity. Qed.

(* Regression: the reader before the fix in /repo ("if level <= prev: encodings.pop()", one entry at most)
   violates C04_reader on  main(0) / change(1) / file / change : it answers 1, the finished sibling's. *)
Example C04_reader_old_refuted :
  exists (e0 : option nat) (h : history nat),
    ordered h /\ rtop (rrun_old e0 h) <> Some (spec_effective e0 h) /\ rtop (rrun e0 h) = Some (spec_effective e0 h).
Proof. exact C04_reader_old_refuted_ex. Qed.

(* ---- bridge: the machines are the code's (Writer.v) ---- *)

(* new_change / new_file: success transforms _stack by the writer machine's step; failure changes nothing *)
Theorem C04_writer_bridge : forall c e s s' r,
  (c = NewChange e \/ c = NewFile e) -> w_stack s <> [] ->
  do_call c s = (s', r) ->
  (r = Ok tt /\
   Some (w_stack s') = stack_step (cur_level s)
                         (match c with NewChange _ => GenText.writer_level_change | _ => GenText.writer_level_file end)
                         (wdecl e) (w_stack s))
  \/ (exists err, r = Err err /\ s' = s).
Proof. exact writer_container_bridge. Qed.
Print Assumptions C04_writer_bridge.

Theorem C04_writer_levels :
  GenText.writer_level_main = 1 /\ GenText.writer_level_change = wlevel (@TChange wv None) /\
  GenText.writer_level_file = wlevel (@TFile wv None).
Proof. exact writer_levels. Qed.

(* write_preamble / write_meta / write_diff never touch _stack *)
Theorem C04_writer_content_keeps_stack : forall c s s' r,
  is_container_call c = false -> do_call c s = (s', r) -> w_stack s' = w_stack s.
Proof. exact content_call_stack. Qed.
Print Assumptions C04_writer_content_keeps_stack.

(* _prepare_content consults the writer only for the top of _stack, and only when the section's own
   encoding is falsy and inheritance is on *)
Theorem C04_writer_prepare : forall s s0 content indent le own inherit top,
  cur_encoding s = Ok top ->
  prepare_content s content indent le own inherit =
  prepare_content s0 content indent le (w_content_encoding own inherit top) false.
Proof. exact prepare_content_encoding. Qed.
Print Assumptions C04_writer_prepare.

Theorem C04_writer_content_encoding : forall own top,
  wdecl (w_content_encoding own true top) = content_encoding (wdecl own) (wdecl top) /\
  w_content_encoding own false top = own.
Proof. exact w_content_encoding_abstract. Qed.

(* what a content call writes depends on _stack only through its length and, unless it is write_diff, its top *)
Theorem C04_writer_content_depends : forall c s1 s2,
  is_container_call c = false ->
  w_out s1 = w_out s2 -> w_prev s1 = w_prev s2 -> length (w_stack s1) = length (w_stack s2) ->
  (is_diff_call c = false -> hd_error (w_stack s1) = hd_error (w_stack s2)) ->
  snd (do_call c s1) = snd (do_call c s2) /\ w_out (fst (do_call c s1)) = w_out (fst (do_call c s2)).
Proof. exact writer_content_depends. Qed.
Print Assumptions C04_writer_content_depends.

(* any program on a fresh writer: _stack is the abstract machine run on the successful container calls *)
Theorem C04_writer_run : forall cs s, w_stack s <> [] ->
  Some (map wdecl (w_stack (snd (run_calls s cs)))) =
  fold_left wstep (ok_history cs (fst (run_calls s cs))) (Some (map wdecl (w_stack s))).
Proof. exact writer_stack_history. Qed.
Print Assumptions C04_writer_run.

(* ... that history is always ordered (section-order validation), so no hypothesis remains *)
Theorem C04_writer_total : forall enc ver s0 cs,
  writer_init enc ver = (s0, Ok tt) ->
  exists top, cur_encoding (snd (run_calls s0 cs)) = Ok top /\
              wdecl top = spec_effective (wdecl enc) (ok_history cs (fst (run_calls s0 cs))).
Proof. exact writer_effective_encoding_total. Qed.
Print Assumptions C04_writer_total.

Example C04_writer_example :
  exists s0, writer_init ex_utf8 (WStr (ascii_text (B "1.0"))) = (s0, Ok tt) /\
    map fst (fst (run_calls s0 ex_calls)) = [Ok tt; Ok tt; Ok tt; Err ELibOrder; Ok tt; Ok tt; Ok tt] /\
    ok_history ex_calls (fst (run_calls s0 ex_calls)) = [TChange (Some ex_latin1); TFile None; TChange None] /\
    cur_encoding (snd (run_calls s0 ex_calls)) = Ok ex_utf8 /\
    cur_encoding (snd (run_calls s0 (firstn 3 ex_calls))) = Ok ex_latin1.
Proof. exact ex_writer_run. Qed.

(* ---- bridge: the machines are the code's (Reader.v) ---- *)

(* one iteration of iter_sections: content sections leave (encodings, prev_container_level) alone, the
   main header pushes, .change / ..file do the reader machine's step with the level their id determines *)
Theorem C04_reader_bridge : forall orc chunk st valid encs prev r st' valid' encs' prev',
  iter_step orc chunk st valid encs prev = SYield r st' valid' encs' prev' ->
  in_ids (r_id r) valid = true /\
  ( (is_content (r_id r) = true /\ encs' = encs /\ prev' = prev)
    \/ (r_id r = GenSections.sec_main /\ r_level r = 0 /\
        Some encs' = stack_push (rdecl (r_opts r)) encs /\ prev' = 0)
    \/ (r_id r = GenSections.sec_change /\ r_level r = 1 /\
        Some encs' = stack_step prev 1 (rdecl (r_opts r)) encs /\ prev' = 1)
    \/ (r_id r = GenSections.sec_file /\ r_level r = 2 /\
        Some encs' = stack_step prev 2 (rdecl (r_opts r)) encs /\ prev' = 2) ).
Proof. exact reader_step_bridge. Qed.
Print Assumptions C04_reader_bridge.

(* the encoding handed to _read_content *)
Theorem C04_reader_preamble : forall orc chunk st valid encs prev level name id opts line st1 inh len,
  read_header chunk valid st = HdrOk level name id opts line st1 ->
  is_content id = true -> is_preamble id = true ->
  top encs = Some inh -> opt_get "length" opts = Some (VInt len) -> (len <? 0)%Z = false ->
  iter_step orc chunk st valid encs prev =
  match read_content st1 len (content_encoding (opt_get "encoding" opts) inh)
                     (opt_get "indent" opts) (opt_get "line_endings" opts) false with
  | COk p st2 => yield level line opts id name st2 p encs prev
  | CParse l => SParse l None
  | CExc e => SExc e
  end.
Proof. exact reader_preamble_encoding. Qed.
Print Assumptions C04_reader_preamble.

Theorem C04_reader_meta : forall orc chunk st valid encs prev level name id opts line st1 inh len,
  read_header chunk valid st = HdrOk level name id opts line st1 ->
  is_content id = true -> is_preamble id = false -> is_meta id = true ->
  top encs = Some inh -> opt_get "length" opts = Some (VInt len) -> (len <? 0)%Z = false ->
  (match opt_get "format" opts with None => true | Some (VStr s) => beq s (B "json") | Some (VInt _) => false end) = true ->
  iter_step orc chunk st valid encs prev =
  match read_content st1 len (content_encoding (opt_get "encoding" opts) inh)
                     None (opt_get "line_endings" opts) false with
  | COk p st2 =>
      let key := match p with PText t => oracle_key_text t | PBytes b => oracle_key_bytes b | _ => [] end in
      match assoc_get beq key orc with
      | None => SExc EOracleMiss
      | Some (LoadsOk j) => yield level line opts id name st2 (PMeta j) encs prev
      | Some LoadsValueError => SParse line None
      | Some LoadsRecursion => SParse line None
      end
  | CParse l => SParse l None
  | CExc e => SExc e
  end.
Proof. exact reader_meta_encoding. Qed.
Print Assumptions C04_reader_meta.

Theorem C04_reader_diff : forall orc chunk st valid encs prev level name opts line st1 inh len,
  read_header chunk valid st = HdrOk level name GenSections.sec_file_diff opts line st1 ->
  top encs = Some inh -> opt_get "length" opts = Some (VInt len) -> (len <? 0)%Z = false ->
  iter_step orc chunk st valid encs prev =
  match read_content st1 len (diff_encoding (opt_get "encoding" opts))
                     None (opt_get "line_endings" opts) true with
  | COk p st2 => yield level line opts GenSections.sec_file_diff name st2 p encs prev
  | CParse l => SParse l None
  | CExc e => SExc e
  end.
Proof. exact reader_diff_encoding. Qed.
Print Assumptions C04_reader_diff.

(* semantically: a content iteration depends on the stack through its top only; a diff not at all *)
Theorem C04_reader_content_depends : forall orc chunk st valid encs1 encs2 prev level name id opts line st1,
  read_header chunk valid st = HdrOk level name id opts line st1 ->
  is_content id = true ->
  (if beq id GenSections.sec_file_diff then encs1 <> [] /\ encs2 <> [] else top encs1 = top encs2 /\ encs1 <> []) ->
  forget_encs (iter_step orc chunk st valid encs1 prev) = forget_encs (iter_step orc chunk st valid encs2 prev).
Proof. exact reader_content_depends. Qed.
Print Assumptions C04_reader_content_depends.

(* iter_loop (= iter_sections) is the iteration [rsteps] ... *)
Theorem C04_reader_loop : forall fuel orc chunk st v e p acc out t,
  iter_loop fuel orc chunk st v e p acc = (out, t) ->
  exists rs st' v' e' p',
    out = rev acc ++ rs /\ rsteps orc chunk st v e p rs st' v' e' p' /\
    (t = TFuel \/ forall r a b c d, iter_step orc chunk st' v' e' p' <> SYield r a b c d).
Proof. exact iter_loop_rsteps. Qed.
Print Assumptions C04_reader_loop.

(* ... along which the loop variables are the abstract reader machine on the container records so far *)
Theorem C04_reader_run : forall orc chunk st0 r0 rs st' v' e' p',
  rsteps orc chunk st0 [GenSections.sec_main] [None] 0 (r0 :: rs) st' v' e' p' ->
  r_id r0 = GenSections.sec_main /\
  Some (e', p') = rrun (opt_get "encoding" (r_opts r0)) (rec_history rs).
Proof. exact reader_stack_history. Qed.
Print Assumptions C04_reader_run.

(* ... and the history is always ordered (the section-order table), so no hypothesis remains *)
Theorem C04_reader_total : forall orc chunk st0 r0 rs st' v' e' p',
  rsteps orc chunk st0 [GenSections.sec_main] [None] 0 (r0 :: rs) st' v' e' p' ->
  top e' = Some (spec_effective (opt_get "encoding" (r_opts r0)) (rec_history rs)).
Proof. exact reader_effective_encoding_total. Qed.
Print Assumptions C04_reader_total.

Example C04_reader_example :
  exists r0 rs st' v' e' p',
    rsteps ex_oracle default_chunk {| st_stream := {| s_data := ex_stream; s_pos := 0 |}; st_linenum := 0%Z; st_fnl := None |}
           [GenSections.sec_main] [None] 0 (r0 :: rs) st' v' e' p' /\
    List.length rs = 6 /\
    e' = [Some (VStr (B "utf-8")); Some (VStr (B "utf-8")); None] /\ p' = 1.
Proof. exact ex_reader_rsteps. Qed.
